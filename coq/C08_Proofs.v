(* C08 — lemmas. *)
From Coq Require Import List ZArith NArith Bool Lia.
From Dae Require Import C08_Spec C08_Model.
From Dae.gen Require Import C08_Consts.
Import ListNotations.
Open Scope Z_scope.

(* ------------------------------------------------------------------ byte strings, association lists *)
Lemma bytes_eqb_refl : forall a, bytes_eqb a a = true.
Proof. induction a; cbn; [reflexivity|]. rewrite N.eqb_refl, IHa. reflexivity. Qed.

Lemma bytes_eqb_eq : forall a b, bytes_eqb a b = true -> a = b.
Proof.
  induction a; destruct b; cbn; intros H; try discriminate; [reflexivity|].
  apply andb_true_iff in H. destruct H as [H1 H2]. apply N.eqb_eq in H1. subst. f_equal. auto.
Qed.

Lemma mfind_In : forall k st e, mfind k st = Some e -> exists k', In (k', e) st /\ bytes_eqb k' k = true.
Proof.
  unfold mfind. intros k st e H.
  destruct (find (fun p => bytes_eqb (fst p) k) st) eqn:F; [|discriminate].
  inversion H; subst. apply find_some in F. destruct F as [Hin Heq]. destruct p as [k' e']. exists k'. cbn in *. auto.
Qed.

Lemma mfind_mput_eq : forall k e st, mfind k (mput k e st) = Some e.
Proof. intros. unfold mfind, mput. cbn. rewrite bytes_eqb_refl. reflexivity. Qed.

Lemma Forall_mremove : forall (P : bytes * entry -> Prop) k st, Forall P st -> Forall P (mremove k st).
Proof.
  intros P k st H. unfold mremove. apply Forall_forall. intros x Hx. apply filter_In in Hx.
  destruct Hx as [Hx _]. rewrite Forall_forall in H. auto.
Qed.

Lemma Forall_filter : forall (P : bytes * entry -> Prop) f st, Forall P st -> Forall P (filter f st).
Proof.
  intros P f st H. apply Forall_forall. intros x Hx. apply filter_In in Hx.
  destruct Hx as [Hx _]. rewrite Forall_forall in H. auto.
Qed.

Lemma Forall_mput : forall (P : bytes * entry -> Prop) k e st, P (k, e) -> Forall P st -> Forall P (mput k e st).
Proof. intros. unfold mput. constructor; [assumption|]. apply Forall_mremove. assumption. Qed.

Lemma Forall_fold_mremove : forall (P : bytes * entry -> Prop) (vs : list cent) st,
    Forall P st -> Forall P (fold_left (fun acc v => mremove (fst v) acc) vs st).
Proof. induction vs; cbn; intros; [assumption|]. apply IHvs. apply Forall_mremove. assumption. Qed.

Lemma Forall_evict_lru : forall (P : bytes * entry -> Prop) m st order, Forall P st -> Forall P (evict_lru m st order).
Proof.
  intros. unfold evict_lru. destruct (Z.of_nat (length st) <=? m); [assumption|].
  apply Forall_fold_mremove. assumption.
Qed.

Lemma Forall_janitor : forall (P : bytes * entry -> Prop) s now order,
    Forall P (m_store s) -> Forall P (m_store (m_janitor s now order)).
Proof.
  intros. unfold m_janitor. cbn [m_store].
  assert (H1 : Forall P (evict_expired (m_cfg s) (m_store s) now)).
  { unfold evict_expired. destruct (_ || _); [apply Forall_filter|]; assumption. }
  destruct (c_max (m_cfg s) >? 0); [apply Forall_evict_lru|]; assumption.
Qed.

Lemma mfind_Forall : forall (P : bytes * entry -> Prop) k st e,
    Forall P st -> mfind k st = Some e -> exists k', P (k', e) /\ bytes_eqb k' k = true.
Proof.
  intros P k st e HF H. apply mfind_In in H. destruct H as [k' [Hin Heq]].
  exists k'. split; [|assumption]. rewrite Forall_forall in HF. apply HF. assumption.
Qed.

(* ------------------------------------------------------------------ what a lookup does to the store *)
(* e' is e with only the per-lookup bookkeeping changed *)
Definition touched (e e' : entry) : Prop :=
  e_ans e' = e_ans e /\ e_deadline e' = e_deadline e /\ e_odeadline e' = e_odeadline e /\ e_dnano e' = e_dnano e
  /\ (e_refreshing e = true -> e_refreshing e' = true).

Lemma touched_refl : forall e, touched e e.
Proof. intros. unfold touched. auto. Qed.

Lemma get_packed_touched : forall e now, touched e (fst (get_packed_approx e now)).
Proof.
  intros. unfold get_packed_approx.
  destruct (e_dnano e <=? now); [apply touched_refl|].
  match goal with |- context [if ?c then (e, Some ?x) else _] => destruct c end; [apply touched_refl|].
  destruct (_ >? sec); [|apply touched_refl]. unfold touched, with_packed. cbn. auto.
Qed.

Lemma touched_trans : forall a b c, touched a b -> touched b c -> touched a c.
Proof. unfold touched. intros a b c (A1 & A2 & A3 & A4 & A5) (B1 & B2 & B3 & B4 & B5). repeat split; try congruence. auto. Qed.

Lemma with_last_touched : forall e t, touched e (with_last e t).
Proof. intros. unfold touched, with_last. cbn. auto. Qed.
Lemma with_refreshing_true_touched : forall e, touched e (with_refreshing e true).
Proof. intros. unfold touched, with_refreshing. cbn. auto. Qed.

Inductive lookup_shape (s : mstate) (key : bytes) (s' : mstate) : Prop :=
| LsSame : s' = s -> mfind key (m_store s) = None -> lookup_shape s key s'
| LsEvict : m_cfg s' = m_cfg s -> m_store s' = mremove key (m_store s) -> lookup_shape s key s'
| LsUpd : forall e e', mfind key (m_store s) = Some e -> touched e e' ->
                       m_cfg s' = m_cfg s -> m_store s' = mput key e' (m_store s) -> lookup_shape s key s'.

Lemma m_lookup_shape : forall s now key, lookup_shape s key (fst (m_lookup s now key)).
Proof.
  intros. unfold m_lookup. destruct (mfind key (m_store s)) as [e0|] eqn:F.
  2:{ apply LsSame; [reflexivity | exact F]. }
  cbv zeta.
  destruct (now <? e_deadline (with_last e0 now)).
  - pose proof (get_packed_touched (with_last e0 now) now) as T.
    destruct (get_packed_approx (with_last e0 now) now) as [e' [t|]]; cbn in T; cbn [fst];
      (eapply LsUpd; [exact F | eapply touched_trans; [apply with_last_touched | exact T] | reflexivity | reflexivity]).
  - destruct (c_opt (m_cfg s)).
    + destruct (get_stale (with_last e0 now) now (c_window (m_cfg s))).
      * destruct (e_refreshing (with_last e0 now)); cbn [fst].
        -- eapply LsUpd; [exact F | apply with_last_touched | reflexivity | reflexivity].
        -- eapply LsUpd; [exact F | eapply touched_trans; [apply with_last_touched | apply with_refreshing_true_touched] | reflexivity | reflexivity].
      * cbn [fst]. apply LsEvict; reflexivity.
    + cbn [fst]. apply LsEvict; reflexivity.
Qed.

(* a store invariant given entry-wise is preserved by a lookup when it is stable under `touched` *)
Lemma Forall_lookup : forall (P : bytes * entry -> Prop) s now key,
    (forall k e e', P (k, e) -> touched e e' -> P (k, e')) ->
    Forall P (m_store s) -> Forall P (m_store (fst (m_lookup s now key))).
Proof.
  intros P s now key Hst HF. destruct (m_lookup_shape s now key) as [E _ | _ E | e e' F T _ E].
  - rewrite E. assumption.
  - rewrite E. apply Forall_mremove. assumption.
  - rewrite E. apply Forall_mput; [|assumption].
    destruct (mfind_Forall P key _ e HF F) as [k' [Pk Hk]]. apply bytes_eqb_eq in Hk. subst k'. eapply Hst; eauto.
Qed.

Lemma Forall_refresh_done : forall (P : bytes * entry -> Prop) s now key,
    (forall k e, P (k, e) -> P (k, with_refreshing e false)) ->
    Forall P (m_store s) -> Forall P (m_store (m_refresh_done s now key)).
Proof.
  intros P s now key Hst HF. unfold m_refresh_done. destruct (mfind key (m_store s)) as [e|] eqn:F; [|assumption].
  destruct (e_refreshing e); cbn [m_store]; [|assumption].
  apply Forall_mput; [|assumption].
  destruct (mfind_Forall P key _ e HF F) as [k' [Pk Hk]]. apply bytes_eqb_eq in Hk. subst k'. auto.
Qed.

Lemma refresh_done_cfg : forall s now key, m_cfg (m_refresh_done s now key) = m_cfg s.
Proof. intros. unfold m_refresh_done. destruct (mfind _ _); [|reflexivity]. destruct (e_refreshing e); reflexivity. Qed.

(* ------------------------------------------------------------------ A. the two deadline representations *)
(* every entry of a reachable store: deadlineNano equals Deadline *)
Definition dn_ok (p : bytes * entry) : Prop := e_dnano (snd p) = e_deadline (snd p).

(* configuration values in their documented domain: the stale window is not negative *)
Definition cfg_wf (c : cfg) : Prop := 0 <= c_window c.

Lemma normalize_fixed : forall c, c_fixed (normalize c) = c_fixed c.
Proof. intros. unfold normalize. destruct (_ && _); reflexivity. Qed.
Lemma effective_fixed : forall c, c_fixed (effective c) = c_fixed c.
Proof. intros. unfold effective. destruct (_ && _); reflexivity. Qed.

Lemma normalize_wf : forall c, cfg_wf c -> cfg_wf (normalize c).
Proof.
  intros c H. unfold cfg_wf, normalize in *. destruct (_ && _); cbn; [unfold default_optimistic_ttl; lia | assumption].
Qed.

Definition op_wf (t : timed) : Prop :=
  match snd t with Reload c | Reuse c => cfg_wf c | _ => True end.
Definition history_wf (c : cfg) (h : list timed) : Prop := cfg_wf c /\ Forall op_wf h.

Definition st_ok (s : mstate) : Prop := Forall dn_ok (m_store s) /\ cfg_wf (m_cfg s).

Lemma dn_ok_touched : forall k e e', dn_ok (k, e) -> touched e e' -> dn_ok (k, e').
Proof. unfold dn_ok, touched. cbn. intros k e e' H (A1 & A2 & A3 & A4 & A5). rewrite A2, A4. auto. Qed.

Lemma st_ok_step : forall u s t, st_ok s -> op_wf t -> st_ok (fst (m_step u s (fst t) (snd t))).
Proof.
  intros u s [now o] [HF HC] Hop. unfold op_wf in Hop. cbn [fst snd] in *. destruct o; cbn [m_step fst].
  - unfold m_insert. destruct (resp_ok && negb is_ip); [|split; assumption].
    split; cbn [m_store m_cfg]; [|assumption].
    apply Forall_mput; [|assumption]. unfold dn_ok. reflexivity.
  - split.
    + apply Forall_lookup; [apply dn_ok_touched | assumption].
    + destruct (m_lookup_shape s now (key_of name qt sc)) as [E _ | E _ | e e' _ _ E _]; rewrite E; assumption.
  - split; [apply Forall_janitor; assumption | exact HC].
  - split; cbn [m_store m_cfg]; [|apply normalize_wf; exact Hop].
    apply Forall_forall. intros [k e] Hin. apply in_map_iff in Hin. destruct Hin as [[k0 e0] [Heq Hin]].
    inversion Heq; subst. rewrite Forall_forall in HF. specialize (HF _ Hin). unfold dn_ok in *. cbn in *.
    destruct (e_dnano e0 =? 0); [reflexivity | assumption].
  - split; cbn [m_store m_cfg]; [assumption | apply normalize_wf; exact Hop].
  - split; [apply Forall_refresh_done; [|assumption]; intros k e H; exact H | rewrite refresh_done_cfg; assumption].
  - split; assumption.
Qed.

Lemma run_from_cons_fst : forall u s now o rest,
    fst (m_run_from u s ((now, o) :: rest)) = fst (m_run_from u (fst (m_step u s now o)) rest).
Proof.
  intros. cbn [m_run_from]. destruct (m_step u s now o) as [s1 ob]. cbn [fst].
  destruct (m_run_from u s1 rest) as [s2 obs]. reflexivity.
Qed.

Lemma st_ok_run_from : forall u h s, st_ok s -> Forall op_wf h -> st_ok (fst (m_run_from u s h)).
Proof.
  induction h as [|[now o] rest IH]; intros s Hs Hh; [assumption|].
  inversion Hh; subst. rewrite run_from_cons_fst. apply IH; [|assumption].
  exact (st_ok_step u s (now, o) Hs H1).
Qed.

Lemma st_ok_run : forall c h, history_wf c h -> st_ok (fst (m_run c h)).
Proof.
  intros c h [Hc Hh]. unfold m_run. apply st_ok_run_from; [|assumption].
  split; cbn; [constructor | apply normalize_wf; assumption].
Qed.

(* a served lookup names an entry of the store, with that entry's answer, and the entry is servable now *)
Lemma lookup_served_live : forall s now key ans ttl r,
    st_ok s ->
    snd (m_lookup s now key) = ObLook true ans ttl r ->
    exists e, mfind key (m_store s) = Some e /\ ans = e_ans e /\ servable (m_cfg s) (e_deadline e) now <> None.
Proof.
  intros s now key ans ttl r [HF HW] H. unfold cfg_wf in HW. unfold m_lookup in H.
  destruct (mfind key (m_store s)) as [e0|] eqn:F; [|cbn in H; discriminate].
  exists e0. split; [reflexivity|].
  destruct (mfind_Forall dn_ok key _ e0 HF F) as [k' [HD _]]. unfold dn_ok in HD. cbn [snd] in HD.
  cbv zeta in H. unfold servable.
  change (e_deadline (with_last e0 now)) with (e_deadline e0) in H.
  destruct (now <? e_deadline e0) eqn:Efresh.
  - destruct (get_packed_approx (with_last e0 now) now) as [e' [t|]]; cbn in H; inversion H; subst; split; [reflexivity|discriminate|reflexivity|discriminate].
  - destruct (c_opt (m_cfg s)) eqn:Eopt; [|cbn in H; discriminate].
    unfold get_stale in H. change (e_dnano (with_last e0 now)) with (e_dnano e0) in H.
    destruct (e_dnano e0 >? now) eqn:E1; [cbn in H; discriminate|].
    destruct ((c_window (m_cfg s) >? 0) && (now >? e_dnano e0 + c_window (m_cfg s) * sec)) eqn:E2; [cbn in H; discriminate|].
    assert (Hans : ans = e_ans e0).
    { change (e_refreshing (with_last e0 now)) with (e_refreshing e0) in H.
      destruct (e_refreshing e0); cbn in H; inversion H; reflexivity. }
    split; [exact Hans|].
    unfold in_window. rewrite Eopt. cbn [andb].
    destruct (c_window (m_cfg s) =? 0) eqn:Ew; [cbn; discriminate|]. cbn [orb].
    assert (now <= e_deadline e0 + c_window (m_cfg s) * sec); [|destruct (now <=? _) eqn:E3; [discriminate|lia]].
    apply andb_false_iff in E2. rewrite HD in E2. destruct E2 as [E2|E2]; lia.
Qed.

Lemma never_after_window_proof : forall c h now key ans ttl r,
    history_wf c h ->
    let s := fst (m_run c h) in
    snd (m_lookup s now key) = ObLook true ans ttl r ->
    exists e, mfind key (m_store s) = Some e /\ ans = e_ans e /\ servable (m_cfg s) (e_deadline e) now <> None.
Proof. intros. apply (lookup_served_live s now key ans ttl r); try assumption. apply st_ok_run. assumption. Qed.

(* ------------------------------------------------------------------ D. stale window *)
Lemma stale_within_window_partial_proof : forall s now key e,
    mfind key (m_store s) = Some e ->
    e_dnano e = e_deadline e ->
    servable (m_cfg s) (e_deadline e) now = Some Stale ->
    exists ttl r, snd (m_lookup s now key) = ObLook true (e_ans e) ttl r.
Proof.
  intros s now key e F HD HS. unfold servable in HS.
  destruct (now <? e_deadline e) eqn:Ef; [discriminate|].
  destruct (in_window (m_cfg s) (e_deadline e) now) eqn:Ew; [|discriminate].
  unfold in_window in Ew. apply andb_true_iff in Ew. destruct Ew as [Eo Ew].
  unfold m_lookup. rewrite F. cbv zeta. change (e_deadline (with_last e now)) with (e_deadline e). rewrite Ef, Eo.
  unfold get_stale. change (e_dnano (with_last e now)) with (e_dnano e). rewrite HD.
  assert (E1 : (e_deadline e >? now) = false) by lia. rewrite E1.
  assert (E2 : ((c_window (m_cfg s) >? 0) && (now >? e_deadline e + c_window (m_cfg s) * sec)) = false).
  { apply orb_true_iff in Ew. destruct Ew as [Ew|Ew]; [assert ((c_window (m_cfg s) >? 0) = false) as -> by lia; reflexivity|].
    apply andb_false_iff. right. lia. }
  rewrite E2. change (e_refreshing (with_last e now)) with (e_refreshing e).
  destruct (e_refreshing e); cbn; eauto.
Qed.

Lemma stale_within_window_proof : forall c h now key e,
    history_wf c h ->
    mfind key (m_store (fst (m_run c h))) = Some e ->
    servable (m_cfg (fst (m_run c h))) (e_deadline e) now = Some Stale ->
    exists ttl r, snd (m_lookup (fst (m_run c h)) now key) = ObLook true (e_ans e) ttl r.
Proof.
  intros c h now key e Hwf F S. destruct (st_ok_run c h Hwf) as [HF _].
  destruct (mfind_Forall dn_ok key _ e HF F) as [k' [HD _]].
  apply stale_within_window_partial_proof; assumption.
Qed.

(* ------------------------------------------------------------------ TTL of the in-place fill *)
Lemma fill_ttl_truthful_proof : forall d now, now < d -> ttl_ok d now (ttl_from_deadline d now) = true.
Proof.
  intros d now H. unfold ttl_ok, ttl_bound, ttl_from_deadline, slack.
  destruct (d <=? now) eqn:E; [lia|].
  destruct ((d - now) / sec <? 1) eqn:E2; lia.
Qed.

(* ------------------------------------------------------------------ F. fixed_domain_ttl *)
Lemma find_map_lower : forall (l : list (bytes * Z)) h,
    match find (fun p => bytes_eqb (fst p) h) (map (fun p => (lower (fst p), snd p)) l) with Some p => Some (snd p) | None => None end
    = match find (fun p => bytes_eqb (lower (fst p)) h) l with Some p => Some (snd p) | None => None end.
Proof.
  induction l as [|[k v] rest IH]; intros h; [reflexivity|]. cbn [map find fst snd].
  destruct (bytes_eqb (lower k) h); [reflexivity | apply IH].
Qed.

Lemma fixed_model_ci : forall fixed host, fixed_ttl_model fixed host = fixed_ttl_ci fixed host.
Proof.
  intros. unfold fixed_ttl_model, fixed_ttl_ci, parse_fixed. rewrite <- map_rev. apply find_map_lower.
Qed.

Lemma fixed_ttl_proof : forall fixed host ttl now, m_deadline fixed host ttl now = spec_deadline fixed host ttl now.
Proof.
  intros. unfold m_deadline, spec_deadline. rewrite fixed_model_ci.
  destruct (fixed_ttl_ci fixed (strip_dot host)); reflexivity.
Qed.

(* ------------------------------------------------------------------ B. scope: an entry holds what was last inserted under its own key *)
Definition li_ok (key : bytes) (acc : option (Z * Z)) (p : bytes * entry) : Prop :=
  bytes_eqb (fst p) key = true -> acc = Some (e_ans (snd p), e_deadline (snd p)).

Lemma li_ok_touched : forall key acc k e e', li_ok key acc (k, e) -> touched e e' -> li_ok key acc (k, e').
Proof. unfold li_ok, touched. cbn. intros key acc k e e' H (A1 & A2 & _) Hk. rewrite A1, A2. auto. Qed.

Lemma Forall_mremove_same : forall key acc st, Forall (li_ok key acc) (mremove key st).
Proof.
  intros. unfold mremove. apply Forall_forall. intros [k e] Hin. apply filter_In in Hin. destruct Hin as [_ Hk].
  unfold li_ok. cbn in *. intros Hk2. rewrite Hk2 in Hk. discriminate.
Qed.

Definition step_cfg (c : cfg) (o : op) : cfg := match o with Reload c' | Reuse c' => c' | _ => c end.
Definition step_acc (c : cfg) (o : op) (now : Z) (key : bytes) (acc : option (Z * Z)) : option (Z * Z) :=
  match o with
  | Insert name qt sc rname is_ip resp_ok nans ans ttl =>
      if resp_ok && negb is_ip && bytes_eqb (key_of name qt sc) key
      then Some (ans, spec_deadline (c_fixed (effective c)) rname (eff_ttl nans ttl) now) else acc
  | _ => acc
  end.

Lemma last_insert_cons : forall c now o rest key acc,
    last_insert c ((now, o) :: rest) key acc = last_insert (step_cfg c o) rest key (step_acc c o now key acc).
Proof. intros. destruct o; cbn [last_insert step_cfg step_acc]; try reflexivity. destruct (_ && _); reflexivity. Qed.

Lemma cfg_after_cons : forall c now o rest, cfg_after c ((now, o) :: rest) = cfg_after (step_cfg c o) rest.
Proof. intros. destruct o; reflexivity. Qed.

Lemma li_step : forall key u s now o c acc,
    m_cfg s = normalize c -> Forall (li_ok key acc) (m_store s) ->
    Forall (li_ok key (step_acc c o now key acc)) (m_store (fst (m_step u s now o)))
    /\ m_cfg (fst (m_step u s now o)) = normalize (step_cfg c o).
Proof.
  intros key u s now o c acc Hc HF. destruct o; cbn [m_step fst step_cfg step_acc].
  - (* insert *)
    unfold m_insert. destruct (resp_ok && negb is_ip) eqn:Ec; cbn [andb]; [|split; assumption].
    cbn [m_store m_cfg]. split; [|assumption].
    destruct (bytes_eqb (key_of name qt sc) key) eqn:Ek.
    + apply bytes_eqb_eq in Ek. rewrite Ek.
      unfold mput. constructor; [|apply Forall_mremove_same].
      unfold li_ok. cbn. intros _. rewrite Hc, fixed_ttl_proof, normalize_fixed, effective_fixed. reflexivity.
    + apply Forall_mput; [|assumption]. unfold li_ok. cbn [fst]. intros Hk. rewrite Hk in Ek. discriminate.
  - (* lookup *)
    split.
    + apply Forall_lookup; [apply li_ok_touched | assumption].
    + destruct (m_lookup_shape s now (key_of name qt sc)) as [E _ | E _ | e e' _ _ E _]; rewrite E; assumption.
  - (* janitor *)
    split; [apply Forall_janitor; exact HF | exact Hc].
  - (* reload *)
    split; [|reflexivity]. cbn [m_store].
    apply Forall_forall. intros [k e] Hin. apply in_map_iff in Hin. destruct Hin as [[k0 e0] [Heq Hin]].
    inversion Heq; subst. rewrite Forall_forall in HF. specialize (HF _ Hin). unfold li_ok in *. cbn in *. exact HF.
  - (* reuse *)
    split; [exact HF | reflexivity].
  - (* refresh done *)
    split.
    + apply Forall_refresh_done; [|exact HF]. intros k e H. exact H.
    + rewrite refresh_done_cfg. assumption.
  - (* probe *)
    split; assumption.
Qed.

Lemma last_insert_run : forall key u h c s acc,
    m_cfg s = normalize c -> Forall (li_ok key acc) (m_store s) ->
    Forall (li_ok key (last_insert c h key acc)) (m_store (fst (m_run_from u s h)))
    /\ m_cfg (fst (m_run_from u s h)) = normalize (cfg_after c h).
Proof.
  intros key u. induction h as [|[now o] rest IH]; intros c s acc Hc HF; [cbn; split; assumption|].
  rewrite last_insert_cons, cfg_after_cons, run_from_cons_fst.
  destruct (li_step key u s now o c acc Hc HF) as [H1 H2]. apply IH; assumption.
Qed.

Lemma served_only_live_proof : forall c h now key ans ttl r,
    history_wf c h ->
    snd (m_lookup (fst (m_run c h)) now key) = ObLook true ans ttl r ->
    exists d, last_insert c h key None = Some (ans, d)
              /\ servable (normalize (cfg_after c h)) d now <> None.
Proof.
  intros c h now key ans ttl r Hwf H.
  destruct (never_after_window_proof c h now key ans ttl r Hwf H) as [e [F [Ha Hs]]].
  unfold m_run in *.
  destruct (last_insert_run key (universe h) h c (m_init c) None eq_refl (Forall_nil _)) as [HL HC].
  destruct (mfind_Forall _ key _ e HL F) as [k' [Hli Hk]]. unfold li_ok in Hli. cbn [fst snd] in Hli.
  exists (e_deadline e). split; [rewrite (Hli Hk), Ha; reflexivity|]. rewrite <- HC. exact Hs.
Qed.

(* ------------------------------------------------------------------ E. one refresh per cycle *)
Lemma refresh_needs_clear_flag : forall s now key ans ttl,
    snd (m_lookup s now key) = ObLook true ans ttl true ->
    exists e, mfind key (m_store s) = Some e /\ e_refreshing e = false
              /\ exists e', mfind key (m_store (fst (m_lookup s now key))) = Some e' /\ e_refreshing e' = true.
Proof.
  intros s now key ans ttl H. unfold m_lookup in *.
  destruct (mfind key (m_store s)) as [e0|] eqn:F; [|cbn in H; discriminate].
  exists e0. cbv zeta in *.
  destruct (now <? e_deadline (with_last e0 now)).
  - destruct (get_packed_approx (with_last e0 now) now) as [e' [t|]]; cbn in H; discriminate.
  - destruct (c_opt (m_cfg s)); [|cbn in H; discriminate].
    destruct (get_stale (with_last e0 now) now (c_window (m_cfg s))); [|cbn in H; discriminate].
    change (e_refreshing (with_last e0 now)) with (e_refreshing e0) in *.
    destruct (e_refreshing e0) eqn:R; [cbn in H; discriminate|].
    split; [reflexivity|]. split; [reflexivity|]. cbn [fst m_store]. eexists. rewrite mfind_mput_eq. split; reflexivity.
Qed.

Lemma no_second_refresh : forall s now key e,
    mfind key (m_store s) = Some e -> e_refreshing e = true ->
    forall ans ttl, snd (m_lookup s now key) <> ObLook true ans ttl true.
Proof.
  intros s now key e F R ans ttl H. destruct (refresh_needs_clear_flag s now key ans ttl H) as [e0 [F0 [R0 _]]].
  rewrite F in F0. inversion F0; subst. rewrite R in R0. discriminate.
Qed.

Lemma single_refresh_pair_proof : forall s now1 now2 key ans1 ttl1 ans2 ttl2,
    snd (m_lookup s now1 key) = ObLook true ans1 ttl1 true ->
    snd (m_lookup (fst (m_lookup s now1 key)) now2 key) <> ObLook true ans2 ttl2 true.
Proof.
  intros s now1 now2 key ans1 ttl1 ans2 ttl2 H.
  destruct (refresh_needs_clear_flag s now1 key ans1 ttl1 H) as [e [_ [_ [e' [F' R']]]]].
  eapply no_second_refresh; eassumption.
Qed.

(* the flag stays set, for the key's entry, across every operation that is not a new answer for the key,
   the end of a refresh of the key, or a reload *)
Definition resets (key : bytes) (o : op) : bool :=
  match o with
  | Insert name qt sc _ _ _ _ _ _ | RefreshDone name qt sc => bytes_eqb (key_of name qt sc) key
  | Reload _ => true
  | _ => false
  end.

Definition flag_set (key : bytes) (p : bytes * entry) : Prop := bytes_eqb (fst p) key = true -> e_refreshing (snd p) = true.

Lemma flag_set_touched : forall key k e e', flag_set key (k, e) -> touched e e' -> flag_set key (k, e').
Proof. unfold flag_set, touched. cbn. intros key k e e' H (_ & _ & _ & _ & A5) Hk. auto. Qed.

Lemma mfind_mremove_other : forall k k' st, bytes_eqb k' k = false -> mfind k (mremove k' st) = mfind k st.
Proof.
  intros k k' st Hne. unfold mfind, mremove. induction st as [|[k0 e0] rest IH]; [reflexivity|]. cbn [filter fst].
  destruct (bytes_eqb k0 k') eqn:E0; cbn [negb].
  - apply bytes_eqb_eq in E0. subst k0. cbn [find fst]. rewrite Hne. exact IH.
  - cbn [find fst]. destruct (bytes_eqb k0 k); [reflexivity | exact IH].
Qed.

Lemma flag_step : forall key u s now o,
    resets key o = false -> Forall (flag_set key) (m_store s) -> Forall (flag_set key) (m_store (fst (m_step u s now o))).
Proof.
  intros key u s now o Hr HF. destruct o; cbn [m_step fst]; cbn [resets] in Hr; try discriminate.
  - unfold m_insert. destruct (_ && _); [|assumption]. cbn [m_store].
    apply Forall_mput; [|assumption]. unfold flag_set. cbn [fst]. intros Hk. rewrite Hk in Hr. discriminate.
  - apply Forall_lookup; [apply flag_set_touched | assumption].
  - apply Forall_janitor. assumption.
  - assumption.
  - unfold m_refresh_done. destruct (mfind _ _) eqn:F; [|assumption].
    destruct (e_refreshing e); [|assumption]. cbn [m_store]. apply Forall_mput; [|assumption].
    unfold flag_set. cbn [fst]. intros Hk. rewrite Hk in Hr. discriminate.
  - assumption.
Qed.

Lemma flag_run : forall key u h s,
    forallb (fun t => negb (resets key (snd t))) h = true ->
    Forall (flag_set key) (m_store s) -> Forall (flag_set key) (m_store (fst (m_run_from u s h))).
Proof.
  intros key u. induction h as [|[now o] rest IH]; intros s Hh HF; [assumption|].
  rewrite run_from_cons_fst. cbn [forallb snd] in Hh. apply andb_true_iff in Hh. destruct Hh as [H1 H2].
  apply IH; [assumption|]. apply flag_step; [|assumption]. destruct (resets key o); [discriminate|reflexivity].
Qed.

Lemma single_refresh_proof : forall u s now1 key ans1 ttl1 h now2 ans2 ttl2,
    snd (m_lookup s now1 key) = ObLook true ans1 ttl1 true ->
    forallb (fun t => negb (resets key (snd t))) h = true ->
    snd (m_lookup (fst (m_run_from u (fst (m_lookup s now1 key)) h)) now2 key) <> ObLook true ans2 ttl2 true.
Proof.
  intros u s now1 key ans1 ttl1 h now2 ans2 ttl2 H Hh H2.
  assert (HF : Forall (flag_set key) (m_store (fst (m_lookup s now1 key)))).
  { destruct (refresh_needs_clear_flag s now1 key ans1 ttl1 H) as [e [F [R [e' [F' R']]]]].
    destruct (m_lookup_shape s now1 key) as [E N | _ E | e1 e1' F1 T _ E].
    - rewrite F in N. discriminate.
    - rewrite E in F'. unfold mfind, mremove in F'.
      destruct (find _ (filter _ _)) eqn:Ff; [|discriminate]. apply find_some in Ff. destruct Ff as [Hin Hk].
      apply filter_In in Hin. destruct Hin as [_ Hn]. rewrite Hk in Hn. discriminate.
    - rewrite E in *. rewrite mfind_mput_eq in F'. inversion F'; subst e1'.
      unfold mput. constructor; [unfold flag_set; cbn; auto|].
      apply Forall_forall. intros [k0 e0] Hin. unfold flag_set. cbn [fst snd]. intros Hk.
      unfold mremove in Hin. apply filter_In in Hin. destruct Hin as [_ Hn]. cbn [fst] in Hn. rewrite Hk in Hn. discriminate. }
  pose proof (flag_run key u h _ Hh HF) as HF2.
  destruct (refresh_needs_clear_flag _ now2 key ans2 ttl2 H2) as [e [F [R _]]].
  destruct (mfind_Forall _ key _ e HF2 F) as [k' [Hfs Hk]]. unfold flag_set in Hfs. cbn [fst snd] in Hfs.
  rewrite (Hfs Hk) in R. discriminate.
Qed.

(* ------------------------------------------------------------------ witnesses *)
Definition w_name : bytes := [97; 46]%N.                       (* "a." *)
Definition w_cfg : cfg := {| c_opt := true; c_window := 60; c_max := 0; c_fixed := [([65]%N, 2)] |}.   (* fixed TTL for "A" *)
Definition w_t0 : Z := 1000 * sec.

Lemma nonvacuous_proof :
  let h := [(w_t0, Insert w_name 1 ScNone w_name false true 1 7 300);
            (w_t0 + sec, Lookup w_name 1 ScNone);
            (w_t0 + 2 * sec, Reload w_cfg);
            (w_t0 + 3 * sec, Insert [65; 46]%N 1 ScNone w_name false true 1 8 300)] in
  history_wf w_cfg h
  /\ snd (m_lookup (fst (m_run w_cfg h)) (w_t0 + 4 * sec) (key_of w_name 1 ScNone)) = ObLook true 8 2 false
  /\ last_insert w_cfg h (key_of w_name 1 ScNone) None = Some (8, w_t0 + 5 * sec)
  /\ snd (m_lookup (fst (m_run w_cfg h)) (w_t0 + 6 * sec) (key_of w_name 1 ScNone)) = ObLook true 8 2 true
  /\ snd (m_lookup (fst (m_run w_cfg h)) (w_t0 + 66 * sec) (key_of w_name 1 ScNone)) = ObLook false (-1) 0 false.
Proof.
  cbv zeta. split; [|repeat split; vm_compute; reflexivity].
  split; [vm_compute; discriminate|]. repeat constructor; vm_compute; discriminate.
Qed.
