(* C12 — executable comparison functions used by the generated cases file (no proofs). *)
From Coq Require Import List NArith ZArith Bool.
From Dae Require Import C12_Spec C12_Model.
Import ListNotations.
Open Scope N_scope.

Fixpoint list_eqb {A} (eqb : A -> A -> bool) (a b : list A) : bool :=
  match a, b with
  | [], [] => true
  | x :: a', y :: b' => eqb x y && list_eqb eqb a' b'
  | _, _ => false
  end.
Definition optN_eqb (a b : option N) : bool :=
  match a, b with Some x, Some y => x =? y | None, None => true | _, _ => false end.
Definition pairN_eqb (a b : N * N) : bool := (fst a =? fst b) && (snd a =? snd b).

(* a bit string as (length, value) *)
Definition bin_code (l : list bool) : N * N :=
  (N.of_nat (length l), fold_left (fun acc (b : bool) => 2 * acc + (if b then 1 else 0)) l 0).

Definition subset_eqb (a b : list prefix) : bool := forallb (fun p => existsb (prefix_eqb p) b) a.
Definition same_members (a b : list prefix) : bool := subset_eqb a b && subset_eqb b a.

(* ---------------- one prefix set with probes ---------------- *)
Record set_case := {
  sc_big : bool;                          (* native byte order of the machine the harness ran on *)
  sc_prefixes : list prefix;              (* as parsed by the implementation *)
  sc_probes : list N;
  sc_bins : list (N * N);                 (* trie.Prefix2bin128 of every prefix *)
  sc_has : list bool;                     (* NewTrieFromPrefixes(ps).HasPrefix(bin(probe)) *)
  sc_keys : list (N * N);                 (* lifted cidrToBpfLpmKey: prefixlen, the 4 words packed (word i at bit 32*i) *)
  sc_probe_words : list N;                (* common.Ipv6ByteSliceToUint32Array(probe), packed likewise *)
  sc_canon : list prefix;                 (* canonicalizePrefixes *)
  sc_hash : N                             (* hashLpmSet(canonical) *)
}.

Definition unpack4 (x : N) : list N :=
  map (fun i => N.land (N.shiftr x (32 * i)) 0xffffffff) [0; 1; 2; 3].

Definition err (i code : N) (ok : bool) : list (N * N) := if ok then [] else [(i, code)].

Fixpoint zip_check {A B} (f : N -> A -> B -> list (N * N)) (xs : list A) (ys : list B) (i : N) : list (N * N) :=
  match xs, ys with
  | x :: xs', y :: ys' => f i x y ++ zip_check f xs' ys' (i + 1)
  | [], [] => []
  | _, _ => [(i, 99)]                     (* observation of the wrong length *)
  end.

(* codes.  impl<>model: 1 bin, 4 has, 7 key, 10 canon, 13 hash, 15 probe words
           impl<>spec : 2 bin, 5 has, 8 kernel lookup over the impl's keys, 11 canon changes the set,
                        14 userspace<>kernel on the impl's own outputs
           model<>spec: 3 bin, 6 has, 9 kernel lookup, 12 canon *)
Definition check_set_case (c : set_case) : list (N * N) :=
  let big := sc_big c in
  let ps := sc_prefixes c in
  let inodes := map (fun k => lpm_node_of_key big {| lk_prefixlen := fst k; lk_data := unpack4 (snd k) |}) (sc_keys c) in
  let mnodes := lpm_map_of big ps in                 (* = the map kernel_match looks up in *)
  let mtrie := new_trie_from_prefixes ps in          (* = the trie trie_match looks up in *)
  let mcanon := canonicalize ps in
  zip_check (fun i p b =>
               let m := bin_code (prefix2bin128 p) in
               let s := bin_code (prefix_bits p) in
               err i 1 (pairN_eqb b m) ++ err i 2 (pairN_eqb b s) ++ err i 3 (pairN_eqb m s))
            ps (sc_bins c) 0
  ++ zip_check (fun i p k =>
                  let m := cidr_to_lpm_key big p in
                  err i 7 ((fst k =? lk_prefixlen m) && list_eqb N.eqb (unpack4 (snd k)) (lk_data m)))
               ps (sc_keys c) 0
  ++ zip_check (fun i a hw =>
                  let h : bool := fst hw in
                  let w : list N := unpack4 (snd hw) in
                  let s := set_contains ps a in
                  let tm := has_prefix mtrie (probe_bin a) in
                  let mk := probe_key big a in
                  let km := is_some (lpm_lookup mnodes (lpm_node_of_key big mk)) in
                  (* the datapath copies the packet's address bytes into the lookup key (tproxy.c), whatever Go does *)
                  let ki := is_some (lpm_lookup inodes (lpm_node_of_key big mk)) in
                  err i 4 (Bool.eqb h tm) ++ err i 5 (Bool.eqb h s) ++ err i 6 (Bool.eqb tm s)
                  ++ err i 9 (Bool.eqb km s)
                  ++ err i 11 (Bool.eqb (set_contains (sc_canon c) a) s)
                  ++ err i 12 (Bool.eqb (set_contains mcanon a) s)
                  ++ err i 15 (list_eqb N.eqb w (lk_data mk))
                  ++ err i 8 (Bool.eqb ki s)
                  ++ err i 14 (Bool.eqb ki h))
               (sc_probes c) (combine (sc_has c) (sc_probe_words c)) 0
  ++ err 0 98 (Nat.eqb (length (sc_has c)) (length (sc_probe_words c)))
  ++ err 0 10 (list_eqb prefix_eqb (sc_canon c) mcanon)
  ++ err 0 13 (sc_hash c =? hash_lpm_set mcanon).

(* signature: (#probes matched, #probes not matched, feature bits of the set) *)
Definition flag (b : bool) (v : N) : N := if b then v else 0.
Definition set_signature (c : set_case) : N * N * N :=
  let ps := sc_prefixes c in
  let nm := N.of_nat (length (filter (fun a => set_contains ps a) (sc_probes c))) in
  let nn := N.of_nat (length (sc_probes c)) - nm in
  let any f := existsb f ps in
  let fl :=
      flag (any (fun p => p_is4 p)) 1
      + flag (any (fun p => negb (p_is4 p))) 2
      + flag (any (fun p => negb (p_is4 p) && (N.shiftr (p_addr p) 32 =? 0xffff))) 4
      + flag (any (fun p => len128 p =? 0)) 8
      + flag (any (fun p => p_is4 p && (p_bits p =? 0))) 16
      + flag (any (fun p => len128 p =? 128)) 32
      + flag (negb (Nat.eqb (length (canonicalize ps)) (length ps))) 64
      + flag (existsb (fun p => existsb (fun q => (len128 p <? len128 q) && contains p (addr128 q)) ps) ps) 128
      + flag (any (fun p => negb (top (len128 p) (addr128 p) * 2 ^ (128 - len128 p) =? addr128 p))) 256 in
  (nm, nn, fl).

(* ---------------- a builder history ---------------- *)
Record builder_case := {
  bc_big : bool;
  bc_consthash : bool;                    (* the lifted addIp/addSourceIp ran with a constant hash *)
  bc_ops : list op;
  bc_packets : list packet;
  bc_indices : list N;                    (* compiledRules[i].lpmIndex *)
  bc_tries : list (list prefix);          (* simulatedLpmTries *)
  bc_matches : list (option N);           (* RoutingMatcher.Match: index of the rule that hit *)
  bc_order : list bstep;                  (* KernspaceSnapshot / replayed snapshot.BuildKernspace / BuildUserspace, as run *)
  bc_set_probes : list N;
  bc_installs : list (list (list (N * N)));  (* per BuildKernspace replay, per stored set: keys (prefixlen, packed words) *)
  bc_trie_has : list (list bool)          (* per stored set, per probe: lpmMatcher[set].HasPrefix *)
}.

Definition case_hash (c : builder_case) : list prefix -> N :=
  if bc_consthash c then (fun _ => 0) else hash_lpm_set.

Fixpoint share_ok (rs : list (N * list prefix)) : bool :=
  match rs with
  | [] => true
  | r :: rest => forallb (fun q => negb (fst q =? fst r) || same_members (snd q) (snd r)) rest && share_ok rest
  end.

(* codes.  impl<>model: 20 indices, 21 stored sets, 23 match
           impl<>spec : 22 match, 26 two rules share an index though their sets differ,
                        27 kernel decision over the impl's stored sets
           model<>spec: 24 match, 25 kernel decision *)
Definition key_eqb (k : N * N) (m : lpm_key) : bool :=
  (fst k =? lk_prefixlen m) && list_eqb N.eqb (unpack4 (snd k)) (lk_data m).
Fixpoint list_eqb2 {A B} (eqb : A -> B -> bool) (a : list A) (b : list B) : bool :=
  match a, b with
  | [], [] => true
  | x :: a', y :: b' => eqb x y && list_eqb2 eqb a' b'
  | _, _ => false
  end.

(* codes.  impl<>model: 20 indices, 21 stored sets, 23 match, 33 key lists handed to the kernel, 34 per-set trie
           impl<>spec : 22 match, 26 two rules share an index though their sets differ,
                        27 kernel decision over the builder's stored sets,
                        28 per order: kernel keys written from the snapshot <> userspace trie, on some probe of some rule's set
                        29 per order: kernel keys written from the snapshot <> the set the rule was given
           model<>spec: 24 match, 25 kernel decision, 35 model key lists <> the set
   index of 28/29/35: 100 * (number of the BuildKernspace call) + rule number *)
Definition check_builder_case (c : builder_case) : list (N * N) :=
  let big := bc_big c in
  let b := run (case_hash c) (bc_ops c) in
  let rs := b_rules b in
  let specs := map spec_rule_of rs in
  let irules := map (fun ri => {| r_role := r_role (fst ri); r_not := r_not (fst ri); r_index := snd ri;
                                  r_values := r_values (fst ri) |}) (combine rs (bc_indices c)) in
  let opt_eq (x : option (option N)) (y : option N) := match x with Some v => optN_eqb v y | None => false end in
  let probes := bc_set_probes c in
  let pnodes := map (fun a => lpm_node_of_key big (probe_key big a)) probes in
  let minst := match order_run false big (mem_init (b_tries b)) (bc_order c) with
               | Some m => Some (m_installs m) | None => None end in
  (* one list of answers per probe, from a key list *)
  let answers (nodes : list lpm_node) := map (fun pn => is_some (lpm_lookup nodes pn)) pnodes in
  let per_rule (k : N) (sets : list (list lpm_node)) (code : N) (want : rule -> list bool) :=
      zip_check (fun i (r : rule) (_ : rule) =>
                   err (100 * k + i) code
                       (match nth_error sets (N.to_nat (r_index r)) with
                        | Some nodes => list_eqb Bool.eqb (answers nodes) (want r)
                        | None => false
                        end)) irules irules 0 in
  let spec_answers (r : rule) := map (set_contains (r_values r)) probes in
  err 0 20 (list_eqb N.eqb (bc_indices c) (map r_index rs))
  ++ err 0 21 (list_eqb (list_eqb prefix_eqb) (bc_tries c) (b_tries b))
  ++ err 0 26 (share_ok (combine (bc_indices c) (map r_values rs)))
  ++ zip_check (fun i k m =>
                  let s := first_hit specs k 0 in
                  let mm := match_rules (b_tries b) rs k in
                  err i 22 (optN_eqb m s)
                  ++ err i 23 (opt_eq mm m)
                  ++ err i 24 (opt_eq mm s)
                  ++ err i 25 (opt_eq (match_rules_kernel big (b_tries b) rs k) s)
                  ++ err i 27 (opt_eq (match_rules_kernel big (bc_tries c) irules k) s))
               (bc_packets c) (bc_matches c) 0
  ++ err 0 33 (match minst with
               | Some mi => list_eqb2 (list_eqb2 (list_eqb2 key_eqb)) (bc_installs c) mi
               | None => false
               end)
  ++ err 0 34 (list_eqb2 (fun (row : list bool) (s : list prefix) =>
                            list_eqb Bool.eqb row (map (trie_match s) probes)) (bc_trie_has c) (b_tries b))
  ++ zip_check (fun k (inst : list (list (N * N))) (_ : unit) =>
                  let sets := map (map (fun kk => lpm_node_of_key big {| lk_prefixlen := fst kk; lk_data := unpack4 (snd kk) |})) inst in
                  per_rule k sets 28 (fun r => nth (N.to_nat (r_index r)) (bc_trie_has c) [])
                  ++ per_rule k sets 29 spec_answers)
               (bc_installs c) (map (fun _ => tt) (bc_installs c)) 0
  ++ match minst with
     | Some mi => zip_check (fun k (inst : list (list lpm_key)) (_ : unit) =>
                               per_rule k (map (map (lpm_node_of_key big)) inst) 35 spec_answers)
                            mi (map (fun _ => tt) mi) 0
     | None => []
     end.

(* signature: (#rules, #rules sharing an earlier rule's index, #stored sets, #distinct outcomes) *)
Definition builder_signature (c : builder_case) : N * N * N * N :=
  let b := run (case_hash c) (bc_ops c) in
  let idx := map r_index (b_rules b) in
  let shared := (fix go (l : list N) (seen : list N) : N :=
                   match l with
                   | [] => 0
                   | x :: l' => (if existsb (N.eqb x) seen then 1 else 0) + go l' (x :: seen)
                   end) idx [] in
  let outs := map (fun k => first_hit (map spec_rule_of (b_rules b)) k 0) (bc_packets c) in
  let distinct := (fix go (l : list (option N)) (seen : list (option N)) : N :=
                     match l with
                     | [] => 0
                     | x :: l' => (if existsb (optN_eqb x) seen then 0 else 1) + go l' (x :: seen)
                     end) outs [] in
  (N.of_nat (length idx), shared, N.of_nat (length (b_tries b)), distinct).

(* ---------------- DNS response routing ---------------- *)
Record resp_case := {
  rc_rules : list resp_rule;
  rc_answers : list (list N);
  rc_matches : list (option N)            (* ResponseMatcher.Match: index of the rule that hit *)
}.
(* codes.  impl<>model: 30   impl<>spec: 31   model<>spec: 32 *)
Definition check_resp_case (c : resp_case) : list (N * N) :=
  let specs := resp_spec_rules (rc_rules c) in
  zip_check (fun i ips m =>
               let s := response_first_hit specs ips 0 in
               let mm := response_match (rc_rules c) ips in
               err i 30 (optN_eqb m mm) ++ err i 31 (optN_eqb m s) ++ err i 32 (optN_eqb mm s))
            (rc_answers c) (rc_matches c) 0.
(* signature: (#rules, #distinct outcomes, #lookups with more than one address) *)
Definition resp_signature (c : resp_case) : N * N * N :=
  let outs := map (fun ips => response_first_hit (resp_spec_rules (rc_rules c)) ips 0) (rc_answers c) in
  let distinct := (fix go (l : list (option N)) (seen : list (option N)) : N :=
                     match l with
                     | [] => 0
                     | x :: l' => (if existsb (optN_eqb x) seen then 0 else 1) + go l' (x :: seen)
                     end) outs [] in
  (N.of_nat (length (rc_rules c)), distinct,
   N.of_nat (length (filter (fun ips => Nat.ltb 1 (length ips)) (rc_answers c)))).
