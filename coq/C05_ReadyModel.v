(* C05 - the Sniffer's dataReady signal (no proofs in this file).
   component/sniffing/sniffer.go: ConnSniffer.TakeRelayPrefix / Sniffer.Read start with `<-s.dataReady`; the
   channel is closed by readStreamOnceWithReadDeadline after its read; SniffTcp makes a fresh channel before
   every further round (ErrNeedMore).  How many times close(s.dataReady) runs on each way out of the read, and
   whether s.dataError is set there, is extracted from the source (gen: c05_ready_closes_, c05_derr_set_). *)
From Coq Require Import List NArith Bool.
From Dae.gen Require Import C05_Extracted.
Import ListNotations.
Open Scope N_scope.

Inductive rexit := ROk | RTimeout | RErr.       (* ReadFromOnce: no error / the sniff deadline expired / another error *)
Inductive verdict := VNeedMore | VDone.         (* what the parsers say about the bytes so far (VDone: anything else) *)

Definition code_closes (x : rexit) : N :=
  match x with ROk => c05_ready_closes_ok | RTimeout => c05_ready_closes_timeout | RErr => c05_ready_closes_err end.
Definition code_derr (x : rexit) : bool :=
  match x with ROk => c05_derr_set_ok | RTimeout => c05_derr_set_timeout | RErr => c05_derr_set_err end.

(* SniffTcp's stream loop.  State: number of close() calls on the CURRENT channel (0: open - a receive blocks;
   1: closed; 2 or more: the second close panics).  Result: that number when SniffTcp returns, and whether it
   has returned (false: the oracle list ended inside the loop). *)
Fixpoint sniff_ready (closes : rexit -> N) (rounds : list (rexit * verdict)) (st : N) : N * bool :=
  match rounds with
  | [] => (st, false)
  | (x, v) :: rest =>
      let st1 := st + closes x in
      match x, v with
      | ROk, VNeedMore => if st1 =? 1 then sniff_ready closes rest 0 (* s.dataReady = make(chan struct{}) *)
                          else (st1, true)                           (* blocked readers / panic: reported as is *)
      | _, _ => (st1, true)
      end
  end.

Definition receive_blocks (st : N) : bool := st =? 0.      (* <-s.dataReady *)
Definition close_panics (st : N) : bool := 2 <=? st.
