(* C17 — executable model of the anchored code.
   Part 1  the lexer of dae_config (ANTLR: longest match, earliest rule on ties, non-greedy comment and
           quote loops as the lexer ATN simulator resolves them), character sets taken from the generated ATN
           (gen/Extracted_C17.v);
   Part 2  the parser (the grammar's 19 rules as LL(2) recursive descent) fused with the walker of
           pkg/config_parser/walker.go that builds Sections/Items/Params/Functions/RoutingRules;
   Part 3  config.Merger (dfsMerge over an abstract file system);
   Part 4  the match-set capacity of the userspace builders (config.New's typed decoding is not modelled:
           its contract is explored by the correspondence run only).
   No proofs in this file. *)
From Coq Require Import List NArith Bool.
From Dae Require Import C17_Spec.
From Dae.gen Require Import Extracted_C17.
Import ListNotations.
Open Scope N_scope.

(* ================================================================== Part 1: lexer *)
Fixpoint in_set (s : list (N * N)) (c : N) : bool :=
  match s with [] => false | (lo, hi) :: r => in_range lo hi c || in_set r c end.
Definition m_id_head (c : N) : bool := in_set atn_set_id_head c.
Definition m_nonid_head (c : N) : bool := in_set atn_set_nonid_head c.
Definition m_safe (c : N) : bool :=
  in_set atn_set_id_head c || in_set atn_set_nonid_head c || in_set atn_set_intermediate c.
Definition m_ws (c : N) : bool := in_set atn_set_ws c.
Definition m_eol (c : N) : bool := in_set atn_set_eol c.

Inductive tok :=
| TComma | TLBrace | TRBrace | TColon | TLBrack | TRBrack | TNot | TLParen | TRParen | TArrow | TAnd
| TId (s : str) | TNonId (s : str) | TQuote (inner : str).

Inductive res (A : Type) := Ok (a : A) | Err | OutOfFuel.
Arguments Ok {A} _.
Arguments Err {A}.
Arguments OutOfFuel {A}.

Fixpoint take_while (p : N -> bool) (s : str) : str :=
  match s with c :: r => if p c then c :: take_while p r else [] | [] => [] end.
Fixpoint drop_while (p : N -> bool) (s : str) : str :=
  match s with c :: r => if p c then drop_while p r else s | [] => [] end.

(* QUOTE_STRING: q ( '\' q | . )*? q.  The simulator keeps the configuration that took the escape
   alternative alive when the loop exit reaches the accept state: a quote preceded by a backslash is a
   tentative end (the scan goes on and a later quote makes a longer token), a quote not preceded by a
   backslash ends the token for good.  Returns the number of characters after the opening quote that belong to
   the token (closing quote included). *)
Fixpoint scan_quote (q : N) (prev_bs : bool) (last : option nat) (n : nat) (s : str) : option nat :=
  match s with
  | [] => last
  | c :: r =>
      if c =? q then
        if prev_bs then scan_quote q false (Some (S n)) (S n) r else Some (S n)
      else scan_quote q (c =? 92) last (S n) r
  end.

(* COMMENT_BLOCK: '/*' .*? '*/' - characters after the opener up to and including the first closer *)
Fixpoint find_close (n : nat) (s : str) : option nat :=
  match s with
  | [] => None
  | c :: r =>
      match r with
      | d :: _ => if (c =? 42) && (d =? 47) then Some (S (S n)) else find_close (S n) r
      | [] => None
      end
  end.

(* COMMENT_LINE_SHARP: '#' .*? ([\r\n]+ | EOF) *)
Definition skip_line (s : str) : str := drop_while m_eol (drop_while (fun c => negb (m_eol c)) s).

Inductive lexstep := LEof | LSkip (rest : str) | LTok (t : tok) (rest : str) | LErr.

Definition word (mk : str -> tok) (c : N) (r : str) : lexstep :=
  let tail := take_while m_safe r in LTok (mk (c :: tail)) (skipn (length tail) r).

Definition next_token (s : str) : lexstep :=
  match s with
  | [] => LEof
  | c :: r =>
      if m_ws c then LSkip (drop_while m_ws r)
      else if c =? 35 then LSkip (skip_line r)
      else if c =? 44 then LTok TComma r
      else if c =? 123 then LTok TLBrace r
      else if c =? 125 then LTok TRBrace r
      else if c =? 58 then LTok TColon r
      else if c =? 91 then LTok TLBrack r
      else if c =? 93 then LTok TRBrack r
      else if c =? 33 then LTok TNot r
      else if c =? 40 then LTok TLParen r
      else if c =? 41 then LTok TRParen r
      else if c =? 38 then match r with d :: r' => if d =? 38 then LTok TAnd r' else LErr | [] => LErr end
      else if (c =? 34) || (c =? 39) then
        match scan_quote c false None 0 r with
        | Some n => LTok (TQuote (firstn (pred n) r)) (skipn n r)
        | None => LErr
        end
      else if m_id_head c then word TId c r
      else if m_nonid_head c then
        match r with
        | d :: r' =>
            if (c =? 45) && (d =? 62) then LTok TArrow r'          (* '->' (2) beats NON_ID '-' (1) *)
            else if (c =? 47) && (d =? 42) then                    (* '/*': comment against NON_ID: the *)
              let tail := take_while m_safe r in                   (* longest wins, the comment on a tie *)
              match find_close 0 r' with
              | Some m => if Nat.leb (length tail) (S m) then LSkip (skipn m r') else word TNonId c r
              | None => word TNonId c r
              end
            else word TNonId c r
        | [] => word TNonId c r
        end
      else LErr
  end.

Fixpoint lex (fuel : nat) (s : str) : res (list tok) :=
  match fuel with
  | O => OutOfFuel
  | S f =>
      match next_token s with
      | LEof => Ok []
      | LSkip r => lex f r
      | LTok t r => match lex f r with Ok ts => Ok (t :: ts) | e => e end
      | LErr => Err
      end
  end.

(* ================================================================== Part 2: parser + walker *)
Definition tok_literal (t : tok) : option str :=
  match t with TId s | TNonId s | TQuote s => Some s | _ => None end.

(* parameter: ID ':' literal | literal *)
Definition parse_param (ts : list tok) : res (kv * list tok) :=
  match ts with
  | TId k :: TColon :: t :: rest =>
      match tok_literal t with Some v => Ok (KV k v, rest) | None => Err end
  | t :: rest => match tok_literal t with Some v => Ok (KV [] v, rest) | None => Err end
  | [] => Err
  end.

(* nonEmptyParameterList: parameter (',' parameter)* *)
Fixpoint parse_params (fuel : nat) (ts : list tok) : res (list kv * list tok) :=
  match fuel with
  | O => OutOfFuel
  | S f =>
      match parse_param ts with
      | Ok (p, TComma :: rest) =>
          match parse_params f rest with Ok (ps, r) => Ok (p :: ps, r) | e => e end
      | Ok (p, rest) => Ok ([p], rest)
      | Err => Err | OutOfFuel => OutOfFuel
      end
  end.

(* functionPrototype: '!'? ID '(' optParameterList ')'.  The grammar accepts an empty list; the walker
   reports "empty parameter list" and returns nil: [None]. *)
Definition parse_func (fuel : nat) (ts : list tok) : res (option gfunc * list tok) :=
  let '(neg, ts1) := match ts with TNot :: r => (true, r) | _ => (false, ts) end in
  match ts1 with
  | TId name :: TLParen :: TRParen :: rest => Ok (None, rest)
  | TId name :: TLParen :: rest =>
      match parse_params fuel rest with
      | Ok (ps, TRParen :: r) => Ok (Some (GFunc name neg ps), r)
      | Ok _ => Err
      | Err => Err | OutOfFuel => OutOfFuel
      end
  | _ => Err
  end.

(* functionPrototypeExpression: functionPrototype ('&&' functionPrototypeExpression)? *)
Fixpoint parse_funcs (fuel : nat) (ts : list tok) : res (list (option gfunc) * list tok) :=
  match fuel with
  | O => OutOfFuel
  | S f =>
      match parse_func fuel ts with
      | Ok (fo, TAnd :: rest) =>
          match parse_funcs f rest with Ok (fs, r) => Ok (fo :: fs, r) | e => e end
      | Ok (fo, rest) => Ok ([fo], rest)
      | Err => Err | OutOfFuel => OutOfFuel
      end
  end.

Fixpoint all_some {A} (l : list (option A)) : option (list A) :=
  match l with
  | [] => Some []
  | Some x :: r => match all_some r with Some xs => Some (x :: xs) | None => None end
  | None :: _ => None
  end.

(* literalExpression: literal (',' literalExpression)? ; the walker joins the values with ',' *)
Fixpoint parse_lits (fuel : nat) (ts : list tok) : res (list str * list tok) :=
  match fuel with
  | O => OutOfFuel
  | S f =>
      match ts with
      | t :: rest =>
          match tok_literal t with
          | Some v =>
              match rest with
              | TComma :: rest' => match parse_lits f rest' with Ok (vs, r) => Ok (v :: vs, r) | e => e end
              | _ => Ok ([v], rest)
              end
          | None => Err
          end
      | [] => Err
      end
  end.

(* optAnnotation: '[' optParameterList ']' | <empty>.  [None]: '[' ']' (walker error) *)
Definition parse_annot (fuel : nat) (ts : list tok) : res (option (list kv) * list tok) :=
  match ts with
  | TLBrack :: TRBrack :: rest => Ok (None, rest)
  | TLBrack :: rest =>
      match parse_params fuel rest with
      | Ok (ps, TRBrack :: r) => Ok (Some ps, r)
      | Ok _ => Err
      | Err => Err | OutOfFuel => OutOfFuel
      end
  | _ => Ok (Some [], ts)
  end.

(* What the walker makes of one grammatical item:
   WItem     an item;
   WBad      the walker reported an error (Parse will fail) and went on with the following items;
   WBadStop  the walker reported an error and abandoned the remaining items of this list
             (parseDeclaration returned nil);
   WCrash    the walker panicked.  Nothing in the model produces it any more: parseRoutingRule returns nil
             when the outbound function was refused, and Parse does not walk a tree that has syntax errors;
             the constructor stays so that "never crashes" is a statement about the functions, not the type. *)
Inductive witem := WItem (i : gitem) | WBad | WBadStop | WCrash.
Inductive wres (A : Type) := WOk (a : A) | WErr | WCrashed.
Arguments WOk {A} _.
Arguments WErr {A}.
Arguments WCrashed {A}.

Fixpoint walk_items (l : list witem) : wres (list gitem) :=
  match l with
  | [] => WOk []
  | WItem i :: r => match walk_items r with WOk x => WOk (i :: x) | e => e end
  | WBad :: r => match walk_items r with WCrashed => WCrashed | _ => WErr end
  | WBadStop :: _ => WErr
  | WCrash :: _ => WCrashed
  end.

(* routingRule: functionPrototypeExpression '->' outboundExpr ; outboundExpr: bare_literal | functionPrototype.
   An outbound function with an empty parameter list: parseFunctionPrototype reports the error and returns
   nil, parseRoutingRule returns nil, the caller abandons the rest of its list. *)
Definition parse_rule (fuel : nat) (ts : list tok) : res (witem * list tok) :=
  match parse_funcs fuel ts with
  | Ok (fos, TArrow :: rest) =>
      let mk o := match all_some fos with Some fs => WItem (GRule fs o) | None => WBad end in
      match rest with
      | TNot :: _ | TId _ :: TLParen :: _ =>
          match parse_func fuel rest with
          | Ok (Some o, r) => Ok (mk o, r)
          | Ok (None, r) => Ok (WBadStop, r)      (* parseRoutingRule returns nil: the list is abandoned *)
          | Err => Err | OutOfFuel => OutOfFuel
          end
      | TId n :: r | TNonId n :: r => Ok (mk (GFunc n false []), r)
      | _ => Err
      end
  | Ok _ => Err
  | Err => Err | OutOfFuel => OutOfFuel
  end.

(* declaration: ID ':' (functionPrototypeExpression | literalExpression) optAnnotation.
   parseFunctionPrototypeExpression returns nil when its first function is refused (the declaration is
   dropped), and silently the functions before a refused later one otherwise. *)
Fixpoint funcs_prefix (l : list (option gfunc)) : list gfunc :=
  match l with Some x :: r => x :: funcs_prefix r | _ => [] end.

Definition parse_decl (fuel : nat) (key : str) (ts : list tok) : res (witem * list tok) :=
  let after_value (mk : list kv -> witem) (r : list tok) : res (witem * list tok) :=
    match parse_annot fuel r with
    | Ok (Some a, r') => Ok (mk a, r')
    | Ok (None, r') => Ok (WBadStop, r')
    | Err => Err | OutOfFuel => OutOfFuel
    end in
  match ts with
  | TNot :: _ | TId _ :: TLParen :: _ =>
      match parse_funcs fuel ts with
      | Ok (fos, r) =>
          match fos with
          | None :: _ => after_value (fun _ => WBadStop) r
          | _ => match all_some fos with
                 | Some fs => after_value (fun a => WItem (GParamI (GParam key [] fs a))) r
                 | None => after_value (fun _ => WBad) r
                 end
          end
      | Err => Err | OutOfFuel => OutOfFuel
      end
  | _ =>
      match parse_lits fuel ts with
      | Ok (vs, r) => after_value (fun a => WItem (GParamI (GParam key (join_comma vs) [] a))) r
      | Err => Err | OutOfFuel => OutOfFuel
      end
  end.

(* routingRuleOrDeclarationOrLiteralOrExpressionList up to the closing '}' ; expression: ID '{' list '}' *)
Fixpoint parse_items (fuel : nat) (ts : list tok) : res (list witem * list tok) :=
  match fuel with
  | O => OutOfFuel
  | S f =>
      let continue_with (x : res (witem * list tok)) : res (list witem * list tok) :=
        match x with
        | Ok (i, r) => match parse_items f r with Ok (is, r') => Ok (i :: is, r') | e => e end
        | Err => Err | OutOfFuel => OutOfFuel
        end in
      match ts with
      | TRBrace :: _ => Ok ([], ts)
      | TNot :: _ | TId _ :: TLParen :: _ => continue_with (parse_rule fuel ts)
      | TId k :: TColon :: rest => continue_with (parse_decl fuel k rest)
      | TId n :: TLBrace :: rest =>
          match parse_items f rest with
          | Ok (is, TRBrace :: r) =>
              continue_with (Ok (match walk_items is with
                                 | WOk gi => WItem (GSection n gi)
                                 | WErr => WBad
                                 | WCrashed => WCrash
                                 end, r))
          | Ok _ => Err
          | Err => Err | OutOfFuel => OutOfFuel
          end
      | t :: rest =>
          match tok_literal t with
          | Some v => continue_with (Ok (WItem (GParamI (GParam [] v [] [])), rest))
          | None => Err
          end
      | [] => Err
      end
  end.

(* input: programStructureBlcok* EOF ; programStructureBlcok: expression *)
Fixpoint parse_sections (fuel : nat) (ts : list tok) : res (list (str * wres (list gitem))) :=
  match fuel with
  | O => OutOfFuel
  | S f =>
      match ts with
      | [] => Ok []
      | TId n :: TLBrace :: rest =>
          match parse_items fuel rest with
          | Ok (is, TRBrace :: r) =>
              match parse_sections f r with
              | Ok ss => Ok ((n, walk_items is) :: ss)
              | e => e
              end
          | Ok _ => Err
          | Err => Err | OutOfFuel => OutOfFuel
          end
      | _ => Err
      end
  end.

(* the listener walks the sections in order: the first crash ends the process, otherwise any error reported
   makes Parse return the error *)
Fixpoint walk_sections (l : list (str * wres (list gitem))) : wres (list gsection) :=
  match l with
  | [] => WOk []
  | (n, WOk gi) :: r => match walk_sections r with WOk x => WOk ((n, gi) :: x) | e => e end
  | (_, WErr) :: r => match walk_sections r with WCrashed => WCrashed | _ => WErr end
  | (_, WCrashed) :: _ => WCrashed
  end.

(* the answer of config_parser.Parse *)
Inductive parsed := POk (ss : list gsection) | PErr | PCrash | PFuel.

Definition parse_tokens (ts : list tok) : parsed :=
  match parse_sections (S (length ts)) ts with
  | Ok ss => match walk_sections ss with WOk x => POk x | WErr => PErr | WCrashed => PCrash end
  | Err => PErr
  | OutOfFuel => PFuel
  end.

Definition parse (text : str) : parsed :=
  match lex (S (length text)) text with
  | Ok ts => parse_tokens ts
  | Err => PErr
  | OutOfFuel => PFuel
  end.

(* ================================================================== Part 3: Merger *)
(* The file system as the merger sees it: for a (cleaned, absolute) path, the parsed content of the file
   or the reason it cannot be used; for an include pattern of a file, the files it expands to (glob, in glob
   order, directories and non-.dae names already dropped by unsqueezeEntries). *)
Inductive fs_entry :=
| FFile (sections : list gsection)      (* a readable .dae file inside the entry directory, parsed *)
| FBad.                                 (* wrong suffix / outside the directory / directory / permissions /
                                           unreadable / syntax error: readEntry returns an error *)
Definition filesys := str -> fs_entry.

(* convertSectionsToMap: equally named sections of one file are concatenated in order *)
Fixpoint sm_append (m : section_map) (n : str) (items : list gitem) : section_map :=
  match m with
  | [] => [(n, items)]
  | (k, v) :: r => if str_eqb k n then (k, v ++ items) :: r else (k, v) :: sm_append r n items
  end.
Definition sections_to_map (ss : list gsection) : section_map :=
  fold_left (fun m s => sm_append m (fst s) (snd s)) ss [].
(* merging a finished child into its father: for every section of the child, father ++ child *)
Definition merge_into (father child : section_map) : section_map :=
  fold_left (fun m s => sm_append m (fst s) (snd s)) child father.

Definition include_name : str := [105; 110; 99; 108; 117; 100; 101].   (* "include" *)

(* include items must be parameters; a key, if any, is printed compactly in front (Param.String(true,false)) *)
Fixpoint include_patterns (items : list gitem) : option (list str) :=
  match items with
  | [] => Some []
  | GParamI (GParam k v [] _) :: r =>
      match include_patterns r with
      | Some ps => Some ((match k with [] => v | _ => k ++ 58 :: v end) :: ps)
      | None => None
      end
  | _ => None
  end.

Definition mem_str (x : str) (l : list str) : bool := existsb (str_eqb x) l.

(* dfsMerge.  [visited]: keys of entryToSectionMap; [expand f p]: what pattern p written in file f expands to.
   Returns the merged section map of the entry and the new visited list. *)
Fixpoint dfs_merge (fuel : nat) (fs : filesys) (expand : str -> list str)
         (visited : list str) (entry : str) : res (section_map * list str) :=
  match fuel with
  | O => OutOfFuel
  | S f =>
      if mem_str entry visited then Err                          (* circular include *)
      else match fs entry with
           | FBad => Err
           | FFile ss =>
               let own := sections_to_map ss in
               match include_patterns (sm_get own include_name) with
               | None => Err
               | Some pats =>
                   let children := flat_map expand pats in
                   (fix go (cs : list str) (acc : section_map) (vis : list str) : res (section_map * list str) :=
                      match cs with
                      | [] => Ok (acc, vis)
                      | c :: cs' =>
                          match dfs_merge f fs expand vis c with
                          | Ok (cm, vis') => go cs' (merge_into acc cm) vis'
                          | e => e
                          end
                      end) children own (entry :: visited)
               end
           end
  end.

(* ================================================================== Part 4: capacity *)
(* capacity: BuildUserspace (and the DNS request/response matcher builders) first compare the number of
   match sets with MaxMatchSetLen and answer with an error when it is exceeded; only then are the per-match-set
   arrays of MaxMatchSetLen entries indexed with the rule index of every domain set
   (AhocorasickSlimtrie.AddSet: n.toBuildTrie[bitIndex]).  [domain_sets]: rule indices of the domain sets. *)
Definition build_userspace (n_match_sets : N) (domain_sets : list N) : wres unit :=
  if max_match_set_len <? n_match_sets then WErr
  else if existsb (fun i => max_match_set_len <=? i) domain_sets then WCrashed
  else WOk tt.
