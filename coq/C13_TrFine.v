(* C13 — small-step model of control/udp_conn_state_tracker.go with threads.
   A thread is one tuple owner (an endpoint): it retains its tuple (may block while the entry is being
   deleted, and re-checks after every wake-up), holds it, and then either keeps it, releases it (BeginRelease /
   kernel delete / FinalizeRelease as three steps, as in controlPlaneCore.ReleaseUdpConnStateTuples) or forgets
   it (reload hand-over; may block likewise).  Every step is one critical section of the tracker mutex; a
   sync.Cond broadcast makes every waiter of that entry runnable again.  No proofs in this file.

   [recheck] says whether a woken retainer re-examines the key (the `for` loop of retain()); it is extracted
   from the source by the translator (gen/C13_Consts.v: retain_rechecks_after_wait). *)
From Coq Require Import List Arith Bool.
From Dae Require Import C13_Model.
Import ListNotations.

Inductive opc :=
| OStart                 (* before retain() *)
| ORWait (eid : nat)     (* retain: blocked in cond.Wait of entry eid *)
| ORWoken                (* retain: woken, mutex not yet re-acquired *)
| OHeld                  (* owns the tuple *)
| OKernel (eid : nat)    (* release: BeginRelease marked entry eid deleting; kernel delete not yet issued *)
| OFinal (eid : nat)     (* release: kernel delete issued; FinalizeRelease pending *)
| OFWait (eid : nat)     (* forget: blocked in cond.Wait of entry eid (still an owner) *)
| OFWoken                (* forget: woken *)
| ODone.

(* mode: 0 keep, 1 release, 2 forget *)
Record othread := mkO { o_key : nat; o_mode : nat; o_pc : opc }.

Record fentry := mkFE { fe_id : nat; fe_refs : nat; fe_deleting : bool }.

Record trstate := mkTR {
  r_entries : nat -> option fentry;
  r_next : nat;                          (* next entry id *)
  r_thr : list othread;
  r_deletes : list (nat * nat) }.        (* kernel deletes: (tuple, number of owners of the tuple at that moment) *)

Definition is_owner (k : nat) (t : othread) : bool :=
  (o_key t =? k) && match o_pc t with OHeld | OFWait _ | OFWoken => true | _ => false end.
Definition owners_of (s : trstate) (k : nat) : nat := length (filter (is_owner k) (r_thr s)).

Definition tr_init (thr : list (nat * nat)) : trstate :=
  mkTR (fun _ => None) 0 (map (fun x => mkO (fst x) (snd x) OStart) thr) [].

Definition set_opc (s : trstate) (i : nat) (t : othread) (pc : opc) : list othread :=
  upd (r_thr s) i (mkO (o_key t) (o_mode t) pc).

Definition eset (f : nat -> option fentry) (k : nat) (v : option fentry) : nat -> option fentry :=
  fun k' => if k' =? k then v else f k'.

(* Broadcast on entry eid: every waiter of that entry becomes runnable *)
Definition broadcast (thr : list othread) (eid : nat) : list othread :=
  map (fun t => match o_pc t with
                | ORWait e => if e =? eid then mkO (o_key t) (o_mode t) ORWoken else t
                | OFWait e => if e =? eid then mkO (o_key t) (o_mode t) OFWoken else t
                | _ => t end) thr.

Definition tr_step (recheck : bool) (s : trstate) (i : nat) : trstate :=
  match nth_error (r_thr s) i with
  | None => s
  | Some t =>
      let k := o_key t in
      let fresh := mkTR (eset (r_entries s) k (Some (mkFE (r_next s) 1 false))) (S (r_next s))
                        (set_opc s i t OHeld) (r_deletes s) in
      match o_pc t with
      | OStart | ORWoken =>
          (* retain(): one pass of the loop body under the mutex *)
          if negb recheck && match o_pc t with ORWoken => true | _ => false end
          then fresh                                 (* waits once, then installs a fresh entry unconditionally *)
          else
            match r_entries s k with
            | None => fresh
            | Some e =>
                if fe_deleting e
                then mkTR (r_entries s) (r_next s) (set_opc s i t (ORWait (fe_id e))) (r_deletes s)
                else mkTR (eset (r_entries s) k (Some (mkFE (fe_id e) (S (fe_refs e)) false))) (r_next s)
                          (set_opc s i t OHeld) (r_deletes s)
            end
      | OHeld =>
          match o_mode t with
          | 1 =>
              (* BeginRelease for the key *)
              match r_entries s k with
              | None => mkTR (r_entries s) (r_next s) (set_opc s i t ODone) (r_deletes s)
              | Some e =>
                  if fe_deleting e then mkTR (r_entries s) (r_next s) (set_opc s i t ODone) (r_deletes s)
                  else match fe_refs e with
                       | 0 => mkTR (r_entries s) (r_next s) (set_opc s i t ODone) (r_deletes s)
                       | 1 => mkTR (eset (r_entries s) k (Some (mkFE (fe_id e) 0 true))) (r_next s)
                                   (set_opc s i t (OKernel (fe_id e))) (r_deletes s)
                       | S n => mkTR (eset (r_entries s) k (Some (mkFE (fe_id e) n false))) (r_next s)
                                     (set_opc s i t ODone) (r_deletes s)
                       end
              end
          | 2 =>
              (* forget(): one pass of its loop body *)
              match r_entries s k with
              | None => mkTR (r_entries s) (r_next s) (set_opc s i t ODone) (r_deletes s)
              | Some e =>
                  if fe_deleting e
                  then mkTR (r_entries s) (r_next s) (set_opc s i t (OFWait (fe_id e))) (r_deletes s)
                  else if 1 <? fe_refs e
                       then mkTR (eset (r_entries s) k (Some (mkFE (fe_id e) (pred (fe_refs e)) false))) (r_next s)
                                 (set_opc s i t ODone) (r_deletes s)
                       else mkTR (eset (r_entries s) k None) (r_next s)
                                 (broadcast (set_opc s i t ODone) (fe_id e)) (r_deletes s)
              end
          | _ => s
          end
      | OFWoken =>
          match r_entries s k with
          | None => mkTR (r_entries s) (r_next s) (set_opc s i t ODone) (r_deletes s)
          | Some e =>
              if fe_deleting e
              then mkTR (r_entries s) (r_next s) (set_opc s i t (OFWait (fe_id e))) (r_deletes s)
              else if 1 <? fe_refs e
                   then mkTR (eset (r_entries s) k (Some (mkFE (fe_id e) (pred (fe_refs e)) false))) (r_next s)
                             (set_opc s i t ODone) (r_deletes s)
                   else mkTR (eset (r_entries s) k None) (r_next s)
                             (broadcast (set_opc s i t ODone) (fe_id e)) (r_deletes s)
          end
      | OKernel eid =>
          (* the kernel batch delete; ghost: how many owners the tuple has right now *)
          mkTR (r_entries s) (r_next s) (set_opc s i t (OFinal eid)) (r_deletes s ++ [(k, owners_of s k)])
      | OFinal eid =>
          (* FinalizeRelease *)
          match r_entries s k with
          | Some e =>
              if fe_id e =? eid
              then mkTR (eset (r_entries s) k None) (r_next s) (broadcast (set_opc s i t ODone) eid) (r_deletes s)
              else mkTR (r_entries s) (r_next s) (broadcast (set_opc s i t ODone) eid) (r_deletes s)
          | None => mkTR (r_entries s) (r_next s) (broadcast (set_opc s i t ODone) eid) (r_deletes s)
          end
      | ORWait _ | OFWait _ | ODone => s
      end
  end.

Definition tr_run (recheck : bool) (thr : list (nat * nat)) (sched : list nat) : trstate :=
  fold_left (tr_step recheck) sched (tr_init thr).

(* the property on a state: the entry of a tuple counts exactly its owners (absent when there are none and
   nobody is deleting), and no kernel delete was ever issued while the tuple had an owner *)
Definition refs_match (s : trstate) (k : nat) : bool :=
  match r_entries s k with
  | None => owners_of s k =? 0
  | Some e => if fe_deleting e then (owners_of s k =? 0) && (fe_refs e =? 0) else (fe_refs e =? owners_of s k) && (0 <? fe_refs e)
  end.
Definition deletes_ok (s : trstate) : bool := forallb (fun d => snd d =? 0) (r_deletes s).
