(* C20 — property theorems only.  Each is closed by `exact` of a lemma of C20_Proofs.v.
   All of them quantify over every schedule (any number of signal threads, any interleaving of the
   atomic steps of signal threads, worker, main loop, retirement and release goroutines, any choice
   of worker/completion path = any injected failure), with no bound.  The control flow of the worker
   closure and of the main loop's completion code enters through [tables]; the theorems hold for every
   table that passes the decidable check [tables_ok], and C20_every_path_releases evaluates that
   check on the paths regenerated from cmd/run.go on this run. *)
From Coq Require Import List NArith ZArith Bool Arith.
From Dae Require Import C20_Spec C20_Model C20_Check C20_Proofs.
From Dae.gen Require Import C20_ReloadPaths.
Import ListNotations.

(* Every control-flow path of the reload worker and of the completion code, as extracted from the
   source now, gives the request up exactly once (release, hand-over to the main loop, or process
   exit), lifts exactly one muting scope with it, writes reloadActive/reloading only while it still
   has custody, resets reloadActive, and (completion paths) resets reloading. *)
Theorem C20_every_path_releases : tables_ok gen_tables = true.
Proof. exact C20_every_path_releases_proof. Qed.
Print Assumptions C20_every_path_releases.

(* Serialisation: the history of accept/refuse/release events is a legal history of one lock, and
   the lock's state is the reloadPending flag: never two requests in progress, never a busy answer
   while nothing is in progress, never a release of nothing. *)
Theorem C20_serialised :
  forall (T : tables) (sched : list action), tables_ok T = true ->
    lock_run false (history (run T sched)) = Some (pending (run T sched)).
Proof. exact C20_serialised_proof. Qed.
Print Assumptions C20_serialised.

(* Mutual exclusion in terms of custody: at most one agent (signal thread, queue slot, worker,
   hand-over, main loop, release goroutine) holds an accepted unreleased request, exactly when
   reloadPending is set. *)
Theorem C20_mutual_exclusion :
  forall (T : tables) (sched : list action), tables_ok T = true ->
    let s := run T sched in
    exited s = false -> holders s = (if pending s then 1 else 0).
Proof. exact C20_mutual_exclusion_proof. Qed.
Print Assumptions C20_mutual_exclusion.

(* A refused request changes nothing except the busy report (atomic level: the failed CAS touches
   nothing, the report touches only the progress file; call level: the whole call). *)
Theorem C20_refusal_changes_nothing :
  forall (T : tables) (s : state) (i : nat) (b : bool),
    exited s = false -> pending s = true ->
    (nth_error (sigs s) i = Some (S0 b) ->
       let s' := step T s (ASig i) in
       same_core s s' /\ progress s' = progress s /\ nth_error (sigs s') i = Some (S5 false)) /\
    (nth_error (sigs s) i = Some (S5 false) ->
       let s' := step T s (ASig i) in
       same_core s s' /\ progress s' = (CBusy, busy_msg false (active s))) /\
    (let '(s', r) := call_try_queue T s b in
       r = false /\ same_core s s' /\ fst (progress s') = CBusy).
Proof. exact C20_refusal_changes_nothing_proof. Qed.
Print Assumptions C20_refusal_changes_nothing.

(* Muting: the counter equals scopes opened minus scopes lifted (no decrement is ever lost in the
   `current <= 0` branch), every open scope is owed by exactly the agents that still have an
   EndReloadProxyFailureSuppression ahead of them, and it is 0 whenever nobody is in the middle of
   an operation. *)
Theorem C20_suppression_balanced :
  forall (T : tables) (sched : list action), tables_ok T = true ->
    let s := run T sched in
    mute_run 0 (history s) = Some (supp s) /\
    (exited s = false -> supp s = mute_owed s).
Proof. exact C20_suppression_balanced_proof. Qed.
Print Assumptions C20_suppression_balanced.

(* After every outcome, once everybody has finished what he was doing, dae is back in the initial
   condition: lock free, muting lifted, reloadActive and reloading reset. *)
Theorem C20_settled_free :
  forall (T : tables) (sched : list action), tables_ok T = true ->
    let s := run T sched in
    exited s = false -> settled s = true ->
    pending s = false /\ supp s = 0 /\ active s = false /\ reloading s = false.
Proof. exact C20_settled_free_proof. Qed.
Print Assumptions C20_settled_free.

(* Never wedged: from every reachable state, without any new signal, the agents can run to a settled
   state (or the process has left through log.Fatalln / termination).  Every step used is an enabled
   step of a goroutine that exists; under weak fairness of worker, main loop, retirement and release
   goroutines this is "accepts a new request again". *)
Theorem C20_no_wedge :
  forall (T : tables) (sched : list action), tables_ok T = true ->
    exists sched' : list action,
      forallb (fun a => negb (is_signal a)) sched' = true /\
      let s' := run T (sched ++ sched') in
      exited s' = true \/
      (settled s' = true /\ pending s' = false /\ supp s' = 0 /\ active s' = false /\ reloading s' = false).
Proof. exact C20_no_wedge_proof. Qed.
Print Assumptions C20_no_wedge.

(* Retirement terminates (the liveness step C20_no_wedge rests on): for every budget, every behaviour
   of the old generation's sessions (they may never drain), every --abort/overlap combination and
   every schedule, the drain budget handed to waitForControlPlaneDrain lies in [0, reloadTotalSwitchBudget],
   the drain timer is always armed, its deadline is at most the budget away, and once the budget has
   passed (the goroutine being scheduled) `done` is closed. *)
Theorem C20_retirement_terminates :
  forall (T : tables) (sched : list action) (d : nat) (r : retirement) (k : N), tables_ok T = true ->
    let s := run T sched in
    exited s = false -> nth_error (rets s) d = Some r ->
    (0 <= rt_budget r <= Z.max 0 (t_budget_total T))%Z /\
    rt_pc_of r <> RtWait None /\
    (forall dl, rt_pc_of r = RtWait (Some dl) -> (dl <= now s + Z.to_N (rt_budget r))%N) /\
    ((Z.to_N (rt_budget r) <= k)%N ->
       let s' := run_from T s (retire_schedule T d k) in
       nth d (dones s') false = true /\ exited s' = false).
Proof. exact C20_retirement_terminates_proof. Qed.
Print Assumptions C20_retirement_terminates.

(* ... hence the request whose release waits for that retirement is released and its muting scope
   lifted. *)
Theorem C20_retirement_releases :
  forall (T : tables) (sched : list action) (x d : nat) (r : retirement) (k : N), tables_ok T = true ->
    let s := run T sched in
    exited s = false -> nth_error (releasers s) x = Some (RWait d) -> nth_error (rets s) d = Some r ->
    (Z.to_N (rt_budget r) <= k)%N ->
    let s' := run_from T s (retire_schedule T d k ++ [AReleaser x; AReleaser x; AReleaser x; AReleaser x]) in
    pending s' = false /\ nth_error (releasers s') x = Some (RRun []) /\ supp s' = mute_owed s'.
Proof. exact C20_retirement_releases_proof. Qed.
Print Assumptions C20_retirement_releases.

(* "Accepts again only once the previous generation has retired": done is closed only after the old
   generation's Close() has returned (the tail of the retirement goroutine, with its deferred calls in
   executed order, is regenerated from cmd/reload_manager.go), so the step in which a release goroutine
   leaves `<-retirementDone` - the only way a successful reload ever clears reloadPending - happens only
   when that generation is closed. *)
Theorem C20_release_only_after_close :
  forall (T : tables) (sched : list action) (a : action) (x d : nat), tables_ok T = true ->
    let s := run T sched in
    (nth d (dones s) false = true -> gen_closed s d = true) /\
    (nth_error (releasers s) x = Some (RWait d) ->
     nth_error (releasers (step T s a)) x <> Some (RWait d) -> gen_closed s d = true).
Proof. exact C20_release_only_after_close_proof. Qed.
Print Assumptions C20_release_only_after_close.

(* The order matters: with `close(done)` executed before Close() (a deferred Close registered above
   `defer close(done)`) the lock is free, and a new request is accepted, while the previous generation
   is still being torn down. *)
Definition C20_release_only_after_close_any_tail_full : Prop :=
  forall (T : tables) (sched : list action) (d : nat),
    let s := run T sched in nth d (dones s) false = true -> gen_closed s d = true.
Theorem C20_release_only_after_close_any_tail_refuted :
  exists (T : tables) (sched : list action),
    t_ret_tail T = [TCancel; TCloseDone; TCloseGen; TCleanup; TOther] /\
    let s := run T sched in
    exited s = false /\ gen_closed s 0 = false /\ nth 0 (dones s) false = true /\
    pending s = true /\ count_ev is_accept (history s) = 2 /\ count_ev is_release (history s) = 1.
Proof. exact C20_release_only_after_close_any_tail_refuted_proof. Qed.
Print Assumptions C20_release_only_after_close_any_tail_refuted.

(* The readiness wait of the hand-off stage is bounded: with the deadline an absolute instant fixed
   before the loop, whatever signals arrive and however many, the wait is over by origin + timeout, and
   if neither readiness nor a termination signal arrives its outcome is the timeout (the path that
   answers ReloadError, rolls back and releases). *)
Theorem C20_ready_wait_bounded :
  forall (timeout origin : N) (evs : list (N * wev)),
    (snd (ready_wait RFixed timeout (origin + timeout) evs) <= origin + timeout)%N /\
    (only_ignored evs = true -> ready_wait RFixed timeout (origin + timeout) evs = (WRTimeout, (origin + timeout)%N)).
Proof. exact C20_ready_wait_bounded_proof. Qed.
Print Assumptions C20_ready_wait_bounded.

(* ... and that is how the source arms its timer now (flag regenerated from cmd/run.go: timer created
   before the `for` vs time.After/NewTimer evaluated inside it). *)
Theorem C20_ready_wait_bounded_code :
  ready_deadline_ok gen_ready_deadline = true /\
  forall (timeout origin : N) (evs : list (N * wev)),
    (snd (ready_wait gen_ready_deadline timeout (origin + timeout) evs) <= origin + timeout)%N.
Proof. exact C20_ready_wait_bounded_code_proof. Qed.
Print Assumptions C20_ready_wait_bounded_code.

(* With the timeout re-armed by every ignored signal the bound is false: signals every timeout/2 keep
   the wait going as long as they keep coming. *)
Definition C20_ready_wait_bounded_any_mode_full : Prop :=
  forall (mode : ready_deadline) (timeout origin : N) (evs : list (N * wev)),
    (snd (ready_wait mode timeout (origin + timeout) evs) <= origin + timeout)%N.
Theorem C20_ready_wait_bounded_any_mode_refuted :
  forall n : nat, exists evs : list (N * wev),
    only_ignored evs = true /\
    (snd (ready_wait RRearmed 10 (0 + 10) evs) >= N.of_nat n * 5 + 10)%N.
Proof. exact C20_ready_wait_bounded_any_mode_refuted_proof. Qed.
Print Assumptions C20_ready_wait_bounded_any_mode_refuted.

(* The progress file is replaced atomically: with a staging name of its own for every writer, for EVERY
   interleaving of the create / write / rename / remove steps of two writers and of three writers
   (complete enumeration; a finished writer's extra turns are no-ops) every reader sees, at all times,
   exactly one writer's complete record, and no rename is lost. *)
Theorem C20_progress_write_atomic :
  (forall sched, In sched (all_seqs 2 8) -> pw_safe SUnique (pw_init 2) sched = true) /\
  (forall sched, In sched (all_seqs 3 12) -> pw_safe SUnique (pw_init 3) sched = true).
Proof. exact C20_progress_write_atomic_proof. Qed.
Print Assumptions C20_progress_write_atomic.

(* ... and that is how cmd/reload.go chooses the staging name now (os.CreateTemp with a pattern vs a
   fixed name; regenerated). *)
Theorem C20_progress_write_atomic_code :
  gen_staging = SUnique /\
  (forall sched, In sched (all_seqs 3 12) -> pw_safe gen_staging (pw_init 3) sched = true).
Proof. exact C20_progress_write_atomic_code_proof. Qed.
Print Assumptions C20_progress_write_atomic_code.

(* With one shared staging name it is false: create A, create/truncate B, write A, write B, rename A (the
   progress file now holds a splice of both records), rename B fails (B's answer is never published). *)
Theorem C20_progress_write_shared_staging_refuted :
  pw_safe SShared (pw_init 2) [0; 1; 0; 1; 0; 1] = false /\
  (let s := fold_left (pw_step SShared) [0; 1; 0; 1; 0; 1] (pw_init 2) in pw_read s = None /\ pw_lost s = true).
Proof. exact C20_progress_write_shared_staging_refuted_proof. Qed.
Print Assumptions C20_progress_write_shared_staging_refuted.

(* The `default:` branch of the non-blocking send in tryQueueReloadRequest is dead: a thread that won
   the CAS always finds room in the channel. *)
Theorem C20_send_never_fails :
  forall (T : tables) (sched : list action) (i : nat), tables_ok T = true ->
    let pc := nth_error (sigs (run T sched)) i in
    pc <> Some S3 /\ pc <> Some S4 /\ pc <> Some (S5 true).
Proof. exact C20_send_never_fails_proof. Qed.
Print Assumptions C20_send_never_fails.

(* The quiesce window after the last scope is lifted is a bounded timer. *)
Theorem C20_quiesce_bounded :
  forall (T : tables) (sched : list action),
    let s := run T sched in (until s <= now s + t_quiesce T)%N.
Proof. exact C20_quiesce_bounded_proof. Qed.
Print Assumptions C20_quiesce_bounded.

(* The busy report names the stage: "in progress" while reloadActive, else "still retiring". *)
Theorem C20_busy_message :
  forall (T : tables) (s : state) (i : nat) (f : bool),
    exited s = false -> nth_error (sigs s) i = Some (S5 f) ->
    progress (step T s (ASig i)) = (CBusy, if f || active s then MsgActive else MsgRetiring).
Proof. exact C20_busy_message_proof. Qed.
Print Assumptions C20_busy_message.

(* The same statements for the code as it is now. *)
Theorem C20_code_serialised_and_balanced :
  forall sched : list action,
    let s := run gen_tables sched in
    serialised (history s) /\ in_progress (history s) = Some (if pending s then 1 else 0)
    /\ mute_run 0 (history s) = Some (supp s).
Proof. exact C20_code_serialised_and_balanced_proof. Qed.
Print Assumptions C20_code_serialised_and_balanced.

(* ---------------------------------------------------------------------------------------------
   Two full statements that the faithful model FALSIFIES (findings; the witnesses are replayed on the
   implementation by the check), each with the part that does hold. *)

(* (F1) Full: after every outcome, once nobody is in the middle of an operation, the `dae reload`
   client is let through again (cmd/reload.go sends its signal only when the progress file says Done or
   Error). *)
Definition C20_settled_client_accepts_full : Prop :=
  forall (T : tables) (sched : list action), tables_ok T = true ->
    let s := run T sched in
    exited s = false -> settled s = true -> client_would_send (fst (progress s)) = true.

(* Refuted: a signal whose CompareAndSwap fails just before the holder's clearReloadPending writes its
   busy report just after clearRejectedReloadProgress has run: everything is settled, nothing is in
   progress, and the progress file says busy for good. *)
Theorem C20_settled_client_accepts_refuted :
  exists (T : tables) (sched : list action), tables_ok T = true /\
    let s := run T sched in
    exited s = false /\ settled s = true /\ pending s = false /\ supp s = 0 /\
    client_would_send (fst (progress s)) = false.
Proof. exact C20_settled_client_accepts_refuted_proof. Qed.
Print Assumptions C20_settled_client_accepts_refuted.

(* What holds: the busy report only ever comes from a refusal. *)
Theorem C20_settled_client_accepts_partial :
  forall (T : tables) (sched : list action), tables_ok T = true ->
    let s := run T sched in
    fst (progress s) = CBusy -> 1 <= count_ev is_refuse (history s).
Proof. exact C20_settled_client_accepts_partial_proof. Qed.
Print Assumptions C20_settled_client_accepts_partial.

(* (F2) Full (call granularity, vocabulary of C20_Check): every reload/suspend signal is answered —
   accepted, or refused with the busy report. *)
Definition C20_every_signal_answered_full : Prop :=
  forall (T : tables) (ops : list cop) (o : cop), tables_ok T = true -> is_request o = true ->
    exited (ms (mrun T ops)) = false -> request_answered T (mrun T ops) o = true.

(* Refuted: a signal that arrives while the main loop sits in waitReloadReadyOrSignal is dropped
   without any report. *)
Theorem C20_every_signal_answered_refuted :
  exists (T : tables) (ops : list cop) (o : cop), tables_ok T = true /\ is_request o = true /\
    exited (ms (mrun T ops)) = false /\ request_answered T (mrun T ops) o = false.
Proof. exact C20_every_signal_answered_refuted_proof. Qed.
Print Assumptions C20_every_signal_answered_refuted.

(* What holds: every signal that reaches tryQueueReloadRequest is answered, in every state. *)
Theorem C20_every_signal_answered_partial :
  forall (T : tables) (m : mstate) (b : bool),
    exited (ms m) = false -> request_answered T m (OQueue b) = true.
Proof. exact C20_every_signal_answered_partial_proof. Qed.
Print Assumptions C20_every_signal_answered_partial.

(* A weaker reading of "accepts a new request again once the previous generation has retired" that
   does hold: when the lock is free no release goroutine is still waiting for a retirement. *)
Theorem C20_free_means_nobody_waits :
  forall (T : tables) (sched : list action) (r d : nat), tables_ok T = true ->
    let s := run T sched in
    exited s = false -> pending s = false -> nth_error (releasers s) r <> Some (RWait d).
Proof. exact C20_free_means_nobody_waits_proof. Qed.
Print Assumptions C20_free_means_nobody_waits.

(* ... while the stronger reading (a free lock implies that every retirement that was started has
   finished) is false: the worker's startControlPlaneRetirement comes after beginHandoff, and the main
   loop's finishReloadSuccess may overtake it and release at once. *)
Definition C20_free_implies_retired_full : Prop :=
  forall (T : tables) (sched : list action), tables_ok T = true ->
    let s := run T sched in
    exited s = false -> pending s = false -> forallb (fun x => x) (dones s) = true.
Theorem C20_free_implies_retired_refuted :
  exists (T : tables) (sched : list action), tables_ok T = true /\
    let s := run T sched in
    exited s = false /\ pending s = false /\ forallb (fun x => x) (dones s) = false.
Proof. exact C20_free_implies_retired_refuted_proof. Qed.
Print Assumptions C20_free_implies_retired_refuted.

(* Non-vacuity: a schedule in which a reload is accepted, a second signal is refused meanwhile, the
   worker hands over, the main loop completes, the old generation retires and the release goroutine
   frees the lock; and one in which the worker fails at config load. *)
Example C20_nonvacuous :
  tables_ok demo_tables = true /\
  (let s := run demo_tables demo_schedule_ok in
   settled s = true /\ pending s = false /\ supp s = 0
   /\ history s = [EvAccept; EvMute; EvRefuse; EvRelease; EvUnmute])
  /\ (let s := run demo_tables demo_schedule_mid in
      pending s = true /\ supp s = 1 /\ holders s = 1 /\ settled s = false)
  /\ (let s := run demo_tables demo_schedule_fail in
      settled s = true /\ pending s = false /\ history s = [EvAccept; EvMute; EvRelease; EvUnmute]).
Proof. exact C20_nonvacuous_proof. Qed.
