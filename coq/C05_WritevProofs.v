(* C05 - the gather write: lemmas. *)
From Coq Require Import List NArith Arith Bool Lia.
From Dae Require Import C05_Spec C05_WritevModel.
From Dae.gen Require Import C05_Extracted.
Import ListNotations.
Open Scope nat_scope.

Lemma concat_advance : forall segs n, concat (wv_advance segs n) = skipn n (concat segs).
Proof.
  unfold wv_advance. induction segs as [|s r IH]; intros n; cbn [advance_mut].
  - now rewrite skipn_nil.
  - destruct n as [|m]; [reflexivity|].
    destruct (Nat.leb (length s) (S m)) eqn:E.
    + apply Nat.leb_le in E. specialize (IH (S m - length s)).
      destruct (advance_mut r (S m - length s)) as [p r']. cbn [fst] in *. cbn [concat].
      rewrite skipn_app, IH. rewrite (skipn_all2 s) by lia. reflexivity.
    + apply Nat.leb_gt in E. cbn [fst concat]. rewrite skipn_app.
      replace (S m - length s) with 0 by lia. reflexivity.
Qed.

Lemma firstn_skipn_len : forall n (c : list N), firstn n c ++ skipn (length (firstn n c)) c = c.
Proof.
  intros n c. rewrite firstn_length. destruct (Nat.min_spec n (length c)) as [[H ->]|[H ->]].
  - apply firstn_skipn.
  - rewrite firstn_all2 by lia. rewrite skipn_all. apply app_nil_r.
Qed.

Lemma concat_nonempty : forall segs, concat (nonempty_segs segs) = concat segs.
Proof. induction segs as [|[|x s] r IH]; cbn; [reflexivity|exact IH|now rewrite IH]. Qed.

(* the loop of the code: every byte exactly once, in order *)
Lemma writev_loop_code : forall script segments written wire total w n wire',
  wire ++ concat segments = total -> written = length wire ->
  writev_loop true script segments written wire = (w, n, wire') ->
  prefix_of wire' total /\ (w = WDone -> wire' = total) /\ n = length wire'.
Proof.
  induction script as [|c rest IH]; intros segments written wire total w n wire' Ht Hw H;
    cbn [writev_loop] in H; destruct segments as [|s r].
  - inversion H; subst. cbn [concat] in *. rewrite app_nil_r. repeat split; auto. apply (ex_intro _ []). now rewrite app_nil_r.
  - inversion H; subst. repeat split; auto; [now exists (concat (s :: r))|discriminate].
  - inversion H; subst. cbn [concat] in *. rewrite app_nil_r. repeat split; auto. apply (ex_intro _ []). now rewrite app_nil_r.
  - destruct c as [k| |]; [|eapply IH; eauto|eapply IH; eauto].
    destruct (firstn k (concat (s :: r))) as [|b got] eqn:Eg.
    + inversion H; subst. repeat split; auto; [now exists (concat (s :: r))|discriminate].
    + eapply IH; [| |exact H].
      * rewrite concat_advance. rewrite <- Ht, <- app_assoc. f_equal. rewrite <- Eg. apply firstn_skipn_len.
      * rewrite app_length. lia.
Qed.

Lemma code_advances_per_call : c05_writev_advance_per_call = true.
Proof. reflexivity. Qed.

Lemma writev_intact_proof : forall script segs w n wire,
  writev_all c05_writev_advance_per_call script segs = (w, n, wire) ->
  prefix_of wire (concat segs) /\ (w = WDone -> wire = concat segs) /\ n = length wire.
Proof.
  intros script segs w n wire H. rewrite code_advances_per_call in H. unfold writev_all in H.
  rewrite <- (concat_nonempty segs). eapply writev_loop_code; [| |exact H]; reflexivity.
Qed.

(* advancing by the cumulative count over the in-place trimmed list: a partial write that stops inside a segment,
   then EAGAIN, loses bytes and still reports success *)
Lemma writev_cumulative_refuted_proof :
  exists script segs, let '(w, _, wire) := writev_all false script segs in w = WDone /\ wire <> concat segs.
Proof.
  exists [WAccept 3; WAgain; WAccept 100], [[1;2]; [3;4;5;6]]%N. vm_compute. split; [reflexivity|discriminate].
Qed.

Lemma writev_witness :
  writev_all false [WAccept 3; WAgain; WAccept 100] [[1;2]; [3;4;5;6]]%N = (WDone, 5, [1;2;3;5;6]%N)
  /\ writev_all true [WAccept 3; WAgain; WAccept 100] [[1;2]; [3;4;5;6]]%N = (WDone, 6, [1;2;3;4;5;6]%N).
Proof. vm_compute. split; reflexivity. Qed.
