(* C05 - property theorems only.  Each is closed by `exact` of a lemma of C05_Proofs.v. *)
From Coq Require Import List NArith Bool.
From Dae Require Import C05_Spec C05_Model C05_Proofs.
From Dae.gen Require Import C05_Extracted.
Import ListNotations.
Open Scope N_scope.

(* The relay engine (relayCore.run + defaultRelayCopyEngine.Copy), over EVERY wrapper stack (any nesting of
   bufioConn / prefixedConn / ConnSniffer with any buffered bytes and any sticky non-EOF error), every
   segmentation and timing of both streams, either TIOCINQ answer, either goroutine interleaving, every grace
   period and every number of steps: what each side has received is a prefix of what the wrappers held plus what
   the socket delivered - nothing lost, duplicated or reordered across the hand-overs - and it is all of it
   whenever that direction ended by passing the end of stream on. *)
Theorem C05_relay_bytes_intact :
  forall grace pend prio stack L R start,
    no_eof_err stack ->
    let y := fst (run_relay grace pend prio stack L R start) in
    prefix_of (d_out (y_l2r y)) (pending stack ++ unread L) /\
    prefix_of (d_out (y_r2l y)) (unread R) /\
    (shut_clean (y_l2r y) = true -> d_out (y_l2r y) = pending stack ++ unread L) /\
    (shut_clean (y_r2l y) = true -> d_out (y_r2l y) = unread R).
Proof. exact run_relay_intact. Qed.
Print Assumptions C05_relay_bytes_intact.

(* Whole connection (handleConn prologue + relay): full statement. *)
Definition C05_bytes_intact_full : Prop :=
  forall p grace pend prio client server, bytes_intact_stmt p grace pend prio client server.

(* The faithful model falsifies it: a first frame on port 53 that parses as a DNS *response* is Discarded by
   readDnsMsgFromBufio and the connection is then relayed without it. *)
Theorem C05_bytes_intact_refuted :
  exists p grace pend prio client server, ~ bytes_intact_stmt p grace pend prio client server.
Proof. exact bytes_intact_refuted_proof. Qed.
Print Assumptions C05_bytes_intact_refuted.

(* Everything else: for every path of the prologue (port 53 or not, sniffing or not, every verdict of the
   sniffing parsers, every room offered to the reads), every script of both sides, the bytes are intact. *)
Theorem C05_bytes_intact_partial :
  forall p grace pend prio client server,
    p_dns p <> DnsResponse -> bytes_intact_stmt p grace pend prio client server.
Proof. exact bytes_intact_partial_proof. Qed.
Print Assumptions C05_bytes_intact_partial.

(* No read deadline of dae's protocol detection is armed on the client socket when the relay starts. *)
Definition C05_no_stale_deadline_full : Prop :=
  forall p s0, k_dl s0 = None -> k_dl (ps_sock (prologue p s0 0)) = None.

Theorem C05_no_stale_deadline_refuted :
  exists p s0, k_dl s0 = None /\ k_dl (ps_sock (prologue p s0 0)) <> None.
Proof. exact no_stale_deadline_refuted_proof. Qed.
Print Assumptions C05_no_stale_deadline_refuted.

Theorem C05_no_stale_deadline_partial :
  forall p s0 now0, p_port53 p = false -> k_dl s0 = None -> k_dl (ps_sock (prologue p s0 now0)) = None.
Proof. exact no_stale_deadline_partial_proof. Qed.
Print Assumptions C05_no_stale_deadline_partial.

(* what the armed deadline does to a healthy connection (SSH banner to port 53, more data 7 s later) *)
Theorem C05_stale_deadline_cuts :
  let o := connection w_p53 c05_half_close_ms false true w_client53 w_server in
  o_up o = w_ssh /\ o_err o = true /\ o_end o = 5000.
Proof. exact stale_deadline_cuts_proof. Qed.
Print Assumptions C05_stale_deadline_cuts.

(* The sniff window expiring (or the client ending its stream while the parser wants more) leaves no error
   behind in the reader: for every sequence of parser verdicts, read sizes, stack below and script.
   (Refuted before the repair 9ef4b71 of Sniffer.dataError; the former witness is the example below.) *)
Theorem C05_sniff_leaves_no_timeout_error :
  forall answers dl buf c s now buf' derr c' s' t spin,
    sniff_rounds answers dl buf c s now = (buf', derr, c', s', t, spin) ->
    derr <> Some ETimeout /\ derr <> Some EEof.
Proof. exact sniff_rounds_no_timeout. Qed.
Print Assumptions C05_sniff_leaves_no_timeout_error.

Example C05_nonvacuous_sniff_timeout :
  let o := connection w_psniff c05_half_close_ms false true w_client_tls w_server in
  o_start o = 1000 /\ o_dl_at_start o = None /\ o_up o = w_tls_part ++ [9;9;9] /\ o_up_shut o = true /\ o_err o = false.
Proof. exact sniff_timeout_harmless_example. Qed.

(* Each end of stream is passed on as a clean write-shutdown exactly when the spec expects it. *)
Definition C05_half_close_full : Prop :=
  forall p grace pend prio client server, half_close_stmt p grace pend prio client server.

(* refuted: behind a wrapper (ConnSniffer / prefixedConn / bufioConn) the client conn has no CloseWrite *)
Theorem C05_half_close_refuted :
  exists p grace pend prio client server, ~ half_close_stmt p grace pend prio client server.
Proof. exact half_close_refuted_proof. Qed.
Print Assumptions C05_half_close_refuted.

(* Non-vacuity: a plain connection with both half-closes, and the grace period cutting late server data. *)
Example C05_nonvacuous_half_close :
  let client := mkSide [mkChunk 0 [1;2;3]; mkChunk 300 [4;5]] (Some 400) in
  let server := mkSide [mkChunk 110 [7;8]; mkChunk 9010 [9]] (Some 9510) in
  let o := connection (mkP false false 1000 DnsErr []) c05_half_close_ms false true client server in
  o_up o = [1;2;3;4;5] /\ o_down o = [7;8;9] /\ o_up_shut o = true /\ o_down_shut o = true
  /\ o_cw_up o = (1, 400, 5) /\ o_cw_down o = (1, 9510, 3) /\ o_err o = false.
Proof. exact half_close_plain_example. Qed.

Example C05_nonvacuous_grace :
  let client := mkSide [mkChunk 0 [1]] (Some 400) in
  let server := mkSide [mkChunk 10390 [7]; mkChunk 10410 [8]] None in
  let o := connection (mkP false false 1000 DnsErr []) c05_half_close_ms false true client server in
  o_down o = [7] /\ o_end o = 10400 /\ o_err o = true /\ o_up_shut o = true.
Proof. exact grace_example. Qed.
