(* C05 - property theorems only.  Each is closed by `exact` of a lemma of C05_Proofs.v / C05_HalfClose.v / C05_Delay.v. *)
From Coq Require Import List NArith ZArith Bool.
From Dae Require Import C05_Spec C05_Model C05_Proofs C05_HCDefs C05_HalfClose C05_Delay C05_PoolModel C05_PoolProofs C05_BufioModel C05_BufioProofs C05_SpliceModel C05_SpliceProofs C05_ReadyModel C05_ReadyProofs C05_LoopModel C05_LoopProofs C05_WritevModel C05_WritevProofs.
From Dae.gen Require Import C05_Extracted.
Import ListNotations.
Open Scope N_scope.

(* The relay engine (relayCore.run + defaultRelayCopyEngine.Copy), over EVERY wrapper stack (any nesting of
   bufioConn / prefixedConn / ConnSniffer with any buffered bytes and any sticky non-EOF error), every
   segmentation and timing of both streams, either TIOCINQ answer, either goroutine interleaving, every grace
   period and every number of steps: what each side has received is a prefix of what the wrappers held plus what
   the socket delivered - nothing lost, duplicated or reordered across the hand-overs - and it is all of it
   whenever that direction ended by passing the end of stream on. *)
Theorem C05_relay_bytes_intact :
  forall grace pend prio stack L R start,
    no_eof_err stack ->
    let y := fst (run_relay grace pend prio stack L R start) in
    prefix_of (d_out (y_l2r y)) (pending stack ++ unread L) /\
    prefix_of (d_out (y_r2l y)) (unread R) /\
    (shut_clean (y_l2r y) = true -> d_out (y_l2r y) = pending stack ++ unread L) /\
    (shut_clean (y_r2l y) = true -> d_out (y_r2l y) = unread R).
Proof. exact run_relay_intact. Qed.
Print Assumptions C05_relay_bytes_intact.

(* Whole connection (handleConn prologue + relay), every path of the prologue (port 53 or not, every verdict of
   the DNS parser and of the sniffing parsers, every room offered to the reads, negative cache or not), every
   script of both sides: the bytes are intact in both directions. *)
Theorem C05_bytes_intact :
  forall p grace pend prio client server, bytes_intact_stmt p grace pend prio client server.
Proof. exact bytes_intact_proof. Qed.
Print Assumptions C05_bytes_intact.

(* No read deadline of dae's protocol detection is armed on the client socket when the relay starts. *)
Theorem C05_no_stale_deadline :
  forall p s0 now0,
    k_dl s0 = None ->
    match ps_conn (prologue p s0 now0) with
    | Some _ => k_dl (ps_sock (prologue p s0 now0)) = None
    | None => True
    end.
Proof. exact no_stale_deadline_proof. Qed.
Print Assumptions C05_no_stale_deadline.

(* The sniff window expiring (or the client ending its stream while the parser wants more) leaves no error
   behind in the reader: for every sequence of parser verdicts, read sizes, stack below and script. *)
Theorem C05_sniff_leaves_no_timeout_error :
  forall answers dl buf c s now buf' derr c' s' t spin,
    sniff_rounds answers dl buf c s now = (buf', derr, c', s', t, spin) ->
    derr <> Some ETimeout /\ derr <> Some EEof.
Proof. exact sniff_rounds_no_timeout. Qed.
Print Assumptions C05_sniff_leaves_no_timeout_error.

(* Half-close and grace, against the spec: for every path of the prologue that hands the connection to the relay
   (every wrapper stack it can build), every time-ordered script of both sides, every grace period > 0, either
   TIOCINQ answer and either goroutine interleaving, the outcome IS the expectation of the spec: each side
   receives exactly the chunks that arrive before the cut (the other side's end of stream + grace, if that came
   first), each end of stream is passed on as a clean write-shutdown after all its bytes exactly when it is seen
   before the cut, and the connection stays up exactly when no end of stream was seen. *)
Theorem C05_half_close :
  forall p grace pend prio client server,
    wf_side client -> wf_side server -> 0 < grace ->
    let o := connection p grace pend prio client server in
    let x := expect grace (o_start o) client server in
    o_handled_dns o = false ->
    o_up o = x_up x /\ o_down o = x_down x /\
    o_up_shut o = x_up_shut x /\ o_down_shut o = x_down_shut x /\ o_alive o = x_alive x.
Proof. exact half_close_proof. Qed.
Print Assumptions C05_half_close.

(* The grace period is counted from the end of stream, not from the start of the relay: whenever a direction's
   step ends cleanly at time t - t being the completion time of THAT read, which for a socket read reporting
   end of stream is max(now, eof instant) (sock_read_eof_time) - the deadline armed on the socket it writes to
   is exactly t + grace and the relay's clock is t, for every relay state (hence every script, connection age,
   stack and interleaving).  C05_half_close is the observable consequence (the other direction is cut at
   "end of stream seen + grace" and nowhere else); this theorem pins the mechanism itself. *)
Theorem C05_grace_from_eof :
  forall grace pend y,
    (forall d' s' t, dir_step pend (y_l2r y) (y_L y) (y_now y) = (d', s', t) -> d_phase d' = PDone None ->
       k_dl (y_R (advance grace pend true y)) = Some (t + grace) /\ y_now (advance grace pend true y) = t
       /\ k_closed (y_R (advance grace pend true y)) = k_closed (y_R y) /\ y_L (advance grace pend true y) = s')
    /\
    (forall d' s' t, dir_step false (y_r2l y) (y_R y) (y_now y) = (d', s', t) -> d_phase d' = PDone None ->
       k_dl (y_L (advance grace pend false y)) = Some (t + grace) /\ y_now (advance grace pend false y) = t
       /\ k_closed (y_L (advance grace pend false y)) = k_closed (y_L y) /\ y_R (advance grace pend false y) = s').
Proof. intros grace pend y. split; [exact (grace_from_eof_left grace pend y)|exact (grace_from_eof_right grace pend y)]. Qed.
Print Assumptions C05_grace_from_eof.

Theorem C05_eof_read_time :
  forall now n s r s' t, sock_read now n s = (r, s', t) -> r_err r = Some EEof ->
    exists e, k_eof s = Some e /\ t = N.max now e.
Proof. exact sock_read_eof_time. Qed.
Print Assumptions C05_eof_read_time.

(* a connection three grace periods old: the reply that comes half a grace period after the client's end of
   stream is delivered and both ends of stream are passed on *)
Example C05_nonvacuous_old_connection :
  let client := mkSide [mkChunk 0 [1;2]; mkChunk 29900 [3]] (Some 30000) in
  let server := mkSide [mkChunk 110 [7]; mkChunk 35010 [8;9]] (Some 35110) in
  let o := connection (mkP 22 1000 false 2 false DnsErr []) c05_half_close_ms false true client server in
  o_up o = [1;2;3] /\ o_down o = [7;8;9] /\ o_up_shut o = true /\ o_down_shut o = true
  /\ o_cw_up o = (1, 30000, 3) /\ o_cw_down o = (1, 35110, 3) /\ o_err o = false.
Proof. vm_compute. repeat split. Qed.

(* Detection delays the connection by no more than the sum of the windows of the stages that ran (C05_Spec). *)
Theorem C05_detection_delay_bounded :
  forall (p : pcase) (s0 : sock) (now0 : N),
    let ps := prologue p s0 now0 in
    ps_now ps <= now0 + allowed_delay c05_dns_first_timeout_ms (p_sniff_ms p)
                                      (ps_ran_dns ps) (ps_ran_prefetch ps) (ps_ran_sniff ps)
    /\ now0 <= ps_now ps.
Proof. exact delay_bounded_proof. Qed.
Print Assumptions C05_detection_delay_bounded.

(* Buffer ownership (C05_PoolModel): the prologue over the process-wide probe-buffer pool.  The result of a
   connection's prologue does not depend on the pool it started with, and whatever any other connections do to
   the pool afterwards (h_later: ANY later pool state, hence every interleaving of any number of other prologues
   and relays), the relay finds exactly the wrapper stack - and so exactly the held bytes - that this
   connection's own reads produced: nothing it holds shares storage with a buffer that went back to the pool. *)
Theorem C05_prefix_private :
  forall p s0 now0 h h_later,
    let '(ps, _, parked) := prologue_h false p s0 now0 h in
    ps = prologue p s0 now0 /\ stack_at_relay h_later ps parked = ps_conn (prologue p s0 now0).
Proof. exact prefix_private_proof. Qed.
Print Assumptions C05_prefix_private.

(* k connections probed one after the other over one pool, all relays starting afterwards: every connection
   gets the stack of its single-connection prologue (so the single-connection theorems above apply to each). *)
Theorem C05_connections_independent :
  forall conns h,
    stacks_at_relay false conns h = map (fun c => ps_conn (prologue (fst c) (snd c) 0)) conns.
Proof. exact connections_independent_proof. Qed.
Print Assumptions C05_connections_independent.

(* The model variant that keeps a slice of the pooled buffer (prefetched = buf[:n:n]) is refuted: the second
   connection's probe overwrites the first connection's parked prefix. *)
Theorem C05_prefix_alias_refuted : ~ connections_independent_stmt true.
Proof. exact alias_refuted_proof. Qed.
Print Assumptions C05_prefix_alias_refuted.

Example C05_nonvacuous_alias_witness :
  map (fun o => match o with Some c => pending c | None => [] end) (stacks_at_relay true w_conns (mkHeap [] []))
  = [firstn 16 w_socks; firstn 16 w_socks]
  /\ map (fun o => match o with Some c => pending c | None => [] end) (stacks_at_relay false w_conns (mkHeap [] []))
  = [firstn 16 w_ssh16; firstn 16 w_socks].
Proof. exact alias_witness_bytes. Qed.

(* The port-53 detection reader as storage (C05_BufioModel): TakeRelayPrefix hands out a view INTO bufio's
   internal buffer and tryRelayGatherWrite may Read once before it writes that view.  With the reader handleConn
   builds (size c05_bufio_size, extracted from the source: bufio.NewReader = 4096) and the relay buffer
   (c05_relay_buf = 32768 >= 4096), that Read takes bufio's "large read, empty buffer" branch - it goes straight
   into the relay buffer and never touches the internal buffer - so for every reader state, every pending input
   and either TIOCINQ answer the bytes written are exactly the buffered bytes followed by the bytes just read,
   and nothing is lost or duplicated. *)
Theorem C05_bufio_prefix_safe :
  forall pend b incoming,
    let '(written, b2, rest) := gather c05_bufio_size c05_relay_buf pend b incoming in
    written = buffered b ++ (if pend then take c05_relay_buf incoming else [])
    /\ written ++ buffered b2 ++ rest = buffered b ++ incoming.
Proof. exact bufio_prefix_safe_proof. Qed.
Print Assumptions C05_bufio_prefix_safe.

(* the variant with a reader larger than the relay buffer (NewReaderSize(lConn, 2+65535)) is refuted: the Read
   refills the internal buffer from offset 0 and overwrites the unsent prefix *)
Theorem C05_bufio_large_reader_refuted :
  exists b incoming,
    let '(written, _, _) := gather 65537 c05_relay_buf true b incoming in
    written <> buffered b ++ take c05_relay_buf incoming.
Proof. exact large_reader_refuted_proof. Qed.
Print Assumptions C05_bufio_large_reader_refuted.

Example C05_nonvacuous_bufio_reader :
  fst (fst (gather 65537 c05_relay_buf true w_reader [1;2;3])) = [1;2;3;101;108;108;111; 1;2;3]
  /\ fst (fst (gather c05_bufio_size c05_relay_buf true w_reader [1;2;3])) = [0;5;104;101;108;108;111; 1;2;3].
Proof. exact large_reader_witness. Qed.

(* The splice fast path and its pipe pool (C05_SpliceModel; where pipe.data is assigned is extracted from
   relaySpliceCopyExact, so code_flags IS the code).  Invariant, at EVERY exit of the loop (ctx seen at the loop
   top, end of stream, failing fill, failing drain, zero drain) and for every kernel behaviour (any fill sizes,
   any partial drains): the recorded count equals the bytes really in the pipe, and bytes written ++ bytes in the
   pipe ++ bytes still in the socket = the stream. *)
Theorem C05_splice_recorded_is_actual :
  forall its src p inPipe out x src' p' out' src0,
    pp_data p = Z.of_N (len (pp_bytes p)) -> inPipe = len (pp_bytes p) ->
    out ++ pp_bytes p ++ src = src0 ->
    splice_loop code_flags its src p inPipe out = (x, src', p', out') ->
    pp_data p' = Z.of_N (len (pp_bytes p')) /\ out' ++ pp_bytes p' ++ src' = src0.
Proof.
  intros its src p inPipe out x src' p' out' src0.
  exact (splice_loop_inv code_flags its src p inPipe out x src' p' out' src0
           (proj1 code_updates_every_splice) (proj2 code_updates_every_splice)).
Qed.
Print Assumptions C05_splice_recorded_is_actual.

(* Hence, with putRelaySplicePipe's rule (data != 0 -> close), for every history of connection directions over
   the pool - any number of them, any oracle per iteration, cancellation at any loop top, every exit, pool reuse
   in any order - every pipe the pool hands out is empty, and what each direction wrote is a prefix of ITS OWN
   stream: the connections stay independent over the splice path too. *)
Theorem C05_splice_pool_clean :
  forall conns pl outs pl',
    pool_clean pl -> run_history code_flags conns pl = (outs, pl') ->
    pool_clean pl' /\ Forall2 (fun c out => prefix_of out (snd c)) conns outs.
Proof. exact splice_pool_clean_proof. Qed.
Print Assumptions C05_splice_pool_clean.

(* each pool operation on its own keeps the pool clean (so any interleaving of gets and puts does) *)
Theorem C05_splice_pool_ops :
  (forall pl, pool_clean pl -> pipe_clean (fst (pool_get pl)) /\ pool_clean (snd (pool_get pl))) /\
  (forall pl p, pool_clean pl -> pp_data p = Z.of_N (len (pp_bytes p)) -> pool_clean (pool_put pl p)).
Proof. split; [exact pool_get_clean|exact pool_put_clean]. Qed.
Print Assumptions C05_splice_pool_ops.

(* "record the stranded bytes only on the two failing drain exits" is refuted: ctx seen at the loop top after
   a partial drain returns a non-empty pipe to the pool *)
Theorem C05_splice_record_on_failing_exits_refuted :
  exists conns pl, pool_clean pl /\
    ~ (pool_clean (snd (run_history seed_flags conns pl)) /\
       Forall2 (fun c out => prefix_of out (snd c)) conns (fst (run_history seed_flags conns pl))).
Proof. exact splice_seed_refuted_proof. Qed.
Print Assumptions C05_splice_record_on_failing_exits_refuted.

Example C05_nonvacuous_splice :
  fst (run_history seed_flags [w_conn1; w_conn2] []) = [[1]; [2;3]]
  /\ fst (run_history code_flags [w_conn1; w_conn2] []) = [[1]; [9;8]]
  /\ map pp_bytes (snd (run_history code_flags [w_conn1; w_conn2] [])) = [[]].
Proof. exact splice_witness. Qed.

(* The Sniffer's dataReady signal (C05_ReadyModel; the number of close(s.dataReady) on each way out of
   readStreamOnceWithReadDeadline - no error, sniff deadline expired, other error - is extracted from the source
   by interpreting its statements).  After SniffTcp returns, whatever the reads returned and the parsers said in
   any number of rounds, the channel ConnSniffer.TakeRelaySegments / TakeRelayPrefix / Sniffer.Read wait on has been
   closed exactly once: the relay never blocks on it and no close panics.  (The expired sniff deadline is one of
   the exits: "detection never cuts or stalls a healthy connection".) *)
Theorem C05_ready_after_sniff :
  forall rounds st ret,
    sniff_ready code_closes rounds 0 = (st, ret) -> ret = true ->
    receive_blocks st = false /\ close_panics st = false.
Proof. exact ready_after_sniff_proof. Qed.
Print Assumptions C05_ready_after_sniff.

(* and the dataError bookkeeping of the source is the one C05_Model.sniff_rounds assumes *)
Theorem C05_sniffer_errors_as_modelled :
  code_derr ROk = false /\ code_derr RTimeout = false /\ code_derr RErr = true.
Proof. exact code_derr_as_modelled. Qed.
Print Assumptions C05_sniffer_errors_as_modelled.

(* the variant that returns on the expired deadline before closing the channel is refuted *)
Theorem C05_ready_not_closed_on_timeout_refuted :
  exists rounds, let '(st, ret) := sniff_ready seed_closes rounds 0 in ret = true /\ receive_blocks st = true.
Proof. exact ready_seed_refuted_proof. Qed.
Print Assumptions C05_ready_not_closed_on_timeout_refuted.

(* The buffered copy loops over read sequences (C05_LoopModel): a Read may return n > 0 bytes TOGETHER with
   io.EOF or another error (io.Reader contract; TLS <= 1.2 legs, framed outbound conns, Sniffer.Read with a
   pending dataError, prefixedConn.Read).  For relayCopyLoop and relayCopyDirect - the order "write buf[:nr], then
   look at er" is extracted from the source - and for every sequence of read results, the bytes written are
   exactly the bytes returned by the reads up to and including the read that returned the error.  (The relay
   model of C05_relay_bytes_intact already takes read results of this form: rres carries data and error.) *)
Theorem C05_relay_loop_bytes_intact :
  forall reads,
    fst (copy_loop c05_loop_write_first reads []) = returned_until_error reads
    /\ fst (copy_loop c05_direct_write_first reads []) = returned_until_error reads.
Proof. exact relay_loop_intact_proof. Qed.
Print Assumptions C05_relay_loop_bytes_intact.

(* looking at the error before writing is refuted: the bytes that came with the end of stream are dropped *)
Theorem C05_relay_loop_error_first_refuted :
  exists reads, fst (copy_loop false reads []) <> returned_until_error reads.
Proof. exact error_first_refuted_proof. Qed.
Print Assumptions C05_relay_loop_error_first_refuted.

(* The gather write (C05_WritevModel: relayWritevAll + relayAdvanceSegments as a step machine over an oracle of
   per-call results - accept up to n bytes, EAGAIN with re-entry of the callback, EINTR, a zero-length write).
   For every segment list and every sequence of partial acceptances (stopping inside a segment, on a boundary,
   anywhere), what the kernel accepted is a prefix of the concatenation of the segments - every byte exactly once,
   in order - all of it when the function reports success, and the reported count is its length.  That the loop
   hands THIS call's count to relayAdvanceSegments on the remaining list is extracted from the source. *)
Theorem C05_gather_write_intact :
  forall script segs w n wire,
    writev_all c05_writev_advance_per_call script segs = (w, n, wire) ->
    prefix_of wire (concat segs) /\ (w = WDone -> wire = concat segs) /\ n = length wire.
Proof. exact writev_intact_proof. Qed.
Print Assumptions C05_gather_write_intact.

(* recomputing the pending list from the CUMULATIVE count over the in-place trimmed list is refuted *)
Theorem C05_gather_write_cumulative_refuted :
  exists script segs, let '(w, _, wire) := writev_all false script segs in w = WDone /\ wire <> concat segs.
Proof. exact writev_cumulative_refuted_proof. Qed.
Print Assumptions C05_gather_write_cumulative_refuted.

(* Non-vacuity / regression examples: the inputs that refuted the full statements before the repairs. *)
Example C05_nonvacuous_port53_fallback :
  let o := connection w_p53 c05_half_close_ms false true w_client53 w_server in
  o_start o = 5000 /\ o_dl_at_start o = None /\ o_up o = w_ssh ++ [1;2;3] /\ o_up_shut o = true
  /\ o_down o = [65;66;67] /\ o_down_shut o = true /\ o_err o = false.
Proof. exact port53_fallback_example. Qed.

Example C05_nonvacuous_dns_response :
  let o := connection (mkP 53 1000 false 2 false DnsResponse []) 10000 false true
                      (mkSide [mkChunk 0 w_dns_response] (Some 100)) (mkSide [] (Some 50)) in
  o_up o = w_dns_response /\ o_up_shut o = true /\ o_down_shut o = true /\ o_err o = false.
Proof. exact dns_response_example. Qed.

Example C05_nonvacuous_sniff_timeout :
  let o := connection w_psniff c05_half_close_ms false true w_client_tls w_server in
  o_start o = 1000 /\ o_dl_at_start o = None /\ o_up o = w_tls_part ++ [9;9;9] /\ o_up_shut o = true /\ o_err o = false.
Proof. exact sniff_timeout_harmless_example. Qed.

Example C05_nonvacuous_wrapped_half_close :
  let o := connection (mkP 443 1000 false 2 false DnsErr [(false, 4096)]) c05_half_close_ms false true
                      (mkSide [mkChunk 0 w_http] None) (mkSide [mkChunk 110 [65;66;67]] (Some 210)) in
  o_down o = [65;66;67] /\ o_down_shut o = true /\ o_cw_down o = (1, 210, 3) /\ o_end o = 10210 /\ o_err o = true.
Proof. exact wrapped_half_close_example. Qed.

Example C05_nonvacuous_half_close :
  let client := mkSide [mkChunk 0 [1;2;3]; mkChunk 300 [4;5]] (Some 400) in
  let server := mkSide [mkChunk 110 [7;8]; mkChunk 9010 [9]] (Some 9510) in
  let o := connection (mkP 22 1000 false 2 false DnsErr []) c05_half_close_ms false true client server in
  o_up o = [1;2;3;4;5] /\ o_down o = [7;8;9] /\ o_up_shut o = true /\ o_down_shut o = true
  /\ o_cw_up o = (1, 400, 5) /\ o_cw_down o = (1, 9510, 3) /\ o_err o = false.
Proof. exact half_close_plain_example. Qed.

Example C05_nonvacuous_grace :
  let client := mkSide [mkChunk 0 [1]] (Some 400) in
  let server := mkSide [mkChunk 10390 [7]; mkChunk 10410 [8]] None in
  let o := connection (mkP 22 1000 false 2 false DnsErr []) c05_half_close_ms false true client server in
  o_down o = [7] /\ o_end o = 10400 /\ o_err o = true /\ o_up_shut o = true.
Proof. exact grace_example. Qed.
