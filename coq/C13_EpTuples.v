(* C13 — kernel tuple ownership follows the endpoints (endpoint pool model). *)
From Coq Require Import List Arith Bool Lia.
From Dae Require Import C13_Spec C13_Model C13_EpModel C13_Proofs C13_EpProofs.
From Dae.gen Require Import C13_Consts.
Import ListNotations.

Definition enc (n : nat) : option tentry := match n with 0 => None | _ => Some (mkT n false) end.
Definition b2n (b : bool) : nat := if b then 1 else 0.
Definition memb (t : nat) (l : list nat) : bool := existsb (Nat.eqb t) l.

Lemma memb_In t l : memb t l = true <-> In t l.
Proof.
  unfold memb. rewrite existsb_exists. split.
  - intros (x&H&E). apply Nat.eqb_eq in E. now subst.
  - intros H. exists t. split; auto. apply Nat.eqb_refl.
Qed.

(* folding tracker calls over a duplicate-free key list *)
Lemma retain_fold (m : tracker) (c : nat -> nat) ts :
  NoDup ts -> (forall t, m t = enc (c t)) ->
  forall t, fold_left (fun m t => match tr_retain m t with Some m' => m' | None => m end) ts m t
            = enc (c t + b2n (memb t ts)).
Proof.
  revert m c. induction ts as [|x r IH]; intros m c Hnd Hm t; cbn.
  - rewrite Nat.add_0_r. apply Hm.
  - inversion Hnd; subst.
    rewrite (IH _ (fun t => c t + b2n (t =? x))); auto.
    + destruct (t =? x) eqn:E; cbn.
      * apply Nat.eqb_eq in E; subst. assert (memb x r = false) as ->.
        { destruct (memb x r) eqn:M; auto. apply memb_In in M. contradiction. }
        cbn. unfold memb. f_equal. lia.
      * unfold memb. f_equal. lia.
    + intros t0. unfold tr_retain. rewrite (Hm x).
      destruct (c x) eqn:Ec; cbn; unfold tr_set; destruct (t0 =? x) eqn:E; cbn;
        try (apply Nat.eqb_eq in E; subst; rewrite Ec); rewrite ?Hm, ?Nat.add_0_r; rewrite ?Ec; try reflexivity.
      rewrite Nat.add_1_r. reflexivity.
Qed.

Lemma forget_fold (m : tracker) (c : nat -> nat) ts :
  NoDup ts -> (forall t, m t = enc (c t)) ->
  forall t, fold_left (fun m t => match tr_forget m t with Some m' => m' | None => m end) ts m t
            = enc (c t - b2n (memb t ts)).
Proof.
  revert m c. induction ts as [|x r IH]; intros m c Hnd Hm t; cbn.
  - rewrite Nat.sub_0_r. apply Hm.
  - inversion Hnd; subst.
    rewrite (IH _ (fun t => c t - b2n (t =? x))); auto.
    + destruct (t =? x) eqn:E; cbn.
      * apply Nat.eqb_eq in E; subst. assert (memb x r = false) as ->.
        { destruct (memb x r) eqn:M; auto. apply memb_In in M. contradiction. }
        cbn. unfold memb. f_equal. lia.
      * unfold memb. f_equal. lia.
    + intros t0. unfold tr_forget. rewrite (Hm x).
      destruct (c x) as [|[|n]] eqn:Ec; cbn; unfold tr_set; destruct (t0 =? x) eqn:E; cbn;
        try (apply Nat.eqb_eq in E; subst; rewrite Ec); rewrite ?Hm, ?Nat.sub_0_r; rewrite ?Ec; try reflexivity.
Qed.

Lemma release_fold s g ts (c : nat -> nat) :
  NoDup ts -> (forall t, p_tr s g t = enc (c t)) ->
  (forall t, p_tr (release_all s g ts) g t = enc (c t - b2n (memb t ts)))
  /\ (forall g', g' <> g -> p_tr (release_all s g ts) g' = p_tr s g').
Proof.
  unfold release_all. revert s c. induction ts as [|x r IH]; intros s c Hnd Hm; cbn.
  - split; [intros t; rewrite Nat.sub_0_r; apply Hm|auto].
  - inversion Hnd; subst.
    destruct (tr_begin_release (p_tr s g) x) as [m del] eqn:Hb.
    set (s1 := mkP _ _ _ _ _ _ _ _ _).
    assert (HS1 : forall t, p_tr s1 g t = enc (c t - b2n (t =? x))).
    { intros t. unfold s1; cbn. unfold fset. rewrite Nat.eqb_refl.
      unfold tr_begin_release in Hb. rewrite (Hm x) in Hb.
      destruct (c x) as [|[|n]] eqn:Ec; cbn in Hb; inversion Hb; subst; cbn;
        unfold tr_finalize, tr_set; destruct (t =? x) eqn:E; cbn;
        try (apply Nat.eqb_eq in E; subst; rewrite Ec); rewrite ?Hm, ?Nat.sub_0_r; rewrite ?Ec; try reflexivity. }
    destruct (IH s1 (fun t => c t - b2n (t =? x)) H2 HS1) as (A&B). split.
    + intros t. rewrite A. destruct (t =? x) eqn:E; cbn.
      * apply Nat.eqb_eq in E; subst. assert (memb x r = false) as ->.
        { destruct (memb x r) eqn:M; auto. apply memb_In in M. contradiction. }
        cbn. unfold memb. f_equal. lia.
      * unfold memb. f_equal. lia.
    + intros g' Hg. rewrite B; auto. unfold s1; cbn. unfold fset.
      destruct (g' =? g) eqn:E; auto. apply Nat.eqb_eq in E. contradiction.
Qed.

(* counting owners in the endpoint list *)
Definition owns (g t : nat) (u : uep) : bool := (u_owner u =? g) && memb t (u_tuples u).
Definition cnt (eps : list uep) (g t : nat) : nat := length (filter (owns g t) eps).

Lemma cnt_upd eps e u u' g t :
  nth_error eps e = Some u ->
  cnt (upd eps e u') g t + b2n (owns g t u) = cnt eps g t + b2n (owns g t u').
Proof.
  unfold cnt. revert e. induction eps as [|x r IH]; intros [|e] H; cbn in *; try discriminate.
  - inversion H; subst. destruct (owns g t u), (owns g t u'); cbn; lia.
  - specialize (IH e H). destruct (owns g t x); cbn; lia.
Qed.

Lemma cnt_app eps u g t : cnt (eps ++ [u]) g t = cnt eps g t + b2n (owns g t u).
Proof. unfold cnt. rewrite filter_app, app_length. cbn. destruct (owns g t u); cbn; lia. Qed.

Lemma cnt_ge eps e u g t : nth_error eps e = Some u -> b2n (owns g t u) <= cnt eps g t.
Proof.
  unfold cnt. revert e. induction eps as [|x r IH]; intros [|e] H; cbn in *; try discriminate.
  - inversion H; subst. destruct (owns g t u); cbn; lia.
  - specialize (IH e H). destruct (owns g t x); cbn; lia.
Qed.

(* the invariant: tuple lists are duplicate-free, empty once released, and every generation's tracker
   holds exactly one reference per owning endpoint *)
Definition TI (s : pstate) : Prop :=
  (forall e u, nth_error (p_eps s) e = Some u -> NoDup (u_tuples u) /\ (u_cs_closed u = true -> u_tuples u = []))
  /\ (forall g t, p_tr s g t = enc (cnt (p_eps s) g t)).

Definition same_own (u u' : uep) : Prop :=
  u_owner u' = u_owner u /\ u_tuples u' = u_tuples u /\ u_cs_closed u' = u_cs_closed u.

Lemma owns_same u u' g t : same_own u u' -> owns g t u' = owns g t u.
Proof. intros (A&B&_). unfold owns. now rewrite A, B. Qed.

Lemma TI_intro eps tr s' :
  p_eps s' = eps -> p_tr s' = tr ->
  (forall e u, nth_error eps e = Some u -> NoDup (u_tuples u) /\ (u_cs_closed u = true -> u_tuples u = [])) ->
  (forall g t, tr g t = enc (cnt eps g t)) -> TI s'.
Proof. intros E T A B. unfold TI. rewrite E, T. split; assumption. Qed.

Lemma TI_set_ep_benign s e u u' :
  TI s -> nth_error (p_eps s) e = Some u -> same_own u u' -> TI (set_ep s e u').
Proof.
  intros (A&B) Hn Hs. apply (TI_intro (upd (p_eps s) e u') (p_tr s)); try reflexivity.
  - intros e0 u0. rewrite nth_error_upd. destruct (e0 =? e) eqn:E.
    + apply Nat.eqb_eq in E; subst. rewrite Hn. intros H; inversion H; subst.
      destruct Hs as (_&T&C). rewrite T, C. apply (A e u Hn).
    + apply A.
  - intros g t. rewrite B. f_equal.
    pose proof (cnt_upd (p_eps s) e u u' g t Hn) as H. rewrite (owns_same u u' g t Hs) in H. lia.
Qed.

Lemma TI_same s s' : p_eps s' = p_eps s -> p_tr s' = p_tr s -> TI s -> TI s'.
Proof. intros E T (A&B). unfold TI. rewrite E, T. split; assumption. Qed.

Lemma TI_close s e : TI s -> TI (ep_close s e).
Proof.
  intros H. unfold ep_close. destruct (nth_error (p_eps s) e) as [u|] eqn:Hn; [|exact H].
  destruct (u_closed u); [exact H|].
  destruct H as (A&B). destruct (A e u Hn) as (Hnd&Hcs).
  set (s1 := if u_cs_closed u then s else release_all s (u_owner u) (u_tuples u)).
  assert (E1 : p_eps s1 = p_eps s).
  { unfold s1. destruct (u_cs_closed u); auto. apply (release_all_core s). }
  assert (T1 : forall g t, p_tr s1 g t = enc (cnt (p_eps s) g t - b2n (owns g t u))).
  { intros g t. unfold s1. destruct (u_cs_closed u) eqn:C.
    - rewrite B. unfold owns. rewrite (Hcs eq_refl). cbn. rewrite andb_false_r. cbn. now rewrite Nat.sub_0_r.
    - destruct (release_fold s (u_owner u) (u_tuples u) (cnt (p_eps s) (u_owner u)) Hnd (B (u_owner u))) as (R1&R2).
      unfold owns. destruct (u_owner u =? g) eqn:Eg.
      + apply Nat.eqb_eq in Eg; subst g. cbn. apply R1.
      + cbn. rewrite Nat.sub_0_r. rewrite R2; [apply B|]. intros ->. now rewrite Nat.eqb_refl in Eg. }
  set (s2 := match u_drain u with Some g => set_drainc s1 _ | None => s1 end).
  assert (E2 : p_eps s2 = p_eps s /\ p_tr s2 = p_tr s1).
  { unfold s2. destruct (u_drain u); cbn; auto. }
  destruct E2 as (E2&T2).
  apply (TI_intro (upd (p_eps s) e (u_with_close u (if u_failed u then u_conn_closes u else S (u_conn_closes u)))) (p_tr s1)).
  - unfold set_ep, set_eps; cbn. now rewrite E2.
  - unfold set_ep, set_eps; cbn. exact T2.
  - intros e0 u0. rewrite nth_error_upd. destruct (e0 =? e) eqn:E.
    + apply Nat.eqb_eq in E; subst. rewrite Hn. intros H; inversion H; subst. cbn. split; [constructor|auto].
    + apply A.
  - intros g t. rewrite T1. f_equal.
    pose proof (cnt_upd (p_eps s) e u (u_with_close u (if u_failed u then u_conn_closes u else S (u_conn_closes u))) g t Hn) as H.
    assert (owns g t (u_with_close u (if u_failed u then u_conn_closes u else S (u_conn_closes u))) = false) as Hz.
    { unfold owns; cbn. apply andb_false_r. }
    rewrite Hz in H. cbn in H. lia.
Qed.

Lemma TI_retire s e : TI s -> TI (ep_retire s e).
Proof.
  intros H. unfold ep_retire. destruct (nth_error (p_eps s) e) as [u|] eqn:Hn; [|exact H].
  apply TI_close.
  assert (H1 : TI (set_ep s e (u_with_dead u))) by (eapply TI_set_ep_benign; eauto; repeat split).
  destruct (opt_is _ e); [eapply TI_same; [| |exact H1]; reflexivity|exact H1].
Qed.

Lemma memb_app t l1 l2 : memb t (l1 ++ l2) = memb t l1 || memb t l2.
Proof. unfold memb. apply existsb_app. Qed.

Lemma TI_adopt s e g : TI s -> TI (ep_adopt s e g).
Proof.
  intros H. unfold ep_adopt. destruct (nth_error (p_eps s) e) as [u|] eqn:Hn; [|exact H].
  destruct (u_cs_closed u) eqn:Hcs; [exact H|].
  destruct H as (A&B). destruct (A e u Hn) as (Hnd&_).
  set (mv := negb (u_owner u =? g) && negb match u_tuples u with [] => true | _ :: _ => false end).
  set (s1 := if mv then forget_all (retain_all s g (u_tuples u)) (u_owner u) (u_tuples u) else s).
  assert (E1 : p_eps s1 = p_eps s) by (unfold s1; destruct mv; reflexivity).
  assert (T1 : forall g' t, p_tr s1 g' t
                = enc (cnt (p_eps s) g' t + b2n ((g' =? g) && memb t (u_tuples u)) - b2n (owns g' t u))).
  { intros g' t. unfold s1, mv. destruct (u_owner u =? g) eqn:Eo; cbn [negb andb].
    - apply Nat.eqb_eq in Eo. rewrite B. f_equal. unfold owns. rewrite Eo. rewrite (Nat.eqb_sym g g').
      destruct (g' =? g), (memb t (u_tuples u)); cbn; lia.
    - destruct (u_tuples u) as [|x r] eqn:Et; cbn [negb].
      + rewrite B. f_equal. unfold owns. rewrite Et. cbn. rewrite !andb_false_r. cbn. lia.
      + rewrite <- Et in *. unfold forget_all, retain_all. cbn [p_tr set_tr]. unfold fset at 1.
        assert (Hgo : (u_owner u =? g) = false) by exact Eo.
        destruct (g' =? u_owner u) eqn:E1'.
        * apply Nat.eqb_eq in E1'; subst g'. rewrite Hgo. cbn.
          unfold fset. rewrite Hgo.
          rewrite (forget_fold _ (cnt (p_eps s) (u_owner u)) _ Hnd (B (u_owner u))).
          unfold owns. rewrite Nat.eqb_refl. cbn. f_equal. lia.
        * unfold fset. destruct (g' =? g) eqn:E2'.
          -- apply Nat.eqb_eq in E2'; subst g'. cbn.
             rewrite (retain_fold _ (cnt (p_eps s) g) _ Hnd (B g)). unfold owns. rewrite Hgo. cbn. f_equal. lia.
          -- rewrite B. unfold owns. rewrite (Nat.eqb_sym (u_owner u) g'), E1'. cbn. f_equal. lia. }
  assert (Hfin : forall s3 dr, p_eps s3 = p_eps s -> p_tr s3 = p_tr s1 -> TI (set_ep s3 e (u_with_owner u g dr))).
  { intros s3 dr E3 T3.
    apply (TI_intro (upd (p_eps s) e (u_with_owner u g dr)) (p_tr s1)).
    - unfold set_ep, set_eps; cbn. now rewrite E3.
    - unfold set_ep, set_eps; cbn. exact T3.
    - intros e0 u0. rewrite nth_error_upd. destruct (e0 =? e) eqn:E.
      + apply Nat.eqb_eq in E; subst. rewrite Hn. intros H; inversion H; subst. cbn. split; auto. intros; congruence.
      + apply A.
    - intros g' t. rewrite T1. f_equal.
      pose proof (cnt_upd (p_eps s) e u (u_with_owner u g dr) g' t Hn) as H.
      pose proof (cnt_ge (p_eps s) e u g' t Hn) as Hge.
      assert (owns g' t (u_with_owner u g dr) = (g' =? g) && memb t (u_tuples u)) as Hz.
      { unfold owns; cbn. now rewrite (Nat.eqb_sym g g'). }
      rewrite Hz in H. lia. }
  destruct (match u_drain u with Some g' => g' =? g | None => false end).
  - apply Hfin; [exact E1|reflexivity].
  - destruct (u_drain u); apply Hfin; cbn; auto.
Qed.

Lemma TI_create s k d g out : TI s -> TI (fst (ep_create s k d g out)).
Proof.
  intros (A&B). unfold ep_create.
  assert (Hnew : forall u s', u_tuples u = [] -> p_eps s' = p_eps s ++ [u] -> p_tr s' = p_tr s -> TI s').
  { intros u s' Ht E T. apply (TI_intro (p_eps s ++ [u]) (p_tr s)); auto.
    - intros e0 u0 H0. destruct (Nat.lt_ge_cases e0 (length (p_eps s))).
      + rewrite nth_error_app1 in H0 by auto. now apply (A e0).
      + rewrite nth_error_app2 in H0 by auto. destruct (e0 - length (p_eps s)) as [|[|n]]; cbn in H0; try discriminate.
        inversion H0; subst. rewrite Ht. split; [constructor|auto].
    - intros g0 t. rewrite B, cnt_app. unfold owns. rewrite Ht. cbn. rewrite andb_false_r. cbn. f_equal. lia. }
  destruct out as [|[|[|n]]]; cbn [fst]; try (split; assumption); (eapply Hnew; [| reflexivity | reflexivity]; reflexivity).
Qed.

Lemma TI_goc s k d g out : TI s -> TI (fst (ep_goc s k d g out)).
Proof.
  intros H. unfold ep_goc.
  assert (Hrm : forall e, TI (fst (ep_create (ep_close (set_pool s (fset (p_pool s) k None)) e) k d g out))).
  { intros e. apply TI_create, TI_close. eapply TI_same; [| |exact H]; reflexivity. }
  assert (Hru : forall e u, nth_error (p_eps s) e = Some u -> TI (fst (ep_reuse s e g u))).
  { intros e u Hn. unfold ep_reuse. cbn [fst]. apply TI_adopt. eapply TI_set_ep_benign; eauto. repeat split. }
  destruct (p_pool s k) as [e|]; [|now apply TI_create].
  destruct (nth_error (p_eps s) e) as [u|] eqn:Hn; [|now apply TI_create].
  destruct (u_failed u).
  - destruct (is_expired u (p_now s)); [apply Hrm|exact H].
  - destruct (stale s u); [apply Hrm|now apply Hru].
Qed.

Lemma nodup_app (l1 l2 : list nat) :
  NoDup l1 -> NoDup l2 -> (forall x, In x l2 -> ~ In x l1) -> NoDup (l1 ++ l2).
Proof.
  intros H1 H2 Hd. induction l1 as [|y r IH]; cbn; auto.
  inversion H1; subst. constructor.
  - intros Hi. apply in_app_or in Hi. destruct Hi as [Hi|Hi]; [contradiction|]. apply (Hd y Hi). now left.
  - apply IH; auto. intros x Hx Hr. apply (Hd x Hx). now right.
Qed.

Lemma TI_fold (f : pstate -> nat -> pstate) :
  (forall s e, TI s -> TI (f s e)) -> forall l s, TI s -> TI (fold_left f l s).
Proof. intros Hf l. induction l as [|x r IH]; intros s H; cbn; auto. Qed.

Lemma cnt_map f eps g t : (forall u, owns g t (f u) = owns g t u) -> cnt (map f eps) g t = cnt eps g t.
Proof.
  intros Hf. unfold cnt. induction eps as [|x r IH]; cbn; auto. rewrite Hf. destruct (owns g t x); cbn; auto.
Qed.

Lemma TI_pstep s o : TI s -> TI (fst (pstep s o)).
Proof.
  intros H. destruct o as [k d g out|h out|h t|d| | |dt|h]; cbn [pstep].
  - now apply TI_goc.
  - destruct (nth_error (p_handles s) h) as [e|]; [|exact H].
    destruct (nth_error (p_eps s) e) as [u|] eqn:Hn; [|exact H].
    destruct (u_dead u); [exact H|].
    destruct ((0 <? u_conn_closes u) || (out =? 1)); cbn [fst].
    + apply TI_retire. eapply TI_set_ep_benign; eauto. repeat split.
    + eapply TI_set_ep_benign; eauto. repeat split.
  - destruct (nth_error (p_handles s) h) as [e|]; [|exact H].
    destruct (nth_error (p_eps s) e) as [u|] eqn:Hn; [|exact H].
    destruct (u_cs_closed u) eqn:Hcs; [exact H|]. cbn [fst].
    destruct H as (A&B). destruct (A e u Hn) as (Hnd&_).
    set (newk := filter (fun x => negb (existsb (Nat.eqb x) (u_tuples u))) [2 * t; 2 * t + 1]).
    assert (Hnk : NoDup newk /\ (forall x, In x newk -> ~ In x (u_tuples u))).
    { split.
      - unfold newk. apply NoDup_filter. constructor; [intros [E|[]]; lia|constructor; [intros []|constructor]].
      - intros x Hx. unfold newk in Hx. apply filter_In in Hx. destruct Hx as (_&Hx).
        intros Hi. apply memb_In in Hi. unfold memb in Hi. rewrite Hi in Hx. discriminate. }
    destruct Hnk as (Hnk1&Hnk2). clearbody newk.
    apply (TI_intro (upd (p_eps s) e (u_with_tuples u (u_tuples u ++ newk)))
             (fset (p_tr s) (u_owner u)
                (fold_left (fun m t => match tr_retain m t with Some m' => m' | None => m end) newk (p_tr s (u_owner u)))));
      try reflexivity.
    + intros e0 u0. rewrite nth_error_upd. destruct (e0 =? e) eqn:E.
      * apply Nat.eqb_eq in E; subst. rewrite Hn. intros H; inversion H; subst. cbn. split; [|intros; congruence].
        now apply nodup_app.
      * apply A.
    + intros g0 t0. unfold fset.
      pose proof (cnt_upd (p_eps s) e u (u_with_tuples u (u_tuples u ++ newk)) g0 t0 Hn) as Hc.
      assert (Ho : owns g0 t0 (u_with_tuples u (u_tuples u ++ newk)) = (u_owner u =? g0) && (memb t0 (u_tuples u) || memb t0 newk)).
      { unfold owns, memb; cbn. now rewrite existsb_app. }
      assert (Hdis : memb t0 (u_tuples u) = true -> memb t0 newk = false).
      { intros H1. destruct (memb t0 newk) eqn:H2; auto. apply memb_In in H1, H2. exfalso. eapply Hnk2; eauto. }
      destruct (g0 =? u_owner u) eqn:Eg.
      * apply Nat.eqb_eq in Eg; subst g0.
        rewrite (retain_fold _ (cnt (p_eps s) (u_owner u)) newk Hnk1 (B (u_owner u))). f_equal.
        rewrite Ho in Hc. unfold owns in Hc. rewrite Nat.eqb_refl in Hc. cbn in Hc.
        destruct (memb t0 (u_tuples u)) eqn:M1; [rewrite (Hdis eq_refl) in *|]; cbn in *; destruct (memb t0 newk); cbn in *; lia.
      * rewrite B. f_equal. rewrite Ho in Hc. unfold owns in Hc. rewrite (Nat.eqb_sym (u_owner u) g0), Eg in Hc. cbn in Hc. lia.
  - cbn [fst]. apply TI_fold.
    + intros s0 e H0. destruct (nth_error (p_eps s0) e) as [u|]; auto.
      destruct (u_registered u && (u_dialer u =? d) && negb (survives u)); auto. now apply TI_retire.
    + eapply TI_same; [| |exact H]; reflexivity.
  - cbn [fst].
    set (s1 := fold_left _ _ s).
    assert (H1 : TI s1).
    { unfold s1. apply TI_fold; auto.
      intros s0 e H0. destruct (nth_error (p_eps s0) e) as [u|]; auto.
      destruct (opt_is (p_pool s0 (u_key u)) e); auto.
      apply TI_close. eapply TI_same; [| |exact H0]; reflexivity. }
    destruct H1 as (A&B).
    eapply TI_intro; [reflexivity|reflexivity| |]; cbn [p_eps p_tr].
    + intros e u0. rewrite nth_error_map. destruct (nth_error (p_eps s1) e) as [u|] eqn:Hn; cbn; [|discriminate].
      intros Hu; inversion Hu; subst. cbn. apply (A e u Hn).
    + intros g t. rewrite cnt_map; [apply B|]. intros u. reflexivity.
  - cbn [fst]. apply TI_fold; auto.
    intros s0 e H0. destruct (nth_error (p_eps s0) e) as [u|]; auto.
    destruct (opt_is (p_pool s0 (u_key u)) e && _); auto.
    apply TI_close. eapply TI_same; [| |exact H0]; reflexivity.
  - eapply TI_same; [| |exact H]; reflexivity.
  - cbn [fst]. unfold ep_remove.
    destruct (nth_error (p_handles s) h) as [e|]; [|exact H].
    destruct (nth_error (p_eps s) e) as [u|]; [|exact H].
    destruct C13_Consts.remove_checks_identity; [destruct (opt_is _ e)|]; apply TI_close; auto;
      (eapply TI_same; [| |exact H]; reflexivity).
Qed.

Lemma TI_p0 : TI p0.
Proof. split; [intros [|e] u H; discriminate|intros g t; reflexivity]. Qed.

Lemma TI_prun ops : TI (prun ops).
Proof.
  unfold prun. generalize TI_p0. generalize p0. induction ops as [|o r IH]; intros s H; cbn; auto.
  apply IH. now apply TI_pstep.
Qed.

(* after any history: a generation's tracker holds tuple t with exactly as many references as there are
   endpoints of that generation (creator, or last adopter) that registered t and are not closed; in
   particular the kernel entry is gone exactly when its last owner has been closed, and a hand-over to
   another generation moves the reference without dropping it *)
Lemma C13_endpoint_tuples_proof :
  forall ops g t,
    p_tr (prun ops) g t = enc (cnt (p_eps (prun ops)) g t)
    /\ (forall e u, nth_error (p_eps (prun ops)) e = Some u -> u_cs_closed u = true -> owns g t u = false).
Proof.
  intros ops g t. destruct (TI_prun ops) as (A&B). split; [apply B|].
  intros e u Hn Hc. destruct (A e u Hn) as (_&Hcs).
  unfold owns. rewrite (Hcs Hc). cbn. apply andb_false_r.
Qed.
