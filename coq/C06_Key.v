(* C06 — control/packet_sniffer_pool.go: NewPacketSnifferKey and parseQuicInitialFingerprint, the byte
   parsing, index-based as in the source, every access instrumented: an index or slice bound outside
   the datagram is the distinguished Oob (Go panics).  The guard expressions (minimum lengths, the
   `+1` for the SCID length byte, the maximal connection-id length) are extracted from the source
   on every run (gen/C06_Extracted.v).  No proofs. *)
From Coq Require Import List NArith Bool Arith.
From Dae.gen Require Import C06_Extracted.
From Dae Require Import C06_Spec C06_Model.
Import ListNotations.
Open Scope N_scope.

(* data[i] *)
Definition get (data : bytes) (i : N) : rr N :=
  if i <? blen data then Ok (nth (N.to_nat i) data 0) else Err Oob.
(* data[lo:hi] of a slice whose capacity is its length (the strict reading: any excess is Oob) *)
Definition slice (data : bytes) (lo hi : N) : rr bytes :=
  if (lo <=? hi) && (hi <=? blen data) then Ok (sub data lo hi) else Err Oob.

(* parseQuicInitialFingerprint: Ok None = (_, false) *)
Definition fingerprint (data : bytes) : rr (option (bytes * bytes * bytes)) :=
  if negb (is_likely_quic_initial data) then Ok None else
  if blen data <? fp_minlen then Ok None else
  dom ' v <- slice data 1 5 ;
  dom ' dl <- get data 5 ;
  if cid_max <? dl then Ok None else
  let pos := 6 in
  if blen data <? pos + dl + fp_dcid_extra then Ok None else
  dom ' dc <- slice data pos (pos + dl) ;
  let pos := pos + dl in
  dom ' sl <- get data pos ;
  if cid_max <? sl then Ok None else
  let pos := pos + 1 in
  if blen data <? pos + sl + fp_scid_extra then Ok None else
  dom ' sc <- slice data pos (pos + sl) ;
  Ok (Some (v, dc, sc)).

(* NewPacketSnifferKey: the DCID part of the key; Ok None = DCIDLen 0 *)
Definition key_dcid (data : bytes) : rr (option bytes) :=
  if is_likely_quic_initial data && (key_minlen <=? blen data) then
    dom ' dl <- get data 5 ;
    if (0 <? dl) && (dl <=? cid_max) then
      let pos := 6 in
      if pos + dl + key_dcid_extra <=? blen data then
        dom ' d <- slice data pos (pos + dl) ; Ok (Some d)
      else Ok None
    else Ok None
  else Ok None.
