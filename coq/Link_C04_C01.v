(* Link C04 + C01 — why the optimizer-soundness theorems of C04 do not compose with C01's `decide` as they stand.

   C04 reads a rule list on the configuration AST (function name, key, value: strings) with the meaning of one value
   a parameter [atom_sem], and fixes the meaning of a condition as   xorb negated (some value holds).
   C01 reads a routing program on typed values (the output of the function parsers, which neither property models)
   and gives the negated MAC condition an extra clause: `!mac(...)` never holds for a frame without a MAC.
   That clause is not of the xor shape for ANY meaning of the values: no [atom_sem] can make C04's `func_holds`
   coincide with C01's `cond_holds` on both `mac(m)` and `!mac(m)`.  So C04's statements (which hold for every
   atom_sem) say nothing about C01's `decide` on programs with a negated mac() condition; for the other nine
   functions the shapes agree (cond_holds = xorb neg any, lemma below) and the missing piece is only a model of
   the value parsers (component/routing/function_parser.go) turning C04's strings into C01's values. *)
From Coq Require Import List NArith Bool String.
From Dae Require Import C01_Spec C01_Props.
Import ListNotations.
Open Scope N_scope.

(* for every condition other than a negated mac(), C01's meaning IS C04's shape *)
Lemma Link_C01_cond_is_xor : forall (c : cond) (pk : packet),
  (c_kind c = FMac -> c_neg c = true -> p_mac pk <> 0) ->
  cond_holds c pk = xorb (c_neg c) (existsb (fun kv => value_holds (c_kind c) (snd kv) pk) (c_params c)).
Proof.
  intros c pk H. unfold cond_holds. destruct (c_neg c) eqn:En; [|now destruct (existsb _ _)].
  destruct (is_mac (c_kind c)) eqn:Em; cbn [andb negb]; [|now rewrite andb_true_r; destruct (existsb _ _)].
  assert (Hk : c_kind c = FMac) by (destruct (c_kind c); try discriminate; reflexivity).
  specialize (H Hk eq_refl). apply N.eqb_neq in H. rewrite H. cbn [negb]. rewrite andb_true_r. now destruct (existsb _ _).
Qed.

Definition mac_cond (neg : bool) (m : N) : cond := {| c_kind := FMac; c_neg := neg; c_params := [(0, VMac m)] |}.

(* the obstacle: no per-value meaning [a] serves both polarities of mac(m) *)
Theorem Link_C04_C01_negated_mac_not_xor :
  forall m : N, m <> 0 ->
    ~ exists a : packet -> bool,
        (forall pk, cond_holds (mac_cond false m) pk = xorb false (a pk)) /\
        (forall pk, cond_holds (mac_cond true m) pk = xorb true (a pk)).
Proof.
  intros m Hm [a [Hpos Hneg]].
  set (pk := {| p_src := 0; p_dst := 0; p_sport := 0; p_dport := 0; p_l4 := TCP; p_ipver := V4;
                p_domain := ""; p_regex_hits := []; p_pname := repeat 0 16; p_mac := 0; p_dscp := 0 |}).
  specialize (Hpos pk). specialize (Hneg pk).
  rewrite (C01_negated_mac_zero (mac_cond true m) pk eq_refl eq_refl eq_refl) in Hneg.
  unfold cond_holds, mac_cond in Hpos. cbn in Hpos.
  apply N.eqb_neq in Hm. rewrite Hm in Hpos. cbn in Hpos.
  destruct (a pk); cbn in Hpos, Hneg; discriminate.
Qed.
Print Assumptions Link_C04_C01_negated_mac_not_xor.
