(* C14 — code-shaped model (no proofs in this file) of
     component/outbound/filter.go            filterHit, FilterAndAnnotate
     component/outbound/dialer/annotation.go NewAnnotation
     component/outbound/dialer_selection_policy.go NewDialerSelectionPolicyFromGroupParam
     config/config.go                        ParseFunctionListOrString
   Same control flow: the labelled Or-loops with `break loop`, the And-loop with early `return false`,
   the per-dialer loop with `continue nextDialerLoop`, every error return where the code has it (so
   validation is lazy exactly as in the code).  Library calls are oracles / spec functions:
   regexp2.Compile / MatchString -> re_ok / re_match (the process-wide regexpCache only memoises
   successful compilations and is transparent), strings.Contains -> containsb, time.ParseDuration -> dur,
   strconv.Atoi -> parse_int.  A *dialer.Dialer is a node record; s.nodeToTagMap[d] is n_tag. *)
From Coq Require Import List String Ascii ZArith Bool.
From Dae Require Import C14_Spec.
Import ListNotations.
Open Scope string_scope.

Inductive err :=
| EBadRegex        (* "bad regexp in filter ..." *)
| EUnknownKey      (* unsupported filter key "k" in "filter: f()" *)
| EUnknownInput    (* unsupported filter input type *)
| EAnnoFormat      (* apply filter annotation: incorrect latency format *)
| EAnnoKey         (* apply filter annotation: unknown filter annotation *)
| ELenMismatch     (* [CODE BUG]: unmatched annotations length *)
| EPolType         (* unsupported function-list-or-string value type *)
| EPolCount        (* policy should be exact 1 function *)
| EPolNot          (* policy param does not support not operator *)
| EPolFormat       (* invalid "fixed" param format (count / key) *)
| EPolAtoi         (* invalid "fixed" param format: strconv.Atoi ... *)
| EPolUnknown      (* unexpected policy *)
| ESelEmpty        (* no dialer in this group *)
| ESelRange.       (* selected dialer index is out of range *)

Inductive result (A : Type) := Ok (a : A) | Err (e : err).
Arguments Ok {A} a.
Arguments Err {A} e.

Section Model.
  Variable re_ok : string -> bool.
  Variable re_match : string -> string -> bool.
  Variable dur : string -> option Z.

  (* case FilterInput_Name: the Or loop over filter.Params; Ok b = subFilterHit *)
  Fixpoint name_or_loop (name : string) (params : list param) : result bool :=
    match params with
    | [] => Ok false
    | p :: rest =>
        if p_key p =? "regex" then
          if re_ok (p_val p) then
            if re_match (p_val p) name then Ok true (* break loop *) else name_or_loop name rest
          else Err EBadRegex
        else if p_key p =? "keyword" then
          if containsb name (p_val p) then Ok true else name_or_loop name rest
        else if p_key p =? "" then
          if name =? p_val p then Ok true else name_or_loop name rest
        else Err EUnknownKey
    end.

  (* case FilterInput_SubscriptionTag *)
  Fixpoint subtag_or_loop (tag : string) (params : list param) : result bool :=
    match params with
    | [] => Ok false
    | p :: rest =>
        if p_key p =? "regex" then
          if re_ok (p_val p) then
            if re_match (p_val p) tag then Ok true (* break loop2 *) else subtag_or_loop tag rest
          else Err EBadRegex
        else if p_key p =? "" then
          if tag =? p_val p then Ok true else subtag_or_loop tag rest
        else Err EUnknownKey
    end.

  (* filterHit: And over the functions of one line; len(filters)==0 -> true *)
  Fixpoint filter_hit (d : node) (filters : list func) : result bool :=
    match filters with
    | [] => Ok true
    | f :: rest =>
        let sub :=
          if f_name f =? "name" then name_or_loop (n_name d) (f_params f)
          else if f_name f =? "subtag" then subtag_or_loop (n_tag d) (f_params f)
          else Err EUnknownInput in
        match sub with
        | Err e => Err e
        | Ok sub_filter_hit =>
            if Bool.eqb sub_filter_hit (f_not f) then Ok false else filter_hit d rest
        end
    end.

  (* dialer.NewAnnotation: anno.AddLatency threaded through the loop *)
  Fixpoint new_annotation_loop (add_latency : Z) (a : list param) : result Z :=
    match a with
    | [] => Ok add_latency
    | p :: rest =>
        if p_key p =? "add_latency" then
          match dur (p_val p) with
          | None => Err EAnnoFormat
          | Some latency =>
              new_annotation_loop (if Z.eqb add_latency 0 then latency else add_latency) rest
          end
        else Err EAnnoKey
    end.
  Definition new_annotation (a : list param) : result Z := new_annotation_loop 0%Z a.

  (* inner loop `for j, f := range filters`: Ok (Some offset) = hit line j, annotation annotations[j];
     Ok None = no line hit.  annotations is walked in step with filters (lengths are equal here). *)
  Fixpoint lines_loop (d : node) (filters : list line) (annotations : list annotation) : result (option Z) :=
    match filters with
    | [] => Ok None
    | f :: filters' =>
        match filter_hit d f with
        | Err e => Err e
        | Ok true =>
            match new_annotation (hd [] annotations) with
            | Err e => Err e
            | Ok anno => Ok (Some anno)
            end
        | Ok false => lines_loop d filters' (tl annotations)
        end
    end.

  (* outer loop nextDialerLoop *)
  Fixpoint dialers_loop (dialers : list node) (filters : list line) (annotations : list annotation)
    : result (list (node * Z)) :=
    match dialers with
    | [] => Ok []
    | d :: rest =>
        match lines_loop d filters annotations with
        | Err e => Err e
        | Ok hit =>
            match dialers_loop rest filters annotations with
            | Err e => Err e
            | Ok l => Ok (match hit with Some anno => (d, anno) :: l | None => l end)
            end
        end
    end.

  Definition filter_and_annotate (dialers : list node) (filters : list line) (annotations : list annotation)
    : result (list (node * Z)) :=
    if negb (Nat.eqb (List.length filters) (List.length annotations)) then Err ELenMismatch
    else match filters with
         | [] => Ok (map (fun d => (d, 0%Z)) dialers)
         | _ => dialers_loop dialers filters annotations
         end.
End Model.

Definition parse_function_list_or_string (r : policy_raw) : result (list func) :=
  match r with
  | PRString s => Ok [mkFunc s false []]
  | PRFunc f => Ok [f]
  | PRFuncs fs => Ok fs
  | PROther => Err EPolType
  end.

Definition new_policy_fs (fs : list func) : result (policy_kind * Z) :=
  match fs with
  | [f] =>
      if (f_name f =? "random") then Ok (PRandom, 0%Z)
      else if (f_name f =? "min_avg10") then Ok (PMinAvg10, 0%Z)
      else if (f_name f =? "min") then Ok (PMinLast, 0%Z)
      else if (f_name f =? "min_moving_avg") then Ok (PMinMovingAvg, 0%Z)
      else if (f_name f =? "fixed") then
        if f_not f then Err EPolNot
        else match f_params f with
             | [p] =>
                 if negb (p_key p =? "") then Err EPolFormat
                 else match parse_int (p_val p) with
                      | Some i => Ok (PFixed, i)
                      | None => Err EPolAtoi
                      end
             | _ => Err EPolFormat
             end
      else Err EPolUnknown
  | _ => Err EPolCount
  end.

(* NewDialerSelectionPolicyFromGroupParam *)
Definition new_policy (r : policy_raw) : result (policy_kind * Z) :=
  match parse_function_list_or_string r with
  | Err e => Err e
  | Ok fs => new_policy_fs fs
  end.

(* DialerGroup._select, case DialerSelectionPolicy_Fixed (component/outbound/dialer_group.go) *)
Definition select_fixed {A : Type} (dialers : list A) (fixed_index : Z) : result A :=
  if Nat.eqb (List.length dialers) 0 then Err ESelEmpty
  else if (Z.ltb fixed_index 0 || Z.geb fixed_index (Z.of_nat (List.length dialers)))%bool then Err ESelRange
  else match nth_error dialers (Z.to_nat fixed_index) with
       | Some d => Ok d
       | None => Err ESelRange   (* unreachable *)
       end.

(* NewDialerSetFromLinksContext (component/outbound/filter.go): `for subscriptionTag, nodes := range
   tagToNodeList { for _, node := range nodes { d, err := NewFromLinkContext(...); if err != nil { log;
   continue }; s.dialers = append(s.dialers, d); s.nodeToTagMap[d] = subscriptionTag } }`.
   m lists the map entries in the iteration order taken; n_id is the index in s.dialers. *)
Section DialerSet.
  Variable link_name : string -> option string.   (* dialer.NewFromLinkContext: Some name / None = error *)

  Fixpoint nodes_loop (tag : string) (nodes : list string) (dialers : list node) : list node :=
    match nodes with
    | [] => dialers
    | link :: rest =>
        match link_name link with
        | None => nodes_loop tag rest dialers                      (* failed to parse node: continue *)
        | Some nm => nodes_loop tag rest (dialers ++ [mkNode (N.of_nat (List.length dialers)) nm tag])
        end
    end.

  Fixpoint tags_loop (m : tagged) (dialers : list node) : list node :=
    match m with
    | [] => dialers
    | (tag, nodes) :: rest => tags_loop rest (nodes_loop tag nodes dialers)
    end.

  Definition new_dialer_set (m : tagged) : list node := tags_loop m [].
End DialerSet.

(* config/parser.go at group level.  ParamParser on a Group struct: `filter` is repeatable and appends
   the line to Filter and its (possibly nil) annotation to FilterAnnotation; `policy` assigns.
   SectionParser on []Group: `for _, item := range section.Items { elem := reflect.New(elemType).Elem();
   elem.Name = item.Name; SectionParser(elem.Addr(), item); to = append(to, elem) }` - the element is
   allocated INSIDE the loop (coq/gen/C14_Consts.go_group_elem_allocated_in_loop, read from the source). *)
Definition zero_group : group_decl := mkGroup "" [] [] None.

Fixpoint param_parser (to : group_decl) (items : list group_item) : group_decl :=
  match items with
  | [] => to
  | IFilter l a :: rest =>
      param_parser (mkGroup (g_name to) (g_filter to ++ [l]) (g_anno to ++ [a]) (g_policy to)) rest
  | IPolicy r :: rest =>
      param_parser (mkGroup (g_name to) (g_filter to) (g_anno to) (Some r)) rest
  end.

Fixpoint section_parser (sections : list (string * list group_item)) (to : list group_decl) : list group_decl :=
  match sections with
  | [] => to
  | (name, items) :: rest =>
      let elem := zero_group in                                           (* reflect.New(elemType).Elem() *)
      let elem := mkGroup name (g_filter elem) (g_anno elem) (g_policy elem) in   (* Name *)
      section_parser rest (to ++ [param_parser elem items])
  end.

Definition decode_groups (sections : list (string * list group_item)) : list group_decl :=
  section_parser sections [].
