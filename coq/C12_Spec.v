(* C12 — address sets match by CIDR containment, in userspace and in kernel key form.
   Spec: the property in its own terms.  An address is a 128-bit number (IPv4 a.b.c.d is the IPv4-mapped
   IPv6 address ::ffff:a.b.c.d).  A prefix is what the user wrote: family, address (host bits allowed),
   length 0..32 / 0..128.  A prefix contains an address when their leading `len` bits (of the 128) agree;
   a set matches when some member contains the address.  MAC addresses are 48-bit numbers; a MAC set
   matches by equality.  Two rule sets are identical when they have the same members. *)
From Coq Require Import List NArith Bool.
Import ListNotations.
Open Scope N_scope.

Record prefix := { p_is4 : bool; p_addr : N; p_bits : N }.

Definition v4_mapped (a : N) : N := 0xffff00000000 + a.                  (* ::ffff:a.b.c.d *)
Definition addr128 (p : prefix) : N := if p_is4 p then v4_mapped (p_addr p) else p_addr p.
Definition len128 (p : prefix) : N := if p_is4 p then 96 + p_bits p else p_bits p.

Definition wf_prefix (p : prefix) : bool :=
  if p_is4 p then (p_addr p <? 2 ^ 32) && (p_bits p <=? 32)
  else (p_addr p <? 2 ^ 128) && (p_bits p <=? 128).
Definition wf_addr (a : N) : bool := a <? 2 ^ 128.
Definition wf_mac (m : N) : bool := m <? 2 ^ 48.

(* the leading n of the 128 bits of a, as a number *)
Definition top (n a : N) : N := N.shiftr a (128 - n).

Definition contains (p : prefix) (a : N) : bool := top (len128 p) (addr128 p) =? top (len128 p) a.
Definition set_contains (ps : list prefix) (a : N) : bool := existsb (fun p => contains p a) ps.

(* the same, told with bit strings (most significant bit first): the prefix's leading bits are the
   address's leading bits *)
Fixpoint bits_be (w : nat) (a : N) : list bool :=
  match w with O => [] | S w' => N.testbit a (N.of_nat w') :: bits_be w' a end.
Definition bits128 (a : N) : list bool := bits_be 128 a.
Definition prefix_bits (p : prefix) : list bool := firstn (N.to_nat (len128 p)) (bits128 (addr128 p)).

(* MAC sets *)
Definition mac_set_contains (ms : list N) (m : N) : bool := existsb (N.eqb m) ms.

(* identical rule sets: the same members (order and repetition do not matter) *)
Definition identical (ps qs : list prefix) : Prop := forall p, In p ps <-> In p qs.

(* A rule tests one of the packet's addresses against its set, possibly negated; of a list of rules the
   first that hits decides (C01 owns the general rule semantics; here every rule is a single set). *)
Inductive role := RDst | RSrc | RMac.
Record packet := { k_dst : N; k_src : N; k_mac : N }.
Definition target (r : role) (k : packet) : N :=
  match r with RDst => k_dst k | RSrc => k_src k | RMac => k_mac k end.
Record set_rule := { sr_role : role; sr_not : bool; sr_set : list prefix }.
Definition rule_hits (r : set_rule) (k : packet) : bool :=
  xorb (set_contains (sr_set r) (target (sr_role r) k)) (sr_not r).
Fixpoint first_hit (rs : list set_rule) (k : packet) (i : N) : option N :=
  match rs with
  | [] => None
  | r :: rest => if rule_hits r k then Some i else first_hit rest k (i + 1)
  end.

(* DNS response routing: a rule tests the answer's addresses; it hits when some address is in its set
   (negated: when none is); the first hit decides. *)
Fixpoint response_first_hit (rs : list (bool * list prefix)) (ips : list N) (i : N) : option N :=
  match rs with
  | [] => None
  | (nt, ps) :: rest =>
      if xorb (existsb (set_contains ps) ips) nt then Some i else response_first_hit rest ips (i + 1)
  end.
