(* C17 — the token-level spelling of a syntax tree: show = render . toks (used by the round-trip proof). *)
From Coq Require Import List NArith Bool.
From Dae Require Import C17_Spec C17_Model.
Import ListNotations.
Open Scope N_scope.

Definition tok_text (t : tok) : str :=
  match t with
  | TComma => [44] | TLBrace => [123] | TRBrace => [125] | TColon => [58] | TLBrack => [91] | TRBrack => [93]
  | TNot => [33] | TLParen => [40] | TRParen => [41] | TArrow => [45; 62] | TAnd => [38; 38]
  | TId s => s | TNonId s => s
  | TQuote s => 34 :: s ++ [34]          (* only used for QDouble; see tok_text_q *)
  end.

(* a quoted token remembers only its inner text; the spelling needs the quote kind *)
Inductive stok := STok (t : tok) | SQuote (q : N) (inner : str).
Definition stok_tok (s : stok) : tok := match s with STok t => t | SQuote _ i => TQuote i end.
Definition stok_text (s : stok) : str :=
  match s with STok t => tok_text t | SQuote q i => q :: i ++ [q] end.
Definition wf_stok (s : stok) : bool :=
  match s with
  | STok (TId x) => is_id x
  | STok (TNonId x) => is_nonid x
  | STok (TQuote _) => false
  | STok _ => true
  | SQuote q i => ((q =? 34) || (q =? 39)) && quote_ok q false i
  end.
Definition render (ts : list stok) : str := flat_map (fun t => stok_text t ++ [32]) ts.

Definition bare_tok (s : str) : stok := if is_id s then STok (TId s) else STok (TNonId s).
Definition toks_lit (l : lit) : stok :=
  match lit_q l with
  | QBare => bare_tok (lit_text l)
  | QDouble => SQuote 34 (lit_text l)
  | QSingle => SQuote 39 (lit_text l)
  end.
Definition toks_param (p : sparam) : list stok :=
  match sp_key p with
  | Some k => [STok (TId k); STok TColon; toks_lit (sp_val p)]
  | None => [toks_lit (sp_val p)]
  end.
Fixpoint toks_sep {A} (sep : tok) (f : A -> list stok) (l : list A) : list stok :=
  match l with
  | [] => []
  | [x] => f x
  | x :: r => f x ++ STok sep :: toks_sep sep f r
  end.
Definition toks_func (f : sfunc) : list stok :=
  (if sf_not f then [STok TNot] else []) ++ STok (TId (sf_name f)) :: STok TLParen ::
  toks_sep TComma toks_param (sf_params f) ++ [STok TRParen].
Definition toks_outbound (o : soutbound) : list stok :=
  match o with OBare n => [bare_tok n] | OFunc f => toks_func f end.
Definition toks_value (v : svalue) : list stok :=
  match v with
  | VLits ls => toks_sep TComma (fun l => [toks_lit l]) ls
  | VFuncs fs => toks_sep TAnd toks_func fs
  end.
Definition toks_annot (a : list sparam) : list stok :=
  match a with [] => [] | _ => STok TLBrack :: toks_sep TComma toks_param a ++ [STok TRBrack] end.
Fixpoint toks_item (i : sitem) : list stok :=
  match i with
  | IRule conds out => toks_sep TAnd toks_func conds ++ STok TArrow :: toks_outbound out
  | IDecl k v a => STok (TId k) :: STok TColon :: toks_value v ++ toks_annot a
  | ILit l => [toks_lit l]
  | ISection n items => STok (TId n) :: STok TLBrace :: flat_map toks_item items ++ [STok TRBrace]
  end.
Definition toks_section (s : ssection) : list stok :=
  STok (TId (fst s)) :: STok TLBrace :: flat_map toks_item (snd s) ++ [STok TRBrace].
Definition toks_config (c : sconfig) : list stok := flat_map toks_section c.

(* a syntax tree with induction over nested item lists *)
Definition sitem_rect' (P : sitem -> Type) (Q : list sitem -> Type)
  (Hrule : forall c o, P (IRule c o)) (Hdecl : forall k v a, P (IDecl k v a)) (Hlit : forall l, P (ILit l))
  (Hsec : forall n items, Q items -> P (ISection n items))
  (Hnil : Q []) (Hcons : forall i r, P i -> Q r -> Q (i :: r)) : forall i, P i :=
  fix F (i : sitem) : P i :=
    match i with
    | IRule c o => Hrule c o
    | IDecl k v a => Hdecl k v a
    | ILit l => Hlit l
    | ISection n items =>
        Hsec n items ((fix G (l : list sitem) : Q l :=
                         match l with [] => Hnil | x :: r => Hcons x r (F x) (G r) end) items)
    end.
