(* C17 — property theorems only.  Each is closed by `exact` of a lemma of C17_Proofs.v. *)
From Coq Require Import List NArith Bool Relations.
From Dae Require Import C17_Spec C17_Model C17_MergeSpec C17_Schema C17_Build C17_ProofsBuild C17_Proofs.
From Dae.gen Require Import Extracted_C17.
Import ListNotations.
Open Scope N_scope.

(* Every well-formed syntax tree - every production, every quoting style, negations, '&&' chains, outbound
   functions with parameters, nested sections, annotations, any number of sections, items and parameters -
   spelled out and parsed by the model of config_parser.Parse gives back exactly the configuration it
   denotes: same sections, items, keys and values, in order. *)
Theorem C17_roundtrip :
  forall c : sconfig, wf_config c = true -> parse (show c) = POk (denote c).
Proof. exact C17_roundtrip_proof. Qed.
Print Assumptions C17_roundtrip.

(* The model parser answers every byte string: the fuel it is given (length + 1) always suffices. *)
Theorem C17_parse_total :
  forall text : str, parse text <> PFuel.
Proof. exact C17_parse_total_proof. Qed.
Print Assumptions C17_parse_total.

(* Parsing never crashes, whatever the input: on every byte string the model of config_parser.Parse answers
   with sections or with an error - never with the crash outcome (a walker panic). *)
Theorem C17_parse_never_crashes :
  forall text : str, (exists ss, parse text = POk ss) \/ parse text = PErr.
Proof. exact C17_parse_never_crashes_proof. Qed.
Print Assumptions C17_parse_never_crashes.

(* Merging: when the merger answers with a configuration, that configuration is, section by section, the
   including file's items followed by those of every included file in listed order (recursively), over the
   include tree the file system spells; the files read are exactly the nodes of that tree, each once. *)
Theorem C17_merge_order_deterministic :
  forall fuel fs expand entry m vis,
    dfs_merge fuel fs expand [] entry = Ok (m, vis) ->
    exists t, tree_root t = entry /\ resolves fs expand t /\
              (forall n, sm_get m n = merged_items t n) /\
              vis = rev (tree_paths t) /\ NoDup (tree_paths t).
Proof. exact C17_merge_order_proof. Qed.
Print Assumptions C17_merge_order_deterministic.

(* Any include cycle reachable from the entry file is refused, for every include graph. *)
Theorem C17_cycle_rejected :
  forall fuel fs expand entry f,
    clos_refl_trans _ (includes fs expand) entry f ->
    clos_trans _ (includes fs expand) f f ->
    forall r, dfs_merge fuel fs expand [] entry <> Ok r.
Proof. exact C17_cycle_rejected_proof. Qed.
Print Assumptions C17_cycle_rejected.

(* No file is used unless the file system marks it usable (a .dae file inside the entry directory with safe
   permissions that parses). *)
Theorem C17_only_dae_in_dir :
  forall fuel fs expand entry m vis,
    dfs_merge fuel fs expand [] entry = Ok (m, vis) ->
    forall f, In f vis -> exists ss, fs f = FFile ss.
Proof. exact C17_only_dae_in_dir_proof. Qed.
Print Assumptions C17_only_dae_in_dir.

(* Capacity: every rule program with more match sets than the supported size is answered with an error, and
   no program - whatever its size and wherever its domain sets are (their indices are rule indices, below the
   number of match sets) - crashes the builder. *)
Theorem C17_over_limit_is_error :
  forall n ds, max_match_set_len <? n = true -> build_userspace n ds = WErr.
Proof. exact C17_over_limit_is_error_proof. Qed.
Print Assumptions C17_over_limit_is_error.

Theorem C17_build_never_crashes :
  forall n ds, (forall i, In i ds -> i < n) -> build_userspace n ds <> WCrashed.
Proof. exact C17_build_never_crashes_proof. Qed.
Print Assumptions C17_build_never_crashes.

(* Building the typed configuration (model of config.New over ANY schema and ANY decode oracle): an accepted
   configuration has every required section, names no unknown section, and each of its sections passed the
   section parser; an accepted struct section has no text without a key, no unknown key (parameter or nested
   section), routing rules only where the struct takes them, and every required key - so any of these
   defects is answered with an error. *)
Theorem C17_build_contract :
  forall schema decodes tops secs,
    build schema decodes tops secs = BOk ->
    (forall t, In t tops -> t_required t = true -> exists items, lookup_last secs (t_name t) None = Some items) /\
    (forall s, In s secs -> str_eqb (fst s) C17_Build.include_name = true \/
                            exists t, In t tops /\ str_eqb (t_name t) (fst s) = true) /\
    (forall t items, In t tops -> lookup_last secs (t_name t) None = Some items ->
       exists fuel, section_error schema decodes fuel (t_kind t) items = None).
Proof. exact build_contract. Qed.
Print Assumptions C17_build_contract.

Theorem C17_struct_section_contract :
  forall schema decodes fuel sid st items,
    find_struct schema sid = Some st ->
    section_error schema decodes fuel (KStruct sid) items = None ->
    struct_items_ok st items.
Proof. exact struct_section_contract. Qed.
Print Assumptions C17_struct_section_contract.

Theorem C17_nested_section_contract :
  forall schema decodes fuel sid st items n sub f,
    find_struct schema sid = Some st ->
    section_error schema decodes fuel (KStruct sid) items = None ->
    In (GSection n sub) items -> find_field (s_fields st) n = Some f ->
    exists fuel', section_error schema decodes fuel' (f_kind f) sub = None.
Proof. exact nested_section_contract. Qed.
Print Assumptions C17_nested_section_contract.

(* Documented defaults: a key that is not written takes the default of the schema; a written one takes its
   last assignment. *)
Theorem C17_default_applied :
  forall schema sid st f items k,
    find_struct schema sid = Some st -> find_field (s_fields st) k = Some f ->
    (forall p, In (GParamI p) items -> str_eqb (gp_key p) k = false) ->
    effective_string schema sid items k = f_default f.
Proof. exact default_applied. Qed.
Print Assumptions C17_default_applied.

Theorem C17_last_assignment_wins :
  forall schema sid st f items p,
    find_struct schema sid = Some st -> find_field (s_fields st) (gp_key p) = Some f ->
    effective_string schema sid (items ++ [GParamI p]) (gp_key p) = Some (gp_val p).
Proof. exact last_assignment_wins. Qed.
Print Assumptions C17_last_assignment_wins.

(* Non-vacuity: a tree using every production is well formed, and its spelling parses to its denotation. *)
Example C17_nonvacuous :
  wf_config C17_sample_config = true /\ parse (show C17_sample_config) = POk (denote C17_sample_config)
  /\ length (show C17_sample_config) = 180%nat.
Proof. exact C17_nonvacuous_proof. Qed.
