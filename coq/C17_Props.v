(* C17 — property theorems only.  Each is closed by `exact` of a lemma of C17_Proofs.v. *)
From Coq Require Import List NArith Bool Relations Sorting.Sorted.
From Dae Require Import C17_Spec C17_Model C17_MergeSpec C17_Paths C17_Schema C17_Build C17_ProofsBuild C17_ProofsPaths C17_ProofsGlob C17_Capacity C17_ProofsCapacity C17_Proofs.
From Dae.gen Require Import Extracted_C17.
Import ListNotations.
Open Scope N_scope.

(* Every well-formed syntax tree - every production, every quoting style, negations, '&&' chains, outbound
   functions with parameters, nested sections, annotations, any number of sections, items and parameters -
   spelled out and parsed by the model of config_parser.Parse gives back exactly the configuration it
   denotes: same sections, items, keys and values, in order. *)
Theorem C17_roundtrip :
  forall c : sconfig, wf_config c = true -> parse (show c) = POk (denote c).
Proof. exact C17_roundtrip_proof. Qed.
Print Assumptions C17_roundtrip.

(* The model parser answers every byte string: the fuel it is given (length + 1) always suffices. *)
Theorem C17_parse_total :
  forall text : str, parse text <> PFuel.
Proof. exact C17_parse_total_proof. Qed.
Print Assumptions C17_parse_total.

(* Parsing never crashes, whatever the input: on every byte string the model of config_parser.Parse answers
   with sections or with an error - never with the crash outcome (a walker panic). *)
Theorem C17_parse_never_crashes :
  forall text : str, (exists ss, parse text = POk ss) \/ parse text = PErr.
Proof. exact C17_parse_never_crashes_proof. Qed.
Print Assumptions C17_parse_never_crashes.

(* Merging: when the merger answers with a configuration, that configuration is, section by section, the
   including file's items followed by those of every included file in listed order (recursively), over the
   include tree the file system spells; the files read are exactly the nodes of that tree, each once. *)
Theorem C17_merge_order_deterministic :
  forall fuel fs expand entry m vis,
    dfs_merge fuel fs expand [] entry = Ok (m, vis) ->
    exists t, tree_root t = entry /\ resolves fs expand t /\
              (forall n, sm_get m n = merged_items t n) /\
              vis = rev (tree_paths t) /\ NoDup (tree_paths t).
Proof. exact C17_merge_order_proof. Qed.
Print Assumptions C17_merge_order_deterministic.

(* Include lists with globs.  Oracle contract of the directory listing: a directory has no two entries of the
   same name.  Then filepath.Glob's model answers every pattern in lexical order (component by component,
   bytewise), and a successful merge over readEntry's file system and unsqueezeEntries' expansion is: the
   parent first, then for each listed pattern in order its kept matches in lexical order, recursively; a file
   met twice (duplicate or diamond) is never accepted (NoDup of the files read). *)
Theorem C17_glob_sorted :
  forall listing lexists p, nodup_listing listing -> StronglySorted plt (glob listing lexists p).
Proof. exact glob_sorted. Qed.
Print Assumptions C17_glob_sorted.

Theorem C17_glob_sound :
  forall listing lit rest q, In q (glob_comps listing lit rest) ->
    exists names, q = lit ++ names /\ length names = length rest /\
      Forall2 (fun c n => pmatch c n = true) rest names /\
      (forall k, (k < length names)%nat -> exists ns, listing (lit ++ firstn k names) = Some ns /\ In (nth k names []) ns).
Proof. exact glob_comps_sound. Qed.
Print Assumptions C17_glob_sound.

Theorem C17_merge_order_globs :
  forall os listing entry_dir fuel entry m vis,
    nodup_listing listing ->
    dfs_merge fuel (fs_of os entry_dir) (expand_of os listing entry_dir) [] entry = Ok (m, vis) ->
    exists t, tree_root t = entry /\ resolves (fs_of os entry_dir) (expand_of os listing entry_dir) t /\
      (forall n, sm_get m n = merged_items t n) /\ vis = rev (tree_paths t) /\ NoDup (tree_paths t) /\
      (forall written, StronglySorted plt
         (filter (keep os) (glob listing (fun p => negb (match os p with OMissing => true | _ => false end))
                                (pattern_path entry_dir written)))).
Proof. exact merge_order_globs. Qed.
Print Assumptions C17_merge_order_globs.

(* Any include cycle reachable from the entry file is refused, for every include graph. *)
Theorem C17_cycle_rejected :
  forall fuel fs expand entry f,
    clos_refl_trans _ (includes fs expand) entry f ->
    clos_trans _ (includes fs expand) f f ->
    forall r, dfs_merge fuel fs expand [] entry <> Ok r.
Proof. exact C17_cycle_rejected_proof. Qed.
Print Assumptions C17_cycle_rejected.

(* No file is used unless the (abstract) file system marks it usable. *)
Theorem C17_only_usable_files :
  forall fuel fs expand entry m vis,
    dfs_merge fuel fs expand [] entry = Ok (m, vis) ->
    forall f, In f vis -> exists ss, fs f = FFile ss.
Proof. exact C17_only_dae_in_dir_proof. Qed.
Print Assumptions C17_only_usable_files.

(* Against the model of readEntry over what the operating system answers (symbolic links followed by the OS,
   never resolved by dae; paths cleaned for '.', '..' as filepath.Clean does): every file read is named *.dae,
   lies - after cleaning - in the entry configuration directory or below it, is a regular file not writable by
   group nor accessible by others, and parses; a file whose cleaned directory is not the entry directory or
   below it is never read, for every directory tree, include graph and expansion of patterns. *)
Theorem C17_only_dae_in_dir :
  forall os entry_dir fuel expand entry m vis,
    dfs_merge fuel (fs_of os entry_dir) expand [] entry = Ok (m, vis) ->
    forall f, In f vis ->
      has_suffix dae_suffix f = true /\ inside entry_dir (comps f) = true /\
      exists mode text ss, os (clean (comps f)) = OFile mode text /\ N.land mode 31 = 0 /\ parse text = POk ss.
Proof. exact only_dae_in_dir_os. Qed.
Print Assumptions C17_only_dae_in_dir.

Theorem C17_inside_is_below :
  forall d f, inside d f = true -> exists below, dir_of (clean f) = clean d ++ below.
Proof. exact inside_is_below. Qed.
Print Assumptions C17_inside_is_below.

(* containment is decided on components, not on the text of the path: the entry directory's component list
   is a prefix of the component list of the file's directory; a sibling directory whose NAME merely extends
   the entry directory's name (dae.d beside dae) is outside *)
Theorem C17_inside_component_boundary :
  forall d f, inside d f = true -> firstn (length (clean d)) (dir_of (clean f)) = clean d.
Proof. exact C17_inside_component_boundary_proof. Qed.
Print Assumptions C17_inside_component_boundary.

Example C17_string_prefix_not_enough :
  let d := C17_sample_dir in               (* /x/dae *)
  let f := C17_sample_sibling_file in      (* /x/dae.d/a.dae *)
  firstn (length (render d)) (render (dir_of f)) = render d /\ inside d f = false.
Proof. exact C17_string_prefix_not_enough_proof. Qed.

Theorem C17_outside_never_read :
  forall os entry_dir fuel expand entry m vis f,
    dfs_merge fuel (fs_of os entry_dir) expand [] entry = Ok (m, vis) ->
    (forall below, dir_of (clean (comps f)) <> clean entry_dir ++ below) -> ~ In f vis.
Proof. exact outside_never_read. Qed.
Print Assumptions C17_outside_never_read.

(* Capacity: every rule program with more match sets than the supported size is answered with an error, and
   no program - whatever its size and wherever its domain sets are (their indices are rule indices, below the
   number of match sets) - crashes the builder. *)
Theorem C17_guard_over_limit_is_error :
  forall n ds, max_match_set_len <? n = true -> build_userspace n ds = WErr.
Proof. exact C17_over_limit_is_error_proof. Qed.
Print Assumptions C17_guard_over_limit_is_error.

Theorem C17_guard_never_crashes :
  forall n ds, (forall i, In i ds -> i < n) -> build_userspace n ds <> WCrashed.
Proof. exact C17_build_never_crashes_proof. Qed.
Print Assumptions C17_guard_never_crashes.

(* Capacity on the LOWERED program.  A condition lowers to one match set per distinct parameter key, so the
   size that counts is the number of lowered match sets (n_match_sets), not the number of rules or of
   conditions.  Every program whose lowered size exceeds the supported size is answered with an error, and
   no program whatever crashes the builder. *)
Theorem C17_over_limit_is_error :
  forall p : program, max_match_set_len <? n_match_sets p = true -> compile p = WErr.
Proof. exact over_limit_lowered. Qed.
Print Assumptions C17_over_limit_is_error.

Theorem C17_build_never_crashes :
  forall p : program, compile p <> WCrashed.
Proof. exact compile_never_crashes. Qed.
Print Assumptions C17_build_never_crashes.

(* A guard that counts conditions (1 + number of '&&' operands) does not have the property. *)
Definition C17_condition_count_guard_full : Prop :=
  forall p : program, max_match_set_len <? n_match_sets p = true -> compile_condition_guard p = WErr.
Theorem C17_condition_count_guard_refuted :
  exists p, max_match_set_len <? n_match_sets p = true /\ compile_condition_guard p = WCrashed.
Proof. exact condition_guard_refuted. Qed.
Print Assumptions C17_condition_count_guard_refuted.
Theorem C17_condition_count_guard_accepts_oversized :
  exists p, max_match_set_len <? n_match_sets p = true /\ compile_condition_guard p = WOk tt.
Proof. exact condition_guard_accepts_oversized. Qed.
Print Assumptions C17_condition_count_guard_accepts_oversized.

Example C17_capacity_nonvacuous :
  n_conditions C17_wide_program = 400 /\ n_match_sets C17_wide_program = 1201 /\ compile C17_wide_program = WErr
  /\ compile (repeat [Cond true [1; 2; 3; 2]] 341) = WOk tt /\ n_match_sets (repeat [Cond true [1; 2; 3; 2]] 341) = 1024.
Proof. exact capacity_nonvacuous. Qed.

(* Building the typed configuration (model of config.New over ANY schema and ANY decode oracle): an accepted
   configuration has every required section, names no unknown section, and each of its sections passed the
   section parser; an accepted struct section has no text without a key, no unknown key (parameter or nested
   section), routing rules only where the struct takes them, and every required key - so any of these
   defects is answered with an error. *)
Theorem C17_build_contract :
  forall schema decodes tops gsid secs,
    build schema decodes tops gsid secs = BOk ->
    (forall t, In t tops -> t_required t = true -> exists items, lookup_last secs (t_name t) None = Some items) /\
    (forall s, In s secs -> str_eqb (fst s) C17_Build.include_name = true \/
                            exists t, In t tops /\ str_eqb (t_name t) (fst s) = true) /\
    (forall t items, In t tops -> lookup_last secs (t_name t) None = Some items ->
       exists fuel, section_error schema decodes fuel (t_kind t) items = None).
Proof. exact build_contract. Qed.
Print Assumptions C17_build_contract.

Theorem C17_struct_section_contract :
  forall schema decodes fuel sid st items,
    find_struct schema sid = Some st ->
    section_error schema decodes fuel (KStruct sid) items = None ->
    struct_items_ok st items.
Proof. exact struct_section_contract. Qed.
Print Assumptions C17_struct_section_contract.

Theorem C17_nested_section_contract :
  forall schema decodes fuel sid st items n sub f,
    find_struct schema sid = Some st ->
    section_error schema decodes fuel (KStruct sid) items = None ->
    In (GSection n sub) items -> find_field (s_fields st) n = Some f ->
    exists fuel', section_error schema decodes fuel' (f_kind f) sub = None.
Proof. exact nested_section_contract. Qed.
Print Assumptions C17_nested_section_contract.

(* Documented defaults: a key that is not written takes the default of the schema; a written one takes its
   last assignment. *)
Theorem C17_default_applied :
  forall schema sid st f items k,
    find_struct schema sid = Some st -> find_field (s_fields st) k = Some f ->
    (forall p, In (GParamI p) items -> str_eqb (gp_key p) k = false) ->
    effective_string schema sid items k = f_default f.
Proof. exact default_applied. Qed.
Print Assumptions C17_default_applied.

Theorem C17_last_assignment_wins :
  forall schema sid st f items p,
    find_struct schema sid = Some st -> find_field (s_fields st) (gp_key p) = Some f ->
    effective_string schema sid (items ++ [GParamI p]) (gp_key p) = Some (gp_val p).
Proof. exact last_assignment_wins. Qed.
Print Assumptions C17_last_assignment_wins.

(* The empty section is no exception: a struct section without any item is answered with the
   required-key error exactly when its struct has a required key (ParamParser has no exit before that check). *)
Theorem C17_empty_section_required :
  forall schema decodes fu sid st,
    find_struct schema sid = Some st ->
    section_error schema decodes (S fu) (KStruct sid) [] =
    if existsb f_required (s_fields st) then Some EMissingParam else None.
Proof. exact C17_empty_section_required_proof. Qed.
Print Assumptions C17_empty_section_required.

(* The two patches of config.New.  bootstrap_resolver: an accepted configuration leaves it empty (the built-in
   resolvers apply) or gives a value that, trimmed, parses as ip:port; any other value is an error.
   tcp_check_http_method: a known method is kept, an unknown one becomes CONNECT. *)
Theorem C17_bootstrap_patch :
  forall schema decodes tops gsid secs,
    build schema decodes tops gsid secs = BOk ->
    bootstrap_value schema gsid secs = [] \/ decodes ty_addrport (bootstrap_value schema gsid secs) = true.
Proof. exact bootstrap_patch. Qed.
Print Assumptions C17_bootstrap_patch.

Theorem C17_bootstrap_bad_rejected :
  forall schema decodes tops gsid secs,
    bootstrap_value schema gsid secs <> [] -> decodes ty_addrport (bootstrap_value schema gsid secs) = false ->
    build schema decodes tops gsid secs <> BOk.
Proof. exact bootstrap_bad_rejected. Qed.
Print Assumptions C17_bootstrap_bad_rejected.

Theorem C17_http_method_patch :
  forall schema decodes gsid secs,
    let v := global_string schema gsid secs http_method_name in
    (decodes ty_http_method v = true -> effective_http_method schema decodes gsid secs = v) /\
    (decodes ty_http_method v = false -> effective_http_method schema decodes gsid secs = connect_method).
Proof. intros; split; [apply http_method_kept | apply http_method_fallback]. Qed.
Print Assumptions C17_http_method_patch.

(* Non-vacuity: a tree using every production is well formed, and its spelling parses to its denotation. *)
Example C17_nonvacuous :
  wf_config C17_sample_config = true /\ parse (show C17_sample_config) = POk (denote C17_sample_config)
  /\ length (show C17_sample_config) = 180%nat.
Proof. exact C17_nonvacuous_proof. Qed.
