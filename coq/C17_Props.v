(* C17 — property theorems only.  Each is closed by `exact` of a lemma of C17_Proofs.v. *)
From Coq Require Import List NArith Bool Relations.
From Dae Require Import C17_Spec C17_Model C17_MergeSpec C17_Proofs.
From Dae.gen Require Import Extracted_C17.
Import ListNotations.
Open Scope N_scope.

(* Every well-formed syntax tree - every production, every quoting style, negations, '&&' chains, outbound
   functions with parameters, nested sections, annotations, any number of sections, items and parameters -
   spelled out and parsed by the model of config_parser.Parse gives back exactly the configuration it
   denotes: same sections, items, keys and values, in order. *)
Theorem C17_roundtrip :
  forall c : sconfig, wf_config c = true -> parse (show c) = POk (denote c).
Proof. exact C17_roundtrip_proof. Qed.
Print Assumptions C17_roundtrip.

(* The model parser answers every byte string: the fuel it is given (length + 1) always suffices. *)
Theorem C17_parse_total :
  forall text : str, parse text <> PFuel.
Proof. exact C17_parse_total_proof. Qed.
Print Assumptions C17_parse_total.

(* "parsing never crashes, whatever the input": false of the faithful model - the walker dereferences the
   outbound function of a routing rule without a nil check. *)
Definition C17_parse_never_crashes_full : Prop := forall text : str, parse text <> PCrash.
Theorem C17_parse_never_crashes_refuted :
  exists text : str, parse text = PCrash.
Proof. exact C17_parse_never_crashes_refuted_proof. Qed.
Print Assumptions C17_parse_never_crashes_refuted.
(* what holds: no text that spells a well-formed tree crashes *)
Theorem C17_parse_never_crashes_partial :
  forall c : sconfig, wf_config c = true -> parse (show c) <> PCrash.
Proof. exact C17_parse_never_crashes_partial_proof. Qed.
Print Assumptions C17_parse_never_crashes_partial.

(* Merging: when the merger answers with a configuration, that configuration is, section by section, the
   including file's items followed by those of every included file in listed order (recursively), over the
   include tree the file system spells; the files read are exactly the nodes of that tree, each once. *)
Theorem C17_merge_order_deterministic :
  forall fuel fs expand entry m vis,
    dfs_merge fuel fs expand [] entry = Ok (m, vis) ->
    exists t, tree_root t = entry /\ resolves fs expand t /\
              (forall n, sm_get m n = merged_items t n) /\
              vis = rev (tree_paths t) /\ NoDup (tree_paths t).
Proof. exact C17_merge_order_proof. Qed.
Print Assumptions C17_merge_order_deterministic.

(* Any include cycle reachable from the entry file is refused, for every include graph. *)
Theorem C17_cycle_rejected :
  forall fuel fs expand entry f,
    clos_refl_trans _ (includes fs expand) entry f ->
    clos_trans _ (includes fs expand) f f ->
    forall r, dfs_merge fuel fs expand [] entry <> Ok r.
Proof. exact C17_cycle_rejected_proof. Qed.
Print Assumptions C17_cycle_rejected.

(* No file is used unless the file system marks it usable (a .dae file inside the entry directory with safe
   permissions that parses). *)
Theorem C17_only_dae_in_dir :
  forall fuel fs expand entry m vis,
    dfs_merge fuel fs expand [] entry = Ok (m, vis) ->
    forall f, In f vis -> exists ss, fs f = FFile ss.
Proof. exact C17_only_dae_in_dir_proof. Qed.
Print Assumptions C17_only_dae_in_dir.

(* Capacity: a program with a domain match set beyond the supported size must be answered with an error.
   False of the faithful model (the userspace builder indexes a fixed array with the rule index). *)
Definition C17_over_limit_is_error_full : Prop :=
  forall ds, existsb (fun i => max_match_set_len <=? i) ds = true -> build_userspace ds = WErr.
Theorem C17_over_limit_is_error_refuted :
  exists ds, existsb (fun i => max_match_set_len <=? i) ds = true /\ build_userspace ds = WCrashed.
Proof. exact C17_over_limit_refuted_proof. Qed.
Print Assumptions C17_over_limit_is_error_refuted.
Theorem C17_over_limit_is_error_partial :
  forall ds, forallb (fun i => i <? max_match_set_len) ds = true -> build_userspace ds = WOk tt.
Proof. exact C17_over_limit_partial_proof. Qed.
Print Assumptions C17_over_limit_is_error_partial.

(* Non-vacuity: a tree using every production is well formed, and its spelling parses to its denotation. *)
Example C17_nonvacuous :
  wf_config C17_sample_config = true /\ parse (show C17_sample_config) = POk (denote C17_sample_config)
  /\ length (show C17_sample_config) = 180%nat.
Proof. exact C17_nonvacuous_proof. Qed.
