(* C08 — code-shaped executable model of the DNS response cache
   (control/dns_cache.go, control/dns_control.go, control/dns_control_optimistic.go).  No proofs here.

   Go                                   here
   -----------------------------------  ---------------------------------------------
   DnsCache{Deadline, OriginalDeadline, entry (times = UnixNano as Z; 0 = unset for the atomics)
     packedResponseTTL/CreatedAt,
     deadlineNano, refreshing,
     lastAccessNano}
   dnsControllerStore.dnsCache sync.Map store = association list keyed by the cache-key string
   cacheKey / responseCacheKey          cache_key / response_cache_key (+ scope_str)
   NormalizeAndCacheDnsResp_ ->
     UpdateDnsCacheTtlWithKey ->
     __updateDnsCacheDeadline           m_insert
   LookupDnsRespCache_                  m_lookup   (ignoreFixedTtl = false, the only value any caller passes)
   GetPackedResponseWithApproximateTTL  get_packed_approx
   GetStaleResponse                     get_stale
   fillIntoWithTTLInPlace/ttlFromDeadline  ttl_from_deadline
   evictExpiredDnsCache, evictLRUIfFull,
     buildMinHeap, heapifyMin           m_janitor, evict_lru, build_min_heap, heapify_min
   CloneForReload, RestoreReloadCache   clone_for_reload, MReload
   ReuseForReload/updateRuntime         normalize + Reuse
   backgroundRefresh's deferred block
     (LookupDnsRespCache + MarkRefreshed) m_refresh_done
   The packed bytes themselves are not modelled: a reply is (answer identity, TTL).  Pack() never fails. *)
From Coq Require Import List ZArith NArith Bool.
From Dae Require Import C08_Spec.
From Dae.gen Require Import C08_Consts.
Import ListNotations.
Open Scope Z_scope.

(* ------------------------------------------------------------------ keys *)
Fixpoint digits_fuel (fuel : nat) (n : N) (acc : bytes) : bytes :=
  match fuel with
  | O => acc
  | S f => let acc' := (48 + N.modulo n 10)%N :: acc in
           if N.eqb (N.div n 10) 0 then acc' else digits_fuel f (N.div n 10) acc'
  end.
Definition digits (n : N) : bytes := digits_fuel 40 n [].

Definition str_asis : bytes := [97;115;105;115]%N.                                  (* "asis" *)
Definition str_reject : bytes := [114;101;106;101;99;116]%N.                        (* "reject" *)
Definition str_upstream_at : bytes := [117;112;115;116;114;101;97;109;64]%N.        (* "upstream@" *)
Definition str_upstream_index_at : bytes :=
  [117;112;115;116;114;101;97;109;45;105;110;100;101;120;64]%N.                     (* "upstream-index@" *)
Definition at_sign : N := 64%N.
Definition bar : N := 124%N.

(* responseCacheScope *)
Definition scope_str (s : scope) : bytes :=
  match s with
  | ScNone => []
  | ScAsIs (Some d) => str_asis ++ [at_sign] ++ d
  | ScAsIs None => str_asis
  | ScReject => str_reject
  | ScUpstream u => str_upstream_at ++ u
  | ScIndex n => if N.eqb n 0 then [] else str_upstream_index_at ++ digits n
  end.

(* cacheKey: CanonicalName(qname) ++ decimal qtype (the table of pre-computed strings holds the same decimals) *)
Definition cache_key (qname : bytes) (qt : N) : bytes := lower (fqdn qname) ++ digits qt.
Definition response_cache_key (base : bytes) (s : scope) : bytes :=
  match scope_str s with [] => base | sc => base ++ [bar] ++ sc end.
Definition key_of (name : bytes) (qt : N) (s : scope) : bytes := response_cache_key (cache_key name qt) s.
Definition key_str (k : skey) : bytes := response_cache_key (k_name k ++ digits (k_qtype k)) (k_scope k).

(* ------------------------------------------------------------------ entries *)
Record entry := {
  e_ans : Z;          (* identity of the cached answer *)
  e_deadline : Z;     (* Deadline *)
  e_odeadline : Z;    (* OriginalDeadline *)
  e_pttl : Z;         (* packedResponseTTL *)
  e_pat : Z;          (* packedResponseCreatedAt *)
  e_dnano : Z;        (* deadlineNano, 0 = never stored *)
  e_refreshing : bool;
  e_last : Z          (* lastAccessNano, 0 = never *)
}.

Definition store := list (bytes * entry).
Definition mfind (k : bytes) (st : store) : option entry :=
  match find (fun p => bytes_eqb (fst p) k) st with Some p => Some (snd p) | None => None end.
Definition mremove (k : bytes) (st : store) : store := filter (fun p => negb (bytes_eqb (fst p) k)) st.
Definition mput (k : bytes) (e : entry) (st : store) : store := (k, e) :: mremove k st.

Record mstate := { m_cfg : cfg; m_store : store }.   (* m_cfg is the effective configuration *)

(* normalizeDnsRuntimeBehavior *)
Definition normalize (c : cfg) : cfg :=
  if (c_window c =? 0) && (c_max c =? 0)
  then {| c_opt := c_opt c; c_window := default_optimistic_ttl; c_max := c_max c; c_fixed := c_fixed c |} else c.

Definition ttl_from_deadline (deadline now : Z) : Z :=
  if deadline <=? now then 0 else
    let s := (deadline - now) / sec in if s <? 1 then 1 else s.

(* ParseFixedDomainTtl lower-cases every configured name into a Go map (a later line overwrites an earlier one);
   the insert path looks up strings.ToLower(host) *)
Definition parse_fixed (raw : list (bytes * Z)) : list (bytes * Z) := map (fun p => (lower (fst p), snd p)) raw.
Definition fixed_ttl_model (raw : list (bytes * Z)) (host : bytes) : option Z :=
  match find (fun p => bytes_eqb (fst p) (lower host)) (rev (parse_fixed raw)) with
  | Some p => Some (snd p) | None => None end.

(* deadline computed by the insert path (UpdateDnsCacheTtlWithKey's deadline function) *)
Definition m_deadline (fixed : list (bytes * Z)) (host : bytes) (ttl now : Z) : Z :=
  match fixed_ttl_model fixed (strip_dot host) with Some f => now + f * sec | None => now + ttl * sec end.
(* TTL taken from the reply by NormalizeAndCacheDnsResp_: first answer's TTL, 120 s for an empty reply, clamped to a year *)
Definition eff_ttl (nans : N) (ttl : Z) : Z :=
  let ttl := if N.eqb nans 0 then min_firefox_cache_ttl else ttl in if ttl >? max_ttl then max_ttl else ttl.

(* NormalizeAndCacheDnsResp_ + UpdateDnsCacheTtlWithKey + __updateDnsCacheDeadline *)
Definition m_insert (s : mstate) (now : Z) (key : bytes) (host : bytes) (is_ip resp_ok : bool) (nans : N) (ans ttl : Z) : mstate :=
  if resp_ok && negb is_ip then
    let ttl := eff_ttl nans ttl in
    let odeadline := now + ttl * sec in
    let deadline := m_deadline (c_fixed (m_cfg s)) host ttl now in
    let e := {| e_ans := ans; e_deadline := deadline; e_odeadline := odeadline;
                e_pttl := ttl_from_deadline deadline now; e_pat := now;   (* prepackResponseBeforeStore ... *)
                e_dnano := deadline;                                     (* ... which stores deadlineNano = Deadline *)
                e_refreshing := false;
                e_last := now |} in                                      (* an insert counts as a use *)
    {| m_cfg := m_cfg s; m_store := mput key e (m_store s) |}
  else s.

Definition with_packed (e : entry) (pttl pat : Z) : entry :=
  {| e_ans := e_ans e; e_deadline := e_deadline e; e_odeadline := e_odeadline e; e_pttl := pttl; e_pat := pat;
     e_dnano := e_dnano e; e_refreshing := e_refreshing e; e_last := e_last e |}.
Definition with_last (e : entry) (t : Z) : entry :=
  {| e_ans := e_ans e; e_deadline := e_deadline e; e_odeadline := e_odeadline e; e_pttl := e_pttl e; e_pat := e_pat e;
     e_dnano := e_dnano e; e_refreshing := e_refreshing e; e_last := t |}.
Definition with_refreshing (e : entry) (b : bool) : entry :=
  {| e_ans := e_ans e; e_deadline := e_deadline e; e_odeadline := e_odeadline e; e_pttl := e_pttl e; e_pat := e_pat e;
     e_dnano := e_dnano e; e_refreshing := b; e_last := e_last e |}.

(* GetPackedResponseWithApproximateTTL: (entry after a possible re-pack, TTL of the returned bytes) *)
Definition get_packed_approx (e : entry) (now : Z) : entry * option Z :=
  if e_dnano e <=? now then (e, None) else
  let cur := (e_dnano e - now) / sec in
  let cur := if cur =? 0 then 1 else cur in
  let cached := e_pttl e in
  if (if cur <=? cached then cached - cur <=? ttl_refresh_threshold else cur - cached <=? ttl_refresh_threshold)
  then (e, Some cached)
  else if now - e_pat e >? sec then (with_packed e cur now, Some cur)
  else (e, Some cached).

(* GetStaleResponse *)
Definition get_stale (e : entry) (now : Z) (stale_ttl : Z) : option Z :=
  if e_dnano e >? now then None else
  if (stale_ttl >? 0) && (now >? e_dnano e + stale_ttl * sec) then None
  else Some (e_pttl e).

(* LookupDnsRespCache_ *)
Definition m_lookup (s : mstate) (now : Z) (key : bytes) : mstate * obs :=
  match mfind key (m_store s) with
  | None => (s, ObLook false (-1) 0 false)
  | Some e0 =>
      let e := with_last e0 now in
      let upd (e' : entry) := {| m_cfg := m_cfg s; m_store := mput key e' (m_store s) |} in
      if now <? e_deadline e then
        match get_packed_approx e now with
        | (e', Some t) => (upd e', ObLook true (e_ans e) t false)
        | (e', None) => (upd e', ObLook true (e_ans e) (ttl_from_deadline (e_deadline e) now) false)
        end
      else
        let evict := ({| m_cfg := m_cfg s; m_store := mremove key (m_store s) |}, ObLook false (-1) 0 false) in
        if c_opt (m_cfg s) then
          match get_stale e now (c_window (m_cfg s)) with
          | Some t =>
              if e_refreshing e then (upd e, ObLook true (e_ans e) t false)
              else (upd (with_refreshing e true), ObLook true (e_ans e) t true)
          | None => evict
          end
        else evict
  end.

(* ------------------------------------------------------------------ janitor *)
Definition cent := (bytes * Z)%type.     (* cacheEntry{key, lastAccess} *)
Definition cdefault : cent := ([], 0).
Definition la (l : list cent) (i : nat) : Z := snd (nth i l cdefault).

Fixpoint set_nth (l : list cent) (i : nat) (x : cent) : list cent :=
  match l, i with
  | [], _ => []
  | _ :: t, O => x :: t
  | h :: t, S i' => h :: set_nth t i' x
  end.
Definition swap (l : list cent) (i j : nat) : list cent :=
  let a := nth i l cdefault in let b := nth j l cdefault in set_nth (set_nth l i b) j a.

(* heapifyMin(entries, i, n) *)
Fixpoint heapify_min (fuel : nat) (l : list cent) (i n : nat) : list cent :=
  match fuel with
  | O => l
  | S f =>
      let left := (2 * i + 1)%nat in
      let right := (2 * i + 2)%nat in
      let smallest := i in
      let smallest := if Nat.ltb left n && (la l left <? la l smallest) then left else smallest in
      let smallest := if Nat.ltb right n && (la l right <? la l smallest) then right else smallest in
      if Nat.eqb smallest i then l else heapify_min f (swap l i smallest) smallest n
  end.

(* buildMinHeap: for i := n/2-1; i >= 0; i-- *)
Fixpoint build_from (k : nat) (l : list cent) (n : nat) : list cent :=
  match k with
  | O => l
  | S k' => build_from k' (heapify_min n l k' n) n
  end.
Definition build_min_heap (l : list cent) : list cent := let n := length l in build_from (Nat.div n 2) l n.

(* the extraction loop of evictLRUIfFull: for i := range numToEvict *)
Fixpoint extract (k : nat) (i : nat) (l : list cent) : list cent :=
  match k with
  | O => l
  | S k' =>
      let last_idx := (length l - 1 - i)%nat in
      let l1 := swap l 0 last_idx in
      extract k' (S i) (heapify_min (length l) l1 0 last_idx)
  end.

Definition select_oldest (entries : list cent) (k : nat) : list cent :=
  if Nat.ltb k (length entries) then
    skipn (length entries - k) (extract k 0 (build_min_heap entries))
  else entries.

(* evictLRUIfFull; `order` = Range order of the sync.Map *)
Definition evict_lru (maxsz : Z) (st : store) (order : list bytes) : store :=
  let count := Z.of_nat (length st) in
  if count <=? maxsz then st else
  let k := Z.to_nat (count - maxsz) in
  let entries := flat_map (fun key => match mfind key st with Some e => [(key, e_last e)] | None => [] end) order in
  let victims := firstn k (select_oldest entries k) in
  fold_left (fun acc v => mremove (fst v) acc) victims st.

(* evictExpiredDnsCache *)
Definition evict_expired (c : cfg) (st : store) (now : Z) : store :=
  if (c_window c >? 0) || ((c_window c =? 0) && (c_max c =? 0)) then
    filter (fun p =>
              let e := snd p in
              let eff := if c_opt c && (c_window c >? 0) then e_deadline e + c_window c * sec else e_deadline e in
              eff >? now) st
  else st.

Definition m_janitor (s : mstate) (now : Z) (order : list bytes) : mstate :=
  let st1 := evict_expired (m_cfg s) (m_store s) now in
  let st2 := if c_max (m_cfg s) >? 0 then evict_lru (c_max (m_cfg s)) st1 order else st1 in
  {| m_cfg := m_cfg s; m_store := st2 |}.

(* ------------------------------------------------------------------ reload / refresh *)
(* CloneForReload (Deadline.IsZero() never holds for an entry made by the insert path) *)
Definition clone_for_reload (e : entry) : entry :=
  {| e_ans := e_ans e; e_deadline := e_deadline e; e_odeadline := e_odeadline e; e_pttl := e_pttl e; e_pat := e_pat e;
     e_dnano := if e_dnano e =? 0 then e_deadline e else e_dnano e;
     e_refreshing := false; e_last := e_last e |}.

(* deferred block of backgroundRefresh: load the entry, MarkRefreshed when it is refreshing *)
Definition m_refresh_done (s : mstate) (now : Z) (key : bytes) : mstate :=
  match mfind key (m_store s) with
  | None => s
  | Some e =>
      if e_refreshing e then {| m_cfg := m_cfg s; m_store := mput key (with_refreshing e false) (m_store s) |}
      else s
  end.

Definition opt_ttl (r : option Z) : option Z := r.

Definition m_probe (s : mstate) (now : Z) (key : bytes) (window : Z) : obs :=
  match mfind key (m_store s) with
  | None => ObProbe None None None
  | Some e => ObProbe (get_stale e now window) (snd (get_packed_approx e now)) (Some (ttl_from_deadline (e_deadline e) now))
  end.

Definition keys_of (st : store) : list bytes := map fst st.

(* evicted keys of a janitor run, expressed over the scoped questions named so far (`univ`) *)
Definition evicted_skeys (univ : list skey) (before after : store) : list skey :=
  filter (fun k => let ks := key_str k in
                   existsb (bytes_eqb ks) (keys_of before) && negb (existsb (bytes_eqb ks) (keys_of after))) univ.

Definition m_step (univ : list skey) (s : mstate) (now : Z) (o : op) : mstate * obs :=
  match o with
  | Insert name qt sc rname is_ip resp_ok nans ans ttl =>
      (m_insert s now (key_of name qt sc) rname is_ip resp_ok nans ans ttl, ObNone)
  | Lookup name qt sc => m_lookup s now (key_of name qt sc)
  | Janitor order =>
      let s' := m_janitor s now order in (s', ObJan (evicted_skeys univ (m_store s) (m_store s')))
  | Reload c => ({| m_cfg := normalize c; m_store := map (fun p => (fst p, clone_for_reload (snd p))) (m_store s) |}, ObNone)
  | Reuse c => ({| m_cfg := normalize c; m_store := m_store s |}, ObNone)
  | RefreshDone name qt sc => (m_refresh_done s now (key_of name qt sc), ObNone)
  | Probe name qt sc window => (s, m_probe s now (key_of name qt sc) window)
  end.

Definition m_init (c : cfg) : mstate := {| m_cfg := normalize c; m_store := [] |}.

(* scoped questions named by a history *)
Definition op_skey (o : op) : list skey :=
  match o with
  | Insert name qt sc _ _ _ _ _ _ | Lookup name qt sc | RefreshDone name qt sc | Probe name qt sc _ => [skey_of name qt sc]
  | _ => []
  end.
Definition universe (h : list timed) : list skey := flat_map (fun t => op_skey (snd t)) h.

Fixpoint m_run_from (univ : list skey) (s : mstate) (h : list timed) : mstate * list obs :=
  match h with
  | [] => (s, [])
  | (now, o) :: rest =>
      let '(s1, ob) := m_step univ s now o in
      let '(s2, obs) := m_run_from univ s1 rest in (s2, ob :: obs)
  end.
Definition m_run (c : cfg) (h : list timed) : mstate * list obs := m_run_from (universe h) (m_init c) h.

(* ------------------------------------------------------------------ projections of a history used in theorem statements *)
(* the most recent cacheable insert whose cache key is `key`: (answer, deadline given by the SPEC),
   following the configuration changes of the history; c = configuration as written at the start of h *)
Fixpoint last_insert (c : cfg) (h : list timed) (key : bytes) (acc : option (Z * Z)) : option (Z * Z) :=
  match h with
  | [] => acc
  | (now, o) :: rest =>
      match o with
      | Insert name qt sc rname is_ip resp_ok nans ans ttl =>
          if resp_ok && negb is_ip && bytes_eqb (key_of name qt sc) key
          then last_insert c rest key (Some (ans, spec_deadline (c_fixed (effective c)) rname (eff_ttl nans ttl) now))
          else last_insert c rest key acc
      | Reload c' | Reuse c' => last_insert c' rest key acc
      | _ => last_insert c rest key acc
      end
  end.

(* configuration as written, after a history *)
Fixpoint cfg_after (c : cfg) (h : list timed) : cfg :=
  match h with
  | [] => c
  | (_, Reload c') :: rest | (_, Reuse c') :: rest => cfg_after c' rest
  | _ :: rest => cfg_after c rest
  end.

(* ------------------------------------------------------------------ the refresh slot at atomic granularity *)
(* Threads racing on DnsCache.refreshing of ONE stale entry: lookups that reached the claim of
   LookupDnsRespCache_ and completions of background refreshes (deferred block of backgroundRefresh).
   One step = one atomic operation on the flag.
     claim, as written:     refreshing.CompareAndSwap(false, true)          one step          (VCas)
     claim, test-then-set:  refreshing.Load(); refreshing.Store(true)       two steps         (VLoadStore; NOT the code - kept
                                                                             so that a source with that shape can still be followed)
     completion:            IsRefreshing() = Load; MarkRefreshed() = Store(false)   two steps *)
Inductive rvariant := VCas | VLoadStore.
Inductive rpc :=
| LStart                 (* lookup: about to claim *)
| LLoaded                (* lookup (test-then-set only): saw the flag clear, about to store true *)
| LDone (refresh : bool) (* lookup returned with needRefresh = refresh *)
| CStart                 (* completion: about to read the flag *)
| CLoaded                (* completion: saw the flag set, about to clear it *)
| CDone.
Inductive revent := EvClaim | EvClear.

Definition rstep (v : rvariant) (flag : bool) (p : rpc) : bool * rpc * option revent :=
  match p with
  | LStart =>
      match v with
      | VCas => if flag then (flag, LDone false, None) else (true, LDone true, Some EvClaim)
      | VLoadStore => if flag then (flag, LDone false, None) else (flag, LLoaded, None)
      end
  | LLoaded => (true, LDone true, Some EvClaim)
  | CStart => if flag then (flag, CLoaded, None) else (flag, CDone, None)
  | CLoaded => (false, CDone, Some EvClear)
  | LDone _ | CDone => (flag, p, None)
  end.

Fixpoint set_pc (l : list rpc) (i : nat) (x : rpc) : list rpc :=
  match l, i with
  | [], _ => []
  | _ :: t, O => x :: t
  | h :: t, S i' => h :: set_pc t i' x
  end.

Record rstate := { r_flag : bool; r_pcs : list rpc }.

(* one scheduler decision: thread i performs its next atomic operation (no-op when i is finished or absent) *)
Definition rsched_step (v : rvariant) (s : rstate) (i : nat) : rstate * option revent :=
  match nth_error (r_pcs s) i with
  | None => (s, None)
  | Some p => let '(f, p', e) := rstep v (r_flag s) p in ({| r_flag := f; r_pcs := set_pc (r_pcs s) i p' |}, e)
  end.

Fixpoint rrun (v : rvariant) (s : rstate) (sched : list nat) : rstate * list revent :=
  match sched with
  | [] => (s, [])
  | i :: rest =>
      let '(s1, e) := rsched_step v s i in
      let '(s2, tr) := rrun v s1 rest in
      (s2, match e with Some x => x :: tr | None => tr end)
  end.

(* the clause: never two claims without a completion in between *)
Fixpoint one_claim_per_cycle (open : bool) (tr : list revent) : bool :=
  match tr with
  | [] => true
  | EvClaim :: t => if open then false else one_claim_per_cycle true t
  | EvClear :: t => one_claim_per_cycle false t
  end.

Definition rpc_start (p : rpc) : bool := match p with LStart | CStart => true | _ => false end.

(* ------------------------------------------------------------------ refresh life cycle with replacement entries *)
(* The flag lives on the ENTRY.  A thread is a client lookup followed, when it is told to refresh, by the
   background refresh it starts (the `go backgroundRefresh` after the claim):
     P0  dnsCache.Load(key) in LookupDnsRespCache_            -> the entry e it will work on (a fresh entry is served, done)
     P1  e.refreshing.CompareAndSwap(false,true)              -> claimed: the refresh is in flight (P2) / not claimed: done
     P2  the upstream work ends: no answer (OFail), or dnsCache.Store(key, new entry) by the insert path, the
         new entry being already stale (OStale: TTL 0 / fixed_domain_ttl 0) or fresh (OFresh)
     P3  deferred block of backgroundRefresh: dnsCache.Load(key) -> the entry that is in the map NOW   (VCurrent, the code)
                                              only if the map still holds the claimed entry           (VClaimedIfCurrent, a repair)
     P4  IsRefreshing() = Load of that entry's flag
     P5  MarkRefreshed() = Store(false) on that entry's flag
   Entries are numbered in creation order; staleness does not change during a schedule. *)
Inductive outcome := OFail | OStale | OFresh.
Inductive cvariant := VCurrent | VClaimedIfCurrent.
Inductive tpc := P0 | P1 (e : nat) | P2 (c : nat) | P3 (c : nat) | P4 (c e : nat) | P5 (c e : nat) | PDone (refresh : bool).

Record tstate := { t_cur : nat; t_next : nat; t_flag : nat -> bool; t_stale : nat -> bool; t_pcs : list (tpc * outcome) }.

Definition upd (f : nat -> bool) (x : nat) (b : bool) : nat -> bool := fun y => if Nat.eqb y x then b else f y.

Fixpoint set_tpc (l : list (tpc * outcome)) (i : nat) (p : tpc) : list (tpc * outcome) :=
  match l, i with
  | [], _ => []
  | (_, o) :: t, O => (p, o) :: t
  | h :: t, S i' => h :: set_tpc t i' p
  end.

Definition with_pcs (s : tstate) (l : list (tpc * outcome)) : tstate :=
  {| t_cur := t_cur s; t_next := t_next s; t_flag := t_flag s; t_stale := t_stale s; t_pcs := l |}.

(* the effect of one atomic operation on the shared state, and the thread's next position *)
Definition tstep (v : cvariant) (s : tstate) (p : tpc) (o : outcome) : tstate * tpc :=
  match p with
  | P0 => if t_stale s (t_cur s) then (s, P1 (t_cur s)) else (s, PDone false)
  | P1 e => if t_flag s e then (s, PDone false)
            else ({| t_cur := t_cur s; t_next := t_next s; t_flag := upd (t_flag s) e true; t_stale := t_stale s; t_pcs := t_pcs s |}, P2 e)
  | P2 c =>
      match o with
      | OFail => (s, P3 c)
      | OStale | OFresh =>
          let n := t_next s in
          ({| t_cur := n; t_next := S n; t_flag := upd (t_flag s) n false;
              t_stale := upd (t_stale s) n (match o with OStale => true | _ => false end); t_pcs := t_pcs s |}, P3 c)
      end
  | P3 c =>
      match v with
      | VCurrent => (s, P4 c (t_cur s))
      | VClaimedIfCurrent => if Nat.eqb (t_cur s) c then (s, P4 c c) else (s, PDone true)
      end
  | P4 c e => if t_flag s e then (s, P5 c e) else (s, PDone true)
  | P5 c e => ({| t_cur := t_cur s; t_next := t_next s; t_flag := upd (t_flag s) e false; t_stale := t_stale s; t_pcs := t_pcs s |}, PDone true)
  | PDone _ => (s, p)
  end.

Definition tsched_step (v : cvariant) (s : tstate) (i : nat) : tstate :=
  match nth_error (t_pcs s) i with
  | None => s
  | Some (p, o) => let '(s', p') := tstep v s p o in with_pcs s' (set_tpc (t_pcs s') i p')
  end.

(* refreshes in flight: claimed, upstream work not ended *)
Definition in_p2 (x : tpc * outcome) : bool := match fst x with P2 _ => true | _ => false end.
Definition in_flight (s : tstate) : nat := length (filter in_p2 (t_pcs s)).

(* the clause: at every moment of the schedule at most one refresh of the key is in flight *)
Fixpoint trun_ok (v : cvariant) (s : tstate) (sched : list nat) : bool :=
  match sched with
  | [] => true
  | i :: rest => let s' := tsched_step v s i in Nat.leb (in_flight s') 1 && trun_ok v s' rest
  end.

(* one stale entry in the map, no refresh claimed, every thread about to look the key up *)
Definition tinit (outcomes : list outcome) : tstate :=
  {| t_cur := 0; t_next := 1; t_flag := fun _ => false; t_stale := fun x => Nat.eqb x 0; t_pcs := map (fun o => (P0, o)) outcomes |}.

(* the instant an entry under `key` was last used, read off the history: the most recent cacheable insert under
   the key or lookup of the key (a lookup that is not answered removes the entry, so for an entry that is still
   cached the lookups counted here are exactly the answered ones).  Reloads do not touch it. *)
Fixpoint last_touch (h : list timed) (key : bytes) (acc : option Z) : option Z :=
  match h with
  | [] => acc
  | (now, o) :: rest =>
      match o with
      | Insert name qt sc _ is_ip resp_ok _ _ _ =>
          if resp_ok && negb is_ip && bytes_eqb (key_of name qt sc) key then last_touch rest key (Some now) else last_touch rest key acc
      | Lookup name qt sc => if bytes_eqb (key_of name qt sc) key then last_touch rest key (Some now) else last_touch rest key acc
      | _ => last_touch rest key acc
      end
  end.

(* ------------------------------------------------------------------ a qtype table indexed by qtype with unfilled slots *)
(* NOT the code: cacheKey rendered through an array of pre-computed strings that is only bounds-checked, so that
   every type below the array length without a pre-computed string gets an empty suffix.  Kept for the witness. *)
Definition qtype_str_array (q : N) : bytes :=
  if N.ltb q 34 then
    (if N.eqb q 1 || N.eqb q 2 || N.eqb q 5 || N.eqb q 12 || N.eqb q 15 || N.eqb q 16 || N.eqb q 28 || N.eqb q 33 then digits q else [])
  else digits q.
Definition key_of_array (name : bytes) (qt : N) (s : scope) : bytes :=
  response_cache_key (lower (fqdn name) ++ qtype_str_array qt) s.
