(* C16 — group view, part 2: fresh generation, every step, the history theorems. *)
From Coq Require Import List NArith ZArith Bool Lia Permutation.
From Dae Require Import C16_Spec C16_Model C16_Proofs C16_ProofsHealth C16_ProofsGroups C16_ProofsGroupsReload.
From Dae.gen Require Import C16_Consts.
Import ListNotations.
Open Scope N_scope.

(* ---------- filling a fresh set ---------- *)
Definition fill_step (cfg : config) (g : group) (a : aset) (e : N * Z) : aset :=
  fst (notify (is_min g) (c_tol cfg) (offset_of g (fst e)) a (fst e) true None).

Definition FillOK (g : group) (a : aset) (done : list (N * Z)) : Prop :=
  NoDup (keys (as_entries a)) /\
  (forall x, is_member x (as_entries a) = true -> is_member x (g_members g) = true) /\
  (forall x, is_member x done = true -> is_member x (as_entries a) = true) /\
  (g_policy g = PMin -> Ibest a).

Lemma fill_ok : forall cfg g ms a done,
  FillOK g a done -> (forall x, is_member x ms = true -> is_member x (g_members g) = true) ->
  FillOK g (fold_left (fill_step cfg g) ms a) (done ++ ms).
Proof.
  induction ms as [|e r IH]; intros a done H Hs; cbn [fold_left].
  - now rewrite app_nil_r.
  - replace (done ++ e :: r) with ((done ++ [e]) ++ r) by (rewrite <- app_assoc; reflexivity).
    apply IH.
    + destruct H as (A & B & C & D). unfold fill_step.
      destruct (notify_mem (is_min g) (c_tol cfg) (offset_of g (fst e)) a (fst e) true None A) as (N1 & N2). cbn zeta in N1, N2.
      split; [exact N1|]. split; [|split].
      * intros x Hx. rewrite N2 in Hx. destruct (x =? fst e) eqn:E; [|now apply B].
        apply N.eqb_eq in E; subst x. apply Hs. rewrite is_member_cons, N.eqb_refl. reflexivity.
      * intros x Hx. rewrite N2. destruct (x =? fst e) eqn:E; [reflexivity|]. apply C.
        rewrite is_member_app, is_member_cons, is_member_nil, orb_false_r in Hx. rewrite N.eqb_sym, E, orb_false_r in Hx. exact Hx.
      * intros Hp. assert (Hm : is_min g = true) by now apply is_min_PMin. rewrite Hm.
        apply (notify_inv (c_tol cfg) (offset_of g (fst e)) a (fst e) true None A (D Hp)).
    + intros x Hx. apply Hs. rewrite is_member_cons, Hx. apply orb_true_r.
Qed.

(* the inner loop of new_group for one type *)
Lemma fill_state : forall cfg gi g d ms m,
  keeps_sets g = true -> (forall x, is_member x ms = true -> is_member x (g_members g) = true) ->
  (forall x, d_alive (m_d m x) d = true) ->
  let m' := fold_left (fun m e => inform_group cfg m gi g (fst e) d (d_alive (m_d m (fst e)) d) []) ms m in
  m_d m' = m_d m /\
  m_sets m' gi d = fold_left (fill_step cfg g) ms (m_sets m gi d) /\
  (forall gi' d', (gi' =? gi) && dom_eqb d' d = false -> m_sets m' gi' d' = m_sets m gi' d').
Proof.
  induction ms as [|e r IH]; intros m Hk Hs Hal; cbn [fold_left]; [repeat split; reflexivity|].
  set (m1 := inform_group cfg m gi g (fst e) d (d_alive (m_d m (fst e)) d) []).
  assert (Hd : m_d m1 = m_d m) by (subst m1; destruct (inform_group_health cfg m gi g (fst e) d (d_alive (m_d m (fst e)) d) []) as (-> & _); reflexivity).
  assert (He : is_member (fst e) (g_members g) = true) by (apply Hs; rewrite is_member_cons, N.eqb_refl; reflexivity).
  destruct (IH m1 Hk) as (A & B & C).
  { intros x Hx. apply Hs. rewrite is_member_cons, Hx. apply orb_true_r. }
  { intros x. rewrite Hd. apply Hal. }
  cbn zeta in *. split; [now rewrite A|]. split.
  - rewrite B. f_equal. subst m1.
    destruct (inform_group_sets cfg m gi g (fst e) d (d_alive (m_d m (fst e)) d) [] gi d) as (S1 & _). cbn zeta in S1.
    rewrite S1, Hk, He, N.eqb_refl, dom_eqb_refl. cbn [andb]. unfold fill_step. rewrite Hal. reflexivity.
  - intros gi' d' Hne. rewrite (C gi' d' Hne). subst m1.
    destruct (inform_group_sets cfg m gi g (fst e) d (d_alive (m_d m (fst e)) d) [] gi' d') as (S1 & _). cbn zeta in S1.
    rewrite S1, Hne, andb_false_r. reflexivity.
Qed.

Lemma fill_state_bits : forall cfg gi g d (ms : list (N * Z)) m gi' d', (gi' =? gi) = false ->
  m_bits (fold_left (fun m e => inform_group cfg m gi g (fst e) d (d_alive (m_d m (fst e)) d) []) ms m) gi' d' = m_bits m gi' d'.
Proof.
  induction ms as [|e r IH]; intros m gi' d' Hne; cbn [fold_left]; [reflexivity|].
  rewrite IH by exact Hne.
  destruct (inform_group_sets cfg m gi g (fst e) d (d_alive (m_d m (fst e)) d) [] gi' d') as (_ & B1). cbn zeta in B1.
  rewrite B1, Hne. cbn [andb]. rewrite andb_false_r. reflexivity.
Qed.

Definition inner (cfg : config) (gi : N) (g : group) (m : mstate) (d : dom) : mstate :=
  fold_left (fun m e => inform_group cfg m gi g (fst e) d (d_alive (m_d m (fst e)) d) []) (g_members g) m.

Lemma outer_state : forall cfg gi g ds m,
  keeps_sets g = true -> (forall x d, d_alive (m_d m x) d = true) -> NoDup ds ->
  let m' := fold_left (inner cfg gi g) ds m in
  m_d m' = m_d m /\
  (forall d, m_sets m' gi d = if existsb (dom_eqb d) ds then fold_left (fill_step cfg g) (g_members g) (m_sets m gi d) else m_sets m gi d) /\
  (forall gi' d', (gi' =? gi) = false -> m_sets m' gi' d' = m_sets m gi' d' /\ m_bits m' gi' d' = m_bits m gi' d').
Proof.
  induction ds as [|d0 r IH]; intros m Hk Hal ND; cbn [fold_left existsb].
  - repeat split; reflexivity.
  - inversion ND as [|? ? Hnin ND']; subst.
    destruct (fill_state cfg gi g d0 (g_members g) m Hk (fun x H => H) (fun x => Hal x d0)) as (A & B & C).
    fold (inner cfg gi g m d0) in A, B, C.
    destruct (IH (inner cfg gi g m d0) Hk) as (A' & B' & C'); [intros; rewrite A; apply Hal|exact ND'|].
    cbn zeta in *. split; [now rewrite A', A|]. split.
    + intros d. rewrite B'. destruct (dom_eqb d d0) eqn:E.
      * apply dom_eqb_eq in E; subst d. cbn [orb].
        replace (existsb (dom_eqb d0) r) with false. { exact B. }
        symmetry. apply not_true_is_false. intros Hex. apply existsb_exists in Hex. destruct Hex as (y & Hy & Hey).
        apply dom_eqb_eq in Hey. subst y. contradiction.
      * cbn [orb]. rewrite (C gi d) by (rewrite N.eqb_refl, E; reflexivity). reflexivity.
    + intros gi' d' Hne. destruct (C' gi' d' Hne) as (-> & ->). split.
      * apply C. rewrite Hne. reflexivity.
      * unfold inner. apply fill_state_bits. exact Hne.
Qed.

Lemma standard_order_nodup : NoDup standard_order.
Proof. repeat constructor; cbn; intuition discriminate. Qed.
Lemma standard_order_all : forall d, existsb (dom_eqb d) standard_order = true.
Proof. destruct d; reflexivity. Qed.

Lemma empty_fill_ok : forall g, FillOK g empty_set [].
Proof.
  intros g. split; [constructor|]. split; [intros x H; rewrite is_member_nil in H; discriminate|].
  split; [intros x H; rewrite is_member_nil in H; discriminate|]. intros _. split; [reflexivity|discriminate].
Qed.

Lemma new_group_inv : forall cfg m gi g,
  (forall x d, d_alive (m_d m x) d = true) -> (forall d, m_sets m gi d = empty_set) ->
  let m' := new_group cfg m gi g in
  m_d m' = m_d m /\
  (forall gi' d, (gi' =? gi) = false -> m_sets m' gi' d = m_sets m gi' d /\ m_bits m' gi' d = m_bits m gi' d) /\
  (forall d, m_bits m' gi d = true) /\
  (keeps_sets g = true -> forall d, FillOK g (m_sets m' gi d) (g_members g)).
Proof.
  intros cfg m gi g Hal He. unfold new_group.
  destruct (keeps_sets g) eqn:Hk.
  - change (fold_left (fun m0 d => fold_left (fun m1 e => inform_group cfg m1 gi g (fst e) d (d_alive (m_d m1 (fst e)) d) []) (g_members g) m0) standard_order m)
      with (fold_left (inner cfg gi g) standard_order m).
    destruct (outer_state cfg gi g standard_order m Hk Hal standard_order_nodup) as (A & B & C). cbn zeta in *.
    cbn [m_d m_sets m_bits]. split; [exact A|]. split; [|split].
    + intros gi' d Hne. rewrite Hne. apply C. exact Hne.
    + intros d. now rewrite N.eqb_refl.
    + intros _ d. rewrite B, standard_order_all, He.
      apply (fill_ok cfg g (g_members g) empty_set [] (empty_fill_ok g)). auto.
  - cbn [m_d m_sets m_bits]. split; [reflexivity|]. split; [|split].
    + intros gi' d Hne. rewrite Hne. split; reflexivity.
    + intros d. now rewrite N.eqb_refl.
    + discriminate.
Qed.

Lemma new_groups_inv : forall cfg gs m gi0,
  (forall x d, d_alive (m_d m x) d = true) -> (forall gi d, gi0 <= gi -> m_sets m gi d = empty_set) ->
  let m' := new_groups cfg m gi0 gs in
  m_d m' = m_d m /\
  (forall k g, nth_error gs k = Some g ->
     (forall d, m_bits m' (gi0 + N.of_nat k) d = true) /\
     (keeps_sets g = true -> forall d, FillOK g (m_sets m' (gi0 + N.of_nat k) d) (g_members g))) /\
  (forall gi d, gi < gi0 -> m_sets m' gi d = m_sets m gi d /\ m_bits m' gi d = m_bits m gi d).
Proof.
  induction gs as [|g0 r IH]; intros m gi0 Hal He; cbn [new_groups].
  - split; [reflexivity|]. split; [intros k g H; destruct k; discriminate|]. intros; split; reflexivity.
  - destruct (new_group_inv cfg m gi0 g0 Hal (fun d => He gi0 d (N.le_refl _))) as (A & B & C & D). cbn zeta in *.
    destruct (IH (new_group cfg m gi0 g0) (gi0 + 1)) as (A' & B' & C').
    { intros. rewrite A. apply Hal. }
    { intros gi d Hle. destruct (B gi d) as (-> & _); [apply N.eqb_neq; lia|]. apply He. lia. }
    cbn zeta in *. split; [now rewrite A', A|]. split.
    + intros k g Hk. destruct k as [|k]; cbn [nth_error] in Hk.
      * inversion Hk; subst g. cbn [N.of_nat]. rewrite N.add_0_r.
        split; [intros d; destruct (C' gi0 d) as (_ & ->); [lia|apply C]|].
        intros Hks d. destruct (C' gi0 d) as (-> & _); [lia|]. now apply D.
      * replace (gi0 + N.of_nat (S k)) with (gi0 + 1 + N.of_nat k) by lia. now apply B'.
    + intros gi d Hlt. destruct (C' gi d) as (-> & ->); [lia|]. apply B. apply N.eqb_neq. lia.
Qed.

Lemma fresh_generation_Inv : forall cfg m, Inv cfg (m_fresh_generation cfg m).
Proof.
  intros cfg m. unfold m_fresh_generation.
  match goal with |- Inv cfg (new_groups cfg ?M 0 _) => set (m0 := M) end.
  destruct (new_groups_inv cfg (c_groups cfg) m0 0) as (A & B & _); [reflexivity|reflexivity|]. cbn zeta in *.
  intros gi g d Hg Hk. destruct (B (N.to_nat gi) g Hg) as (Hb & Hf).
  rewrite N.add_0_l, N2Nat.id in Hb, Hf. destruct (Hf Hk d) as (F1 & F2 & F3 & F4).
  split; [exact F1|]. split; [exact F2|]. split.
  - intros x Hx _. unfold fl. rewrite A. cbn. now apply F3.
  - intros Hp. split; [now apply F4|]. rewrite Hb.
    destruct (g_members g) as [|e r] eqn:Em; [reflexivity|]. cbn [length Nat.eqb orb].
    destruct (F4 Hp) as (I1 & _). unfold isSome. destruct (as_best (m_sets (new_groups cfg m0 0 (c_groups cfg)) gi d)) eqn:Eb; [reflexivity|].
    exfalso. specialize (I1 eq_refl). specialize (F3 (fst e)). rewrite is_member_cons, N.eqb_refl in F3. specialize (F3 eq_refl).
    rewrite I1, is_member_nil in F3. discriminate.
Qed.

Lemma Inv_same : forall cfg m m', Inv cfg m -> m_d m' = m_d m -> m_sets m' = m_sets m -> m_bits m' = m_bits m -> Inv cfg m'.
Proof. intros cfg m m' H D S B. unfold Inv in *. eapply InvG_ext; [exact H| |exact S|exact B]. intros; unfold fl; now rewrite D. Qed.

Lemma step_Inv : forall cfg m e, Inv cfg m -> Inv cfg (m_step cfg m e).
Proof.
  intros cfg m e H.
  assert (Hc : Inv cfg (clear_logs m)) by (eapply Inv_same; [exact H|reflexivity|reflexivity|reflexivity]).
  unfold m_step. destruct e as [n d k ign l|n d l|n d|n d l| | | | |l].
  - destruct k; try (destruct ign; [exact Hc|apply mark_unavail_G; exact Hc]).
    apply (mark_forced_G cfg (clear_logs m) n d l nopend Hc).
  - apply (mark_avail_G cfg (clear_logs m) n d l nopend Hc).
  - exact Hc.
  - apply traffic_ok_G. exact Hc.
  - eapply Inv_same; [exact Hc|reflexivity|reflexivity|reflexivity].
  - destruct (m_supp (clear_logs m) =? 0); [exact Hc|]. eapply Inv_same; [exact Hc|reflexivity|reflexivity|reflexivity].
  - eapply Inv_same; [exact Hc|reflexivity|reflexivity|reflexivity].
  - eapply Inv_same; [exact Hc|reflexivity|reflexivity|reflexivity].
  - unfold m_reload. apply inherit_G. apply fresh_generation_Inv.
Qed.

Lemma run_Inv : forall cfg h, Inv cfg (m_run cfg h).
Proof.
  intros cfg h. induction h as [|e h IH] using rev_ind.
  - unfold m_run, m_init; cbn [fold_left]. apply fresh_generation_Inv.
  - rewrite m_run_snoc. now apply step_Inv.
Qed.

Lemma members_In : forall x (l : list (N * Z)), In x (map fst l) <-> is_member x l = true.
Proof. intros. symmetry. apply is_member_In. Qed.

Lemma C16_groups_agree_proof : forall cfg h gi g d,
  nth_error (c_groups cfg) (N.to_nat gi) = Some g -> keeps_sets g = true ->
  let a := m_sets (m_run cfg h) gi d in
  NoDup (map fst (as_entries a))
  /\ (forall x, is_member x (as_entries a) = true -> In x (map fst (g_members g)))
  /\ (forall x, In x (map fst (g_members g)) -> is_member x (as_entries a) = model_alive cfg h x d).
Proof.
  intros cfg h gi g d Hg Hk a. destruct (run_Inv cfg h gi g d Hg Hk) as (A & B & C & _). subst a.
  split; [exact A|]. split.
  - intros x Hx. apply members_In. now apply B.
  - intros x Hx. apply members_In in Hx. apply (C x Hx). reflexivity.
Qed.

Lemma C16_connectivity_bit_proof : forall cfg h gi g d,
  nth_error (c_groups cfg) (N.to_nat gi) = Some g -> g_policy g = PMin ->
  m_bits (m_run cfg h) gi d = bit_of_alive (model_alive cfg h) g d.
Proof.
  intros cfg h gi g d Hg Hp.
  assert (Hk : keeps_sets g = true) by (unfold keeps_sets; now rewrite Hp).
  destruct (run_Inv cfg h gi g d Hg Hk) as (A & B & C & D). destruct (D Hp) as ((I1 & I2) & Hb).
  rewrite Hb. unfold bit_of_alive. destruct (Nat.eqb (length (g_members g)) 0); [reflexivity|]. cbn [orb].
  unfold isSome. destruct (as_best (m_sets (m_run cfg h) gi d)) as [b|] eqn:Eb; cbn.
  - symmetry. apply existsb_exists. exists b. pose proof (I2 b eq_refl) as Hm. split.
    + apply members_In. now apply B.
    + change (fl (m_run cfg h) b d = true). rewrite <- (C b (B b Hm) eq_refl). exact Hm.
  - symmetry. apply not_true_is_false. intros Hex. apply existsb_exists in Hex. destruct Hex as (x & Hx & Hal).
    apply members_In in Hx. pose proof (C x Hx eq_refl) as Hc. cbn beta in Hc.
    change (model_alive cfg h x d) with (fl (m_run cfg h) x d) in Hal. rewrite Hal in Hc.
    rewrite (I1 eq_refl), is_member_nil in Hc. discriminate.
Qed.

Lemma C16_connectivity_bit_spec_proof : forall cfg h gi g d,
  Forall (fun e => no_reload e = true) h ->
  nth_error (c_groups cfg) (N.to_nat gi) = Some g -> g_policy g = PMin ->
  m_bits (m_run cfg h) gi d = spec_bit cfg h g d.
Proof.
  intros cfg h gi g d Hh Hg Hp. rewrite (C16_connectivity_bit_proof cfg h gi g d Hg Hp).
  unfold bit_of_alive, spec_bit, bit_of, members_alive. f_equal.
  induction (map fst (g_members g)) as [|x r IH]; [reflexivity|]. cbn [existsb filter].
  rewrite (C16_thresholds_proof cfg h Hh x d). unfold spec_alive.
  destruct (sa (s_dom (s_run cfg h) x d)); [reflexivity|exact IH].
Qed.

Print Assumptions C16_groups_agree_proof.
Print Assumptions C16_connectivity_bit_proof.
Print Assumptions C16_connectivity_bit_spec_proof.
