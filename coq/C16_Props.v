(* C16 — property theorems only.  Each is closed by `exact` of a lemma of C16_Proofs.v.
   cfg ranges over all configurations (any number of nodes, addresses shared or empty, any groups with
   shared nodes), h over all finite histories of events (including reloads, suppression scopes). *)
From Coq Require Import List NArith ZArith Bool.
From Dae Require Import C16_Spec C16_Model C16_Proofs C16_ProofsHealth C16_ProofsEdges C16_ProofsFloor C16_ProofsGroups C16_ProofsGroupsReload C16_ProofsGroupsFinal C16_ProofsNoRevive C16_ProofsInstances C16_ProofsHandover C16_ProofsProbe.
From Dae.gen Require Import C16_Consts.
Import ListNotations.
Open Scope N_scope.

(* the thresholds, the escalation count and the order of network types in the source are the documented ones *)
Theorem C16_constants_documented :
  thr_default = 1 /\ thr_udp_probe = 3 /\ thr_tcp_traffic = 10 /\ thr_udp_traffic = 50 /\ max_consecutive_failures = 3.
Proof. exact C16_constants_documented_proof. Qed.
Print Assumptions C16_constants_documented.

Theorem C16_thresholds_table :
  forall d t, threshold d t = if t then k_traffic d else k_probe d.
Proof. exact threshold_doc. Qed.
Print Assumptions C16_thresholds_table.

(* after any history, a forced report makes the node not alive for that type at once (whatever the error,
   whatever the suppression state) *)
Theorem C16_forced_immediate :
  forall cfg h n d ign l, model_alive cfg (h ++ [EFail n d KForced ign l]) n d = false.
Proof. exact C16_forced_immediate_proof. Qed.
Print Assumptions C16_forced_immediate.

(* after any history, a successful probe makes the node alive, clears both counts and the address's death count *)
Theorem C16_success_revives_and_clears :
  forall cfg h n d l,
    let m := m_run cfg (h ++ [EProbeOk n d l]) in
    d_alive (m_d m n) d = true /\ md_fail (m_d m n) (index_of d) = 0 /\ md_traffic (m_d m n) (index_of d) = 0
    /\ (c_addr cfg n <> 0 -> m_tracker m (c_addr cfg n) = 0).
Proof. exact C16_success_revives_and_clears_proof. Qed.
Print Assumptions C16_success_revives_and_clears.

(* ... and so does successful traffic for the data-UDP types *)
Theorem C16_data_udp_traffic_revives :
  forall cfg h n d l, is_data d = true ->
    let m := m_run cfg (h ++ [ETrafficOk n d l]) in
    d_alive (m_d m n) d = true /\ md_traffic (m_d m n) (index_of d) = 0.
Proof. exact C16_data_udp_traffic_revives_proof. Qed.
Print Assumptions C16_data_udp_traffic_revives.

(* a failure report whose error is cancellation / teardown changes nothing (alive flags, counts, tracker,
   sets, slots) and fires no callback *)
Theorem C16_ignorable_never_counts :
  forall cfg h n d k l, k <> KForced ->
    same_health (m_run cfg h) (m_run cfg (h ++ [EFail n d k true l]))
    /\ m_tlog (m_run cfg (h ++ [EFail n d k true l])) = [].
Proof. exact C16_ignorable_never_counts_proof. Qed.
Print Assumptions C16_ignorable_never_counts.

(* while a reload suppression scope is open or its quiesce window runs, non-forced failures change nothing *)
Theorem C16_suppressed_never_counts :
  forall cfg h n d k ign l, k <> KForced -> m_suppressed (m_run cfg h) = true ->
    same_health (m_run cfg h) (m_run cfg (h ++ [EFail n d k ign l]))
    /\ m_tlog (m_run cfg (h ++ [EFail n d k ign l])) = [].
Proof. exact C16_suppressed_never_counts_proof. Qed.
Print Assumptions C16_suppressed_never_counts.

(* ---- the model's node health refines the spec replay ------------------------------------------------ *)
(* R (C16_Proofs.v): alive flags equal, counts equal where alive, death counts, suppression equal.
   Every reachable model state is R-related to a spec state (its abstraction), the initial states are
   related, and every event other than a reload preserves R and reports exactly the spec's transitions. *)
Theorem C16_refinement_step :
  forall cfg h s e, no_reload e = true -> R (m_run cfg h) s ->
    R (m_step cfg (m_run cfg h) e) (fst (s_step cfg s e)) /\ m_tlog (m_step cfg (m_run cfg h) e) = snd (s_step cfg s e).
Proof. exact C16_step_refines_reachable. Qed.
Print Assumptions C16_refinement_step.

Theorem C16_refinement_run :
  (forall cfg, R (m_init cfg) s_init) /\ (forall m, R m (abs_state m)) /\
  (forall cfg h0 s0 h, R (m_run cfg h0) s0 -> Forall (fun e => no_reload e = true) h ->
     R (m_run cfg (h0 ++ h)) (s_run_from cfg s0 h)).
Proof. exact (conj C16_R_init_proof (conj C16_R_abs_proof C16_run_refines_proof)). Qed.
Print Assumptions C16_refinement_run.

(* the death rule: alive flags and callbacks of the code-shaped model are those of the spec replay
   (documented thresholds, consecutive counts, escalation, suppression, ignorable errors) *)
Theorem C16_thresholds :
  forall cfg h, Forall (fun e => no_reload e = true) h ->
    (forall n d, model_alive cfg h n d = spec_alive cfg h n d)
    /\ (forall e, no_reload e = true -> m_tlog (m_run cfg (h ++ [e])) = spec_transitions cfg h e).
Proof. exact (fun cfg h H => conj (C16_thresholds_proof cfg h H) (fun e He => C16_transitions_refine_proof cfg h e H He)). Qed.
Print Assumptions C16_thresholds.

(* ... as an iff, after ANY history (reloads included): a counted non-forced failure leaves the node dead
   iff it was dead or the run of consecutive counted failures of that source reaches the documented number *)
Theorem C16_death_rule :
  forall cfg h s n d k l, R (m_run cfg h) s -> k <> KForced ->
    (model_alive cfg (h ++ [EFail n d k false l]) n d = false
     <-> (model_alive cfg h n d = false
          \/ (suppressed s = false /\ k_of d (is_traffic k) <= run_of (s_dom s n d) (is_traffic k) + 1))).
Proof. exact C16_death_rule_proof. Qed.
Print Assumptions C16_death_rule.

Theorem C16_escalation_after_three_deaths :
  forall cfg h s n d k l,
    R (m_run cfg h) s -> k <> KForced -> suppressed s = false ->
    model_alive cfg h n d = true -> k_of d (is_traffic k) <= run_of (s_dom s n d) (is_traffic k) + 1 ->
    c_addr cfg n <> 0 ->
    let m' := m_run cfg (h ++ [EFail n d k false l]) in
    (forall n' d', n' <> n -> d_alive (m_d m' n') d' = model_alive cfg h n' d')
    /\ (k_deaths <= s_deaths s (c_addr cfg n) + 1 ->
          (forall d', d_alive (m_d m' n) d' = false) /\ m_tracker m' (c_addr cfg n) = 0)
    /\ (s_deaths s (c_addr cfg n) + 1 < k_deaths ->
          (forall d', d' <> d -> d_alive (m_d m' n) d' = model_alive cfg h n d') /\ d_alive (m_d m' n) d = false
          /\ m_tracker m' (c_addr cfg n) = s_deaths s (c_addr cfg n) + 1).
Proof. exact C16_escalation_after_three_deaths_proof. Qed.
Print Assumptions C16_escalation_after_three_deaths.

(* only a success revives: after any history, a failure report of any kind (probe, transactional, traffic,
   forced; counted or not; through whichever counter, whatever its streak) on any node and type never makes a
   node that is not alive for a type alive for it *)
Theorem C16_failure_never_revives :
  forall cfg h n d k ign l n' d',
    model_alive cfg h n' d' = false -> model_alive cfg (h ++ [EFail n d k ign l]) n' d' = false.
Proof. exact C16_failure_never_revives_proof. Qed.
Print Assumptions C16_failure_never_revives.

(* the statement is false of the variant that stores "streak < threshold" instead of keeping the current state
   below the threshold: a TCP type killed by a failed probe comes back on one traffic failure, with an
   alive callback and the connectivity slot set *)
Theorem C16_failure_never_revives_swap_refuted :
  let h := [EFail 0 Tcp4 KCheck false []] in
  model_alive wit_cfg1 h 0 Tcp4 = false
  /\ d_alive (m_d (mark_unavail_swap wit_cfg1 (clear_logs (m_run wit_cfg1 h)) 0 Tcp4 true []) 0) Tcp4 = true
  /\ m_tlog (mark_unavail_swap wit_cfg1 (clear_logs (m_run wit_cfg1 h)) 0 Tcp4 true []) = [(0, Tcp4, true)]
  /\ m_bits (mark_unavail_swap wit_cfg1 (clear_logs (m_run wit_cfg1 h)) 0 Tcp4 true []) 0 Tcp4 = true.
Proof. exact C16_failure_never_revives_swap_refuted_proof. Qed.
Print Assumptions C16_failure_never_revives_swap_refuted.

(* successful traffic, for every history and every counter state (in particular a traffic streak of 0 after a
   death through the probe counter or a reload hand-over): a dead data-UDP type comes back with both counts and
   the address's death count cleared and exactly one alive edge; for every other type nothing is revived *)
Theorem C16_data_udp_traffic_revives_dead :
  forall cfg h n d l, is_data d = true -> model_alive cfg h n d = false ->
    let m := m_run cfg (h ++ [ETrafficOk n d l]) in
    d_alive (m_d m n) d = true /\ md_fail (m_d m n) (index_of d) = 0 /\ md_traffic (m_d m n) (index_of d) = 0
    /\ (c_addr cfg n <> 0 -> m_tracker m (c_addr cfg n) = 0) /\ m_tlog m = [(n, d, true)].
Proof. exact C16_data_udp_traffic_revives_dead_proof. Qed.
Print Assumptions C16_data_udp_traffic_revives_dead.

Theorem C16_traffic_success_other_types :
  forall cfg h n d l, is_data d = false ->
    (forall n' d', model_alive cfg (h ++ [ETrafficOk n d l]) n' d' = model_alive cfg h n' d')
    /\ m_tlog (m_run cfg (h ++ [ETrafficOk n d l])) = [].
Proof. exact C16_traffic_success_other_types_proof. Qed.
Print Assumptions C16_traffic_success_other_types.

(* false of the variant whose early return "traffic streak = 0" precedes the revival check *)
Theorem C16_data_udp_traffic_revives_early_return_refuted :
  let h := repeat (EFail 0 DataUdp4 KTrans false []) 3 in
  model_alive wit_cfg1 h 0 DataUdp4 = false
  /\ md_traffic (m_d (m_run wit_cfg1 h) 0) (index_of DataUdp4) = 0
  /\ d_alive (m_d (traffic_ok_early_return wit_cfg1 (clear_logs (m_run wit_cfg1 h)) 0 DataUdp4 []) 0) DataUdp4 = false
  /\ model_alive wit_cfg1 (h ++ [ETrafficOk 0 DataUdp4 []]) 0 DataUdp4 = true.
Proof. exact C16_data_udp_traffic_revives_early_return_refuted_proof. Qed.
Print Assumptions C16_data_udp_traffic_revives_early_return_refuted.

(* ---- a probe = the two-attempt loop of Dialer.check (number of attempts and loop shape extracted from source) ---- *)
(* for all attempt outcomes and every point at which teardown cancels the node's context, the verdict of the loop
   is the property's: success if an attempt succeeded, a cancellation (never counted) whenever the context is
   cancelled before a second attempt completed, a failure iff both attempts genuinely failed *)
Theorem C16_probe_verdict :
  (forall a1 a2 c, model_probe_verdict a1 a2 c = spec_probe_verdict a1 a2 c)
  /\ (forall a1 a2 c, model_probe_verdict a1 a2 c = VFailure <-> (a1 = AErr /\ a2 = AErr /\ (c = CNone \/ c = CAfter))).
Proof. exact (conj C16_probe_verdict_proof C16_probe_failure_iff_proof). Qed.
Print Assumptions C16_probe_verdict.

(* composition with C16_ignorable_never_counts: after any history such a probe changes no alive flag, count,
   tracker, set or slot and fires no callback *)
Theorem C16_probe_cancel_never_counts :
  forall cfg h n d a1 a2 c l,
    (c = CBefore1 \/ (a1 = AErr /\ (c = CBetween \/ c = CDuring2))) ->
    same_health (m_run cfg h) (m_run cfg (h ++ [probe_event a1 a2 c n d l]))
    /\ m_tlog (m_run cfg (h ++ [probe_event a1 a2 c n d l])) = [].
Proof. exact C16_probe_cancel_never_counts_proof. Qed.
Print Assumptions C16_probe_cancel_never_counts.

(* false of the variant that skips the retry once the context is cancelled and judges the first attempt's error *)
Theorem C16_probe_verdict_break_first_refuted :
  probe_loop_break_first AErr AErr CBetween 0 2 RNothing = RError
  /\ spec_probe_verdict AErr AErr CBetween = VIgnore
  /\ model_probe_verdict AErr AErr CBetween = VIgnore.
Proof. exact C16_probe_verdict_break_first_refuted_proof. Qed.
Print Assumptions C16_probe_verdict_break_first_refuted.

(* ---- callbacks fire exactly on flips, for every event of every history (reloads: relative to the fresh
   generation's all-alive dialers) ------------------------------------------------------------------- *)
Theorem C16_edge_triggered :
  forall cfg h e,
    valid_log (if no_reload e then model_alive cfg h else (fun _ _ => true))
              (m_tlog (m_run cfg (h ++ [e]))) (model_alive cfg (h ++ [e])).
Proof. exact C16_edge_triggered_proof. Qed.
Print Assumptions C16_edge_triggered.

Theorem C16_edge_once :
  forall cfg h e, no_reload e = true ->
    NoDup (map (fun t => (fst (fst t), dom_code (snd (fst t)))) (m_tlog (m_run cfg (h ++ [e])))).
Proof. exact C16_edge_once_proof. Qed.
Print Assumptions C16_edge_once.

(* ---- group view, after every history (reloads included) ---------------------------------------------- *)
Theorem C16_groups_agree :
  forall cfg h gi g d,
    nth_error (c_groups cfg) (N.to_nat gi) = Some g -> keeps_sets g = true ->
    let a := m_sets (m_run cfg h) gi d in
    NoDup (map fst (as_entries a))
    /\ (forall x, is_member x (as_entries a) = true -> In x (map fst (g_members g)))
    /\ (forall x, In x (map fst (g_members g)) -> is_member x (as_entries a) = model_alive cfg h x d).
Proof. exact C16_groups_agree_proof. Qed.
Print Assumptions C16_groups_agree.

(* the kernel connectivity slot of a latency-policy group is 0 exactly when the group has members and none
   is alive for the type (true of the model of the repaired code, commit 5091dd9) *)
Theorem C16_connectivity_bit :
  forall cfg h gi g d,
    nth_error (c_groups cfg) (N.to_nat gi) = Some g -> g_policy g = PMin ->
    m_bits (m_run cfg h) gi d = bit_of_alive (model_alive cfg h) g d.
Proof. exact C16_connectivity_bit_proof. Qed.
Print Assumptions C16_connectivity_bit.

Theorem C16_connectivity_bit_spec :
  forall cfg h gi g d, Forall (fun e => no_reload e = true) h ->
    nth_error (c_groups cfg) (N.to_nat gi) = Some g -> g_policy g = PMin ->
    m_bits (m_run cfg h) gi d = spec_bit cfg h g d.
Proof. exact C16_connectivity_bit_spec_proof. Qed.
Print Assumptions C16_connectivity_bit_spec.

(* which slot: the key the control plane writes (constants extracted from control/connectivity.go) is the
   slot the kernel reads, outbound * 6 + domain * 2 + ipversion, for every outbound id; distinct
   (outbound, type) pairs never share a slot *)
Theorem C16_slot_layout :
  (forall o d, conn_key o d = spec_slot o d)
  /\ (forall o d o' d', spec_slot o d = spec_slot o' d' -> o = o' /\ d = d').
Proof. exact (conj C16_slot_layout_proof C16_slot_injective_proof). Qed.
Print Assumptions C16_slot_layout.

(* ---- reload ------------------------------------------------------------------------------------------ *)
Theorem C16_reload_handover_partial :
  forall cfg h l,
    let m' := m_run cfg (h ++ [EReload l]) in
    (forall n i, md_fail (m_d m' n) i = 0 /\ md_traffic (m_d m' n) i = 0)
    /\ (forall n d, model_alive cfg h n d = true -> d_alive (m_d m' n) d = true).
Proof. exact C16_reload_handover_partial_proof. Qed.
Print Assumptions C16_reload_handover_partial.

Theorem C16_reload_floor_partial :
  forall cfg h l, groups_disjoint cfg -> m_floor_ok cfg (m_run cfg (h ++ [EReload l])) = true.
Proof. exact C16_reload_floor_partial_proof. Qed.
Print Assumptions C16_reload_floor_partial.

(* the hand-over is keyed by dialer instance.  In the model an instance is a number: a node with its own instance
   in a group that overrides the check options is two numbers; the new instance n of a group is restored from the
   old instance n (the same node in the same group): m_reload calls `inherit` with old := m_d m, and restoring
   makes the instance's flags exactly the old instance's, touching no other instance *)
Theorem C16_restore_exact :
  forall cfg o m n l,
    let m' := restore cfg o m n l in
    (forall d, d_alive (m_d m' n) d = d_alive o d) /\ (forall n', n' <> n -> m_d m' n' = m_d m n').
Proof. exact C16_restore_exact_proof. Qed.
Print Assumptions C16_restore_exact.

(* exactness of the hand-over, for every configuration of groups and instances and every history: together with
   C16_reload_handover_partial (alive stays alive, counters cleared) a new instance differs from the old instance
   of the same node in the same group only through the documented fallbacks: an instance in no group starts
   alive, and a type that was not alive can be alive only for a member of a set-keeping group (floor candidate) *)
Theorem C16_reload_handover_exact :
  (forall cfg h l n, in_some_group cfg n = false -> forall d, model_alive cfg (h ++ [EReload l]) n d = true)
  /\ (forall cfg h l n d,
        model_alive cfg h n d = false -> model_alive cfg (h ++ [EReload l]) n d = true ->
        in_some_group cfg n = false
        \/ exists g, In g (c_groups cfg) /\ keeps_sets g = true /\ is_member n (g_members g) = true).
Proof. exact (conj C16_reload_outside_groups_proof C16_reload_handover_exact_proof). Qed.
Print Assumptions C16_reload_handover_exact.

(* matching old instances by node name only (one map over all previous groups, last group wins) is refuted: the
   alive first instance of X is handed the dead second instance's state, with a spurious callback *)
Theorem C16_reload_name_only_refuted :
  model_alive wit_cfg_inst wit_h_inst 0 Tcp4 = true
  /\ model_alive wit_cfg_inst (wit_h_inst ++ [EReload []]) 0 Tcp4 = true
  /\ model_alive wit_cfg_inst (wit_h_inst ++ [EReload []]) 1 Tcp4 = false
  /\ d_alive (m_d (m_reload_matched pick_by_name wit_cfg_inst (clear_logs (m_run wit_cfg_inst wit_h_inst)) []) 0) Tcp4 = false
  /\ m_tlog (m_reload_matched pick_by_name wit_cfg_inst (clear_logs (m_run wit_cfg_inst wit_h_inst)) []) = [(0, Tcp4, false); (1, Tcp4, false)].
Proof. exact C16_reload_name_only_refuted_proof. Qed.
Print Assumptions C16_reload_name_only_refuted.

(* FULL statement for the reload floor — false of the faithful model (and of the code) when groups share a node *)
Definition C16_reload_floor_full : Prop := C16_reload_floor_full_def.
Theorem C16_reload_floor_refuted :
  as_entries (m_sets (m_run wit_cfg2 wit_h_floor) 0 Tcp6) = [] /\ ~ C16_reload_floor_full.
Proof. exact C16_reload_floor_refuted_proof. Qed.
Print Assumptions C16_reload_floor_refuted.

Example C16_nonvacuous :
  model_alive wit_cfg1 (repeat (EFail 0 DnsUdp4 KCheck false []) 2) 0 DnsUdp4 = true
  /\ model_alive wit_cfg1 (repeat (EFail 0 DnsUdp4 KCheck false []) 3) 0 DnsUdp4 = false
  /\ model_alive wit_cfg1 (repeat (EFail 0 DnsUdp4 KCheck false []) 2 ++ [EProbeOk 0 DnsUdp4 []] ++ repeat (EFail 0 DnsUdp4 KCheck false []) 2) 0 DnsUdp4 = true
  /\ model_alive wit_cfg1 (repeat (EFail 0 DataUdp6 KTraffic false []) 49) 0 DataUdp6 = true
  /\ model_alive wit_cfg1 (repeat (EFail 0 DataUdp6 KTraffic false []) 50) 0 DataUdp6 = false
  /\ model_alive wit_cfg1 [ESuppBegin; EFail 0 Tcp4 KCheck false []] 0 Tcp4 = true
  /\ map (model_alive wit_cfg1 [EFail 0 Tcp4 KCheck false []; EFail 0 Tcp6 KCheck false []; EFail 0 DnsUdp4 KForced false []; EProbeOk 0 DnsUdp4 []] 0) all_doms
     = [false; false; true; true; true; true]
  /\ map (model_alive wit_cfg1 [EFail 0 Tcp4 KCheck false []; EFail 0 Tcp6 KCheck false []; EFail 0 Tcp4 KCheck false []; EProbeOk 0 Tcp4 []; EFail 0 Tcp4 KCheck false []; EFail 0 Tcp4 KTraffic false []] 0) all_doms
     = [false; false; true; true; true; true]
  /\ map (model_alive wit_cfg1 (repeat (EFail 0 Tcp4 KTraffic false []) 10 ++ [EFail 0 Tcp6 KCheck false []] ++ repeat (EFail 0 DnsUdp6 KTrans false []) 3) 0) all_doms
     = [false; false; false; false; false; false].
Proof. exact C16_nonvacuous_proof. Qed.
