(* C16 — property theorems only.  Each is closed by `exact` of a lemma of C16_Proofs.v.
   cfg ranges over all configurations (any number of nodes, addresses shared or empty, any groups with
   shared nodes), h over all finite histories of events (including reloads, suppression scopes). *)
From Coq Require Import List NArith ZArith Bool.
From Dae Require Import C16_Spec C16_Model C16_Proofs.
From Dae.gen Require Import C16_Consts.
Import ListNotations.
Open Scope N_scope.

(* the thresholds, the escalation count and the order of network types in the source are the documented ones *)
Theorem C16_constants_documented :
  thr_default = 1 /\ thr_udp_probe = 3 /\ thr_tcp_traffic = 10 /\ thr_udp_traffic = 50 /\ max_consecutive_failures = 3.
Proof. exact C16_constants_documented_proof. Qed.
Print Assumptions C16_constants_documented.

Theorem C16_thresholds_table :
  forall d t, threshold d t = if t then k_traffic d else k_probe d.
Proof. exact threshold_doc. Qed.
Print Assumptions C16_thresholds_table.

(* after any history, a forced report makes the node not alive for that type at once (whatever the error,
   whatever the suppression state) *)
Theorem C16_forced_immediate :
  forall cfg h n d ign l, model_alive cfg (h ++ [EFail n d KForced ign l]) n d = false.
Proof. exact C16_forced_immediate_proof. Qed.
Print Assumptions C16_forced_immediate.

(* after any history, a successful probe makes the node alive, clears both counts and the address's death count *)
Theorem C16_success_revives_and_clears :
  forall cfg h n d l,
    let m := m_run cfg (h ++ [EProbeOk n d l]) in
    d_alive (m_d m n) d = true /\ md_fail (m_d m n) (index_of d) = 0 /\ md_traffic (m_d m n) (index_of d) = 0
    /\ (c_addr cfg n <> 0 -> m_tracker m (c_addr cfg n) = 0).
Proof. exact C16_success_revives_and_clears_proof. Qed.
Print Assumptions C16_success_revives_and_clears.

(* ... and so does successful traffic for the data-UDP types *)
Theorem C16_data_udp_traffic_revives :
  forall cfg h n d l, is_data d = true ->
    let m := m_run cfg (h ++ [ETrafficOk n d l]) in
    d_alive (m_d m n) d = true /\ md_traffic (m_d m n) (index_of d) = 0.
Proof. exact C16_data_udp_traffic_revives_proof. Qed.
Print Assumptions C16_data_udp_traffic_revives.

(* a failure report whose error is cancellation / teardown changes nothing (alive flags, counts, tracker,
   sets, slots) and fires no callback *)
Theorem C16_ignorable_never_counts :
  forall cfg h n d k l, k <> KForced ->
    same_health (m_run cfg h) (m_run cfg (h ++ [EFail n d k true l]))
    /\ m_tlog (m_run cfg (h ++ [EFail n d k true l])) = [].
Proof. exact C16_ignorable_never_counts_proof. Qed.
Print Assumptions C16_ignorable_never_counts.

(* while a reload suppression scope is open or its quiesce window runs, non-forced failures change nothing *)
Theorem C16_suppressed_never_counts :
  forall cfg h n d k ign l, k <> KForced -> m_suppressed (m_run cfg h) = true ->
    same_health (m_run cfg h) (m_run cfg (h ++ [EFail n d k ign l]))
    /\ m_tlog (m_run cfg (h ++ [EFail n d k ign l])) = [].
Proof. exact C16_suppressed_never_counts_proof. Qed.
Print Assumptions C16_suppressed_never_counts.

(* FULL statement for the reload floor — false of the faithful model (and of the code) when groups share a node *)
Definition C16_reload_floor_full : Prop := C16_reload_floor_full_def.
Theorem C16_reload_floor_refuted :
  as_entries (m_sets (m_run wit_cfg2 wit_h_floor) 0 Tcp6) = [] /\ ~ C16_reload_floor_full.
Proof. exact C16_reload_floor_refuted_proof. Qed.
Print Assumptions C16_reload_floor_refuted.

Example C16_nonvacuous :
  model_alive wit_cfg1 (repeat (EFail 0 DnsUdp4 KCheck false []) 2) 0 DnsUdp4 = true
  /\ model_alive wit_cfg1 (repeat (EFail 0 DnsUdp4 KCheck false []) 3) 0 DnsUdp4 = false
  /\ model_alive wit_cfg1 (repeat (EFail 0 DnsUdp4 KCheck false []) 2 ++ [EProbeOk 0 DnsUdp4 []] ++ repeat (EFail 0 DnsUdp4 KCheck false []) 2) 0 DnsUdp4 = true
  /\ model_alive wit_cfg1 (repeat (EFail 0 DataUdp6 KTraffic false []) 49) 0 DataUdp6 = true
  /\ model_alive wit_cfg1 (repeat (EFail 0 DataUdp6 KTraffic false []) 50) 0 DataUdp6 = false
  /\ model_alive wit_cfg1 [ESuppBegin; EFail 0 Tcp4 KCheck false []] 0 Tcp4 = true
  /\ map (model_alive wit_cfg1 [EFail 0 Tcp4 KCheck false []; EFail 0 Tcp6 KCheck false []; EFail 0 DnsUdp4 KForced false []; EProbeOk 0 DnsUdp4 []] 0) all_doms
     = [false; false; true; true; true; true]
  /\ map (model_alive wit_cfg1 [EFail 0 Tcp4 KCheck false []; EFail 0 Tcp6 KCheck false []; EFail 0 Tcp4 KCheck false []; EProbeOk 0 Tcp4 []; EFail 0 Tcp4 KCheck false []; EFail 0 Tcp4 KTraffic false []] 0) all_doms
     = [false; false; true; true; true; true]
  /\ map (model_alive wit_cfg1 (repeat (EFail 0 Tcp4 KTraffic false []) 10 ++ [EFail 0 Tcp6 KCheck false []] ++ repeat (EFail 0 DnsUdp6 KTrans false []) 3) 0) all_doms
     = [false; false; false; false; false; false].
Proof. exact C16_nonvacuous_proof. Qed.
