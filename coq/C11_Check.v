(* C11 — executable comparison functions used by the generated cases files (no proofs). *)
From Coq Require Import List NArith Bool.
From Coq Require Strings.String Strings.Ascii.
Import Strings.String.StringSyntax.
From Dae Require Import C11_Spec C11_Model C11_Louds C11_Build.
From Dae.gen Require Import C11_Extracted.
Import ListNotations.
Open Scope N_scope.

(* compact input syntax for the generated case files (Coq elaborates number literals slowly):
   [s "text"] = the bytes of a printable string, [nums "a,ff,10"] = a list of hexadecimal numbers *)
Fixpoint s (x : String.string) : list N :=
  match x with String.EmptyString => [] | String.String a r => Ascii.N_of_ascii a :: s r end.
Definition hexdigit (a : Ascii.ascii) : option N :=
  let n := Ascii.N_of_ascii a in
  if (48 <=? n) && (n <=? 57) then Some (n - 48)
  else if (97 <=? n) && (n <=? 102) then Some (n - 87) else None.
Fixpoint nums_aux (x : String.string) (cur : N) (have : bool) : list N :=
  match x with
  | String.EmptyString => if have then [cur] else []
  | String.String a r => match hexdigit a with
                  | Some d => nums_aux r (cur * 16 + d) true
                  | None => (if have then [cur] else []) ++ nums_aux r 0 false
                  end
  end.
Definition nums (x : String.string) : list N := nums_aux x 0 false.

Fixpoint lstr_eqb (a b : list str) : bool :=
  match a, b with
  | [], [] => true
  | x :: a', y :: b' => str_eqb x y && lstr_eqb a' b'
  | _, _ => false
  end.
Fixpoint ln_eqb (a b : list N) : bool :=
  match a, b with
  | [], [] => true
  | x :: a', y :: b' => (x =? y) && ln_eqb a' b'
  | _, _ => false
  end.
Fixpoint lb_eqb (a b : list bool) : bool :=
  match a, b with
  | [], [] => true
  | x :: a', y :: b' => Bool.eqb x y && lb_eqb a' b'
  | _, _ => false
  end.

Definition assoc {A} (eqb : A -> A -> bool) {B} (d : B) (t : list (A * B)) (k : A) : B :=
  match find (fun x => eqb (fst x) k) t with Some x => snd x | None => d end.

(* ---------------- matcher cases ---------------- *)
Record mcase := {
  mc_sets : list pset;
  mc_names : list str;
  mc_idxs : list N;
  mc_rx_ok : list (str * bool);                  (* pattern -> compiles *)
  mc_rx : list (str * list (str * bool));        (* pattern -> (name asked -> hit) *)
  mc_ac_ok : list (list str * bool);             (* pattern list -> NewMatcher succeeds *)
  mc_ac : list (list str * list (str * bool));   (* pattern list -> (string asked -> hit) *)
  mc_impl : option (list (list N));              (* None = Build error; else per name the set bits *)
  mc_stages : option (list (N * N * N))          (* per probed index: #trie keys, #keywords, #regexps held
                                                    after the last AddSet; None = AddSet ended in error *)
}.

Definition o_rx_ok (c : mcase) (p : str) : bool := assoc str_eqb false (mc_rx_ok c) p.
Definition o_rx (c : mcase) (p n : str) : bool := assoc str_eqb false (assoc str_eqb [] (mc_rx c) p) n.
Definition o_ac_ok (c : mcase) (ps : list str) : bool := assoc lstr_eqb false (mc_ac_ok c) ps.
Definition o_ac (c : mcase) (ps : list str) (s : str) : bool := assoc str_eqb false (assoc lstr_eqb [] (mc_ac c) ps) s.

Definition chars := valid_domain_chars.

Definition run_packed (c : mcase) : option (list (list N)) :=
  run chars (o_rx_ok c) (o_rx c) (o_ac_ok c) (o_ac c) ptrie (p_new chars) (p_has chars)
      (mc_sets c) (mc_names c) (mc_idxs c).
Definition run_abs (c : mcase) : option (list (list N)) :=
  run chars (o_rx_ok c) (o_rx c) (o_ac_ok c) (o_ac c) (list str) (abs_new chars) abs_has
      (mc_sets c) (mc_names c) (mc_idxs c).
Definition run_spec (c : mcase) : option (list (list N)) :=
  if sets_ok (o_rx_ok c) (mc_sets c)
  then Some (map (fun raw => filter (bit (o_rx c) (mc_sets c) raw) (mc_idxs c)) (mc_names c))
  else None.

(* positions (name index) where two answers differ; a Build-error disagreement is position 0 *)
Fixpoint diff_at (a b : list (list N)) (n : N) : list N :=
  match a, b with
  | [], [] => []
  | x :: a', y :: b' => (if ln_eqb x y then [] else [n]) ++ diff_at a' b' (n + 1)
  | _, _ => [n]
  end.
Definition odiff (a b : option (list (list N))) : list N :=
  match a, b with
  | None, None => []
  | Some x, Some y => diff_at x y 0
  | _, _ => [0]
  end.

(* where AddSet routes the patterns (by written kind): per probed index the number of trie keys, of keywords
   handed to the automaton and of regexps *)
Definition model_stages (c : mcase) : option (list (N * N * N)) :=
  let s := add_sets chars (o_rx_ok c) (mc_sets c) in
  if err s then None
  else Some (map (fun i => (N.of_nat (length (to_trie s i)), N.of_nat (length (to_ac s i)),
                            N.of_nat (length (regexps s i)))) (mc_idxs c)).
Definition stage_eqb (a b : N * N * N) : bool :=
  (fst (fst a) =? fst (fst b)) && (snd (fst a) =? snd (fst b)) && (snd a =? snd b).
Fixpoint stages_diff (a b : list (N * N * N)) (n : N) : list N :=
  match a, b with
  | [], [] => []
  | x :: a', y :: b' => (if stage_eqb x y then [] else [n]) ++ stages_diff a' b' (n + 1)
  | _, _ => [n]
  end.
Definition ostages_diff (a b : option (list (N * N * N))) : list N :=
  match a, b with
  | None, None => []
  | Some x, Some y => stages_diff x y 0
  | _, _ => [0]
  end.

(* error codes: 1 impl<>model(packed trie)  2 impl<>spec  3 model(abstract trie)<>spec
               5 model(packed trie)<>model(abstract trie)
               8 impl<>model: a pattern was routed to another stage than its written kind says
                 (position = index into the probed indices) *)
Definition check_mcase (c : mcase) : list (N * N) :=
  let mp := run_packed c in
  let ma := run_abs c in
  let sp := run_spec c in
  map (fun n => (n, 1)) (odiff (mc_impl c) mp)
  ++ map (fun n => (n, 2)) (odiff (mc_impl c) sp)
  ++ map (fun n => (n, 3)) (odiff ma sp)
  ++ map (fun n => (n, 5)) (odiff mp ma)
  ++ map (fun n => (n, 8)) (ostages_diff (mc_stages c) (model_stages c)).

Definition explain_mcase (c : mcase) := (mc_impl c, run_packed c, run_abs c, run_spec c, mc_stages c, model_stages c).

(* signature: (#names with a hit, #names without, kinds present as a mask, build error?) *)
Definition kind_bit (k : kind) : N := match k with KFull => 1 | KSuffix => 2 | KKeyword => 4 | KRegex => 8 end.
Definition msignature (c : mcase) : N * N * N * N :=
  let km := fold_right (fun s m => N.lor (kind_bit (ps_kind s)) m) 0 (mc_sets c) in
  match mc_impl c with
  | None => (0, 0, km, 1)
  | Some r =>
      let hit := N.of_nat (length (filter (fun l => match l with [] => false | _ => true end) r)) in
      (N.min hit 8, N.min (N.of_nat (length r) - hit) 8, km, 0)
  end.

(* ---------------- raw trie cases ---------------- *)
Record tcase := {
  tc_chars : list N;
  tc_keys : list str;
  tc_words : list str;
  tc_err : bool;
  tc_leaves : list N; tc_lbm : list N;
  tc_labels : list N; tc_ranks : list N; tc_selects : list N;
  tc_has : list N   (* 0 false, 1 true, 2 panic *)
}.

Definition b2n (b : bool) : N := if b then 1 else 0.
Definition seqN (n : nat) : list N := map N.of_nat (seq 0 n).

(* error codes: 1 impl<>packed model (answers)  2 impl<>spec  3 logical model<>spec
               5 packed<>logical  6 impl<>packed model (stored structure)  7 impl<>model (error class) *)
Definition check_tcase (c : tcase) : list (N * N) :=
  let ch := tc_chars c in
  match l_new ch (tc_keys c) with
  | None => if tc_err c then [] else [(0, 7)]
  | Some L =>
      if tc_err c then [(0, 7)] else
      let t := pack_louds ch L in
      let struct_ok :=
        ln_eqb (p_leaves t) (tc_leaves c) && ln_eqb (p_lbm t) (tc_lbm c)
        && ln_eqb (map (cbl_get (p_labels t)) (seqN (length (tc_labels c)))) (tc_labels c)
        && ln_eqb (l_labels L) (tc_labels c)
        && ln_eqb (map (cbl_get (p_ranks t)) (seqN (length (tc_ranks c)))) (tc_ranks c)
        && (c_num (p_ranks t) =? N.of_nat (length (tc_ranks c)))
        && ln_eqb (map (cbl_get (p_selects t)) (seqN (length (tc_selects c)))) (tc_selects c)
        && (c_num (p_selects t) =? N.of_nat (length (tc_selects c))) in
      let hp := map (fun w => b2n (p_has ch t w)) (tc_words c) in
      let hl := map (fun w => b2n (l_has ch L w)) (tc_words c) in
      let hs := map (fun w => b2n (has_prefix (tc_keys c) w)) (tc_words c) in
      let hw := map (fun w => b2n (t_walk (tc_keys c) w)) (tc_words c) in
      (if struct_ok then [] else [(0, 6)])
      ++ map (fun n => (n, 3)) (diff_at (map (fun x => [x]) hw) (map (fun x => [x]) hs) 0)
      ++ map (fun n => (n, 5)) (diff_at (map (fun x => [x]) hl) (map (fun x => [x]) hw) 0)
      ++ map (fun n => (n, 1)) (diff_at (map (fun x => [x]) (tc_has c)) (map (fun x => [x]) hp) 0)
      ++ map (fun n => (n, 2)) (diff_at (map (fun x => [x]) (tc_has c)) (map (fun x => [x]) hs) 0)
      ++ map (fun n => (n, 3)) (diff_at (map (fun x => [x]) hl) (map (fun x => [x]) hs) 0)
      ++ map (fun n => (n, 5)) (diff_at (map (fun x => [x]) hp) (map (fun x => [x]) hl) 0)
  end.

(* signature: (#nodes capped, #label-bitmap words, #true answers capped, #false answers capped) *)
Definition tsignature (c : tcase) : N * N * N * N :=
  match l_new (tc_chars c) (tc_keys c) with
  | None => (0, 0, 0, 0)
  | Some L =>
      let hs := map (fun w => has_prefix (tc_keys c) w) (tc_words c) in
      (N.min (N.of_nat (length (l_leaves L))) 64, N.of_nat (length (pack_bits (l_lbm L))),
       N.min (N.of_nat (length (filter id hs))) 8, N.min (N.of_nat (length (filter negb hs))) 8)
  end.

(* ---------------- CompactBitList cases ---------------- *)
Record bcase := {
  bc_unit : N;
  bc_ops : list (option N * N);   (* (None, v) = Append v; (Some i, v) = Set i v *)
  bc_gets : list N;
  bc_panics : list N;             (* indices of the ops that panicked *)
  bc_buf : list N;
  bc_num : N;
  bc_got : list N
}.

(* compact input: index list (0 = Append, i+1 = Set i) and value list *)
Definition mk_ops (is vs : list N) : list (option N * N) :=
  map (fun p => (if fst p =? 0 then None else Some (fst p - 1), snd p)) (combine is vs).

Fixpoint run_bops (m : cbl) (ops : list (option N * N)) (k : N) (panics : list N) : cbl * list N :=
  match ops with
  | [] => (m, rev panics)
  | (oi, v) :: r =>
      match cbl_set m (match oi with Some i => i | None => c_num m end) v with
      | Some m' => run_bops m' r (k + 1) panics
      | None => run_bops m r (k + 1) (k :: panics)
      end
  end.

(* spec of the bit list: an array of numbers below 2^unit, default 0; writing a number that does not fit
   is refused; Append writes just past the largest index written so far *)
Fixpoint spec_bops (u : N) (arr : N -> N) (num : N) (ops : list (option N * N)) (k : N) (panics : list N)
  : (N -> N) * list N :=
  match ops with
  | [] => (arr, rev panics)
  | (oi, v) :: r =>
      let i := match oi with Some i => i | None => num end in
      if v <? 2 ^ u then spec_bops u (fun j => if j =? i then v else arr j) (N.max num (i + 1)) r (k + 1) panics
      else spec_bops u arr num r (k + 1) (k :: panics)
  end.

(* error codes: 1 impl<>model (buffer, unitNum, panics, Get)  2 impl<>spec  3 model<>spec *)
Definition check_bcase (c : bcase) : list (N * N) :=
  let '(m, pm) := run_bops (cbl_new (bc_unit c)) (bc_ops c) 0 [] in
  let '(arr, ps) := spec_bops (bc_unit c) (fun _ => 0) 0 (bc_ops c) 0 [] in
  let gm := map (cbl_get m) (bc_gets c) in
  let gs := map arr (bc_gets c) in
  (if ln_eqb (c_buf m) (bc_buf c) && (c_num m =? bc_num c) && ln_eqb pm (bc_panics c) && ln_eqb gm (bc_got c)
   then [] else [(0, 1)])
  ++ (if ln_eqb (bc_got c) gs && ln_eqb (bc_panics c) ps then [] else [(0, 2)])
  ++ (if ln_eqb gm gs && ln_eqb pm ps then [] else [(0, 3)]).

Definition bsignature (c : bcase) : N * N * N * N :=
  (bc_unit c, N.min (N.of_nat (length (bc_buf c))) 16, N.of_nat (length (bc_panics c)), 0).

(* ---------------- Build's concurrency shape (extracted from the source on every run) ---------------- *)
(* one write of a concurrently started function literal to a receiver field: (0 append | 1 indexed slot |
   2 plain store, a mutex is held) *)
Definition shape_of (l : list (N * bool)) : shape :=
  map (fun w => (match fst w with 0 => WAppend | 1 => WIndex | _ => WStore end, snd w)) l.
Definition shape_locked (l : list (N * bool)) : bool :=
  match shape_disc (shape_of l) with Locked => true | Racy => false end.
