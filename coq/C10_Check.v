(* C10 — executable comparison functions used by the generated cases file (no proofs). *)
From Coq Require Import List NArith Bool.
From Dae Require Import C10_Spec C10_Model C10_Cache.
Import ListNotations.
Open Scope N_scope.

Definition pair_eqb (a b : N * N) : bool := (fst a =? fst b) && (snd a =? snd b).
Definition subset {A} (eqb : A -> A -> bool) (l1 l2 : list A) : bool :=
  forallb (fun x => existsb (eqb x) l2) l1.
Definition same_set {A} (eqb : A -> A -> bool) (l1 l2 : list A) : bool :=
  subset eqb l1 l2 && subset eqb l2 l1 && Nat.eqb (length l1) (length l2).
Definition optN_eqb (a b : option N) : bool :=
  match a, b with Some x, Some y => x =? y | None, None => true | _, _ => false end.

(* one observed step: the cache op and the batches the implementation emitted *)
Record obs_step := { os_op : cache_op; os_updates : list (N * N); os_deletes : list N }.

Record obs_case := {
  oc_steps : list obs_step;
  oc_universe : list N;                         (* every address named in the case, plus probes *)
  oc_owners : list N;                           (* every owner named *)
  oc_final_owners : list (N * (N * list N));    (* tracker.owners dump *)
  oc_final_index : list (N * (N * list (N * N)))(* tracker.ips dump: key -> merged, owners *)
}.

(* error codes: 1 impl<>model (batches)  2 impl<>spec (shadow after a step)  3 model<>spec
               4 impl<>model (final tracker state) *)
Fixpoint check_steps (steps : list obs_step) (univ : list N)
         (t : tracker) (mshadow ishadow : kmap) (hist : list cache_op) (n : N) : list (N * N) :=
  match steps with
  | [] => []
  | s :: rest =>
      let o := op_of_cache_op (os_op s) in
      let '(b, t') := sync_owner t (fst o) (snd o) in
      let mshadow' := apply_batches mshadow b in
      let ishadow' := apply_batches ishadow {| b_updates := os_updates s; b_deletes := os_deletes s |} in
      let hist' := hist ++ [os_op s] in
      let e1 := if same_set pair_eqb (b_updates b) (os_updates s) && same_set N.eqb (b_deletes b) (os_deletes s)
                then [] else [(n, 1)] in
      let e2 := if forallb (fun ip => optN_eqb (ishadow' ip) (cache_table_entry hist' ip)) univ then [] else [(n, 2)] in
      let e3 := if forallb (fun ip => optN_eqb (mshadow' ip) (cache_table_entry hist' ip)) univ then [] else [(n, 3)] in
      e1 ++ e2 ++ e3 ++ check_steps rest univ t' mshadow' ishadow' hist' (n + 1)
  end.

Definition final_tracker (steps : list obs_step) : tracker :=
  fst (run (map (fun s => op_of_cache_op (os_op s)) steps)).

Definition owner_dump_ok (t : tracker) (owners : list N) (dump : list (N * (N * list N))) : bool :=
  forallb (fun o =>
             match t_owners t o, find (fun d => fst d =? o) dump with
             | None, None => true
             | Some s, Some (_, (bm, ips)) => (s_bitmap s =? bm) && same_set N.eqb (s_ips s) ips
             | _, _ => false
             end) owners.

Definition index_dump_ok (t : tracker) (univ : list N) (dump : list (N * (N * list (N * N)))) : bool :=
  forallb (fun ip =>
             match t_ips t ip, find (fun d => fst d =? ip) dump with
             | None, None => true
             | Some st, Some (_, (merged, os)) => (st_merged st =? merged) && same_set pair_eqb (st_owners st) os
             | _, _ => false
             end) univ.

Definition check_case (c : obs_case) : list (N * N) :=
  check_steps (oc_steps c) (oc_universe c) new_tracker (fun _ => None) (fun _ => None) [] 0
  ++ (let t := final_tracker (oc_steps c) in
      if owner_dump_ok t (oc_owners c) (oc_final_owners c) && index_dump_ok t (oc_universe c) (oc_final_index c)
      then [] else [(0, 4)]).

(* branch signature of a case, for the evidence: how many steps produced updates / deletes / nothing,
   and how many addresses ended shared by >1 owner *)
Definition case_signature (c : obs_case) : N * N * N * N :=
  let bs := run_batches new_tracker (map (fun s => op_of_cache_op (os_op s)) (oc_steps c)) in
  let nu := N.of_nat (length (filter (fun b => negb (Nat.eqb (length (b_updates b)) 0)) bs)) in
  let nd := N.of_nat (length (filter (fun b => negb (Nat.eqb (length (b_deletes b)) 0)) bs)) in
  let nn := N.of_nat (length (filter (fun b => Nat.eqb (length (b_updates b)) 0 && Nat.eqb (length (b_deletes b)) 0) bs)) in
  let t := final_tracker (oc_steps c) in
  let sh := N.of_nat (length (filter (fun ip => match t_ips t ip with
                                               | Some st => Nat.ltb 1 (length (st_owners st)) | None => false end)
                                     (oc_universe c))) in
  (nu, nd, nn, sh).

(* Controller-level stream: after each controller operation (at quiescence) the kernel shadow map must
   equal the table of the LIVE cache as dumped from the controller. *)
Definition check_live (live : list (N * cache_entry)) (shadow : list (N * N)) (univ : list N) : bool :=
  let h := map (fun oe => CInsert (fst oe) (snd oe)) live in
  forallb (fun ip => optN_eqb (option_map snd (find (fun kv => fst kv =? ip) shadow)) (cache_table_entry h ip)) univ
  && forallb (fun kv => existsb (N.eqb (fst kv)) univ) shadow.

Definition check_ctl_case (c : list (list (N * cache_entry) * list (N * N)) * list N) : list N :=
  let fix go (steps : list (list (N * cache_entry) * list (N * N))) (n : N) : list N :=
      match steps with
      | [] => []
      | (live, shadow) :: rest =>
          (if check_live live shadow (snd c) then [] else [n]) ++ go rest (n + 1)
      end in
  go (fst c) 0.

(* ------------------------------------------------------------------------------------------------ *)
(* Controller glue (C10_Ctl_Model.v): per operation, the tracker calls the implementation made are   *)
(* compared with the calls of the model, the implementation's cache dump with the model's cache, the  *)
(* kernel shadow with the model's kernel map, and both with the table of the live cache.              *)
(* ------------------------------------------------------------------------------------------------ *)
From Dae Require Import C10_Ctl_Model.

Definition answer_eqb (a b : answer) : bool := Bool.eqb (fst a) (fst b) && (snd a =? snd b).

Fixpoint list_eqb {A} (eqb : A -> A -> bool) (l1 l2 : list A) : bool :=
  match l1, l2 with
  | [], [] => true
  | x :: r1, y :: r2 => eqb x y && list_eqb eqb r1 r2
  | _, _ => false
  end.

Definition entry_eqb (a b : cache_entry) : bool :=
  (e_bitmap a =? e_bitmap b) && list_eqb answer_eqb (e_answers a) (e_answers b).

Definition cache_op_eqb (a b : cache_op) : bool :=
  match a, b with
  | CInsert o e, CInsert o' e' => (o =? o') && entry_eqb e e'
  | CRemove o, CRemove o' => o =? o'
  | _, _ => false
  end.

Definition rules_of (l : list (N * N)) : N -> N :=
  fun f => match find (fun kv => fst kv =? f) l with Some kv => snd kv | None => 0 end.

(* oracle of a reload: the keys whose re-sync task was delivered to the worker *)
Definition sent_of (l : list ckey) : ckey -> bool := fun k => existsb (ckey_eqb k) l.

(* implementation dump of one cache value: entry, RouteOwnerKey (numbered), deadline, lastAccess *)
Definition live_dump := list (ckey * (cache_entry * (N * (N * N)))).

Record ctl_obs := {
  co_op : ctl_op;
  co_calls : list cache_op;       (* the calls seen by the observer during the operation *)
  co_live : live_dump;            (* the controller's cache after the operation *)
  co_shadow : list (N * N)        (* the kernel shadow map after the operation *)
}.

Definition dump_of_cache (c : cache) : live_dump :=
  map (fun ke => (fst ke, (ce_e (snd ke), (ce_owner (snd ke), (ce_deadline (snd ke), ce_last (snd ke)))))) c.

Definition dump_item_eqb (a b : ckey * (cache_entry * (N * (N * N)))) : bool :=
  ckey_eqb (fst a) (fst b) && entry_eqb (fst (snd a)) (fst (snd b))
  && (fst (snd (snd a)) =? fst (snd (snd b)))
  && (fst (snd (snd (snd a))) =? fst (snd (snd (snd b))))
  && (snd (snd (snd (snd a))) =? snd (snd (snd (snd b)))).

(* the LRU oracle is legitimate: everything the size pass evicted was accessed no later than anything
   that survived it *)
Definition lru_choice_ok (cfg : config) (before : cache) (o : ctl_op) (after : cache) : bool :=
  match o with
  | OJanitor now _ =>
      let w1 := fst (janitor_time_pass cfg before now) in
      let evicted := filter (fun ke => match c_load after (fst ke) with None => true | Some _ => false end) w1 in
      forallb (fun v => forallb (fun s => ce_last (snd v) <=? ce_last (snd s)) after) evicted
  | _ => true
  end.

(* error codes (step, code): 1 impl<>model tracker calls   2 impl<>spec (shadow vs table of the impl's live cache)
   3 model<>spec   4 impl<>model cache contents   5 impl's LRU victims are not least recently used
   6 impl<>model kernel map *)
Fixpoint check_ctl_steps (cfg : config) (steps : list ctl_obs) (univ : list N) (st : ctl) (n : N) : list (N * N) :=
  match steps with
  | [] => []
  | s :: rest =>
      let ef := ctl_effect cfg st (co_op s) in
      let st' := ctl_step cfg st (co_op s) in
      let e1 := if same_set cache_op_eqb (snd (ef_work ef)) (co_calls s) then [] else [(n, 1)] in
      let ilive := map (fun d => (key_id (fst d), fst (snd d))) (co_live s) in
      let e2 := if check_live ilive (co_shadow s) univ then [] else [(n, 2)] in
      let e3 := if forallb (fun ip => optN_eqb (c_kmap st' ip) (ctl_table_entry (c_cache st') ip)) univ then [] else [(n, 3)] in
      let e4 := if same_set dump_item_eqb (dump_of_cache (c_cache st')) (co_live s) then [] else [(n, 4)] in
      let e5 := if lru_choice_ok cfg (c_cache st) (co_op s) (c_cache st') then [] else [(n, 5)] in
      let e6 := if forallb (fun ip => optN_eqb (c_kmap st' ip)
                                               (option_map snd (find (fun kv => fst kv =? ip) (co_shadow s)))) univ
                then [] else [(n, 6)] in
      e1 ++ e2 ++ e3 ++ e4 ++ e5 ++ e6 ++ check_ctl_steps cfg rest univ st' (n + 1)
  end.

Record ctl_case := {
  cc_cfg : config;
  cc_rules : N -> N;
  cc_steps : list ctl_obs;
  cc_universe : list N
}.

Definition check_ctl_glue (c : ctl_case) : list (N * N) :=
  check_ctl_steps (cc_cfg c) (cc_steps c) (cc_universe c) (ctl_init (cc_rules c)) 0.

(* coverage signature of a controller case (on the model run): #operations that issued an update call,
   #operations that issued a remove call, #reloads, #steps after which two live entries of one base key
   under different scopes list a common address *)
Definition shares_scoped (c : cache) : bool :=
  existsb (fun a => existsb (fun b =>
      (k_base (fst a) =? k_base (fst b)) && negb (k_scope (fst a) =? k_scope (fst b))
      && existsb (fun x => lists (ce_e (snd b)) (snd x) && lists (ce_e (snd a)) (snd x)) (e_answers (ce_e (snd a)))) c) c.

Definition ctl_signature (c : ctl_case) : N * N * N * N :=
  let fix go (steps : list ctl_obs) (st : ctl) (acc : N * N * N * N) : N * N * N * N :=
      match steps with
      | [] => acc
      | s :: rest =>
          let ef := ctl_effect (cc_cfg c) st (co_op s) in
          let st' := ctl_step (cc_cfg c) st (co_op s) in
          let '(u, d, r, sh) := acc in
          let calls := snd (ef_work ef) in
          let u' := if existsb (fun x => match x with CInsert _ _ => true | _ => false end) calls then u + 1 else u in
          let d' := if existsb (fun x => match x with CRemove _ => true | _ => false end) calls then d + 1 else d in
          let r' := if ef_new_generation ef then r + 1 else r in
          let sh' := if shares_scoped (c_cache st') then sh + 1 else sh in
          go rest st' (u', d', r', sh')
      end in
  go (cc_steps c) (ctl_init (cc_rules c)) (0, 0, 0, 0).

(* Large final states (reload of > 1024 cached names): the table of the live cache computed with ctl_table
   (one linear fold per address; equal to cache_table for a dump with one entry per key, lemma tracks_table)
   instead of cache_table (quadratic in the number of entries). *)
Definition cache_of_live (live : list (N * cache_entry)) : cache :=
  map (fun oe => ({| k_base := fst oe; k_scope := 0 |},
                  {| ce_e := snd oe; ce_owner := 0; ce_fqdn := 0; ce_deadline := 0; ce_last := 0; ce_id := 0 |})) live.

Definition check_live_big (live : list (N * cache_entry)) (shadow : list (N * N)) (univ : list N) : bool :=
  let c := cache_of_live live in
  forallb (fun ip => optN_eqb (option_map snd (find (fun kv => fst kv =? ip) shadow)) (ctl_table_entry c ip)) univ
  && forallb (fun kv => existsb (N.eqb (fst kv)) univ) shadow.

Definition check_ctl_case_big (c : list (list (N * cache_entry) * list (N * N)) * list N) : list N :=
  let fix go (steps : list (list (N * cache_entry) * list (N * N))) (n : N) : list N :=
      match steps with
      | [] => []
      | (live, shadow) :: rest =>
          (if check_live_big live shadow (snd c) then [] else [n]) ++ go rest (n + 1)
      end in
  go (fst c) 0.

(* ------------------------------------------------------------------------------------------------ *)
(* Concurrent syncOwner calls (C10_Conc_Model.v): goroutine A is parked at its Write step, goroutine   *)
(* B is started, A is released.  The same schedule is run in the model with the program extracted     *)
(* from the source.  Threads: 3 = the calls before, 0 = A, 1 = B, 2 = the calls afterwards.           *)
(* ------------------------------------------------------------------------------------------------ *)
From Dae Require Import C10_Conc_Model.

Record conc_obs := {
  cn_pre : list cache_op; cn_a : cache_op; cn_b : cache_op; cn_post : list cache_op;
  cn_lock_held : bool;                 (* impl: the tracker mutex could not be taken while A was parked *)
  cn_b_completed : bool;               (* impl: B returned while A was parked *)
  cn_shadow_conc : list (N * N);       (* impl kernel shadow after A and B returned *)
  cn_shadow : list (N * N);            (* ... after the calls afterwards *)
  cn_index : list (N * N);             (* impl tracker: merged bitmap per address at the end *)
  cn_universe : list N
}.

Definition merged_at_ips (t : tracker) : N -> option N :=
  fun ip => match t_ips t ip with Some st => Some (st_merged st) | None => None end.

Fixpoint run_until_write (p : list instr) (g : gstate) (i : nat) (fuel : nat) : gstate :=
  match fuel with
  | O => g
  | S f => match th_cur (g_threads g i) with
           | Some (_, IWrite :: _) => g
           | _ => run_until_write p (cstep p g i) i f
           end
  end.

Definition shadow_eq (sh : list (N * N)) (m : N -> option N) (univ : list N) : bool :=
  forallb (fun ip => optN_eqb (option_map snd (find (fun kv => fst kv =? ip) sh)) (m ip)) univ
  && forallb (fun kv => existsb (N.eqb (fst kv)) univ) sh.

(* error codes: 1 impl<>model (lock held / B completed / kernel map / merged)   2 impl<>spec (kernel shadow is the
   table of neither sequential order)   3 model<>spec   7 impl: the mutex was not held at the write step or B
   completed while A was parked there *)
Definition check_conc (p : list instr) (c : conc_obs) : list N :=
  let ops l := map op_of_cache_op l in
  let todos := fun i : nat => match i with
                              | 0%nat => [op_of_cache_op (cn_a c)]
                              | 1%nat => [op_of_cache_op (cn_b c)]
                              | 2%nat => ops (cn_post c)
                              | 3%nat => ops (cn_pre c)
                              | _ => [] end in
  let K := (length p + 2)%nat in
  let g1 := crun p (cinit todos) (repeat 3%nat (K * length (cn_pre c))) in
  let g2 := run_until_write p g1 0%nat K in
  let m_lock := match g_lock g2 with Some 0%nat => true | _ => false end in
  let g3 := crun p g2 (repeat 1%nat K) in
  let m_bdone := finished (g_threads g3 1%nat) in
  let g4 := crun p g3 (repeat 0%nat K ++ repeat 1%nat K) in
  let g5 := crun p g4 (repeat 2%nat (K * length (cn_post c))) in
  let univ := cn_universe c in
  let hab := ops (cn_pre c ++ [cn_a c; cn_b c]) in
  let hba := ops (cn_pre c ++ [cn_b c; cn_a c]) in
  let spec_ok (m : N -> option N) (post : list op) :=
      forallb (fun ip => optN_eqb (m ip) (table_entry (hab ++ post) ip)) univ
      || forallb (fun ip => optN_eqb (m ip) (table_entry (hba ++ post) ip)) univ in
  let of_shadow (sh : list (N * N)) := fun ip => option_map snd (find (fun kv => fst kv =? ip) sh) in
  let e1 := if Bool.eqb m_lock (cn_lock_held c) && Bool.eqb m_bdone (cn_b_completed c)
               && shadow_eq (cn_shadow_conc c) (g_kmap g4) univ && shadow_eq (cn_shadow c) (g_kmap g5) univ
               && shadow_eq (cn_index c) (merged_at_ips (g_tracker g5)) univ
            then [] else [1] in
  let e2 := if spec_ok (of_shadow (cn_shadow_conc c)) [] && spec_ok (of_shadow (cn_shadow c)) (ops (cn_post c))
            then [] else [2] in
  let e3 := if spec_ok (g_kmap g4) [] && spec_ok (g_kmap g5) (ops (cn_post c)) then [] else [3] in
  let e7 := if cn_lock_held c && negb (cn_b_completed c) then [] else [7] in
  e1 ++ e2 ++ e3 ++ e7.

(* coverage signature: A and B share an address, A / B is a removal, number of calls before *)
Definition conc_signature (c : conc_obs) : N * N * N * N :=
  let ips x := match x with CInsert _ e => extract_ips (e_answers e) | CRemove _ => [] end in
  let sh := existsb (fun ip => existsb (N.eqb ip) (ips (cn_b c))) (ips (cn_a c)) in
  ((if sh then 1 else 0),
   (match cn_a c with CRemove _ => 1 | _ => 0 end),
   (match cn_b c with CRemove _ => 1 | _ => 0 end),
   N.of_nat (length (cn_pre c))).
