(* C10 — executable comparison functions used by the generated cases file (no proofs). *)
From Coq Require Import List NArith Bool.
From Dae Require Import C10_Spec C10_Model C10_Cache.
Import ListNotations.
Open Scope N_scope.

Definition pair_eqb (a b : N * N) : bool := (fst a =? fst b) && (snd a =? snd b).
Definition subset {A} (eqb : A -> A -> bool) (l1 l2 : list A) : bool :=
  forallb (fun x => existsb (eqb x) l2) l1.
Definition same_set {A} (eqb : A -> A -> bool) (l1 l2 : list A) : bool :=
  subset eqb l1 l2 && subset eqb l2 l1 && Nat.eqb (length l1) (length l2).
Definition optN_eqb (a b : option N) : bool :=
  match a, b with Some x, Some y => x =? y | None, None => true | _, _ => false end.

(* one observed step: the cache op and the batches the implementation emitted *)
Record obs_step := { os_op : cache_op; os_updates : list (N * N); os_deletes : list N }.

Record obs_case := {
  oc_steps : list obs_step;
  oc_universe : list N;                         (* every address named in the case, plus probes *)
  oc_owners : list N;                           (* every owner named *)
  oc_final_owners : list (N * (N * list N));    (* tracker.owners dump *)
  oc_final_index : list (N * (N * list (N * N)))(* tracker.ips dump: key -> merged, owners *)
}.

(* error codes: 1 impl<>model (batches)  2 impl<>spec (shadow after a step)  3 model<>spec
               4 impl<>model (final tracker state) *)
Fixpoint check_steps (steps : list obs_step) (univ : list N)
         (t : tracker) (mshadow ishadow : kmap) (hist : list cache_op) (n : N) : list (N * N) :=
  match steps with
  | [] => []
  | s :: rest =>
      let o := op_of_cache_op (os_op s) in
      let '(b, t') := sync_owner t (fst o) (snd o) in
      let mshadow' := apply_batches mshadow b in
      let ishadow' := apply_batches ishadow {| b_updates := os_updates s; b_deletes := os_deletes s |} in
      let hist' := hist ++ [os_op s] in
      let e1 := if same_set pair_eqb (b_updates b) (os_updates s) && same_set N.eqb (b_deletes b) (os_deletes s)
                then [] else [(n, 1)] in
      let e2 := if forallb (fun ip => optN_eqb (ishadow' ip) (cache_table_entry hist' ip)) univ then [] else [(n, 2)] in
      let e3 := if forallb (fun ip => optN_eqb (mshadow' ip) (cache_table_entry hist' ip)) univ then [] else [(n, 3)] in
      e1 ++ e2 ++ e3 ++ check_steps rest univ t' mshadow' ishadow' hist' (n + 1)
  end.

Definition final_tracker (steps : list obs_step) : tracker :=
  fst (run (map (fun s => op_of_cache_op (os_op s)) steps)).

Definition owner_dump_ok (t : tracker) (owners : list N) (dump : list (N * (N * list N))) : bool :=
  forallb (fun o =>
             match t_owners t o, find (fun d => fst d =? o) dump with
             | None, None => true
             | Some s, Some (_, (bm, ips)) => (s_bitmap s =? bm) && same_set N.eqb (s_ips s) ips
             | _, _ => false
             end) owners.

Definition index_dump_ok (t : tracker) (univ : list N) (dump : list (N * (N * list (N * N)))) : bool :=
  forallb (fun ip =>
             match t_ips t ip, find (fun d => fst d =? ip) dump with
             | None, None => true
             | Some st, Some (_, (merged, os)) => (st_merged st =? merged) && same_set pair_eqb (st_owners st) os
             | _, _ => false
             end) univ.

Definition check_case (c : obs_case) : list (N * N) :=
  check_steps (oc_steps c) (oc_universe c) new_tracker (fun _ => None) (fun _ => None) [] 0
  ++ (let t := final_tracker (oc_steps c) in
      if owner_dump_ok t (oc_owners c) (oc_final_owners c) && index_dump_ok t (oc_universe c) (oc_final_index c)
      then [] else [(0, 4)]).

(* branch signature of a case, for the evidence: how many steps produced updates / deletes / nothing,
   and how many addresses ended shared by >1 owner *)
Definition case_signature (c : obs_case) : N * N * N * N :=
  let bs := run_batches new_tracker (map (fun s => op_of_cache_op (os_op s)) (oc_steps c)) in
  let nu := N.of_nat (length (filter (fun b => negb (Nat.eqb (length (b_updates b)) 0)) bs)) in
  let nd := N.of_nat (length (filter (fun b => negb (Nat.eqb (length (b_deletes b)) 0)) bs)) in
  let nn := N.of_nat (length (filter (fun b => Nat.eqb (length (b_updates b)) 0 && Nat.eqb (length (b_deletes b)) 0) bs)) in
  let t := final_tracker (oc_steps c) in
  let sh := N.of_nat (length (filter (fun ip => match t_ips t ip with
                                               | Some st => Nat.ltb 1 (length (st_owners st)) | None => false end)
                                     (oc_universe c))) in
  (nu, nd, nn, sh).

(* Controller-level stream: after each controller operation (at quiescence) the kernel shadow map must
   equal the table of the LIVE cache as dumped from the controller. *)
Definition check_live (live : list (N * cache_entry)) (shadow : list (N * N)) (univ : list N) : bool :=
  let h := map (fun oe => CInsert (fst oe) (snd oe)) live in
  forallb (fun ip => optN_eqb (option_map snd (find (fun kv => fst kv =? ip) shadow)) (cache_table_entry h ip)) univ
  && forallb (fun kv => existsb (N.eqb (fst kv)) univ) shadow.

Definition check_ctl_case (c : list (list (N * cache_entry) * list (N * N)) * list N) : list N :=
  let fix go (steps : list (list (N * cache_entry) * list (N * N))) (n : N) : list N :=
      match steps with
      | [] => []
      | (live, shadow) :: rest =>
          (if check_live live shadow (snd c) then [] else [n]) ++ go rest (n + 1)
      end in
  go (fst c) 0.
