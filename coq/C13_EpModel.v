(* C13 — code-shaped executable model of control/udp_endpoint_pool.go (UdpEndpointPool.GetOrCreate,
   createEndpointLocked, cacheFailureLocked, UdpEndpoint.retire / Close / WriteTo /
   TrackUdpConnStateTuplePair / adoptGeneration, InvalidateDialerNetworkType, Reset, the janitor sweep).
   Calls are atomic (one call = one step): this is the sequential semantics of the pool; the interleavings
   inside a call are not modelled (there are no yield points there).  No proofs in this file.

   Endpoint records live in one list (failure markers included, as in the Go pool where a marker is a
   UdpEndpoint with failed=true and no conn).  Time is an abstract counter advanced by PTick. *)
From Coq Require Import List Arith Bool.
From Dae Require Import C13_Spec C13_Model.
From Dae.gen Require Import C13_Consts.
Import ListNotations.

Definition nat_timeout : nat := 3600.        (* the harness passes NatTimeout = 1h; any positive value *)
Definition failure_ttl : nat := 2.           (* cacheFailureLocked: time.Now().Add(2 * time.Second) *)

Record uep := mkU {
  u_key : nat; u_dialer : nat;
  u_failed : bool;          (* negative-cache marker (conn = nil) *)
  u_exp : nat;              (* expiresAtNano; 0 = never *)
  u_dead : bool;
  u_closed : bool;          (* closeOnce has run *)
  u_conn_closes : nat;      (* conn.Close() calls *)
  u_sent : bool;            (* hasSent || hasReply *)
  u_gen : nat;              (* dialerGeneration captured at creation *)
  u_registered : bool;      (* present in the dialerIndex bucket *)
  u_owner : nat;            (* udpConnStateOwner (generation) *)
  u_drain : option nat;     (* generation whose drain ticket the endpoint holds *)
  u_cs_closed : bool;       (* udpConnStateClosed *)
  u_tuples : list nat }.

Record pstate := mkP {
  p_pool : nat -> option nat;       (* key -> endpoint id *)
  p_eps : list uep;
  p_handles : list nat;             (* ids of the endpoints that were dialled, in order (harness numbering) *)
  p_epoch : nat -> nat;             (* dialer -> epoch counter *)
  p_dials : nat;
  p_tr : nat -> tracker;            (* generation -> udpConnStateTracker *)
  p_kdel : list (nat * nat);        (* kernel deletes issued (generation, tuple) *)
  p_drainc : nat -> nat;            (* generation -> drain tracker count *)
  p_now : nat }.

Definition p0 : pstate := mkP (fun _ => None) [] [] (fun _ => 0) 0 (fun _ _ => None) [] (fun _ => 0) 1.

Inductive pop :=
| PGoc (k d g out : nat)     (* out: 0 dial ok, 1 dial error (cacheable), 2 GetDialOption: no alive dialer *)
| PWrite (h out : nat)       (* h: handle index; out: 0 ok, 1 transport error *)
| PTrack (h t : nat)
| PInval (d : nat)
| PReset
| PSweep
| PTick (dt : nat)
| PRemove (h : nat).          (* UdpEndpointPool.Remove(key the handle was obtained with, handle) *)

Definition fset {A} (f : nat -> A) (k : nat) (v : A) : nat -> A := fun k' => if k' =? k then v else f k'.

Definition set_pool s x := mkP x (p_eps s) (p_handles s) (p_epoch s) (p_dials s) (p_tr s) (p_kdel s) (p_drainc s) (p_now s).
Definition set_eps s x := mkP (p_pool s) x (p_handles s) (p_epoch s) (p_dials s) (p_tr s) (p_kdel s) (p_drainc s) (p_now s).
Definition set_ep s e u := set_eps s (upd (p_eps s) e u).
Definition set_tr s x := mkP (p_pool s) (p_eps s) (p_handles s) (p_epoch s) (p_dials s) x (p_kdel s) (p_drainc s) (p_now s).
Definition set_drainc s x := mkP (p_pool s) (p_eps s) (p_handles s) (p_epoch s) (p_dials s) (p_tr s) (p_kdel s) x (p_now s).

Definition u_with_close (u : uep) (conn_closes : nat) : uep :=
  mkU (u_key u) (u_dialer u) (u_failed u) 0 (u_dead u) true conn_closes (u_sent u) (u_gen u) false
      (u_owner u) None true [].
Definition u_with_dead (u : uep) : uep :=
  mkU (u_key u) (u_dialer u) (u_failed u) 1 true (u_closed u) (u_conn_closes u) (u_sent u) (u_gen u) (u_registered u)
      (u_owner u) (u_drain u) (u_cs_closed u) (u_tuples u).
Definition u_with_sent (u : uep) (exp : nat) : uep :=
  mkU (u_key u) (u_dialer u) (u_failed u) exp (u_dead u) (u_closed u) (u_conn_closes u) true (u_gen u) (u_registered u)
      (u_owner u) (u_drain u) (u_cs_closed u) (u_tuples u).
Definition u_with_exp (u : uep) (exp : nat) : uep :=
  mkU (u_key u) (u_dialer u) (u_failed u) exp (u_dead u) (u_closed u) (u_conn_closes u) (u_sent u) (u_gen u) (u_registered u)
      (u_owner u) (u_drain u) (u_cs_closed u) (u_tuples u).
Definition u_with_owner (u : uep) (g : nat) (dr : option nat) : uep :=
  mkU (u_key u) (u_dialer u) (u_failed u) (u_exp u) (u_dead u) (u_closed u) (u_conn_closes u) (u_sent u) (u_gen u) (u_registered u)
      g dr (u_cs_closed u) (u_tuples u).
Definition u_with_tuples (u : uep) (ts : list nat) : uep :=
  mkU (u_key u) (u_dialer u) (u_failed u) (u_exp u) (u_dead u) (u_closed u) (u_conn_closes u) (u_sent u) (u_gen u) (u_registered u)
      (u_owner u) (u_drain u) (u_cs_closed u) ts.

Definition is_expired (u : uep) (now : nat) : bool := (0 <? u_exp u) && (u_exp u <=? now).
(* u_gen encodes the endpoint's view of its dialer's epoch counter object: S (S n) = generation n captured from
   the counter currently installed for the dialer; 1 / 0 = the counter object was dropped by a pool Reset
   while the endpoint still compared equal / unequal to it (it stays so for ever: nobody increments an
   orphaned counter, and new endpoints get a new counter). *)
Definition gen_current (s : pstate) (u : uep) : bool :=
  match u_gen u with 0 => false | 1 => true | S (S n) => n =? p_epoch s (u_dialer u) end.
Definition survives (u : uep) : bool := u_sent u.
Definition stale (s : pstate) (u : uep) : bool := u_dead u || (negb (gen_current s u) && negb (survives u)).

(* tracker calls of the owning generation (controlPlaneCore.Retain/Release/TransferRetained...) *)
Definition retain_all (s : pstate) (g : nat) (ts : list nat) : pstate :=
  set_tr s (fset (p_tr s) g (fold_left (fun m t => match tr_retain m t with Some m' => m' | None => m end) ts (p_tr s g))).
Definition forget_all (s : pstate) (g : nat) (ts : list nat) : pstate :=
  set_tr s (fset (p_tr s) g (fold_left (fun m t => match tr_forget m t with Some m' => m' | None => m end) ts (p_tr s g))).
Definition release_all (s : pstate) (g : nat) (ts : list nat) : pstate :=
  fold_left (fun s t =>
               let '(m, del) := tr_begin_release (p_tr s g) t in
               let m' := if del then tr_finalize m t else m in
               mkP (p_pool s) (p_eps s) (p_handles s) (p_epoch s) (p_dials s) (fset (p_tr s) g m')
                   (if del then p_kdel s ++ [(g, t)] else p_kdel s) (p_drainc s) (p_now s)) ts s.

(* UdpEndpoint.Close *)
Definition ep_close (s : pstate) (e : nat) : pstate :=
  match nth_error (p_eps s) e with
  | None => s
  | Some u =>
      if u_closed u then s
      else
        let s1 := if u_cs_closed u then s else release_all s (u_owner u) (u_tuples u) in
        let s2 := match u_drain u with
                  | Some g => set_drainc s1 (fset (p_drainc s1) g (pred (p_drainc s1 g)))
                  | None => s1 end in
        set_ep s2 e (u_with_close u (if u_failed u then u_conn_closes u else S (u_conn_closes u)))
  end.

(* UdpEndpoint.retire: dead, expire, selfRemoveFromPool, Close *)
Definition ep_retire (s : pstate) (e : nat) : pstate :=
  match nth_error (p_eps s) e with
  | None => s
  | Some u =>
      let s1 := set_ep s e (u_with_dead u) in
      let s2 := if opt_is (p_pool s1 (u_key u)) e then set_pool s1 (fset (p_pool s1) (u_key u) None) else s1 in
      ep_close s2 e
  end.

(* UdpEndpoint.adoptGeneration(owner g, drain tracker of g) *)
Definition ep_adopt (s : pstate) (e g : nat) : pstate :=
  match nth_error (p_eps s) e with
  | None => s
  | Some u =>
      if u_cs_closed u then s
      else
        let s1 := if negb (u_owner u =? g) && negb (match u_tuples u with [] => true | _ => false end)
                  then forget_all (retain_all s g (u_tuples u)) (u_owner u) (u_tuples u) else s in
        let same_drain := match u_drain u with Some g' => g' =? g | None => false end in
        if same_drain then set_ep s1 e (u_with_owner u g (u_drain u))
        else
          let s2 := set_drainc s1 (fset (p_drainc s1) g (S (p_drainc s1 g))) in
          let s3 := match u_drain u with
                    | Some g' => set_drainc s2 (fset (p_drainc s2) g' (pred (p_drainc s2 g')))
                    | None => s2 end in
          set_ep s3 e (u_with_owner u g (Some g))
  end.

Definition handle_of (s : pstate) (e : nat) : option nat :=
  let fix go (n : nat) (l : list nat) := match l with [] => None | x :: r => if x =? e then Some n else go (S n) r end in
  go 0 (p_handles s).

(* GetOrCreate: returns the endpoint id *)
Definition ep_reuse (s : pstate) (e g : nat) (u : uep) : pstate * eres :=
  let s1 := set_ep s e (u_with_exp u (p_now s + nat_timeout)) in
  (ep_adopt s1 e g, mkER (Some e) false 0).

Definition ep_create (s : pstate) (k d g out : nat) : pstate * eres :=
  match out with
  | 2 => (s, mkER None true 2)
  | 1 =>
      let e := length (p_eps s) in
      let m := mkU k d true (p_now s + failure_ttl) false false 0 false 0 false 0 None false [] in
      (mkP (fset (p_pool s) k (Some e)) (p_eps s ++ [m]) (p_handles s) (p_epoch s) (S (p_dials s)) (p_tr s) (p_kdel s)
           (p_drainc s) (p_now s), mkER None true 2)
  | _ =>
      let e := length (p_eps s) in
      let u := mkU k d false (p_now s + nat_timeout) false false 0 false (S (S (p_epoch s d))) true g (Some g) false [] in
      (mkP (fset (p_pool s) k (Some e)) (p_eps s ++ [u]) (p_handles s ++ [e]) (p_epoch s) (S (p_dials s)) (p_tr s) (p_kdel s)
           (fset (p_drainc s) g (S (p_drainc s g))) (p_now s), mkER (Some e) true 0)
  end.

Definition ep_goc (s : pstate) (k d g out : nat) : pstate * eres :=
  (* fast path *)
  let fast : option (pstate * eres) :=
    match p_pool s k with
    | Some e =>
        match nth_error (p_eps s) e with
        | Some u =>
            if u_failed u then (if is_expired u (p_now s) then None else Some (s, mkER None false 1))
            else if stale s u then None
            else Some (ep_reuse s e g u)
        | None => None
        end
    | None => None
    end in
  match fast with
  | Some r => r
  | None =>
      (* slow path: re-check under the creation lock *)
      match p_pool s k with
      | Some e =>
          match nth_error (p_eps s) e with
          | Some u =>
              if u_failed u
              then if is_expired u (p_now s)
                   then ep_create (ep_close (set_pool s (fset (p_pool s) k None)) e) k d g out
                   else (s, mkER None false 1)
              else if stale s u
                   then ep_create (ep_close (set_pool s (fset (p_pool s) k None)) e) k d g out
                   else ep_reuse s e g u
          | None => ep_create s k d g out
          end
      | None => ep_create s k d g out
      end
  end.

Definition none_res : eres := mkER None false 0.

(* UdpEndpointPool.Remove(key, handle) as its callers use it (udp.go: the key is the one the handle was
   obtained with, i.e. the endpoint's own pool key).  [chk] = the source compares the pooled endpoint with the
   handle before deleting (extracted constant remove_checks_identity): when they differ — a stale handle: the
   endpoint was retired and perhaps replaced meanwhile — only the handle is closed and the pool is left
   alone.  Without the comparison whatever is pooled under the key is evicted (and not closed). *)
Definition ep_remove (chk : bool) (s : pstate) (h : nat) : pstate :=
  match nth_error (p_handles s) h with
  | None => s
  | Some e =>
      match nth_error (p_eps s) e with
      | None => s
      | Some u =>
          if chk
          then if opt_is (p_pool s (u_key u)) e
               then ep_close (set_pool s (fset (p_pool s) (u_key u) None)) e
               else ep_close s e
          else ep_close (set_pool s (fset (p_pool s) (u_key u) None)) e
      end
  end.

Definition pstep (s : pstate) (o : pop) : pstate * eres :=
  match o with
  | PGoc k d g out => ep_goc s k d g out
  | PWrite h out =>
      match nth_error (p_handles s) h with
      | None => (s, none_res)
      | Some e =>
          match nth_error (p_eps s) e with
          | None => (s, none_res)
          | Some u =>
              if u_dead u then (s, mkER None false 2)
              else
                let s1 := set_ep s e (u_with_exp u (p_now s + nat_timeout)) in
                if (0 <? u_conn_closes u) || (out =? 1)     (* transport closed, or scripted error *)
                then (ep_retire s1 e, mkER None false 2)
                else (set_ep s e (u_with_sent u (p_now s + nat_timeout)), none_res)
          end
      end
  | PTrack h t =>
      match nth_error (p_handles s) h with
      | None => (s, none_res)
      | Some e =>
          match nth_error (p_eps s) e with
          | None => (s, none_res)
          | Some u =>
              if u_cs_closed u then (s, none_res)
              else
                let newk := filter (fun x => negb (existsb (Nat.eqb x) (u_tuples u))) [2 * t; 2 * t + 1] in
                (retain_all (set_ep s e (u_with_tuples u (u_tuples u ++ newk))) (u_owner u) newk, none_res)
          end
      end
  | PInval d =>
      let s1 := mkP (p_pool s) (p_eps s) (p_handles s) (fset (p_epoch s) d (S (p_epoch s d))) (p_dials s) (p_tr s) (p_kdel s)
                    (p_drainc s) (p_now s) in
      (fold_left (fun s e => match nth_error (p_eps s) e with
                             | Some u => if u_registered u && (u_dialer u =? d) && negb (survives u) then ep_retire s e else s
                             | None => s end) (seq 0 (length (p_eps s1))) s1, none_res)
  | PReset =>
      let s1 := fold_left (fun s e => match nth_error (p_eps s) e with
                                      | Some u => if opt_is (p_pool s (u_key u)) e
                                                  then ep_close (set_pool s (fset (p_pool s) (u_key u) None)) e else s
                                      | None => s end) (seq 0 (length (p_eps s))) s in
      (mkP (p_pool s1) (map (fun u => mkU (u_key u) (u_dialer u) (u_failed u) (u_exp u) (u_dead u) (u_closed u) (u_conn_closes u)
                                          (u_sent u) (if gen_current s1 u then 1 else 0) false (u_owner u) (u_drain u)
                                          (u_cs_closed u) (u_tuples u)) (p_eps s1))
           (p_handles s1) (p_epoch s1) (p_dials s1) (p_tr s1) (p_kdel s1) (p_drainc s1) (p_now s1), none_res)
  | PSweep =>
      (fold_left (fun s e => match nth_error (p_eps s) e with
                             | Some u => if opt_is (p_pool s (u_key u)) e
                                            && (is_expired u (p_now s) || (negb (gen_current s u) && negb (survives u)))
                                         then ep_close (set_pool s (fset (p_pool s) (u_key u) None)) e else s
                             | None => s end) (seq 0 (length (p_eps s))) s, none_res)
  | PTick dt =>
      (mkP (p_pool s) (p_eps s) (p_handles s) (p_epoch s) (p_dials s) (p_tr s) (p_kdel s) (p_drainc s) (p_now s + dt), none_res)
  | PRemove h => (ep_remove remove_checks_identity s h, none_res)
  end.

Definition prun (ops : list pop) : pstate := fold_left (fun s o => fst (pstep s o)) ops p0.
