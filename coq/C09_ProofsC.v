(* C09 — the controller and the UDP receive loop answer each client's own question when the upstream
   does (the _partial theorems beside the refutations of C09_Proofs.v). *)
From Coq Require Import List NArith ZArith Bool Lia.
From Dae Require Import C09_Spec C09_Model C09_Check C09_Proofs.
Import ListNotations.
Open Scope N_scope.

(* ---------------- controller ---------------- *)
Definition entry_good (k : ckey) (e : centry) : bool :=
  (ce_name e =? fst k) && (ce_type e =? snd k) && forallb (rr_for_key k) (ce_ans e).

Definition cache_good (cache : list (ckey * centry)) : bool :=
  forallb (fun e => entry_good (fst e) (snd e)) cache.

Definition res_good (k : ckey) (r : resolution) : bool :=
  match r with RErr => true | RMsg m _ => fres_honest k (FMsg m) end.

Definition SInv (s : cstate) : Prop :=
  scripts_tagged (c_udp s) = true /\ scripts_tagged (c_tcp s) = true /\ cache_good (c_cache s) = true.

Lemma forallb_filter' : forall {A} (P Q : A -> bool) l, forallb P l = true -> forallb P (filter Q l) = true.
Proof.
  induction l; cbn; intros H; auto. apply andb_true_iff in H as [Ha H].
  destruct (Q a); cbn; rewrite ?Ha; auto.
Qed.

Lemma klookup_forallb : forall {V} (P : ckey * V -> bool) k v l,
  klookup k l = Some v -> forallb P l = true -> P (k, v) = true.
Proof.
  induction l as [|[k' x] t IH]; cbn; intros H F; try discriminate.
  apply andb_true_iff in F as [Fa F].
  destruct (ckey_eqb k' k) eqn:E.
  - apply ckey_eqb_eq in E; subst. inversion H; subst; auto.
  - auto.
Qed.

Lemma forallb_kset : forall {V} (P : ckey * V -> bool) k v l,
  P (k, v) = true -> forallb P l = true -> forallb P (kset k v l) = true.
Proof. intros. unfold kset, kremove. cbn. rewrite H. apply forallb_filter'; auto. Qed.

Lemma pop_tagged : forall k l,
  scripts_tagged l = true ->
  fres_tagged (fst (pop k l)) = true /\ scripts_tagged (snd (pop k l)) = true.
Proof.
  intros k l H. unfold pop.
  destruct (klookup k l) as [[|r rest]|] eqn:E; cbn [fst snd]; auto.
  pose proof (klookup_forallb (fun e => forallb fres_tagged (snd e)) k _ l E H) as G.
  cbn [fst snd forallb] in G. apply andb_true_iff in G as [G1 G2].
  split; auto. unfold scripts_tagged. apply forallb_kset; auto.
Qed.

Lemma checked_honest : forall lq m,
  fres_tagged (FMsg m) = true -> question_checked lq m = true -> q_class lq = 1 ->
  fres_honest (key_of lq) (FMsg m) = true.
Proof.
  intros lq m T C Cl. unfold question_checked in C. cbn [fres_tagged fres_honest] in *.
  destruct (m_q m) as [q|]; try discriminate.
  unfold question_equiv in C. apply andb_true_iff in C as [C C3]. apply andb_true_iff in C as [C1 C2].
  apply N.eqb_eq in C1, C2, C3.
  assert (K : key_of q = key_of lq) by (unfold key_of; congruence).
  rewrite K, (proj2 (ckey_eqb_eq _ _) eq_refl). rewrite <- C3, Cl. cbn [andb N.eqb Pos.eqb].
  rewrite <- K. exact T.
Qed.

Lemma cacheable_good : forall k m e,
  fres_honest k (FMsg m) = true -> cacheable m = Some e -> entry_good k e = true.
Proof.
  intros k m e H C. unfold cacheable in C. cbn [fres_honest] in H.
  destruct (m_q m) as [q|]; try discriminate.
  destruct (m_rcode m =? 0); inversion C; subst.
  apply andb_true_iff in H as [H H3]. apply andb_true_iff in H as [H1 H2].
  apply ckey_eqb_eq in H1. subst k. unfold entry_good, key_of; cbn [ce_name ce_type ce_ans fst snd].
  rewrite !N.eqb_refl. exact H3.
Qed.

Ltac sinv := unfold SInv; cbn [c_udp c_tcp c_cache c_calls]; repeat split; auto.

Lemma resolve_good : forall fb lq s,
  SInv s -> q_class lq = 1 ->
  res_good (key_of lq) (fst (resolve fb lq s)) = true /\ SInv (snd (resolve fb lq s)).
Proof.
  intros fb lq s (HU & HT & HC) Cl. unfold resolve. set (k := key_of lq).
  destruct (pop_tagged k (c_udp s) HU) as [P1 P2].
  destruct (pop k (c_udp s)) as [r1 udp']. cbn [fst snd] in P1, P2.
  assert (FIN : forall m s2, fres_tagged (FMsg m) = true -> SInv s2 ->
     let r := (if negb (question_checked lq m) then (RErr, s2) else
       match cacheable m with
       | Some e => (RMsg m true, {| c_cache := kset k e (c_cache s2); c_udp := c_udp s2; c_tcp := c_tcp s2; c_calls := c_calls s2 |})
       | None => (RMsg m false, s2)
       end) in res_good k (fst r) = true /\ SInv (snd r)).
  { intros m s2 Hm (A & B & C). destruct (question_checked lq m) eqn:Q; cbn [negb]; [|cbn; repeat split; auto].
    pose proof (checked_honest lq m Hm Q Cl) as Hh. fold k in Hh.
    destruct (cacheable m) as [e|] eqn:Ce; cbn [fst snd res_good]; split; auto.
    - repeat split; auto. cbn [c_cache]. unfold cache_good. apply forallb_kset; auto.
      cbn [fst snd]. eapply cacheable_good; eauto.
    - repeat split; auto. }
  destruct r1 as [| |m].
  - destruct fb.
    + destruct (pop_tagged k (c_tcp s) HT) as [Q1 Q2]. cbn [c_tcp].
      destruct (pop k (c_tcp s)) as [r2 tcp']. cbn [fst snd] in Q1, Q2.
      destruct r2 as [| |m2].
      * cbn [fst snd res_good]. split; [reflexivity|sinv].
      * cbn [fst snd res_good]. split; [reflexivity|sinv].
      * apply FIN; auto. sinv.
    + cbn [fst snd res_good]. split; [reflexivity|sinv].
  - destruct fb.
    + destruct (pop_tagged k (c_tcp s) HT) as [Q1 Q2]. cbn [c_tcp].
      destruct (pop k (c_tcp s)) as [r2 tcp']. cbn [fst snd] in Q1, Q2.
      destruct r2 as [| |m2].
      * cbn [fst snd res_good]. split; [reflexivity|sinv].
      * cbn [fst snd res_good]. split; [reflexivity|sinv].
      * apply FIN; auto. sinv.
    + cbn [fst snd res_good]. split; [reflexivity|sinv].
  - apply FIN; auto. sinv.
Qed.

Lemma rr_for_key_answers : forall c l, forallb (rr_for_key (key_of (cq_q c))) l = forallb (rr_answers (cq_q c)) l.
Proof. intros. reflexivity. Qed.

Lemma hit_reply_ok : forall p c e,
  entry_good (key_of (cq_q c)) e = true -> q_class (cq_q c) = 1 -> reply_ok c (hit_reply p c e) = true.
Proof.
  intros p c e H Cl. unfold entry_good in H. apply andb_true_iff in H as [H H3]. apply andb_true_iff in H as [H1 H2].
  unfold key_of in *; cbn [fst snd] in *.
  unfold reply_ok, reply_id_ok, reply_question_ok, reply_answers_ok, question_equiv, hit_reply.
  destruct p; cbn [m_id m_q m_ans q_name q_type q_class]; rewrite ?N.eqb_refl, ?H1, ?H2, ?Cl; cbn; auto.
Qed.

Lemma waiter_outcome_ok : forall p c r,
  res_good (key_of (cq_q c)) r = true -> q_class (cq_q c) = 1 -> out_ok c (waiter_outcome p c r) = true.
Proof.
  intros p c r H Cl. destruct r as [|m st]; cbn [waiter_outcome out_ok]; auto.
  assert (W : reply_ok c (with_id m (cq_id c)) = true).
  { cbn [res_good fres_honest] in H. destruct (m_q m) as [q|] eqn:Q; try discriminate.
    apply andb_true_iff in H as [H H3]. apply andb_true_iff in H as [H1 H2].
    apply ckey_eqb_eq in H1. apply N.eqb_eq in H2.
    unfold reply_ok, reply_id_ok, reply_question_ok, reply_answers_ok, question_equiv, with_id.
    cbn [m_id m_q m_ans]. rewrite Q, N.eqb_refl.
    unfold key_of in H1. inversion H1 as [[E1 E2]].
    rewrite E1, E2, H2, Cl, !N.eqb_refl. cbn [andb]. exact H3. }
  destruct st; cbn [out_ok]; auto.
  destruct (cacheable m) as [e|] eqn:Ce; cbn [out_ok]; auto.
  apply hit_reply_ok; auto. eapply cacheable_good; eauto.
Qed.


Lemma round_clients_ok : forall p pn fb cache0 cs resolved s,
  cache_good cache0 = true ->
  (forall k r, klookup k resolved = Some r -> res_good k r = true) ->
  SInv s -> clients_in cs = true ->
  forallb (fun q => out_ok (fst q) (snd q)) (zip cs (fst (round_clients p pn fb cache0 cs resolved s))) = true
  /\ SInv (snd (round_clients p pn fb cache0 cs resolved s)).
Proof.
  induction cs as [|c cs IH]; intros resolved s HC HR HS HI; cbn [round_clients].
  - cbn; auto.
  - cbn [clients_in forallb] in HI. apply andb_true_iff in HI as [Hc HI]. apply N.eqb_eq in Hc.
    destruct (klookup (key_of (cq_q c)) cache0) as [e|] eqn:KC.
    + specialize (IH resolved s HC HR HS HI).
      destruct (round_clients p pn fb cache0 cs resolved s) as [os s']. cbn [fst snd] in *.
      destruct IH as [F S']. split; auto. cbn [zip forallb fst snd out_ok]. rewrite F, andb_true_r.
      apply hit_reply_ok; auto.
      exact (klookup_forallb (fun e => entry_good (fst e) (snd e)) _ _ _ KC HC).
    + destruct (klookup (key_of (cq_q c)) resolved) as [r|] eqn:KR.
      * specialize (IH resolved s HC HR HS HI).
        destruct (round_clients p pn fb cache0 cs resolved s) as [os s']. cbn [fst snd] in *.
        destruct IH as [F S']. split; auto. cbn [zip forallb fst snd]. rewrite F, andb_true_r.
        apply waiter_outcome_ok; auto.
      * destruct (resolve_good fb (cq_q c) s HS Hc) as [RG S1].
        destruct (resolve fb (cq_q c) s) as [r s1]. cbn [fst snd] in RG, S1.
        assert (HR' : forall k r0, klookup k ((key_of (cq_q c), r) :: resolved) = Some r0 -> res_good k r0 = true).
        { intros k r0 H. cbn [klookup] in H. destruct (ckey_eqb (key_of (cq_q c)) k) eqn:E.
          - apply ckey_eqb_eq in E; subst. inversion H; subst; auto.
          - auto. }
        specialize (IH _ s1 HC HR' S1 HI).
        destruct (round_clients p pn fb cache0 cs _ s1) as [os s']. cbn [fst snd] in *.
        destruct IH as [F S']. split; auto. cbn [zip forallb fst snd]. rewrite F, andb_true_r.
        apply waiter_outcome_ok; auto.
Qed.

Lemma run_rounds_ok : forall p pn fb rounds s,
  SInv s -> forallb clients_in rounds = true ->
  forallb (fun pr => forallb (fun q => out_ok (fst q) (snd q)) (zip (fst pr) (snd pr)))
          (zip rounds (fst (run_rounds p pn fb s rounds))) = true
  /\ SInv (snd (run_rounds p pn fb s rounds)).
Proof.
  induction rounds as [|r rounds IH]; intros s HS HI; cbn [run_rounds].
  - cbn; auto.
  - cbn [forallb] in HI. apply andb_true_iff in HI as [Hr HI].
    unfold run_round.
    pose proof HS as (_ & _ & HC).
    destruct (round_clients_ok p pn fb (c_cache s) r [] s HC (fun k r0 H => ltac:(discriminate)) HS Hr) as [F S1].
    destruct (round_clients p pn fb (c_cache s) r [] s) as [os s1]. cbn [fst snd] in F, S1.
    specialize (IH s1 S1 HI).
    destruct (run_rounds p pn fb s1 rounds) as [oss s2]. cbn [fst snd] in *.
    destruct IH as [F2 S2]. split; auto. cbn [zip forallb fst snd]. rewrite F, F2. auto.
Qed.

Lemma cache_good_ok : forall cache, cache_good cache = true -> cache_ok (map (fun e => (fst e, ce_ans (snd e))) cache) = true.
Proof.
  unfold cache_good, cache_ok. induction cache as [|[k e] t IH]; cbn; intros H; auto.
  apply andb_true_iff in H as [H1 H2]. rewrite (IH H2), andb_true_r.
  unfold entry_good in H1. apply andb_true_iff in H1 as [_ H1]. exact H1.
Qed.

Lemma C09_reply_question_cache_proof : forall packed pnew fallback udp tcp rounds,
  scripts_tagged udp = true -> scripts_tagged tcp = true -> forallb clients_in rounds = true ->
  ctl_full_ok packed pnew fallback udp tcp rounds = true.
Proof.
  intros packed pnew fallback udp tcp rounds HU HT HI. unfold ctl_full_ok.
  assert (S0 : SInv {| c_cache := []; c_udp := udp; c_tcp := tcp; c_calls := [] |}) by (repeat split; auto).
  destruct (run_rounds_ok packed pnew fallback rounds _ S0 HI) as [F (_ & _ & HC)].
  destruct (run_rounds packed pnew fallback _ rounds) as [outs s]. cbn [fst snd] in *.
  rewrite F, (cache_good_ok _ HC). reflexivity.
Qed.

Print Assumptions C09_reply_question_cache_proof.

(* ---------------- UDP receive loop ---------------- *)
Definition rd_ok (q : list dgram) (orig : N) (r : ures) : Prop :=
  match r with
  | UOkMsg m => In (DMsg m) q /\ m_tc m = false /\ m_id m = orig
  | UTrunc m => m_id m = orig
  | _ => True
  end.

Lemma udp_read_in : forall q orig stale r rest keep,
  udp_read q orig stale = (r, rest, keep) -> (forall d, In d rest -> In d q) /\ rd_ok q orig r.
Proof.
  induction q as [|d q IH]; intros orig stale r rest keep H; cbn [udp_read] in H.
  - inversion H; subst. split; [auto|exact I].
  - assert (Hskip : (if C09_Consts.maxStaleResponses <? stale + 1 then (UStale, q, false)
                     else udp_read q orig (stale + 1)) = (r, rest, keep) ->
                    (forall d0, In d0 rest -> In d0 (d :: q)) /\ rd_ok (d :: q) orig r).
    { destruct (C09_Consts.maxStaleResponses <? stale + 1); intro E.
      - inversion E; subst. split; [intros; right; auto|exact I].
      - destruct (IH _ _ _ _ _ E) as [A B]. split; [intros; right; auto|].
        destruct r; cbn in *; auto. destruct B as (B1 & B2 & B3). repeat split; auto. }
    destruct d as [|m|id]; auto.
    + destruct (m_id m =? orig) eqn:E; auto. apply N.eqb_eq in E.
      destruct (m_tc m) eqn:T; inversion H; subst; (split; [intros; right; auto|]); cbn; auto.
    + destruct (id =? orig); auto. inversion H; subst. split; [intros; right; auto|exact I].
Qed.

Definition dok (id : N) (q : question) (m : message) : bool := m_tc m || answers_own id q m.

Lemma udp_honest_spec : forall idqs ds,
  udp_honest idqs ds = true ->
  forall m id q, In (DMsg m) ds -> In (id, q) idqs -> m_id m = id -> dok id q m = true.
Proof.
  unfold udp_honest. intros idqs ds H m id q Hd Hq E.
  rewrite forallb_forall in H. specialize (H _ Hd). cbn in H.
  rewrite forallb_forall in H. specialize (H _ Hq). cbn [fst snd] in H.
  rewrite <- E, N.eqb_refl in H. rewrite E in H. exact H.
Qed.

Lemma all_dgrams_app : forall a b, all_dgrams (a ++ b) = all_dgrams a ++ all_dgrams b.
Proof. induction a as [|[id sc|d] a IH]; intros; cbn; rewrite ?IH, ?app_assoc; auto. Qed.

Lemma split_last : forall {A} (l : list A) n, length l = S n -> exists l' x, l = l' ++ [x] /\ length l' = n.
Proof.
  intros A l n H. destruct (exists_last (l := l)) as (l' & x & E).
  - intro; subst; discriminate.
  - exists l', x. split; auto. subst. rewrite app_length in H. cbn in H. lia.
Qed.

Lemma zip_length : forall {A B} (a : list A) (b : list B), length a = length b -> length (zip a b) = length a.
Proof. induction a; destruct b; cbn; intros; try discriminate; auto. Qed.

Lemma udp_prefix_ok : forall idqs ds,
  udp_honest idqs ds = true ->
  forall evs qs, length qs = length (uq_ids evs) ->
    incl (zip (uq_ids evs) qs) idqs -> incl (all_dgrams evs) ds ->
    let st := fold_left ustep evs (None, []) in
    (forall b d, fst st = Some b -> In d b -> In d ds)
    /\ length (snd st) = length (uq_ids evs)
    /\ forallb (fun p => ures_ok (fst p) (snd p)) (zip (zip (uq_ids evs) qs) (snd st)) = true.
Proof.
  intros idqs ds Hh. induction evs as [|e evs IH] using rev_ind; intros qs HL HI HD.
  - cbn. repeat split; auto. intros; discriminate.
  - rewrite fold_left_app. cbn [fold_left]. rewrite uq_ids_app in *. rewrite all_dgrams_app in HD.
    destruct e as [id sc|d].
    + cbn [uq_ids] in *. rewrite app_length in HL. cbn [length] in HL.
      destruct (split_last qs (length (uq_ids evs))) as (qs' & q & -> & Lq); [lia|].
      rewrite zip_app in HI by lia. cbn [zip] in HI.
      assert (HI' : incl (zip (uq_ids evs) qs') idqs) by (intros x Hx; apply HI, in_or_app; auto).
      assert (HD' : incl (all_dgrams evs) ds) by (intros x Hx; apply HD, in_or_app; auto).
      assert (HS : incl sc ds).
      { intros x Hx. apply HD, in_or_app. right. cbn. rewrite app_nil_r. auto. }
      specialize (IH qs' Lq HI' HD'). cbn zeta in IH.
      destruct (fold_left ustep evs (None, [])) as [pool acc]. cbn [fst snd] in *.
      destruct IH as (B & LA & F).
      cbn [ustep fst snd].
      destruct (udp_read _ id 0) as [[r rest] keep] eqn:R. cbn [fst snd].
      destruct (udp_read_in _ _ _ _ _ _ R) as [Hrest Hr].
      assert (HB : forall d, In d ((match pool with Some b => b | None => [] end) ++ sc) -> In d ds).
      { intros d Hd. apply in_app_or in Hd as [Hd|Hd]; [|apply HS; auto].
        destruct pool as [b|]; [eapply B; eauto|destruct Hd]. }
      repeat split.
      * intros b d Hb Hd. destruct keep; inversion Hb; subst. apply HB, Hrest; auto.
      * rewrite !app_length; cbn; lia.
      * rewrite (zip_app (uq_ids evs) [id] qs' [q]) by lia. cbn [zip].
        rewrite zip_app by (rewrite zip_length by lia; lia).
        rewrite forallb_app, F. cbn [zip forallb fst snd ures_ok]. rewrite andb_true_r.
        destruct r; cbn [ures_ok fst snd]; auto.
        -- destruct Hr as (H1 & H2 & H3).
           pose proof (udp_honest_spec idqs ds Hh m id q (HB _ H1)) as X.
           unfold dok in X. rewrite H2 in X. cbn in X. apply X; auto.
           apply HI, in_or_app. right. left. auto.
        -- cbn in Hr. unfold reply_id_ok. cbn. apply N.eqb_eq; auto.
    + cbn [uq_ids] in *. rewrite app_nil_r in *.
      assert (HD' : incl (all_dgrams evs) ds) by (intros x Hx; apply HD, in_or_app; auto).
      specialize (IH qs HL HI HD'). cbn zeta in IH.
      destruct (fold_left ustep evs (None, [])) as [pool acc]. cbn [fst snd] in *.
      destruct IH as (B & LA & F). cbn [ustep fst snd].
      repeat split; auto.
      intros b x Hb Hx. destruct pool as [b0|]; inversion Hb; subst.
      apply in_app_or in Hx as [Hx|[<-|[]]]; [eapply B; eauto|].
      apply HD, in_or_app. right. cbn. auto.
Qed.

Lemma C09_udp_own_answer_partial_proof : forall evs qs,
  length qs = length (uq_ids evs) ->
  udp_honest (zip (uq_ids evs) qs) (all_dgrams evs) = true ->
  udp_results_ok evs qs = true.
Proof.
  intros evs qs HL Hh. unfold udp_results_ok, urun.
  destruct (udp_prefix_ok _ _ Hh evs qs HL (incl_refl _) (incl_refl _)) as (_ & _ & F). exact F.
Qed.

Print Assumptions C09_udp_own_answer_partial_proof.
