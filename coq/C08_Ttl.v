(* C08 — the shown TTL is truthful over every interleaving of inserts, lookups and re-packs (lemmas). *)
From Coq Require Import List ZArith NArith Bool Lia.
From Dae Require Import C08_Spec C08_Model C08_Proofs.
From Dae.gen Require Import C08_Consts.
Import ListNotations.
Open Scope Z_scope.

(* the packed reply of an entry never claims more than the lifetime that was left when it was packed *)
Definition pk_ok (e : entry) : Prop := e_pttl e <= Z.max 1 ((e_deadline e - e_pat e) / sec).
Definition pkdn (p : bytes * entry) : Prop := e_dnano (snd p) = e_deadline (snd p) /\ pk_ok (snd p).

Ltac zdiv := unfold sec in *; Z.div_mod_to_equations; lia.

Lemma get_packed_pk : forall e now,
    e_dnano e = e_deadline e -> pk_ok e ->
    let e' := fst (get_packed_approx e now) in
    e_dnano e' = e_deadline e' /\ pk_ok e' /\ e_ans e' = e_ans e /\ e_deadline e' = e_deadline e.
Proof.
  intros e now HD HP. unfold get_packed_approx.
  destruct (e_dnano e <=? now) eqn:E0; [cbn; auto|].
  match goal with |- context [if ?c then (e, Some ?x) else _] => destruct c end; [cbn; auto|].
  destruct (now - e_pat e >? sec); [|cbn; auto].
  cbn [fst]. unfold with_packed, pk_ok. cbn. repeat split; try assumption.
  rewrite HD in *. destruct ((e_deadline e - now) / sec =? 0) eqn:Eq; zdiv.
Qed.

Lemma with_last_pk : forall e t, pk_ok e -> pk_ok (with_last e t).
Proof. intros. exact H. Qed.

Lemma pkdn_lookup : forall s now key, Forall pkdn (m_store s) -> Forall pkdn (m_store (fst (m_lookup s now key))).
Proof.
  intros s now key HF. unfold m_lookup. destruct (mfind key (m_store s)) as [e0|] eqn:F; [|assumption].
  destruct (mfind_Forall pkdn key _ e0 HF F) as [k' [[HD HP] _]]. cbn [snd] in HD, HP.
  cbv zeta. destruct (now <? e_deadline (with_last e0 now)).
  - pose proof (get_packed_pk (with_last e0 now) now HD HP) as G. cbv zeta in G.
    destruct (get_packed_approx (with_last e0 now) now) as [e' [t|]]; cbn [fst] in *; cbn [m_store];
      (apply Forall_mput; [split; cbn [snd]; tauto | assumption]).
  - destruct (c_opt (m_cfg s)); [|cbn [fst m_store]; apply Forall_mremove; assumption].
    destruct (get_stale (with_last e0 now) now (c_window (m_cfg s))); [|cbn [fst m_store]; apply Forall_mremove; assumption].
    destruct (e_refreshing (with_last e0 now)); cbn [fst m_store]; (apply Forall_mput; [split; assumption | assumption]).
Qed.

Lemma pkdn_step : forall u s now o, Forall pkdn (m_store s) -> Forall pkdn (m_store (fst (m_step u s now o))).
Proof.
  intros u s now o HF. destruct o; cbn [m_step fst].
  - unfold m_insert. destruct (resp_ok && negb is_ip); [|assumption]. cbn [m_store].
    apply Forall_mput; [|assumption]. split; [reflexivity|]. unfold pk_ok, ttl_from_deadline. cbn.
    set (d := m_deadline (c_fixed (m_cfg s)) rname (eff_ttl nans ttl) now).
    destruct (d <=? now) eqn:E; [zdiv|]. destruct ((d - now) / sec <? 1) eqn:E2; zdiv.
  - apply pkdn_lookup. assumption.
  - apply Forall_janitor. assumption.
  - cbn [m_store]. apply Forall_forall. intros [k e] Hin. apply in_map_iff in Hin. destruct Hin as [[k0 e0] [Heq Hin]].
    inversion Heq; subst. rewrite Forall_forall in HF. destruct (HF _ Hin) as [HD HP]. cbn [snd] in *.
    split; cbn; [destruct (e_dnano e0 =? 0); [reflexivity | assumption] | exact HP].
  - assumption.
  - apply Forall_refresh_done; [|assumption]. intros k e H. exact H.
  - assumption.
Qed.

Lemma pkdn_run_from : forall u h s, Forall pkdn (m_store s) -> Forall pkdn (m_store (fst (m_run_from u s h))).
Proof.
  induction h as [|[now o] rest IH]; intros s Hs; [assumption|].
  rewrite run_from_cons_fst. apply IH. apply pkdn_step. assumption.
Qed.

(* a fresh hit shows at most max 1 (floor remaining) + threshold *)
Lemma fresh_ttl_bound : forall s now key e ans ttl r,
    Forall pkdn (m_store s) ->
    mfind key (m_store s) = Some e -> now < e_deadline e ->
    snd (m_lookup s now key) = ObLook true ans ttl r ->
    ttl <= Z.max 1 ((e_deadline e - now) / sec) + ttl_refresh_threshold.
Proof.
  intros s now key e ans ttl r HF F Hfresh H. unfold m_lookup in H. rewrite F in H. cbv zeta in H.
  destruct (mfind_Forall pkdn key _ e HF F) as [k' [[HD HP] _]]. cbn [snd] in HD, HP. unfold pk_ok in HP.
  change (e_deadline (with_last e now)) with (e_deadline e) in H.
  assert (Ef : (now <? e_deadline e) = true) by lia. rewrite Ef in H.
  unfold get_packed_approx in H.
  change (e_dnano (with_last e now)) with (e_dnano e) in H. change (e_pttl (with_last e now)) with (e_pttl e) in H.
  change (e_pat (with_last e now)) with (e_pat e) in H. rewrite HD in H.
  assert (E0 : (e_deadline e <=? now) = false) by lia. rewrite E0 in H.
  unfold ttl_refresh_threshold in *.
  destruct ((e_deadline e - now) / sec =? 0) eqn:Eq.
  - destruct (1 <=? e_pttl e) eqn:E1.
    + destruct (e_pttl e - 1 <=? 15) eqn:E2; [cbn in H; inversion H; subst; zdiv|].
      destruct (now - e_pat e >? sec) eqn:E3; cbn in H; inversion H; subst; zdiv.
    + destruct (1 - e_pttl e <=? 15) eqn:E2; [cbn in H; inversion H; subst; zdiv|].
      destruct (now - e_pat e >? sec) eqn:E3; cbn in H; inversion H; subst; zdiv.
  - destruct ((e_deadline e - now) / sec <=? e_pttl e) eqn:E1.
    + destruct (e_pttl e - (e_deadline e - now) / sec <=? 15) eqn:E2; [cbn in H; inversion H; subst; zdiv|].
      destruct (now - e_pat e >? sec) eqn:E3; cbn in H; inversion H; subst; zdiv.
    + destruct ((e_deadline e - now) / sec - e_pttl e <=? 15) eqn:E2; [cbn in H; inversion H; subst; zdiv|].
      destruct (now - e_pat e >? sec) eqn:E3; cbn in H; inversion H; subst; zdiv.
Qed.

Lemma ttl_truthful_proof : forall c h now key e ans ttl r,
    mfind key (m_store (fst (m_run c h))) = Some e -> now < e_deadline e ->
    snd (m_lookup (fst (m_run c h)) now key) = ObLook true ans ttl r ->
    ttl_ok (e_deadline e) now ttl = true.
Proof.
  intros c h now key e ans ttl r F Hf H.
  assert (HF : Forall pkdn (m_store (fst (m_run c h)))) by (unfold m_run; apply pkdn_run_from; constructor).
  pose proof (fresh_ttl_bound _ now key e ans ttl r HF F Hf H) as B.
  unfold ttl_ok, ttl_bound, slack. unfold ttl_refresh_threshold in B. lia.
Qed.

(* in the spec's terms: the answer and deadline are those of the most recent insert under the key *)
Lemma ttl_truthful_spec_proof : forall c h now key ans ttl r,
    history_wf c h ->
    snd (m_lookup (fst (m_run c h)) now key) = ObLook true ans ttl r ->
    exists d, last_insert c h key None = Some (ans, d) /\ (now < d -> ttl_ok d now ttl = true).
Proof.
  intros c h now key ans ttl r Hwf H.
  destruct (never_after_window_proof c h now key ans ttl r Hwf H) as [e [F [Ha _]]].
  pose proof F as F'. unfold m_run in F'.
  destruct (last_insert_run key (universe h) h c (m_init c) None eq_refl (Forall_nil _)) as [HL _].
  destruct (mfind_Forall _ key _ e HL F') as [k' [Hli Hk]]. unfold li_ok in Hli. cbn [fst snd] in Hli.
  exists (e_deadline e). split; [rewrite (Hli Hk), Ha; reflexivity|].
  intros Hf. eapply ttl_truthful_proof; eassumption.
Qed.
