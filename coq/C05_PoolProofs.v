(* C05 - buffer ownership: lemmas. *)
From Coq Require Import List NArith Bool.
From Dae Require Import C05_Spec C05_Model C05_PoolModel.
From Dae.gen Require Import C05_Extracted.
Import ListNotations.
Open Scope N_scope.

Lemma prefetch_h_value : forall alias wait c s now h,
  fst (fst (prefetch_stage_h alias wait c s now h)) = prefetch_stage wait c s now.
Proof.
  intros. unfold prefetch_stage_h, prefetch_stage.
  destruct (heap_get h) as [id h1].
  destruct (conn_read c c05_prefetch_bytes (set_dl s (Some (now + wait))) now) as [[[r c2] s2] t].
  destruct (r_data r); reflexivity.
Qed.

(* what stays parked is a private value equal to the prefix in the returned conn (alias = false) *)
Lemma prefetch_h_private : forall wait c s now h c2 pre ready s' t h' parked,
  prefetch_stage_h false wait c s now h = ((c2, pre, ready, s', t), h', parked) ->
  match parked with
  | None => True
  | Some pr => exists d c3, pr = PVal d /\ c2 = CPrefixed d c3
  end.
Proof.
  intros wait c s now h c2 pre ready s' t h' parked H. unfold prefetch_stage_h in H.
  destruct (heap_get h) as [id h1].
  destruct (conn_read c c05_prefetch_bytes (set_dl s (Some (now + wait))) now) as [[[r c0] s2] t0].
  destruct (r_data r) as [|x d]; inversion H; subst; [exact I|].
  eexists; eexists; split; reflexivity.
Qed.

Lemma prologue_h_value : forall alias p s0 now0 h,
  fst (fst (prologue_h alias p s0 now0 h)) = prologue p s0 now0.
Proof.
  intros. unfold prologue_h, prologue.
  destruct (if p_port53 p then _ else _) as [[[oc s1] t1] rd].
  destruct oc as [c1|]; [|reflexivity].
  destruct (negb (p_try_sniff p)); [reflexivity|].
  pose proof (prefetch_h_value alias (p_sniff_ms p) c1 s1 t1 h) as Hv.
  destruct (prefetch_stage_h alias (p_sniff_ms p) c1 s1 t1 h) as [[[[[[c2 pre] ready] s2] t2] h2] parked].
  cbn [fst] in Hv. rewrite <- Hv.
  destruct (negb ready); [reflexivity|].
  destruct (negb (is_likely_http_or_tls pre)); [reflexivity|].
  destruct (sniff_stage (p_answers p) (t2 + p_sniff_ms p) c2 s2 t2) as [[[[[buf derr] c3] s3] t3] spin].
  reflexivity.
Qed.

(* whatever the pool looks like when the relay starts, the relay finds the stack the prologue built *)
Lemma prologue_h_private : forall p s0 now0 h ps h1 parked,
  prologue_h false p s0 now0 h = (ps, h1, parked) ->
  forall h_later, stack_at_relay h_later ps parked = ps_conn ps.
Proof.
  intros p s0 now0 h ps h1 parked H h_later. unfold prologue_h in H.
  destruct (if p_port53 p then _ else _) as [[[oc s1] t1] rd].
  destruct oc as [c1|]; [|inversion H; subst; reflexivity].
  destruct (negb (p_try_sniff p)); [inversion H; subst; reflexivity|].
  destruct (prefetch_stage_h false (p_sniff_ms p) c1 s1 t1 h) as [[[[[[c2 pre] ready] s2] t2] h2] pk] eqn:Ep.
  apply prefetch_h_private in Ep.
  assert (Hpark : stack_at_relay h_later (mkPS (Some c2) s2 t2 rd true false false) pk = Some c2).
  { destruct pk as [pr|]; [|reflexivity]. destruct Ep as [d [c3 [-> ->]]]. reflexivity. }
  destruct (negb ready); [inversion H; subst; exact Hpark|].
  destruct (negb (is_likely_http_or_tls pre)); [inversion H; subst; exact Hpark|].
  destruct (sniff_stage (p_answers p) (t2 + p_sniff_ms p) c2 s2 t2) as [[[[[buf derr] c3] s3] t3] spin].
  inversion H; subst. reflexivity.
Qed.

Definition prefix_private_stmt : Prop :=
  forall p s0 now0 h h_later,
    let '(ps, _, parked) := prologue_h false p s0 now0 h in
    ps = prologue p s0 now0 /\ stack_at_relay h_later ps parked = ps_conn (prologue p s0 now0).

Lemma prefix_private_proof : prefix_private_stmt.
Proof.
  intros p s0 now0 h h_later.
  pose proof (prologue_h_value false p s0 now0 h) as Hv.
  destruct (prologue_h false p s0 now0 h) as [[ps h1] parked] eqn:E. cbn [fst] in Hv.
  split; [exact Hv|]. rewrite <- Hv. eapply prologue_h_private; eauto.
Qed.

(* k connections over one pool *)
Lemma run_prologues_private : forall conns h l hf,
  run_prologues false conns h = (l, hf) ->
  forall h_later, map (fun x => stack_at_relay h_later (fst x) (snd x)) l
                  = map (fun c => ps_conn (prologue (fst c) (snd c) 0)) conns.
Proof.
  induction conns as [|[p s0] rest IH]; intros h l hf H h_later; cbn [run_prologues] in H.
  - inversion H; subst. reflexivity.
  - pose proof (prologue_h_value false p s0 0 h) as Hv.
    destruct (prologue_h false p s0 0 h) as [[ps h1] parked] eqn:E. cbn [fst] in Hv.
    destruct (run_prologues false rest h1) as [l2 h2] eqn:Er.
    inversion H; subst. cbn [map fst snd]. f_equal.
    + eapply prologue_h_private; eauto.
    + eapply IH; eauto.
Qed.

Definition connections_independent_stmt (alias : bool) : Prop :=
  forall conns h,
    stacks_at_relay alias conns h = map (fun c => ps_conn (prologue (fst c) (snd c) 0)) conns.

Lemma connections_independent_proof : connections_independent_stmt false.
Proof.
  intros conns h. unfold stacks_at_relay.
  destruct (run_prologues false conns h) as [l hf] eqn:E. eapply run_prologues_private; eauto.
Qed.

(* the aliasing variant: connection A (SSH banner, port 8080) parks its prefix in the pooled buffer, connection B
   (SOCKS bytes) is probed next and overwrites it *)
Definition w_ssh16 : list N := [83;83;72;45;50;46;48;45;79;112;101;110;83;83;72;95;57;46;54;13;10].
Definition w_socks : list N := [5;1;0;5;1;0;3;11;99;108;105;101;110;116;45;66;46;101;120].
Definition w_pa : pcase := mkP 8080 1000 false 2 false DnsErr [].
Definition w_conns : list (pcase * sock) :=
  [(w_pa, mk_sock (mkSide [mkChunk 0 w_ssh16] None)); (w_pa, mk_sock (mkSide [mkChunk 0 w_socks] None))].

Lemma alias_refuted_proof : ~ connections_independent_stmt true.
Proof.
  intros H. specialize (H w_conns (mkHeap [] [])). vm_compute in H. discriminate.
Qed.

Lemma alias_witness_bytes :
  map (fun o => match o with Some c => pending c | None => [] end) (stacks_at_relay true w_conns (mkHeap [] []))
  = [firstn 16 w_socks; firstn 16 w_socks]
  /\ map (fun o => match o with Some c => pending c | None => [] end) (stacks_at_relay false w_conns (mkHeap [] []))
  = [firstn 16 w_ssh16; firstn 16 w_socks].
Proof. vm_compute. split; reflexivity. Qed.
