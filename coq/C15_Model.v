(* C15 — code-shaped model (no proofs in this file) of
     component/outbound/dialer/alive_dialer_set.go   (AliveDialerSet)
     component/outbound/dialer_group.go              (DialerGroup selection, policy switch)
   Data layout as in Go: dialerToIndex (codes: index / -Init / -NotAlive) as a total function into slot,
   dialerToLatency as a function into option, aliveEntries as a dense list with cached sorting latency,
   minLatency as (a_best, a_best_lat).  Go maps -> functions; mutation -> state passing; the callback
   aliveChangeCallback -> a returned list of booleans.  Dialers are numbered 0..n-1 (their position in
   DialerGroup.Dialers).  time.Duration -> Z nanoseconds (no int64 wrap-around is modelled). *)
From Coq Require Import List ZArith Bool Arith.
From Dae Require Import C15_Spec.
Import ListNotations.
Open Scope Z_scope.

Inductive slot := SAt (i : nat) | SInit | SNotAlive.

Record aset := {
  a_idx : nat -> slot;            (* dialerToIndex *)
  a_lat : nat -> option Z;        (* dialerToLatency *)
  a_entries : list (nat * Z);     (* aliveEntries: dialer, sortingLatency *)
  a_policy : spol;                (* selectionPolicy *)
  a_best : option nat;            (* minLatency.dialer *)
  a_best_lat : Z                  (* minLatency.sortingLatency *)
}.

Definition updn {V} (f : nat -> V) (k : nat) (v : V) : nat -> V := fun k' => if Nat.eqb k' k then v else f k'.

Definition is_min_policy (p : spol) : bool := match p with SMin _ => true | SRandom => false end.
Definition onat_eqb (a b : option nat) : bool :=
  match a, b with Some x, Some y => Nat.eqb x y | None, None => true | _, _ => false end.
Definition is_some {A} (o : option A) : bool := match o with Some _ => true | None => false end.

(* Dialer.snapshotLatencyForPolicy, as far as the set is concerned: the node's summary for the policy *)
Definition snapshot_latency (st : store) (d : nat) (t : ntype) (p : spol) : option Z := lat_of p (st_lat st d t).

Definition new_set (p : spol) : aset :=
  {| a_idx := fun _ => SInit; a_lat := fun _ => None; a_entries := []; a_policy := p;
     a_best := None; a_best_lat := hour |}.

(* the linear scans: the first candidate is always taken, later ones on strict <, first minimum wins
   (start value time.Hour, only reported when there is no candidate) *)
Fixpoint scan_min (excl : option nat) (es : list (nat * Z)) (acc : option nat * Z) : option nat * Z :=
  match es with
  | [] => acc
  | (d, l) :: r =>
      if onat_eqb (Some d) excl then scan_min excl r acc
      else if negb (is_some (fst acc)) || (l <? snd acc) then scan_min excl r (Some d, l) else scan_min excl r acc
  end.

Definition tol_switch (tol cand cur : Z) : bool := (cand <=? cur) && ((cur <? tol) || (cand <=? cur - tol)).

Definition set_best (a : aset) (b : option nat) (l : Z) : aset :=
  {| a_idx := a_idx a; a_lat := a_lat a; a_entries := a_entries a; a_policy := a_policy a;
     a_best := b; a_best_lat := l |}.

(* calcMinLatency *)
Definition calc_min (tol : Z) (a : aset) : aset :=
  let '(md, ml) := scan_min None (a_entries a) (None, hour) in
  match a_best a with
  | None => set_best a md ml
  | Some _ =>
      match md with
      | Some m => if tol_switch tol ml (a_best_lat a) then set_best a (Some m) ml else a
      | None => a
      end
  end.

(* GetMinLatency(excluded) *)
Definition get_min (a : aset) (excl : option nat) : option nat * Z :=
  match a_best a with
  | Some b => if negb (onat_eqb excl (Some b)) then (Some b, a_best_lat a)
              else scan_min excl (a_entries a) (None, hour)
  | None => scan_min excl (a_entries a) (None, hour)
  end.

(* GetRandExcluded(excluded): the set of possible results (reservoir sampling over the non-excluded) *)
Definition get_rand (a : aset) (excl : option nat) : list nat :=
  filter (fun d => negb (onat_eqb (Some d) excl)) (map fst (a_entries a)).

Fixpoint set_nth {A} (i : nat) (x : A) (l : list A) : list A :=
  match l, i with
  | [], _ => []
  | _ :: r, O => x :: r
  | y :: r, S i' => y :: set_nth i' x r
  end.

(* a.aliveEntries[index].sortingLatency = l : only the latency of the entry at that index is written *)
Definition set_lat_nth (i : nat) (l : Z) (es : list (nat * Z)) : list (nat * Z) :=
  match nth_error es i with
  | Some e => set_nth i (fst e, l) es
  | None => es
  end.

(* alive -> not alive: swap with the last element and pop *)
Definition remove_at (a : aset) (d : nat) (i : nat) : aset :=
  let es := a_entries a in
  let idx1 := updn (a_idx a) d SNotAlive in
  let last := (length es - 1)%nat in
  if Nat.ltb i last then
    match nth_error es last with
    | Some sw =>
        {| a_idx := updn idx1 (fst sw) (SAt i); a_lat := a_lat a;
           a_entries := removelast (set_nth i sw es); a_policy := a_policy a;
           a_best := a_best a; a_best_lat := a_best_lat a |}
    | None => a
    end
  else
    {| a_idx := idx1; a_lat := a_lat a; a_entries := removelast es; a_policy := a_policy a;
       a_best := a_best a; a_best_lat := a_best_lat a |}.

(* would the Go code panic in the removal (index >= len(aliveEntries)) ? *)
Definition remove_panics (a : aset) (i : nat) : bool := Nat.leb (length (a_entries a)) i.

Definition add_alive (a : aset) (d : nat) : aset :=
  {| a_idx := updn (a_idx a) d (SAt (length (a_entries a))); a_lat := a_lat a;
     a_entries := a_entries a ++ [(d, 0)]; a_policy := a_policy a;
     a_best := a_best a; a_best_lat := a_best_lat a |}.

(* NotifyLatencyChange(dialer, alive): new state and the aliveChangeCallback calls made *)
Definition notify (c : cfg) (st : store) (t : ntype) (a : aset) (d : nat) (alive : bool) : aset * list bool :=
  let has := snapshot_latency st d t (a_policy a) in
  let minp := is_min_policy (a_policy a) in
  let '(a1, cb1) :=
    if alive then
      match a_idx a d with
      | SAt _ => (a, [])
      | _ => (add_alive a d, [])
      end
    else
      match a_idx a d with
      | SAt i =>
          let removed_best_without_latency := minp && negb (is_some has) && onat_eqb (a_best a) (Some d) in
          let a' := remove_at a d i in
          if removed_best_without_latency then
            let a'' := calc_min (c_tol c) (set_best a' None hour) in
            (a'', if is_some (a_best a'') then [] else [false])
          else (a', [])
      | _ => (a, [])
      end in
  match has with
  | Some raw =>
      let bak_best := a_best a1 in
      let bak_lat := a_best_lat a1 in
      let sorting := raw + c_off c d in
      let a2 := {| a_idx := a_idx a1; a_lat := updn (a_lat a1) d (Some raw);
                   a_entries := match a_idx a1 d with SAt i => set_lat_nth i sorting (a_entries a1) | _ => a_entries a1 end;
                   a_policy := a_policy a1; a_best := a_best a1; a_best_lat := a_best_lat a1 |} in
      let a3 :=
        if alive && (negb (is_some (a_best a2)) || tol_switch (c_tol c) sorting (a_best_lat a2)) then set_best a2 (Some d) sorting
        else if onat_eqb (a_best a2) (Some d) then
          let a2' := set_best a2 (a_best a2) sorting in
          if negb alive || (bak_lat <? sorting) then
            calc_min (c_tol c) (if negb alive then set_best a2' None sorting else a2')
          else a2'
        else a2 in
      let cb2 :=
        if onat_eqb (a_best a3) bak_best then []
        else if is_some (a_best a3) then (if is_some bak_best then [] else [true])
        else [false] in
      (a3, cb1 ++ cb2)
  | None =>
      if alive && minp && negb (is_some (a_best a1)) then (set_best a1 (Some d) (a_best_lat a1), cb1 ++ [true])
      else (a1, cb1)
  end.

(* SetSelectionPolicy -> recomputeSelectionStateLocked (policy differs) *)
Definition recompute (c : cfg) (st : store) (t : ntype) (a : aset) (p : spol) : aset :=
  let a0 := {| a_idx := a_idx a; a_lat := fun _ => None; a_entries := a_entries a; a_policy := p;
               a_best := None; a_best_lat := hour |} in
  if negb (is_min_policy p) then a0
  else
    let es := map (fun e => match snapshot_latency st (fst e) t p with
                            | Some raw => (fst e, raw + c_off c (fst e))
                            | None => (fst e, 0) end) (a_entries a) in
    let lat := fun d => if existsb (fun e => Nat.eqb (fst e) d) (a_entries a) then snapshot_latency st d t p else None in
    calc_min (c_tol c) {| a_idx := a_idx a; a_lat := lat; a_entries := es; a_policy := p;
                          a_best := None; a_best_lat := hour |}.

Definition set_selection_policy (c : cfg) (st : store) (t : ntype) (a : aset) (p : spol) : aset :=
  if spol_eqb (a_policy a) p then a else recompute c st t a p.

(* NewAliveDialerSet(..., setAlive=false) followed by buildSelectionState's notifications with the
   dialers' own alive flags *)
Definition fold_notify (c : cfg) (st : store) (t : ntype) (flag : nat -> bool) (ds : list nat)
           (acc : aset * list bool) : aset * list bool :=
  fold_left (fun acc d => let '(a', cb) := notify c st t (fst acc) d (flag d) in (a', snd acc ++ cb)) ds acc.

Definition build_set (c : cfg) (st : store) (p : spol) (t : ntype) : aset * list bool :=
  let ds := seq 0 (c_n c) in
  let s1 := fold_notify c st t (fun _ => false) ds (new_set p, []) in
  fold_notify c st t (fun d => st_alive st d t) ds s1.

(* ---- DialerGroup ---- *)
Record group := { g_store : store; g_policy : gpol; g_sets : option (ntype -> aset) }.

Definition cblog := list (ntype * bool).

Definition build_sets (c : cfg) (st : store) (p : spol) : (ntype -> aset) * cblog :=
  (fun t => fst (build_set c st p t),
   flat_map (fun t => map (fun b => (t, b)) (snd (build_set c st p t))) all_types).

Definition init_group (c : cfg) (p : gpol) : group :=
  {| g_store := store0; g_policy := p;
     g_sets := match p with GSet sp => Some (fst (build_sets c store0 sp)) | GFixed _ => None end |}.

Definition step (c : cfg) (g : group) (o : op) : group * cblog :=
  match o with
  | OLat d t l => ({| g_store := {| st_lat := upd2 (st_lat (g_store g)) d t l; st_alive := st_alive (g_store g) |};
                      g_policy := g_policy g; g_sets := g_sets g |}, [])
  | OAlive d t b => ({| g_store := {| st_lat := st_lat (g_store g); st_alive := upd2 (st_alive (g_store g)) d t b |};
                        g_policy := g_policy g; g_sets := g_sets g |}, [])
  | ONotify d t b =>
      match g_sets g with
      | Some sets =>
          let '(a', cb) := notify c (g_store g) t (sets t) d b in
          ({| g_store := g_store g; g_policy := g_policy g;
              g_sets := Some (fun t' => if ntype_eqb t' t then a' else sets t') |}, map (fun x => (t, x)) cb)
      | None => (g, [])
      end
  | OPolicy np =>       (* DialerGroup.SetSelectionPolicy *)
      match g_sets g, np with
      | Some sets, GSet p' =>
          ({| g_store := g_store g; g_policy := np;
              g_sets := Some (fun t => set_selection_policy c (g_store g) t (sets t) p') |}, [])
      | None, GSet p' =>
          let '(sets, cb) := build_sets c (g_store g) p' in
          ({| g_store := g_store g; g_policy := np; g_sets := Some sets |}, cb)
      | _, GFixed _ => ({| g_store := g_store g; g_policy := np; g_sets := None |}, [])
      end
  end.

Definition run (c : cfg) (p0 : gpol) (h : list op) : group := fold_left (fun g o => fst (step c g o)) h (init_group c p0).

(* ---- selection ---- *)
(* a caller's NetworkType *)
Inductive l4 := TCP | UDP.
Inductive udpdom := UUnset | UDns | UData.
Record reqtype := { rq_l4 : l4; rq_ipv : ipv; rq_isdns : bool; rq_udpdom : udpdom }.

(* NetworkType.HealthKey / Index *)
Definition key_of (r : reqtype) : ntype :=
  match rq_l4 r with
  | TCP => (DTcp, rq_ipv r)
  | UDP => match rq_udpdom r with UDns => (DDnsUdp, rq_ipv r) | _ => (DDataUdp, rq_ipv r) end
  end.

(* selectionNetworkTypes, on health keys *)
Definition selection_types (fixed : bool) (t : ntype) : list ntype :=
  match fst t with
  | DDataUdp => if fixed then [t] else [t; (DDnsUdp, snd t); (DTcp, snd t)]
  | _ => [t]
  end.

(* preferAlternateSelectionNetworkType *)
Definition prefer_alternate (st : store) (d : nat) (t : ntype) : ntype :=
  if st_alive st d t then t else if st_alive st d (flip_t t) then flip_t t else t.

(* results of _select: possible dialers (one for the deterministic policies), latency, admitted type *)
Inductive msel := MOk (ds : list nat) (lat : Z) (sel : list ntype) | MErr (e : sel_err) (lat : Z).

Fixpoint select_min (st : store) (sets : ntype -> aset) (excl : option nat) (ts : list ntype) : msel :=
  match ts with
  | [] => MErr ENoAlive hour
  | t :: r =>
      match get_min (sets t) excl with
      | (Some d, l) => MOk [d] l [prefer_alternate st d t]
      | (None, _) => select_min st sets excl r
      end
  end.

Fixpoint select_rand (st : store) (sets : ntype -> aset) (excl : option nat) (ts : list ntype) : msel :=
  match ts with
  | [] => MErr ENoAlive hour
  | t :: r =>
      match get_rand (sets t) excl with
      | [] => select_rand st sets excl r
      | ds => MOk ds 0 (map (fun d => prefer_alternate st d t) ds)
      end
  end.

Definition empty_sets : ntype -> aset := fun _ => new_set SRandom.

(* DialerGroup._select *)
Definition select1 (c : cfg) (g : group) (pol : gpol) (t : ntype) (excl : option nat) : msel :=
  match c_n c with
  | O => MErr ENoDialer 0
  | _ =>
    let sets := match g_sets g with Some s => s | None => empty_sets end in
    match pol with
    | GSet SRandom => select_rand (g_store g) sets excl (selection_types false t)
    | GFixed i =>
        if (i <? 0) || (Z.of_nat (c_n c) <=? i) then MErr EOutOfRange 0
        else MOk [Z.to_nat i] 0 [prefer_alternate (g_store g) (Z.to_nat i) t]
    | GSet (SMin _) => select_min (g_store g) sets excl (selection_types false t)
    end
  end.

(* DialerGroup.SelectWithExclusionResult *)
Definition select (c : cfg) (g : group) (rq : reqtype) (strict : bool) (excl : option nat) : msel :=
  let t := key_of rq in
  let r := select1 c g (g_policy g) t excl in
  match r with
  | MErr ENoAlive l =>
      if negb strict then select1 c g (g_policy g) (flip_t t) excl
      else if Nat.eqb (c_n c) 1 then
        match select1 c g (GFixed 0) t excl with
        | MOk ds _ sel => MOk ds timeout sel
        | MErr e _ => MErr e 0
        end
      else MErr ENoAlive l
  | _ => r
  end.

(* the results a selection may produce, in the spec's vocabulary *)
Definition results_of (m : msel) : list sel_res :=
  match m with MOk ds l _ => map (fun d => ROk d l) ds | MErr e l => [RErr e l] end.

(* ---- invariants (stated here, proved in C15_Proofs.v) ---- *)
(* dialerToIndex and aliveEntries are inverse to each other: the swap-remove invariant *)
Definition idx_ok (idx : nat -> slot) (es : list (nat * Z)) : Prop :=
  forall d i, idx d = SAt i <-> exists l, nth_error es i = Some (d, l).

(* aliveEntries against the spec's view of the same type: same nodes, no duplicates, and under a min policy
   the cached sorting latency is the measurement last told (0 when there is none) *)
Definition sim (minp : bool) (es : list (nat * Z)) (v : view) : Prop :=
  NoDup (map fst v) /\
  (forall d, In d (map fst es) <-> In d (map fst v)) /\
  (minp = true -> forall d l, In (d, l) es -> exists m, In (d, m) v /\ l = eff m).

Definition set_ok (a : aset) (v : view) : Prop :=
  idx_ok (a_idx a) (a_entries a) /\ sim (is_min_policy (a_policy a)) (a_entries a) v.

(* the standing choice of a min-policy set against the view: it is alive, exists whenever a node is alive,
   its latency is the measurement last told (when it has one), and no measured alive node beats it *)
Definition min_inv (tol : Z) (a : aset) (v : view) : Prop :=
  (forall b, a_best a = Some b -> In b (map fst (a_entries a))) /\
  (a_entries a <> [] -> a_best a <> None) /\
  (forall b lb, a_best a = Some b -> In (b, Some lb) v -> a_best_lat a = lb) /\
  (forall b x la, a_best a = Some b -> In (x, Some la) v -> beats tol la (a_best_lat a) = false).

Definition group_ok (c : cfg) (g : group) (s : sstate) : Prop :=
  g_store g = ss_store s /\ g_policy g = ss_policy s /\
  match g_policy g with
  | GFixed _ => g_sets g = None
  | GSet p => exists sets, g_sets g = Some sets /\
                           forall t, a_policy (sets t) = p /\ set_ok (sets t) (ss_views s t) /\
                                     (is_min_policy p = true -> min_inv (c_tol c) (sets t) (ss_views s t))
  end.
