(* C19 — lemmas. *)
From Coq Require Import List NArith Bool String Lia ZifyBool ZifyN ZifyNat PeanoNat Arith.
From Dae Require Import C19_Spec C19_Lang C19_Model.
From Dae.gen Require Import C19_Decls.
Import ListNotations.
Open Scope N_scope.

(* ------------------------------------------------------------------------------------------ *)
(* exhaustive facts about the current declarations (re-proved whenever gen/C19_Decls.v changes)  *)
(* ------------------------------------------------------------------------------------------ *)
Lemma layouts_agree_proof : forallb pair_agree pairs = true.
Proof. vm_compute. reflexivity. Qed.

Lemma real_stub_agree_proof : forallb gopair_agree gopairs = true.
Proof. vm_compute. reflexivity. Qed.

Lemma no_unpaired_proof : unpaired_go = [].
Proof. reflexivity. Qed.

Lemma enums_agree_proof : forallb const_agree shared_consts = true.
Proof. vm_compute. reflexivity. Qed.

(* ------------------------------------------------------------------------------------------ *)
(* connectivity slot                                                                            *)
(* ------------------------------------------------------------------------------------------ *)
Lemma go_conn_key_spec : forall o t, o < 256 -> go_conn_key o t = spec_conn_slot o (go_nt_domain t) (nt_v6 t).
Proof.
  intros o [u v d] Ho. unfold go_conn_key, spec_conn_slot, go_conn_domain_index, go_effective_domain, go_nt_domain.
  cbn [nt_udp nt_v6 nt_dom].
  unfold go_conn_slots_per_outbound, go_conn_slots_per_domain, go_conn_dom_tcp, go_conn_dom_dns, go_conn_dom_data.
  rewrite (N.mod_small o 256) by lia.
  destruct u, v, d; cbn [negb conn_domain_idx]; rewrite N.mod_small; try lia;
    change (2 ^ 32) with 4294967296; lia.
Qed.

Lemma c_conn_key_spec : forall o l4 v6, o < 256 ->
  c_conn_key o l4 false (negb v6) = Some (spec_conn_slot o (c_pkt_domain l4) v6).
Proof.
  intros o l4 v6 Ho. unfold c_conn_key, spec_conn_slot, c_pkt_domain.
  unfold c_conn_dns_early_return, c_conn_mul_outbound, c_conn_mul_domain, c_conn_dom_tcp, c_conn_dom_dns, c_conn_dom_data, c_conn_ip4, c_conn_ip6.
  rewrite andb_false_r. rewrite (N.mod_small o 256) by lia. f_equal.
  destruct (l4 =? 17), v6; cbn [negb conn_domain_idx]; rewrite N.mod_small; try lia;
    change (2 ^ 32) with 4294967296; lia.
Qed.

Lemma c_conn_key_dns : forall o l4 ip4, c_conn_key o l4 true ip4 = None.
Proof. reflexivity. Qed.

Lemma spec_conn_slot_inj : forall o1 d1 v1 o2 d2 v2,
  spec_conn_slot o1 d1 v1 = spec_conn_slot o2 d2 v2 -> o1 = o2 /\ d1 = d2 /\ v1 = v2.
Proof.
  unfold spec_conn_slot. intros o1 d1 v1 o2 d2 v2 H.
  destruct d1, d2, v1, v2; cbn [conn_domain_idx] in H; repeat split; try reflexivity; try lia.
Qed.

Lemma spec_conn_slot_range : forall o d v, o < 256 -> spec_conn_slot o d v < c_conn_map_entries.
Proof.
  unfold spec_conn_slot, c_conn_map_entries. intros o d v Ho. destruct d, v; cbn [conn_domain_idx]; lia.
Qed.

Lemma connectivity_key_proof :
  forall (o : N) (t : go_nettype) (l4 : N),
    o < 256 ->
    (* Go side writes the slot of the entity its network type names *)
    go_conn_key o t = spec_conn_slot o (go_nt_domain t) (nt_v6 t)
    (* kernel side reads the slot of the entity the (non-DNS) packet belongs to *)
    /\ c_conn_key o l4 false (negb (nt_v6 t)) = Some (spec_conn_slot o (c_pkt_domain l4) (nt_v6 t))
    (* hence: same entity => same key; different entity => different key; always inside the map *)
    /\ (go_nt_domain t = c_pkt_domain l4 -> c_conn_key o l4 false (negb (nt_v6 t)) = Some (go_conn_key o t))
    /\ (forall o' t', o' < 256 -> go_conn_key o' t' = go_conn_key o t -> o' = o /\ go_nt_domain t' = go_nt_domain t /\ nt_v6 t' = nt_v6 t)
    /\ go_conn_key o t < c_conn_map_entries.
Proof.
  intros o t l4 Ho. repeat split.
  - apply go_conn_key_spec; assumption.
  - apply c_conn_key_spec; assumption.
  - intros E. rewrite c_conn_key_spec by assumption. rewrite go_conn_key_spec by assumption. rewrite E. reflexivity.
  - rewrite !go_conn_key_spec in H0 by assumption. apply spec_conn_slot_inj in H0. tauto.
  - rewrite !go_conn_key_spec in H0 by assumption. apply spec_conn_slot_inj in H0. tauto.
  - rewrite !go_conn_key_spec in H0 by assumption. apply spec_conn_slot_inj in H0. tauto.
  - rewrite go_conn_key_spec by assumption. apply spec_conn_slot_range; assumption.
Qed.

(* ------------------------------------------------------------------------------------------ *)
(* bytes, byte order                                                                            *)
(* ------------------------------------------------------------------------------------------ *)
Lemma le_bytes_length : forall w v, List.length (le_bytes w v) = w.
Proof. induction w; intros; cbn [le_bytes List.length]; [reflexivity | rewrite IHw; reflexivity]. Qed.

Lemma be_bytes_length : forall w v, List.length (be_bytes w v) = w.
Proof. intros. unfold be_bytes. rewrite rev_length. apply le_bytes_length. Qed.

Lemma le_bytes_lt : forall w v, Forall (fun b => b < 256) (le_bytes w v).
Proof.
  induction w; intros; cbn [le_bytes]; constructor.
  - apply N.mod_lt. lia.
  - apply IHw.
Qed.

Lemma be_bytes_lt : forall w v, Forall (fun b => b < 256) (be_bytes w v).
Proof. intros. unfold be_bytes. apply Forall_rev. apply le_bytes_lt. Qed.

Lemma le_bytes_le_load : forall bs, Forall (fun b => b < 256) bs -> le_bytes (List.length bs) (le_load bs) = bs.
Proof.
  induction bs as [|b bs IH]; intros H; [reflexivity|].
  inversion H; subst. cbn [List.length le_bytes le_load fold_right]. fold (le_load bs).
  f_equal.
  - lia.
  - replace ((b + 256 * le_load bs) / 256) with (le_load bs) by lia. apply IH; assumption.
Qed.

Lemma store_load : forall e bs, Forall (fun b => b < 256) bs -> store e (List.length bs) (load e bs) = bs.
Proof.
  intros [] bs H; unfold store, load.
  - apply le_bytes_le_load; assumption.
  - rewrite <- (rev_length bs). rewrite le_bytes_le_load by (apply Forall_rev; assumption). apply rev_involutive.
Qed.

Lemma store_load_w : forall e w bs, List.length bs = w -> Forall (fun b => b < 256) bs -> store e w (load e bs) = bs.
Proof. intros; subst; apply store_load; assumption. Qed.

(* htons/htonl stored natively is the big-endian representation, on either kind of host *)
Lemma store_hton : forall e w v, store e w (hton e w v) = be_bytes w v.
Proof. intros. unfold hton. apply store_load_w; [apply be_bytes_length | apply be_bytes_lt]. Qed.

Lemma le_load_le_bytes : forall w v, le_load (le_bytes w v) = v mod 256 ^ N.of_nat w.
Proof.
  induction w; intros v.
  - cbn. symmetry. apply N.mod_1_r.
  - cbn [le_bytes le_load fold_right]. fold (le_load (le_bytes w (v / 256))). rewrite IHw.
    rewrite Nat2N.inj_succ, N.pow_succ_r by lia. rewrite (N.mod_mul_r v 256) by (try lia; apply N.pow_nonzero; lia). reflexivity.
Qed.

Lemma le_bytes_app : forall a b v, le_bytes (a + b) v = (le_bytes a v ++ le_bytes b (v / 256 ^ N.of_nat a))%list.
Proof.
  induction a; intros b v.
  - cbn [Nat.add le_bytes app N.of_nat]. rewrite N.pow_0_r, N.div_1_r. reflexivity.
  - cbn [Nat.add le_bytes app]. f_equal. rewrite IHa. f_equal. f_equal.
    rewrite Nat2N.inj_succ, N.pow_succ_r by lia. rewrite N.div_div by (try lia; apply N.pow_nonzero; lia). reflexivity.
Qed.

Lemma le_bytes_mod : forall w v, le_bytes w (v mod 256 ^ N.of_nat w) = le_bytes w v.
Proof.
  induction w; intros v; [reflexivity|].
  cbn [le_bytes]. rewrite Nat2N.inj_succ, N.pow_succ_r by lia.
  assert (P : 256 ^ N.of_nat w <> 0) by (apply N.pow_nonzero; lia).
  rewrite (N.mod_mul_r v 256) by (try lia; assumption).
  set (q := (v / 256) mod 256 ^ N.of_nat w).
  f_equal.
  - lia.
  - replace ((v mod 256 + 256 * q) / 256) with q by lia. apply IHw.
Qed.

(* the 4-in-6 form of an IPv4 address, as 16 bytes *)
Lemma be16_mapped : forall a, a < 2 ^ 32 -> be_bytes 16 (0xffff * 2 ^ 32 + a) = (zeros 10 ++ [255; 255] ++ be_bytes 4 a)%list.
Proof.
  intros a Ha. unfold be_bytes. change 16%nat with (4 + 12)%nat. rewrite le_bytes_app.
  change (256 ^ N.of_nat 4) with (2 ^ 32).
  replace ((0xffff * 2 ^ 32 + a) / 2 ^ 32) with 0xffff
    by (rewrite N.add_comm, N.div_add by (compute; discriminate); rewrite N.div_small by assumption; reflexivity).
  rewrite <- (le_bytes_mod 4 (0xffff * 2 ^ 32 + a)). change (256 ^ N.of_nat 4) with (2 ^ 32).
  rewrite N.add_comm, N.mod_add by (compute; discriminate). rewrite N.mod_small by assumption.
  rewrite rev_app_distr. reflexivity.
Qed.

(* ------------------------------------------------------------------------------------------ *)
(* explicit-length list destructuring                                                           *)
(* ------------------------------------------------------------------------------------------ *)
Ltac destr_len l H :=
  repeat (destruct l as [|? l]; [try discriminate H|]; cbn [List.length] in H);
  try discriminate H; clear H.
Ltac destr_list l H :=
  repeat (destruct l as [|? l]; cbn [List.length] in H; try discriminate H); clear H.

Lemma go_as16_length : forall g, List.length (go_as16 g) = 16%nat.
Proof.
  intros [a|a]; unfold go_as16.
  - unfold zeros. rewrite !app_length, repeat_length, be_bytes_length. reflexivity.
  - apply be_bytes_length.
Qed.

Lemma mapped16_length : forall ip, List.length (mapped16 ip) = 16%nat.
Proof.
  intros [a|a]; unfold mapped16.
  - unfold zeros. rewrite !app_length, repeat_length, be_bytes_length. reflexivity.
  - apply be_bytes_length.
Qed.

Lemma mapped16_lt : forall ip, Forall (fun b => b < 256) (mapped16 ip).
Proof.
  intros [a|a]; unfold mapped16.
  - apply Forall_app; split; [unfold zeros; cbn; repeat constructor; lia|].
    apply Forall_app; split; [repeat constructor; lia | apply be_bytes_lt].
  - apply be_bytes_lt.
Qed.

(* Go: converge then As16 gives the mapped bytes of the entity, whatever representation the address came in *)
Lemma go_as16_converge : forall g ip, ipaddr_ok ip -> go_repr g ip -> go_as16 (go_converge g) = mapped16 ip.
Proof.
  intros [b|b] [a|a] Hok Hr; cbn [go_repr ipaddr_ok] in *; subst; try contradiction.
  - reflexivity.
  - unfold go_converge, go_is4in6.
    replace ((0xffff * 2 ^ 32 + a) / 2 ^ 32) with 0xffff
      by (rewrite N.add_comm, N.div_add by (compute; discriminate); rewrite N.div_small by assumption; reflexivity).
    change (0xffff =? 0xffff) with true. cbv iota.
    rewrite N.add_comm, N.mod_add by (compute; discriminate). rewrite N.mod_small by assumption. reflexivity.
  - unfold go_converge, go_is4in6. destruct (a / 2 ^ 32 =? 0xffff) eqn:E; [|reflexivity].
    apply N.eqb_eq in E. cbn [go_as16 mapped16].
    rewrite (N.div_mod a (2 ^ 32)) at 2 by (compute; discriminate). rewrite E.
    rewrite (N.mul_comm (2 ^ 32)). symmetry. apply be16_mapped. apply N.mod_lt. compute; discriminate.
Qed.

(* Go without converge (prefix and domain keys): As16 alone already gives the mapped bytes *)
Lemma go_as16_repr : forall g ip, ipaddr_ok ip -> go_repr g ip -> go_as16 g = mapped16 ip.
Proof.
  intros [b|b] [a|a] Hok Hr; cbn [go_repr ipaddr_ok] in *; subst; try contradiction; cbn [go_as16 mapped16].
  - reflexivity.
  - apply be16_mapped; assumption.
  - reflexivity.
Qed.

(* ------------------------------------------------------------------------------------------ *)
(* tuple key                                                                                    *)
(* ------------------------------------------------------------------------------------------ *)
Lemma go_tuple_writes : forall A B C D x,
  List.length A = 16%nat -> List.length B = 16%nat -> List.length C = 2%nat -> List.length D = 2%nat ->
  write off_tk_go_l4proto [x] (write off_tk_go_dport D (write off_tk_go_sport C
    (write off_tk_go_dip B (write off_tk_go_sip A (zeros size_tk_go)))))
  = (A ++ B ++ C ++ D ++ [x] ++ zeros 3)%list.
Proof.
  intros A B C D x HA HB HC HD.
  destr_list A HA. destr_list B HB. destr_list C HC. destr_list D HD. reflexivity.
Qed.

Lemma go_tuples_key_spec : forall e f gs gd,
  flow_ok f -> go_repr gs (f_src f) -> go_repr gd (f_dst f) ->
  go_tuples_key e gs gd (f_sport f) (f_dport f) (f_proto f) = spec_tuple_key f.
Proof.
  intros e f gs gd (Hs & Hd & _) Rs Rd. unfold go_tuples_key, go_htons. rewrite !store_hton.
  rewrite go_tuple_writes by (try apply go_as16_length; apply be_bytes_length).
  rewrite (go_as16_converge gs (f_src f)), (go_as16_converge gd (f_dst f)) by assumption. reflexivity.
Qed.

Lemma c_tuple_writes4 : forall S D X Y C P x,
  List.length S = 4%nat -> List.length D = 4%nat -> List.length X = 4%nat -> List.length Y = 4%nat ->
  List.length C = 2%nat -> List.length P = 2%nat ->
  write off_tk_c_dport P (write off_tk_c_sport C
    (write (off_tk_c_dip32 + 12) D (write (off_tk_c_dip32 + 8) Y
      (write (off_tk_c_sip32 + 12) S (write (off_tk_c_sip32 + 8) X
        (write off_tk_c_l4proto [x] (zeros size_tk_c)))))))
  = (zeros 8 ++ X ++ S ++ zeros 8 ++ Y ++ D ++ C ++ P ++ [x] ++ zeros 3)%list.
Proof.
  intros S D X Y C P x HS HD HX HY HC HP.
  destr_list S HS. destr_list D HD. destr_list X HX. destr_list Y HY. destr_list C HC. destr_list P HP. reflexivity.
Qed.

Lemma c_tuple_writes6 : forall S D C P x,
  List.length S = 16%nat -> List.length D = 16%nat -> List.length C = 2%nat -> List.length P = 2%nat ->
  write off_tk_c_dport P (write off_tk_c_sport C
    (write off_tk_c_sip8 S (write off_tk_c_dip8 D (write off_tk_c_l4proto [x] (zeros size_tk_c)))))
  = (S ++ D ++ C ++ P ++ [x] ++ zeros 3)%list.
Proof.
  intros S D C P x HS HD HC HP.
  destr_list S HS. destr_list D HD. destr_list C HC. destr_list P HP. reflexivity.
Qed.

Definition same_family (f : flow) : Prop :=
  match f_src f, f_dst f with IP4 _, IP4 _ | IP6 _, IP6 _ => True | _, _ => False end.

Lemma c_flow_key_spec : forall e f, same_family f -> c_flow_key e f = Some (spec_tuple_key f).
Proof.
  intros e [[s|s] [d|d] sp dp pr] F; cbn [same_family f_src f_dst] in F; try contradiction;
    unfold c_flow_key, pkt_of, c_get_tuples; cbn [f_src f_dst f_sport f_dport f_proto]; f_equal.
  - rewrite store_hton.
    rewrite !(store_load_w e 4) by (try apply be_bytes_length; apply be_bytes_lt).
    rewrite !(store_load_w e 2) by (try apply be_bytes_length; apply be_bytes_lt).
    rewrite c_tuple_writes4 by (apply be_bytes_length).
    reflexivity.
  - rewrite !(store_load_w e 2) by (try apply be_bytes_length; apply be_bytes_lt).
    rewrite c_tuple_writes6 by (apply be_bytes_length). reflexivity.
Qed.

Lemma tuple_key_bytes_proof :
  forall (e : endian) (f : flow) (gs gd : goaddr),
    flow_ok f -> same_family f -> go_repr gs (f_src f) -> go_repr gd (f_dst f) ->
    go_tuples_key e gs gd (f_sport f) (f_dport f) (f_proto f) = spec_tuple_key f
    /\ c_flow_key e f = Some (spec_tuple_key f).
Proof. intros. split; [apply go_tuples_key_spec | apply c_flow_key_spec]; assumption. Qed.

(* ------------------------------------------------------------------------------------------ *)
(* [4]uint32 <-> 16 bytes                                                                       *)
(* ------------------------------------------------------------------------------------------ *)
Lemma u32x4_roundtrip : forall e ip, List.length ip = 16%nat -> Forall (fun b => b < 256) ip ->
  store_u32s e (go_u32x4 e ip) = ip.
Proof.
  intros e ip H F. destr_list ip H.
  repeat match goal with H : Forall _ (_ :: _) |- _ => inversion H; clear H; subst end.
  unfold store_u32s, go_u32x4, word. cbn [map flat_map Nat.mul Nat.add skipn firstn app].
  rewrite !(store_load_w e 4) by (try reflexivity; repeat constructor; assumption).
  reflexivity.
Qed.

Lemma go_as16_lt : forall g, Forall (fun b => b < 256) (go_as16 g).
Proof.
  intros [a|a]; unfold go_as16.
  - apply Forall_app; split; [unfold zeros; cbn; repeat constructor; lia|].
    apply Forall_app; split; [repeat constructor; lia | apply be_bytes_lt].
  - apply be_bytes_lt.
Qed.

(* ------------------------------------------------------------------------------------------ *)
(* LPM keys                                                                                     *)
(* ------------------------------------------------------------------------------------------ *)
Lemma go_lpm_writes : forall P A, List.length P = 4%nat -> List.length A = 16%nat ->
  write off_lk_go_data A (write off_lk_go_prefixlen P (zeros size_lk_go)) = (P ++ A)%list.
Proof. intros P A HP HA. destr_list P HP. destr_list A HA. reflexivity. Qed.

Lemma c_lpm_writes : forall P A, List.length P = 4%nat -> List.length A = 16%nat ->
  write off_lk_c_data A (write off_lk_c_prefixlen P (zeros size_lk_c)) = (P ++ A)%list.
Proof. intros P A HP HA. destr_list P HP. destr_list A HA. reflexivity. Qed.

(* a Go (address, bits) pair denotes a prefix *)
Definition go_prefix_repr (g : goaddr) (gbits : N) (p : prefix) : Prop :=
  go_repr g (p_addr p) /\
  match p_addr p, g with
  | IP4 _, G6 _ => gbits = p_bits p + 96
  | _, _ => gbits = p_bits p
  end.

Lemma go_lpm_key_spec : forall g gbits p, prefix_ok p -> go_prefix_repr g gbits p ->
  go_lpm_key LE g gbits = spec_lpm_key p.
Proof.
  intros g gbits [pa pb] [Hok Hb] [Hr Hg]. cbn [p_addr p_bits] in *.
  unfold go_lpm_key, spec_lpm_key, prefix_bits128. cbn [p_addr p_bits].
  rewrite u32x4_roundtrip by (try apply go_as16_length; apply go_as16_lt).
  rewrite go_lpm_writes by (try apply go_as16_length; unfold store; apply le_bytes_length).
  rewrite (go_as16_repr g pa) by assumption. unfold store.
  f_equal. destruct pa, g; cbn [go_repr] in Hr; try contradiction; subst gbits;
    rewrite N.mod_small; try reflexivity; change (2 ^ 32) with 4294967296; lia.
Qed.

Lemma tuple_dip_app : forall A B R, List.length A = 16%nat -> List.length B = 16%nat -> tuple_dip (A ++ B ++ R) = B.
Proof.
  intros A B R HA HB. destr_list A HA. destr_list B HB. unfold tuple_dip. cbn. reflexivity.
Qed.
Lemma tuple_sip_app : forall A R, List.length A = 16%nat -> tuple_sip (A ++ R) = A.
Proof. intros A R HA. destr_list A HA. unfold tuple_sip. cbn. reflexivity. Qed.

Lemma c_lpm_lookup_key_spec : forall A, List.length A = 16%nat -> c_lpm_lookup_key LE A = (le_bytes 4 128 ++ A)%list.
Proof. intros A HA. unfold c_lpm_lookup_key. rewrite c_lpm_writes by (try assumption; reflexivity). reflexivity. Qed.

Lemma c_route_daddr_key_spec : forall f, same_family f -> c_route_daddr_key LE f = Some (spec_lpm_lookup_key (f_dst f)).
Proof.
  intros f F. unfold c_route_daddr_key. rewrite c_flow_key_spec by assumption. unfold spec_tuple_key.
  rewrite tuple_dip_app by apply mapped16_length. rewrite c_lpm_lookup_key_spec by apply mapped16_length. reflexivity.
Qed.

Lemma c_route_saddr_key_spec : forall f, same_family f -> c_route_saddr_key LE f = Some (spec_lpm_lookup_key (f_src f)).
Proof.
  intros f F. unfold c_route_saddr_key. rewrite c_flow_key_spec by assumption. unfold spec_tuple_key.
  rewrite tuple_sip_app by apply mapped16_length. rewrite c_lpm_lookup_key_spec by apply mapped16_length. reflexivity.
Qed.

Definition host_prefix (a : ipaddr) : prefix := mkprefix a (match a with IP4 _ => 32 | IP6 _ => 128 end).

Lemma lpm_key_bytes_proof :
  (forall g gbits p, prefix_ok p -> go_prefix_repr g gbits p -> go_lpm_key LE g gbits = spec_lpm_key p)
  /\ (forall f, same_family f ->
        c_route_daddr_key LE f = Some (spec_lpm_lookup_key (f_dst f))
        /\ c_route_saddr_key LE f = Some (spec_lpm_lookup_key (f_src f)))
  /\ (forall a, spec_lpm_key (host_prefix a) = spec_lpm_lookup_key a).
Proof.
  split; [exact go_lpm_key_spec|]. split.
  - intros f F. split; [apply c_route_daddr_key_spec | apply c_route_saddr_key_spec]; assumption.
  - intros [a|a]; reflexivity.
Qed.

(* ------------------------------------------------------------------------------------------ *)
(* domain table key                                                                             *)
(* ------------------------------------------------------------------------------------------ *)
Lemma go_domain_key_spec : forall e g a, ipaddr_ok a -> go_repr g a -> go_domain_key e g = spec_domain_key a.
Proof.
  intros e g a Hok Hr. unfold go_domain_key, spec_domain_key.
  rewrite u32x4_roundtrip by (try apply go_as16_length; apply go_as16_lt). apply go_as16_repr; assumption.
Qed.

Lemma data_of_lookup_key : forall (P A : list N), List.length P = 4%nat -> List.length A = 16%nat ->
  firstn 16 (skipn off_lk_c_data (P ++ A)) = A.
Proof. intros P A HP HA. destr_list P HP. destr_list A HA. reflexivity. Qed.

Lemma c_domain_key_spec : forall f, same_family f -> c_domain_key LE f = Some (spec_domain_key (f_dst f)).
Proof.
  intros f F. unfold c_domain_key. rewrite c_route_daddr_key_spec by assumption. unfold spec_lpm_lookup_key.
  rewrite data_of_lookup_key by (try apply mapped16_length; reflexivity). reflexivity.
Qed.

Lemma domain_key_bytes_proof :
  forall (e : endian) (f : flow) (g : goaddr),
    flow_ok f -> same_family f -> go_repr g (f_dst f) ->
    go_domain_key e g = spec_domain_key (f_dst f) /\ c_domain_key LE f = Some (spec_domain_key (f_dst f)).
Proof.
  intros e f g (Hs & Hd & _) F R. split; [apply go_domain_key_spec; assumption | apply c_domain_key_spec; assumption].
Qed.

(* ------------------------------------------------------------------------------------------ *)
(* match_set value                                                                              *)
(* ------------------------------------------------------------------------------------------ *)
Lemma go_ms_value_spec : forall v, ms_value_ok v -> go_ms_value v = spec_ms_value v.
Proof.
  intros [i|lo hi|m|d|bs] H; cbn [ms_value_ok] in H; unfold go_ms_value, spec_ms_value.
  - pose proof (le_bytes_length 4 i) as L. generalize dependent (le_bytes 4 i). intros l L. destr_list l L. reflexivity.
  - pose proof (le_bytes_length 2 lo) as L1. pose proof (le_bytes_length 2 hi) as L2.
    generalize dependent (le_bytes 2 lo). intros l1 L1. generalize dependent (le_bytes 2 hi). intros l2 L2.
    destr_list l1 L1. destr_list l2 L2. reflexivity.
  - reflexivity.
  - reflexivity.
  - destruct H as [L _]. destr_list bs L. reflexivity.
Qed.

Lemma le_load_4 : forall i, i < 2 ^ 32 -> le_load (le_bytes 4 i) = i.
Proof. intros. rewrite le_load_le_bytes. apply N.mod_small. assumption. Qed.
Lemma le_load_2 : forall i, i < 65536 -> le_load (le_bytes 2 i) = i.
Proof. intros. rewrite le_load_le_bytes. apply N.mod_small. assumption. Qed.

Lemma firstn_app_exact : forall (A B : list N) n, List.length A = n -> firstn n (A ++ B) = A.
Proof. intros A B n H. subst n. rewrite firstn_app, Nat.sub_diag, firstn_all. cbn. apply app_nil_r. Qed.

Lemma c_ms_read_spec : forall v, ms_value_ok v -> c_ms_read LE (spec_ms_value v) v = v.
Proof.
  intros [i|lo hi|m|d|bs] H; cbn [ms_value_ok] in H; unfold c_ms_read, spec_ms_value, c_ms_field, load.
  - change off_ms_c_index with 0%nat. cbn [skipn]. rewrite firstn_app_exact by apply le_bytes_length.
    rewrite le_load_4 by assumption. reflexivity.
  - destruct H as [H1 H2]. change off_ms_c_portstart with 0%nat. change off_ms_c_portend with 2%nat. cbn [skipn].
    rewrite firstn_app_exact by apply le_bytes_length.
    pose proof (le_bytes_length 2 lo) as L1. remember (le_bytes 2 lo) as l1 eqn:E1.
    destruct l1 as [|x [|y [|]]]; try discriminate L1. cbn [app skipn].
    rewrite firstn_app_exact by apply le_bytes_length. rewrite E1.
    rewrite !le_load_2 by assumption. reflexivity.
  - change off_ms_c_l4prototype with 0%nat. cbn. f_equal. lia.
  - change off_ms_c_dscp with 0%nat. cbn. f_equal. lia.
  - destruct H as [L _]. change off_ms_c_pname with 0%nat. cbn [skipn]. rewrite firstn_all2 by lia. reflexivity.
Qed.

Lemma matchset_value_proof :
  forall v, ms_value_ok v -> go_ms_value v = spec_ms_value v /\ c_ms_read LE (go_ms_value v) v = v.
Proof. intros v H. split; [apply go_ms_value_spec; assumption|]. rewrite go_ms_value_spec by assumption. apply c_ms_read_spec; assumption. Qed.

Lemma matchset_value_bigendian_refuted_proof :
  exists v, ms_value_ok v /\ c_ms_read BE (go_ms_value v) v <> v.
Proof. exists (MSIndex 1). split; [cbn; lia|]. vm_compute. discriminate. Qed.

(* ------------------------------------------------------------------------------------------ *)
(* MAC key                                                                                      *)
(* ------------------------------------------------------------------------------------------ *)
Lemma be4_of_2 : forall a b, a < 256 -> b < 256 -> be_bytes 4 (a * 256 + b) = [0; 0; a; b].
Proof.
  intros. unfold be_bytes. cbn [le_bytes rev app].
  repeat f_equal; lia.
Qed.
Lemma be4_of_4 : forall a b c d, a < 256 -> b < 256 -> c < 256 -> d < 256 ->
  be_bytes 4 (a * 2 ^ 24 + b * 2 ^ 16 + c * 256 + d) = [a; b; c; d].
Proof.
  intros. unfold be_bytes. cbn [le_bytes rev app]. change (2 ^ 24) with 16777216. change (2 ^ 16) with 65536.
  repeat f_equal; lia.
Qed.

Lemma mac_key_proof :
  forall (e : endian) (mac : list N), List.length mac = 6%nat -> Forall (fun b => b < 256) mac ->
    go_mac_key LE mac = spec_mac_key mac /\ c_mac_key LE mac = spec_mac_key mac.
Proof.
  intros e mac L F. destr_list mac L.
  repeat match goal with H : Forall _ (_ :: _) |- _ => inversion H; clear H; subst end.
  split.
  - unfold go_mac_key, spec_mac_key.
    rewrite u32x4_roundtrip by (try reflexivity; unfold write, zeros; cbn; repeat constructor; assumption || lia).
    rewrite go_lpm_writes by reflexivity. reflexivity.
  - unfold c_mac_key, spec_mac_key, nth0. cbn [nth]. rewrite !store_hton.
    rewrite be4_of_2, be4_of_4 by assumption.
    rewrite c_lpm_lookup_key_spec by reflexivity. reflexivity.
Qed.

(* ------------------------------------------------------------------------------------------ *)
(* layout functions: well-formedness, decided                                                   *)
(* ------------------------------------------------------------------------------------------ *)
Fixpoint sorted_fromb (lo : N) (ls : list leaf) : bool :=
  match ls with
  | [] => true
  | l :: r => (lo <=? lf_off l) && sorted_fromb (leaf_end l) r
  end.
Definition layout_wfb (ly : layout) : bool :=
  sorted_fromb 0 (ly_leaves ly)
  && forallb (fun l => leaf_end l <=? ly_size ly) (ly_leaves ly)
  && forallb (fun l => (lf_w l =? 0) || ((lf_off l) mod (lf_w l) =? 0)) (ly_leaves ly)
  && ((ly_align ly =? 0) || ((ly_size ly) mod (ly_align ly) =? 0)).

Lemma sorted_fromb_ok : forall ls lo, sorted_fromb lo ls = true -> leaves_sorted_from lo ls.
Proof.
  induction ls as [|l r IH]; intros lo H; cbn in *; [exact I|].
  apply andb_true_iff in H. destruct H as [H1 H2]. split; [apply N.leb_le; assumption | apply IH; assumption].
Qed.

Lemma layout_wfb_ok : forall ly, layout_wfb ly = true -> layout_wf ly.
Proof.
  intros ly H. unfold layout_wfb in H.
  apply andb_true_iff in H. destruct H as [H Hsize].
  apply andb_true_iff in H. destruct H as [H Halign].
  apply andb_true_iff in H. destruct H as [Hsorted Hinside].
  constructor.
  - apply sorted_fromb_ok; assumption.
  - apply Forall_forall. intros l Hl. rewrite forallb_forall in Hinside. apply N.leb_le. apply Hinside; assumption.
  - apply Forall_forall. intros l Hl. rewrite forallb_forall in Halign. specialize (Halign l Hl).
    apply orb_true_iff in Halign. destruct Halign as [E|E]; [left | right]; apply N.eqb_eq; assumption.
  - intros NZ. apply orb_true_iff in Hsize. destruct Hsize as [E|E]; apply N.eqb_eq in E; [contradiction | assumption].
Qed.

Definition all_layouts : list layout :=
  map (fun d => c_layout (snd d)) c_decls ++ map (fun d => go_layout (snd d)) go_decls.

Lemma all_layouts_wf_proof : Forall layout_wf all_layouts.
Proof.
  apply Forall_forall. intros ly Hl. apply layout_wfb_ok.
  assert (A : forallb layout_wfb all_layouts = true) by (vm_compute; reflexivity).
  rewrite forallb_forall in A. apply A; assumption.
Qed.

Lemma key_fields_present_proof : key_fields_present = true.
Proof. vm_compute. reflexivity. Qed.

(* ------------------------------------------------------------------------------------------ *)
(* reversed tuple key (copy_reversed_tuples into a dirty destination)                           *)
(* ------------------------------------------------------------------------------------------ *)
Lemma c_copy_reversed_lists : forall prior A B C D x,
  List.length prior = size_tk_c ->
  List.length A = 16%nat -> List.length B = 16%nat -> List.length C = 2%nat -> List.length D = 2%nat ->
  c_copy_reversed prior (A ++ B ++ C ++ D ++ [x] ++ zeros 3) = (B ++ A ++ D ++ C ++ [x] ++ zeros 3)%list.
Proof.
  intros prior A B C D x HP HA HB HC HD.
  destr_list A HA. destr_list B HB. destr_list C HC. destr_list D HD. reflexivity.
Qed.

Lemma flow_ok_reverse : forall f, flow_ok f -> flow_ok (reverse_flow f).
Proof. intros f (a & b & c & d & e). unfold flow_ok, reverse_flow. cbn. tauto. Qed.

Lemma reversed_tuple_key_bytes_proof :
  forall (e : endian) (f : flow) (gs gd : goaddr) (prior : list N),
    flow_ok f -> same_family f -> go_repr gs (f_src f) -> go_repr gd (f_dst f) ->
    List.length prior = size_tk_c ->
    c_reversed_flow_key e prior f = Some (spec_tuple_key (reverse_flow f))
    /\ go_tuples_key e gd gs (f_dport f) (f_sport f) (f_proto f) = spec_tuple_key (reverse_flow f).
Proof.
  intros e f gs gd prior Hok F Rs Rd HP. split.
  - unfold c_reversed_flow_key. rewrite c_flow_key_spec by assumption. unfold spec_tuple_key at 1.
    rewrite c_copy_reversed_lists by (try assumption; try apply mapped16_length; apply be_bytes_length).
    reflexivity.
  - apply (go_tuples_key_spec e (reverse_flow f) gd gs); [apply flow_ok_reverse; assumption | assumption | assumption].
Qed.

(* ------------------------------------------------------------------------------------------ *)
(* magic-number mirrors of kernel enumerations                                                  *)
(* ------------------------------------------------------------------------------------------ *)
Lemma magic_numbers_agree_proof : forallb magic_ok magic_uses = true.
Proof. vm_compute. reflexivity. Qed.

Lemma janitor_state_agrees_proof :
  forall (fin_seen : bool) (age_ns : N),
    go_janitor_is_closing (c_state_after fin_seen) = fin_seen
    /\ go_janitor_deletes (c_state_after fin_seen) age_ns = spec_janitor_deletes fin_seen age_ns.
Proof.
  intros [] age; unfold go_janitor_deletes, spec_janitor_deletes, go_janitor_is_closing, c_state_after; split; reflexivity.
Qed.

(* ------------------------------------------------------------------------------------------ *)
(* build-time limit override                                                                    *)
(* ------------------------------------------------------------------------------------------ *)
Lemma limit_override_agrees_proof : forall n m, go_rule_limit n = Some m -> limits_agree n m.
Proof.
  intros n m H. unfold go_rule_limit, go_init_steps in H. cbn [run_init] in H.
  destruct (n mod 32 =? 0) eqn:E; [|discriminate]. injection H as <-. apply N.eqb_eq in E.
  unfold limits_agree, c_rule_limit, go_bitmap_words, c_bitmap_words, c_lpm_slots, go_limit_bitmap_div, c_limit_bitmap_div, c_limit_lpm_add.
  repeat split; lia.
Qed.

Lemma limit_override_rounding_refuted_proof :
  exists n m, run_init [IRoundUp 31 32] n = Some m /\ ~ limits_agree n m.
Proof.
  exists 1000, 1024. split; [vm_compute; reflexivity|]. unfold limits_agree, c_rule_limit. intros [H _]. discriminate H.
Qed.

Lemma nonvacuous_proof :
  let f := mkflow (IP4 0x01020304) (IP4 0x0a060708) 40000 53 17 in
  flow_ok f /\ same_family f /\ go_repr (G6 (0xffff * 2 ^ 32 + 0x01020304)) (f_src f) /\ go_repr (G4 0x0a060708) (f_dst f)
  /\ spec_tuple_key f = [0;0;0;0;0;0;0;0;0;0;255;255;1;2;3;4; 0;0;0;0;0;0;0;0;0;0;255;255;10;6;7;8; 156;64; 0;53; 17; 0;0;0]
  /\ pairs <> [] /\ shared_consts <> [].
Proof.
  cbv zeta. repeat split; try (vm_compute; reflexivity); try discriminate.
  all: cbn; lia.
Qed.
