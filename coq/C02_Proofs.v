(* C02 — lemmas.  Part A: bytes, packing, encodings, LPM keys, ring slots, bitmaps.  The scan refinement is in
   C02_ProofsScan.v. *)
From Coq Require Import ZArith List NArith Bool String Lia ZifyBool ZifyN ZifyNat.
From Dae Require Import C01_Spec C01_Model C02_Spec C02_Model.
From Dae.gen Require Import C01_Consts C02_Consts.
Import ListNotations.
Open Scope N_scope.
Ltac Zify.zify_post_hook ::= Z.div_mod_to_equations.

(* ---------------------------------------------------------------------------------------------- *)
(* bytes                                                                                            *)
(* ---------------------------------------------------------------------------------------------- *)

Lemma le32_bytes_le32 x r : x < 4294967296 -> le32 (le32_bytes x ++ r) 0 = x.
Proof. intros H. unfold le32, byte_at, le32_bytes. cbn [nth app Nat.add]. lia. Qed.

Lemma le16_bytes_le16 x r : x < 65536 -> le16 (le16_bytes x ++ r) 0 = x.
Proof. intros H. unfold le16, byte_at, le16_bytes. cbn [nth app Nat.add]. lia. Qed.

Lemma be16_bytes_be16 x r : x < 65536 -> be16 (be16_bytes x ++ r) 0 = x.
Proof. intros H. unfold be16, byte_at, be16_bytes. cbn [nth app Nat.add]. lia. Qed.

Lemma byte_at_nil k : byte_at [] k = 0.
Proof. destruct k; reflexivity. Qed.

Lemma byte_at_app2 v l k : byte_at (v ++ l) (List.length v + k) = byte_at l k.
Proof. unfold byte_at. rewrite app_nth2 by lia. f_equal. lia. Qed.

Lemma byte_at_app1 v l k : (k < List.length v)%nat -> byte_at (v ++ l) k = byte_at v k.
Proof. intros H. unfold byte_at. now rewrite app_nth1. Qed.

Lemma le32_app2 v l o : le32 (v ++ l) (List.length v + o) = le32 l o.
Proof. unfold le32. rewrite <- !Nat.add_assoc, !byte_at_app2. reflexivity. Qed.

Lemma be_app l b : be (l ++ [b]) = be l * 256 + b.
Proof. unfold be. rewrite fold_left_app. reflexivity. Qed.

Lemma be_bytes_be : forall n a, a < 256 ^ N.of_nat n -> be (bytes_be n a) = a.
Proof.
  induction n as [|n IH]; intros a Ha.
  - cbn in *. lia.
  - cbn [bytes_be]. rewrite be_app, IH.
    + lia.
    + rewrite Nat2N.inj_succ, N.pow_succ_r' in Ha. apply N.div_lt_upper_bound; lia.
Qed.

Lemma length_bytes_be n a : List.length (bytes_be n a) = n.
Proof. revert a. induction n; intros; cbn [bytes_be]; [reflexivity|]. rewrite app_length, IHn. cbn. lia. Qed.

(* ---------------------------------------------------------------------------------------------- *)
(* the result word                                                                                  *)
(* ---------------------------------------------------------------------------------------------- *)

Lemma land_low_shiftl a b k : a < 2 ^ k -> N.land a (N.shiftl b k) = 0.
Proof.
  intros Ha. apply N.bits_inj_0. intros n. rewrite N.land_spec.
  destruct (N.ltb_spec n k) as [Hn|Hn].
  - rewrite N.shiftl_spec_low by exact Hn. apply andb_false_r.
  - destruct (N.eq_dec a 0) as [->|Hz]; [now rewrite N.bits_0|].
    rewrite N.bits_above_log2; [reflexivity|].
    apply N.lt_le_trans with k; [|exact Hn]. apply N.log2_lt_pow2; lia.
Qed.

Lemma lor_low_shiftl a b k : a < 2 ^ k -> N.lor a (N.shiftl b k) = a + b * 2 ^ k.
Proof.
  intros Ha. rewrite <- N.lxor_lor by (now apply land_low_shiftl).
  rewrite <- N.add_nocarry_lxor by (now apply land_low_shiftl).
  now rewrite N.shiftl_mul_pow2.
Qed.

Lemma pack_add o mark must : o < 256 -> mark < 4294967296 ->
  pack o mark must = o + mark * 256 + b2n must * 1099511627776.
Proof.
  intros Ho Hm. unfold pack.
  rewrite (lor_low_shiftl o mark 8) by (change (2 ^ 8) with 256; lia).
  rewrite (lor_low_shiftl _ (b2n must) 40).
  - reflexivity.
  - change (2 ^ 8) with 256. change (2 ^ 40) with 1099511627776. lia.
Qed.

Lemma decode_pack o mark must : o < 256 -> mark < 4294967296 ->
  decode_word (KWord (pack o mark must)) = Some (o, mark, must).
Proof.
  intros Ho Hm. unfold decode_word. rewrite pack_add by assumption.
  change 0xff with (N.ones 8). change 0xffffffff with (N.ones 32). change 1 with (N.ones 1) at 1.
  rewrite !N.land_ones, !N.shiftr_div_pow2.
  change (2 ^ 8) with 256. change (2 ^ 32) with 4294967296. change (2 ^ 40) with 1099511627776. change (2 ^ 1) with 2.
  assert (Hb : b2n must < 2) by (destruct must; cbn; lia).
  replace ((o + mark * 256 + b2n must * 1099511627776) mod 256) with o by lia.
  replace (((o + mark * 256 + b2n must * 1099511627776) / 256) mod 4294967296) with mark by lia.
  replace (((o + mark * 256 + b2n must * 1099511627776) / 1099511627776) mod 2) with (b2n must) by lia.
  destruct must; reflexivity.
Qed.

(* ---------------------------------------------------------------------------------------------- *)
(* the kernel decodes what the control plane encodes                                                *)
(* ---------------------------------------------------------------------------------------------- *)

Lemma wf_mset_facts n m : wf_mset n m = true ->
  m_type m <= 10 /\ m_out m < 256 /\ m_mark m < 4294967296 /\ m_ps m < 65536 /\ m_pe m < 65536 /\ m_mask m < 256 /\
  List.length (m_pname m) = 16%nat /\ (forall b, In b (m_pname m) -> b < 256) /\ m_dscp m < 256 /\
  (is_lpm_type (m_type m) = true -> m_lpm m < n).
Proof.
  unfold wf_mset. rewrite !andb_true_iff. intros [[[[[[[[[H1 H2] H3] H4] H5] H6] H7] H8] H9] H10].
  change MatchType_Fallback with 10 in H1. change (2 ^ 32) with 4294967296 in H3.
  apply Nat.eqb_eq in H7. rewrite forallb_forall in H8.
  repeat split; try lia; auto.
  - intros b Hb. specialize (H8 b Hb). lia.
  - intros Hl. rewrite Hl in H10. lia.
Qed.

Definition value16 (alloc : N) (m : mset) : list N :=
  if is_lpm_type (m_type m) then le32_bytes (ring_slot MaxMatchSetLen alloc (m_lpm m)) ++ zeros 12 else value_bytes m.

Lemma length_value_bytes m : List.length (value_bytes m) = 16%nat.
Proof.
  unfold value_bytes.
  repeat match goal with |- context [if ?b then _ else _] => destruct b end; reflexivity.
Qed.

Lemma length_value16 alloc m : List.length (value16 alloc m) = 16%nat.
Proof. unfold value16. destruct (is_lpm_type (m_type m)); [reflexivity | apply length_value_bytes]. Qed.

Lemma kentry_split alloc m :
  kentry alloc m = value16 alloc m ++ [b2n (m_not m); m_type m; m_out m; b2n (m_must m)] ++ le32_bytes (m_mark m).
Proof. reflexivity. Qed.

Lemma b2n_lt b : b2n b < 256.
Proof. destruct b; cbn; lia. Qed.

Lemma byte_at_app2' v l n k : List.length v = n -> byte_at (v ++ l) (n + k) = byte_at l k.
Proof. intros <-. apply byte_at_app2. Qed.

Lemma le32_app2' v l n o : List.length v = n -> le32 (v ++ l) (n + o) = le32 l o.
Proof. intros <-. apply le32_app2. Qed.

Lemma header_decodes alloc m : m_mark m < 4294967296 ->
  let e := kentry alloc m in
  ms_not e = b2n (m_not m) /\ ms_type e = m_type m /\ ms_outbound e = m_out m /\ ms_must e = b2n (m_must m) /\ ms_mark e = m_mark m.
Proof.
  intros Hm e. subst e. rewrite kentry_split.
  pose proof (length_value16 alloc m) as L.
  unfold ms_not, ms_type, ms_outbound, ms_must, ms_mark.
  rewrite (byte_at_app2' _ _ 16 0 L), (byte_at_app2' _ _ 16 1 L), (byte_at_app2' _ _ 16 2 L), (byte_at_app2' _ _ 16 3 L),
          (le32_app2' _ _ 16 4 L).
  repeat split; try reflexivity.
  rewrite (le32_app2' [b2n (m_not m); m_type m; m_out m; b2n (m_must m)] _ 4 0 eq_refl).
  rewrite <- (app_nil_r (le32_bytes (m_mark m))). now apply le32_bytes_le32.
Qed.

Lemma le32_value alloc m rest o : (o + 3 < 16)%nat -> le32 (value16 alloc m ++ rest) o = le32 (value16 alloc m) o.
Proof.
  intros Ho. pose proof (length_value16 alloc m) as L. unfold le32. rewrite !byte_at_app1 by lia. reflexivity.
Qed.

Lemma le32_nth16 l o : (o + 3 < 16)%nat -> List.length l = 16%nat -> le32 (nth16 l) o = le32 l o.
Proof.
  intros Ho L. unfold le32.
  assert (E : forall k, (k < 16)%nat -> byte_at (nth16 l) k = byte_at l k).
  { intros k Hk. do 16 (destruct k as [|k]; [reflexivity|]). lia. }
  rewrite !E by lia. reflexivity.
Qed.

Ltac red_if :=
  repeat match goal with
         | |- context [if ?b then _ else _] =>
           let v := eval vm_compute in b in
           (match v with true => idtac | false => idtac end); change b with v; cbv iota
         end.

Theorem encode_decode alloc n m : wf_mset n m = true -> decodes alloc (kentry alloc m) m.
Proof.
  intros Hwf. destruct (wf_mset_facts _ _ Hwf) as (Ht & Ho & Hmk & Hps & Hpe & Hmask & Hpn & Hpb & Hd & Hl).
  destruct (header_decodes alloc m Hmk) as (H1 & H2 & H3 & H4 & H5).
  unfold decodes.
  split; [exact H2|]. split; [exact H1|]. split; [exact H3|]. split; [exact H4|]. split; [exact H5|].
  split; [|split; [|split; [|split; [|split]]]].
  - (* LPM index *)
    intros Hlpm. unfold ms_index. rewrite kentry_split, le32_value by lia. unfold value16. rewrite Hlpm.
    apply le32_bytes_le32. unfold ring_slot. change MaxMatchSetLen with 1024. lia.
  - (* port range *)
    intros Hp. split.
    + unfold ms_port_start. rewrite kentry_split. unfold value16, value_bytes.
      destruct Hp as [-> | ->]; red_if; rewrite <- app_assoc; now apply le16_bytes_le16.
    + unfold ms_port_end, le16. rewrite kentry_split. unfold value16, value_bytes.
      destruct Hp as [-> | ->]; red_if; unfold byte_at, le16_bytes; cbn [nth app Nat.add]; lia.
  - intros Hp. unfold ms_l4proto_type, le32. rewrite kentry_split. unfold value16, value_bytes. rewrite Hp.
    red_if. unfold byte_at, zeros. cbn [nth app Nat.add repeat]. lia.
  - intros Hp. unfold ms_ip_version, le32. rewrite kentry_split. unfold value16, value_bytes. rewrite Hp.
    red_if. unfold byte_at, zeros. cbn [nth app Nat.add repeat]. lia.
  - intros Hp. unfold le64. rewrite kentry_split, !le32_value by lia. unfold value16, value_bytes. rewrite Hp.
    red_if.
    rewrite !le32_nth16 by (lia || assumption). split; reflexivity.
  - intros Hp. unfold ms_dscp. rewrite kentry_split. unfold value16, value_bytes. rewrite Hp. red_if. reflexivity.
Qed.

(* rewriteKernRulesWithRingLpmIndex on the builder's bytes gives kentry *)
Lemma rewrite_rule_kentry alloc count n m : wf_mset n m = true -> n <= count -> count <= 1024 ->
  rewrite_rule alloc count (enc_mset m) = Ok (kentry alloc m).
Proof.
  intros Hwf Hn Hc. destruct (wf_mset_facts _ _ Hwf) as (Ht & Ho & Hmk & Hps & Hpe & Hmask & Hpn & Hpb & Hd & Hl).
  unfold rewrite_rule, enc_mset, kentry.
  pose proof (length_value_bytes m) as L.
  rewrite (byte_at_app2' _ _ 16 1 L).
  change (byte_at ([b2n (m_not m); m_type m; m_out m; b2n (m_must m)] ++ le32_bytes (m_mark m)) 1) with (m_type m).
  destruct (is_lpm_type (m_type m)) eqn:E; [|reflexivity].
  specialize (Hl eq_refl).
  unfold value_bytes. rewrite E. rewrite <- !app_assoc.
  rewrite le32_bytes_le32 by lia.
  destruct (N.leb_spec count (m_lpm m)); [lia|].
  unfold ring_slot. reflexivity.
Qed.

Lemma rewrite_rules_kentry alloc count n : forall ms, forallb (wf_mset n) ms = true -> n <= count -> count <= 1024 ->
  rewrite_rules alloc count (map enc_mset ms) = Ok (map (kentry alloc) ms).
Proof.
  induction ms as [|m ms IH]; intros Hwf Hn Hc; [reflexivity|].
  cbn [forallb] in Hwf. apply andb_true_iff in Hwf as [H1 H2].
  cbn [map rewrite_rules]. rewrite (rewrite_rule_kentry _ _ _ _ H1 Hn Hc), IH by assumption. reflexivity.
Qed.

(* ---------------------------------------------------------------------------------------------- *)
(* LPM keys                                                                                         *)
(* ---------------------------------------------------------------------------------------------- *)

Lemma wf_prefix_facts p : wf_prefix p = true ->
  px_addr p < 2 ^ 128 /\ (if px_v4 p then px_bits p + 96 else px_bits p) <= 128.
Proof.
  unfold wf_prefix. rewrite andb_true_iff. intros [H1 H2]. split; [lia|]. destruct (px_v4 p); lia.
Qed.

Lemma pow256_16 : 256 ^ N.of_nat 16 = 2 ^ 128.
Proof. reflexivity. Qed.

Lemma lpm_key_matches x p : wf_prefix p = true -> x < 2 ^ 128 ->
  lpm_entry_matches 128 (bytes_be 16 x) (key_of_prefix p) = px_covers x p.
Proof.
  intros Hp Hx. destruct (wf_prefix_facts _ Hp) as [Ha Hn].
  unfold lpm_entry_matches, key_prefixlen, key_data, key_of_prefix, px_covers.
  set (n := if px_v4 p then px_bits p + 96 else px_bits p) in *.
  rewrite le32_bytes_le32 by lia.
  change (skipn 4 (le32_bytes n ++ bytes_be 16 (px_addr p))) with (bytes_be 16 (px_addr p)).
  rewrite !be_bytes_be by (rewrite pow256_16; assumption).
  destruct (N.leb_spec n 128); [|lia]. reflexivity.
Qed.

Lemma lpm_lookup_keys x t : forallb wf_prefix t = true -> x < 2 ^ 128 ->
  lpm_lookup (map key_of_prefix t) 128 (bytes_be 16 x) = existsb (px_covers x) t.
Proof.
  intros Ht Hx. unfold lpm_lookup. induction t as [|p t IH]; [reflexivity|].
  cbn [forallb] in Ht. apply andb_true_iff in Ht as [H1 H2].
  cbn [map existsb]. rewrite lpm_key_matches, IH by assumption. reflexivity.
Qed.

(* ---------------------------------------------------------------------------------------------- *)
(* the ring of LPM slots                                                                            *)
(* ---------------------------------------------------------------------------------------------- *)

Lemma ring_slot_inj alloc i j : i < MaxMatchSetLen -> j < MaxMatchSetLen ->
  ring_slot MaxMatchSetLen alloc i = ring_slot MaxMatchSetLen alloc j -> i = j.
Proof. unfold ring_slot. change MaxMatchSetLen with 1024. intros. lia. Qed.

Lemma ring_slot_window alloc i0 i j : i0 <= i -> i0 <= j -> i < i0 + MaxMatchSetLen -> j < i0 + MaxMatchSetLen ->
  ring_slot MaxMatchSetLen alloc i = ring_slot MaxMatchSetLen alloc j -> i = j.
Proof. unfold ring_slot. change MaxMatchSetLen with 1024. intros. lia. Qed.

Lemma ring_slot_lt alloc i : ring_slot MaxMatchSetLen alloc i < K_MAX_LPM_NUM.
Proof. unfold ring_slot. change MaxMatchSetLen with 1024. change K_MAX_LPM_NUM with 1032. lia. Qed.

Lemma install_tries_other : forall tries f alloc i0 s,
  (forall j, i0 <= j < i0 + N.of_nat (List.length tries) -> ring_slot MaxMatchSetLen alloc j <> s) ->
  install_tries f alloc i0 tries s = f s.
Proof.
  induction tries as [|t r IH]; intros f alloc i0 s H; [reflexivity|].
  cbn [install_tries]. rewrite IH.
  - unfold upd. destruct (N.eqb_spec s (ring_slot MaxMatchSetLen alloc i0)) as [E|E]; [|reflexivity].
    exfalso. apply (H i0); [cbn [List.length]; lia | now symmetry].
  - intros j Hj. apply H. cbn [List.length]. lia.
Qed.

(* every trie of the generation sits in the slot its rewritten index names, whatever was there before *)
Lemma install_tries_get : forall tries f alloc i0 k t,
  N.of_nat (List.length tries) <= MaxMatchSetLen ->
  nth_error tries k = Some t ->
  install_tries f alloc i0 tries (ring_slot MaxMatchSetLen alloc (i0 + N.of_nat k)) = Some (map key_of_prefix t).
Proof.
  induction tries as [|t0 r IH]; intros f alloc i0 k t Hlen Hk; [destruct k; discriminate|].
  cbn [install_tries]. destruct k as [|k].
  - cbn in Hk. injection Hk as <-. rewrite N.add_0_r.
    rewrite install_tries_other.
    + unfold upd. now rewrite N.eqb_refl.
    + intros j Hj E. cbn [List.length] in Hlen.
      assert (j = i0); [|lia].
      apply (ring_slot_window alloc i0); change MaxMatchSetLen with 1024 in *; (lia || exact E || (symmetry; exact E)).
  - cbn [nth_error] in Hk. replace (i0 + N.of_nat (S k)) with ((i0 + 1) + N.of_nat k) by lia.
    apply IH; [|exact Hk]. cbn [List.length] in Hlen. lia.
Qed.

(* ---------------------------------------------------------------------------------------------- *)
(* domain bitmaps                                                                                   *)
(* ---------------------------------------------------------------------------------------------- *)

Lemma le32_nil o : le32 [] o = 0.
Proof. unfold le32. now rewrite !byte_at_nil. Qed.

Lemma le32_enc_bitmap : forall bm w, (forall x, In x bm -> x < 4294967296) ->
  le32 (enc_bitmap bm) (4 * w) = nth w bm 0.
Proof.
  induction bm as [|x bm IH]; intros w H.
  - cbn [enc_bitmap flat_map]. rewrite le32_nil. destruct w; reflexivity.
  - cbn [enc_bitmap flat_map]. fold (enc_bitmap bm). destruct w as [|w].
    + cbn [Nat.mul nth]. apply le32_bytes_le32. apply H. now left.
    + replace (4 * S w)%nat with (4 + 4 * w)%nat by lia.
      rewrite (le32_app2' (le32_bytes x) _ 4 _ eq_refl). cbn [nth]. apply IH. intros y Hy. apply H. now right.
Qed.

Lemma bit_test x k : (N.land (N.shiftr x k) 1 =? 1) = N.testbit x k.
Proof.
  change 1 with (N.ones 1) at 1. rewrite N.land_ones, N.shiftr_div_pow2. change (2 ^ 1) with 2.
  pose proof (N.testbit_spec' x k) as H. destruct (N.testbit x k); cbn [N.b2n] in H; rewrite <- H; reflexivity.
Qed.
