(* C02 — lemmas.  Part A: bytes, packing, encodings, LPM keys, ring slots, bitmaps.  The scan refinement is in
   C02_ProofsScan.v. *)
From Coq Require Import ZArith List NArith Bool String Lia ZifyBool ZifyN ZifyNat.
From Dae Require Import C01_Spec C01_Model C02_Spec C02_Model.
From Dae.gen Require Import C01_Consts C02_Consts.
Import ListNotations.
Open Scope N_scope.
Ltac Zify.zify_post_hook ::= Z.div_mod_to_equations.

(* ---------------------------------------------------------------------------------------------- *)
(* bytes                                                                                            *)
(* ---------------------------------------------------------------------------------------------- *)

Lemma le32_bytes_le32 x r : x < 4294967296 -> le32 (le32_bytes x ++ r) 0 = x.
Proof. intros H. unfold le32, byte_at, le32_bytes. cbn [nth app Nat.add]. lia. Qed.

Lemma le16_bytes_le16 x r : x < 65536 -> le16 (le16_bytes x ++ r) 0 = x.
Proof. intros H. unfold le16, byte_at, le16_bytes. cbn [nth app Nat.add]. lia. Qed.

Lemma be16_bytes_be16 x r : x < 65536 -> be16 (be16_bytes x ++ r) 0 = x.
Proof. intros H. unfold be16, byte_at, be16_bytes. cbn [nth app Nat.add]. lia. Qed.

Lemma byte_at_nil k : byte_at [] k = 0.
Proof. destruct k; reflexivity. Qed.

Lemma byte_at_app2 v l k : byte_at (v ++ l) (List.length v + k) = byte_at l k.
Proof. unfold byte_at. rewrite app_nth2 by lia. f_equal. lia. Qed.

Lemma byte_at_app1 v l k : (k < List.length v)%nat -> byte_at (v ++ l) k = byte_at v k.
Proof. intros H. unfold byte_at. now rewrite app_nth1. Qed.

Lemma le32_app2 v l o : le32 (v ++ l) (List.length v + o) = le32 l o.
Proof. unfold le32. rewrite <- !Nat.add_assoc, !byte_at_app2. reflexivity. Qed.

Lemma be_app l b : be (l ++ [b]) = be l * 256 + b.
Proof. unfold be. rewrite fold_left_app. reflexivity. Qed.

Lemma be_bytes_be : forall n a, a < 256 ^ N.of_nat n -> be (bytes_be n a) = a.
Proof.
  induction n as [|n IH]; intros a Ha.
  - cbn in *. lia.
  - cbn [bytes_be]. rewrite be_app, IH.
    + lia.
    + rewrite Nat2N.inj_succ, N.pow_succ_r' in Ha. apply N.div_lt_upper_bound; lia.
Qed.

Lemma length_bytes_be n a : List.length (bytes_be n a) = n.
Proof. revert a. induction n; intros; cbn [bytes_be]; [reflexivity|]. rewrite app_length, IHn. cbn. lia. Qed.

(* ---------------------------------------------------------------------------------------------- *)
(* the result word                                                                                  *)
(* ---------------------------------------------------------------------------------------------- *)

Lemma land_low_shiftl a b k : a < 2 ^ k -> N.land a (N.shiftl b k) = 0.
Proof.
  intros Ha. apply N.bits_inj_0. intros n. rewrite N.land_spec.
  destruct (N.ltb_spec n k) as [Hn|Hn].
  - rewrite N.shiftl_spec_low by exact Hn. apply andb_false_r.
  - destruct (N.eq_dec a 0) as [->|Hz]; [now rewrite N.bits_0|].
    rewrite N.bits_above_log2; [reflexivity|].
    apply N.lt_le_trans with k; [|exact Hn]. apply N.log2_lt_pow2; lia.
Qed.

Lemma lor_low_shiftl a b k : a < 2 ^ k -> N.lor a (N.shiftl b k) = a + b * 2 ^ k.
Proof.
  intros Ha. rewrite <- N.lxor_lor by (now apply land_low_shiftl).
  rewrite <- N.add_nocarry_lxor by (now apply land_low_shiftl).
  now rewrite N.shiftl_mul_pow2.
Qed.

Lemma pack_add o mark must : o < 256 -> mark < 4294967296 ->
  pack o mark must = o + mark * 256 + b2n must * 1099511627776.
Proof.
  intros Ho Hm. unfold pack.
  rewrite (lor_low_shiftl o mark 8) by (change (2 ^ 8) with 256; lia).
  rewrite (lor_low_shiftl _ (b2n must) 40).
  - reflexivity.
  - change (2 ^ 8) with 256. change (2 ^ 40) with 1099511627776. lia.
Qed.

Lemma decode_pack o mark must : o < 256 -> mark < 4294967296 ->
  decode_word (KWord (pack o mark must)) = Some (o, mark, must).
Proof.
  intros Ho Hm. unfold decode_word. rewrite pack_add by assumption.
  change 0xff with (N.ones 8). change 0xffffffff with (N.ones 32). change 1 with (N.ones 1) at 1.
  rewrite !N.land_ones, !N.shiftr_div_pow2.
  change (2 ^ 8) with 256. change (2 ^ 32) with 4294967296. change (2 ^ 40) with 1099511627776. change (2 ^ 1) with 2.
  assert (Hb : b2n must < 2) by (destruct must; cbn; lia).
  replace ((o + mark * 256 + b2n must * 1099511627776) mod 256) with o by lia.
  replace (((o + mark * 256 + b2n must * 1099511627776) / 256) mod 4294967296) with mark by lia.
  replace (((o + mark * 256 + b2n must * 1099511627776) / 1099511627776) mod 2) with (b2n must) by lia.
  destruct must; reflexivity.
Qed.
