(* C02 — lemmas. *)
From Coq Require Import ZArith List NArith Bool String Lia ZifyBool ZifyN ZifyNat.
From Dae Require Import C01_Spec C01_Model C02_Spec C02_Model.
From Dae.gen Require Import C01_Consts C02_Consts.
Import ListNotations.
Open Scope N_scope.
Ltac Zify.zify_post_hook ::= Z.div_mod_to_equations.

Lemma le32_bytes_le32 x r : x < 4294967296 -> le32 (le32_bytes x ++ r) 0 = x.
Proof. intros H. unfold le32, byte_at, le32_bytes. cbn [nth app Nat.add]. lia. Qed.
