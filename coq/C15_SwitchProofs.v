(* C15 — lemmas about run-time policy switches executed step by step (C15_Switch.v). *)
From Coq Require Import List ZArith Bool Arith Lia.
From Dae Require Import C15_Spec C15_Model C15_Proofs C15_Switch.
Import ListNotations.
Open Scope Z_scope.

(* ---------- a set under the random policy: no cached best, no measurements in the view ---------- *)
Lemma notify_random_best : forall c st t a d alive,
  a_policy a = SRandom -> a_best (fst (notify c st t a d alive)) = a_best a.
Proof.
  intros c st t a d alive Hp. unfold notify, snapshot_latency. rewrite Hp. cbn [lat_of is_min_policy andb negb].
  destruct alive; destruct (a_idx a d) as [i| |] eqn:Ei; cbn [fst snd andb]; try reflexivity.
  destruct (remove_at_proj a d i) as (_ & _ & H & _). exact H.
Qed.

Lemma view_notify_random_none : forall c st t d b v,
  (forall x m, In (x, m) v -> m = None) -> forall x m, In (x, m) (view_notify c SRandom st t d b v) -> m = None.
Proof.
  intros c st t d b v H x m. unfold view_notify. cbn [lat_of]. destruct b.
  - destruct (view_mem d v); [apply H|]. rewrite in_app_iff. intros [Hin|[He|[]]]; [eapply H; eauto|congruence].
  - rewrite in_view_remove. intros [Hin _]. eapply H; eauto.
Qed.

Lemma view_repolicy_random_none : forall c st t v x m, In (x, m) (view_repolicy c SRandom st t v) -> m = None.
Proof.
  intros c st t v x m. unfold view_repolicy. rewrite in_map_iff. intros [y [He _]]. cbn in He. congruence.
Qed.

Lemma notify_rand_inv : forall c st t a v d alive,
  a_policy a = SRandom -> rand_inv a v -> rand_inv (fst (notify c st t a d alive)) (view_notify c SRandom st t d alive v).
Proof.
  intros c st t a v d alive Hp [Hb Hv]. split.
  - rewrite notify_random_best; auto.
  - apply view_notify_random_none. exact Hv.
Qed.

Lemma fold_notify_rand : forall c st t flag ds a cb v,
  a_policy a = SRandom -> rand_inv a v ->
  rand_inv (fst (fold_notify c st t flag ds (a, cb))) (fold_left (fun v d => view_notify c SRandom st t d (flag d) v) ds v).
Proof.
  intros c st t flag ds. unfold fold_notify. induction ds as [|d ds IH]; intros a cb v Hp Hr; [exact Hr|].
  cbn [fold_left fst snd]. destruct (notify c st t a d (flag d)) as [a' cb'] eqn:En.
  assert (Ea' : a' = fst (notify c st t a d (flag d))) by (rewrite En; reflexivity).
  apply IH.
  - rewrite Ea'. destruct (notify_core c st t a d (flag d)) as (_ & _ & H). congruence.
  - rewrite Ea'. apply notify_rand_inv; auto.
Qed.

Lemma build_set_rand : forall c st t, rand_inv (fst (build_set c st SRandom t)) (view_build c SRandom st t).
Proof.
  intros c st t. unfold build_set, view_build.
  destruct (fold_notify c st t (fun _ => false) (seq 0 (c_n c)) (new_set SRandom, [])) as [a1 cb1] eqn:E1.
  assert (H0 : rand_inv (new_set SRandom) []) by (split; [reflexivity|intros x m []]).
  pose proof (fold_notify_rand c st t (fun _ => false) (seq 0 (c_n c)) (new_set SRandom) [] [] eq_refl H0) as H1.
  pose proof (fold_notify_ok c st t SRandom (fun _ => false) (seq 0 (c_n c)) (new_set SRandom) [] [] (new_set_ok SRandom) eq_refl
                (fun _ => new_set_min_inv (c_tol c) SRandom)) as (_ & H2 & _).
  rewrite E1 in H1, H2. cbn [fst] in H1, H2. rewrite fold_remove_nil in H1.
  apply fold_notify_rand; auto.
Qed.

(* ---------- one set executes SetSelectionPolicy ---------- *)
Definition set_facts (c : cfg) (a : aset) (v : view) (tp : spol) : Prop :=
  a_policy a = tp /\ set_ok a v /\
  (is_min_policy tp = true -> min_inv (c_tol c) a v) /\ (tp = SRandom -> rand_inv a v).

Lemma ssp_facts : forall c st t a v tp p,
  set_facts c a v tp ->
  set_facts c (set_selection_policy c st t a p)
            (if spol_eqb tp p then v else view_repolicy c p st t v) p.
Proof.
  intros c st t a v tp p (Hp & Hok & Hmi & Hr). unfold set_selection_policy. rewrite Hp.
  destruct (spol_eqb tp p) eqn:E.
  - apply spol_eqb_eq in E. subst p. unfold set_facts. auto.
  - destruct (recompute_ok c st t a v p Hok) as [Hok' Hp'].
    split; [exact Hp'|]. split; [exact Hok'|]. split.
    + intros Hm. apply recompute_min_inv; auto.
    + intros ->. split.
      * unfold recompute. cbn. reflexivity.
      * apply view_repolicy_random_none.
Qed.

Lemma notify_facts : forall c st t a v tp d b,
  set_facts c a v tp -> set_facts c (fst (notify c st t a d b)) (view_notify c tp st t d b v) tp.
Proof.
  intros c st t a v tp d b (Hp & Hok & Hmi & Hr). subst tp.
  destruct (notify_core c st t a d b) as (_ & _ & Hp').
  split; [exact Hp'|]. split; [apply notify_set_ok; exact Hok|]. split.
  - intros Hm. apply notify_min_inv; auto.
  - intros E. rewrite E. apply notify_rand_inv; auto.
Qed.

Lemma build_set_facts : forall c st p t, set_facts c (fst (build_set c st p t)) (view_build c p st t) p.
Proof.
  intros c st p t. destruct (build_set_ok c st p t) as (H1 & H2 & H3).
  split; [exact H2|]. split; [exact H1|]. split; [exact H3|]. intros ->. apply build_set_rand.
Qed.

(* ---------- the invariant over all micro histories ---------- *)
Lemma xgroup_ok_intro : forall c g x sets p,
  g_store g = x_store x -> g_policy g = x_pub x -> g_policy g = GSet p -> g_sets g = Some sets ->
  (forall t, set_facts c (sets t) (x_views x t) (x_tpol x t)) -> xgroup_ok c g x.
Proof.
  intros c g x sets p H1 H2 H3 H4 H5. unfold xgroup_ok. rewrite H3. split; [exact H1|]. split; [congruence|].
  exists sets. split; [exact H4|]. intros t. destruct (H5 t) as (A & B & C & D). auto.
Qed.

Lemma xgroup_ok_sets : forall c g x p,
  xgroup_ok c g x -> g_policy g = GSet p ->
  exists sets, g_sets g = Some sets /\ forall t, set_facts c (sets t) (x_views x t) (x_tpol x t).
Proof.
  intros c g x p (_ & _ & H) Hp. rewrite Hp in H. destruct H as (sets & Hs & Hall). exists sets. split; [exact Hs|].
  intros t. destruct (Hall t) as (A & B & C & D). unfold set_facts. auto.
Qed.

Lemma xstep_ok : forall c g x m, xgroup_ok c g x -> xgroup_ok c (fst (xstep c g m)) (xspec_step c x m).
Proof.
  intros c g x m Hok. pose proof Hok as (Hst & Hpol & Hsets).
  destruct m as [[d t l|d t b|d t b|np]|t p|p].
  - cbn. unfold xgroup_ok. cbn. rewrite Hst, <- Hpol. repeat split; auto; try (destruct (g_policy g); auto).
  - cbn. unfold xgroup_ok. cbn. rewrite Hst, <- Hpol. repeat split; auto; try (destruct (g_policy g); auto).
  - cbn [xstep xspec_step step]. rewrite <- Hpol. destruct (g_policy g) as [i|p] eqn:Ep.
    + rewrite Hsets. cbn [fst]. exact Hok.
    + destruct (xgroup_ok_sets c g x p Hok Ep) as (sets & Hs & Hall). rewrite Hs.
      destruct (notify c (g_store g) t (sets t) d b) as [a' cb] eqn:En. cbn [fst].
      eapply xgroup_ok_intro with (p := p); cbn [g_store g_policy g_sets x_store x_pub x_tpol x_views]; auto.
      intros t'. cbn beta. destruct (ntype_eqb t' t) eqn:Et; [|apply Hall].
      apply ntype_eqb_eq in Et. subst t'.
      replace a' with (fst (notify c (g_store g) t (sets t) d b)) by (rewrite En; reflexivity).
      rewrite <- Hst. apply notify_facts. apply Hall.
  - cbn [xstep xspec_step step]. rewrite <- Hpol. destruct (g_policy g) as [i|p] eqn:Ep.
    + rewrite Hsets. destruct np as [i'|p'].
      * cbn. unfold xgroup_ok. cbn. auto.
      * destruct (build_sets c (g_store g) p') as [sets cb] eqn:Eb. cbn [fst].
        eapply xgroup_ok_intro with (p := p'); cbn [g_store g_policy g_sets x_store x_pub x_tpol x_views]; auto.
        intros t. unfold build_sets in Eb. inversion Eb; subst sets. rewrite <- Hst. apply build_set_facts.
    + destruct (xgroup_ok_sets c g x p Hok Ep) as (sets & Hs & Hall). rewrite Hs. destruct np as [i'|p'].
      * cbn. unfold xgroup_ok. cbn. auto.
      * cbn [fst]. eapply xgroup_ok_intro with (p := p'); cbn [g_store g_policy g_sets x_store x_pub x_tpol x_views]; auto.
        intros t. cbn beta. rewrite <- Hst. apply ssp_facts. apply Hall.
  - cbn [xstep xspec_step]. rewrite <- Hpol. destruct (g_policy g) as [i|p0] eqn:Ep.
    + rewrite Hsets. cbn [fst]. exact Hok.
    + destruct (xgroup_ok_sets c g x p0 Hok Ep) as (sets & Hs & Hall). rewrite Hs. cbn [fst].
      eapply xgroup_ok_intro with (p := p0); cbn [g_store g_policy g_sets x_store x_pub x_tpol x_views]; auto.
      intros t'. cbn beta. destruct (ntype_eqb t' t) eqn:Et; [|apply Hall].
      apply ntype_eqb_eq in Et. subst t'. rewrite <- Hst. apply ssp_facts. apply Hall.
  - cbn [xstep xspec_step]. rewrite <- Hpol. destruct (g_policy g) as [i|p0] eqn:Ep.
    + rewrite Hsets. cbn [fst]. exact Hok.
    + destruct (xgroup_ok_sets c g x p0 Hok Ep) as (sets & Hs & Hall). rewrite Hs. cbn [fst].
      eapply xgroup_ok_intro with (p := p); cbn [g_store g_policy g_sets x_store x_pub x_tpol x_views]; auto.
Qed.

Lemma xinit_ok : forall c p0, xgroup_ok c (init_group c p0) (xspec_init c p0).
Proof.
  intros c [i|p].
  - unfold xgroup_ok, init_group, xspec_init. cbn. auto.
  - eapply xgroup_ok_intro with (p := p); cbn; auto. intros t. apply build_set_facts.
Qed.

Lemma xrun_ok : forall c p0 h, xgroup_ok c (xrun c p0 h) (xspec_run c p0 h).
Proof.
  intros c p0 h. unfold xrun, xspec_run.
  generalize (xinit_ok c p0). generalize (init_group c p0) (xspec_init c p0).
  induction h as [|m h IH]; intros g x H; cbn; auto. apply IH. apply xstep_ok. exact H.
Qed.

(* ---------- GetMinLatency without a cached best: the scan ---------- *)
Lemma get_min_nil_best_proof : forall a v excl,
  set_ok a v -> a_best a = None ->
  (fst (get_min a excl) = None <-> cands excl v = []) /\
  (forall d l, get_min a excl = (Some d, l) -> In d (cands excl v) /\ In (d, l) (a_entries a)).
Proof.
  intros a v excl [Hok (Hnd & Hmem & _)] Hb. unfold get_min. rewrite Hb.
  destruct (scan_min_spec excl (a_entries a) None hour) as (S1 & _ & S3).
  destruct (scan_min excl (a_entries a) (None, hour)) as [md ml]. cbn [fst snd] in *.
  assert (Hc : forall x, In x (cands excl v) <-> exists l, In (x, l) (a_entries a) /\ onat_eqb (Some x) excl = false).
  { intros x. rewrite in_cands. split.
    - intros [m [Hin Hx]]. assert (Hx' : In x (map fst (a_entries a))) by (apply Hmem; apply in_map_iff; exists (x, m); auto).
      apply in_map_iff in Hx'. destruct Hx' as [[x' l] [Hf Hl]]. cbn in Hf. subst x'. eauto.
    - intros [l [Hin Hx]]. assert (Hx' : In x (map fst v)) by (apply Hmem; apply in_map_iff; exists (x, l); auto).
      apply in_map_iff in Hx'. destruct Hx' as [[x' m] [Hf Hm]]. cbn in Hf. subst x'. eauto. }
  split.
  - split.
    + intros ->. apply nil_iff. intros x Hx. apply Hc in Hx. destruct Hx as [l [Hin Hx]].
      destruct (S1 x l Hin Hx) as [Hn _]. congruence.
    + intros Hnil. destruct md as [m|]; [|reflexivity]. exfalso.
      destruct S3 as [[Hx _]|(m' & Hm' & Hin & Hex)]; [discriminate|]. inversion Hm'; subst m'.
      assert (In m (cands excl v)) by (apply Hc; eauto). rewrite Hnil in H. destruct H.
  - intros d l He. inversion He; subst md ml.
    destruct S3 as [[Hx _]|(m' & Hm' & Hin & Hex)]; [discriminate|]. inversion Hm'; subst m'.
    split; [apply Hc; eauto|exact Hin].
Qed.

Lemma get_min_any : forall c a v tp excl,
  set_facts c a v tp ->
  (cands excl v = [] /\ fst (get_min a excl) = None) \/
  (cands excl v <> [] /\ exists d l, get_min a excl = (Some d, l) /\ min_result_ok (c_tol c) excl v d l).
Proof.
  intros c a v tp excl (Hp & Hok & Hmi & Hr). destruct tp as [|m].
  - destruct (Hr eq_refl) as [Hb Hv].
    destruct (get_min_nil_best_proof a v excl Hok Hb) as [H1 H2].
    destruct (get_min a excl) as [[d|] l] eqn:Eg.
    + right. destruct (H2 d l eq_refl) as [Hc _].
      split; [intros E; rewrite E in Hc; destruct Hc|]. exists d, l. split; [reflexivity|].
      split; [exact Hc|].
      apply in_cands in Hc. destruct Hc as [md [Hin Hx]].
      assert (md = None) by (eapply Hv; eauto). subst md.
      assert (Hg : view_get d (view_drop excl v) = Some None).
      { apply view_get_in; [apply view_drop_nodup; destruct Hok as [_ (H & _)]; exact H|]. apply in_view_drop. auto. }
      unfold within_tol. rewrite Hg. split; [reflexivity|exact I].
    + left. split; [apply H1; reflexivity|reflexivity].
  - apply get_min_spec; auto. rewrite Hp. reflexivity.
Qed.

Lemma select_min_spec_any : forall c st sets views tpol excl ts,
  (forall t, set_facts c (sets t) (views t) (tpol t)) ->
  match first_nonempty views excl ts with
  | Some t' => exists d l sel, select_min st sets excl ts = MOk [d] l sel /\ min_result_ok (c_tol c) excl (views t') d l
  | None => select_min st sets excl ts = MErr ENoAlive hour
  end.
Proof.
  intros c st sets views tpol excl ts Hall. unfold first_nonempty. induction ts as [|t ts IH]; cbn; auto.
  destruct (get_min_any c (sets t) (views t) (tpol t) excl (Hall t)) as [[Hc Hg]|[Hc (d & l & Hg & Hr)]].
  - rewrite Hc. destruct (get_min (sets t) excl) as [[x|] l]; [discriminate|]. exact IH.
  - destruct (cands excl (views t)) eqn:Ec; [congruence|]. rewrite Hg. eauto.
Qed.

(* ---------- selection in ANY state that satisfies the per-set facts, whatever the published policy ---------- *)
Lemma select_state_ok : forall c g s sets tpol p rq strict excl r,
  g_policy g = GSet p -> ss_policy s = GSet p -> g_sets g = Some sets ->
  (forall t, set_facts c (sets t) (ss_views s t) (tpol t)) ->
  In r (results_of (select c g rq strict excl)) ->
  select_ok c s (key_of rq) strict excl r = true.
Proof.
  intros c g s sets tpol p rq strict excl r Hp Hsp Hs Hall Hr.
  assert (Hok : forall t, set_ok (sets t) (ss_views s t)) by (intros t; apply (Hall t)).
  unfold select_ok. rewrite Hsp.
  unfold select, select1 in Hr. rewrite Hp, Hs in Hr.
  destruct (c_n c) as [|n] eqn:En.
  { destruct p as [|m]; cbn in Hr; destruct Hr as [<-|[]]; reflexivity. }
  rewrite !chain_selection_types in Hr.
  set (t := key_of rq) in *. unfold tried.
  destruct p as [|m].
  - (* published random *)
    pose proof (select_rand_spec (g_store g) sets (ss_views s) excl (chain t) Hok) as H1.
    destruct (first_nonempty (ss_views s) excl (chain t)) as [t1|] eqn:E1.
    + destruct H1 as (ds & sel & Hsel & Hds). rewrite Hsel in Hr. cbn [results_of] in Hr.
      apply in_map_iff in Hr. destruct Hr as [d [<- Hd]].
      assert (Hf : first_nonempty (ss_views s) excl (if strict then chain t else chain t ++ chain (flip_t t)) = Some t1).
      { destruct strict; auto. unfold first_nonempty in *. rewrite find_app', E1. reflexivity. }
      rewrite Hf. apply Hds in Hd. rewrite (view_mem_cands _ _ _ Hd). reflexivity.
    + rewrite H1 in Hr. destruct strict; cbn [negb] in Hr.
      * rewrite E1. destruct (Nat.eqb (S n) 1) eqn:E1n; cbn in Hr; destruct Hr as [<-|[]]; cbn; reflexivity.
      * pose proof (select_rand_spec (g_store g) sets (ss_views s) excl (chain (flip_t t)) Hok) as H2.
        assert (Hf : first_nonempty (ss_views s) excl (chain t ++ chain (flip_t t)) = first_nonempty (ss_views s) excl (chain (flip_t t))).
        { unfold first_nonempty in *. rewrite find_app', E1. reflexivity. }
        rewrite Hf. rewrite Bool.andb_false_r. rewrite chain_selection_types in Hr.
        destruct (first_nonempty (ss_views s) excl (chain (flip_t t))) as [t2|] eqn:E2.
        { destruct H2 as (ds & sel & Hsel & Hds). rewrite Hsel in Hr. cbn [results_of] in Hr.
          apply in_map_iff in Hr. destruct Hr as [d [<- Hd]].
          apply Hds in Hd. rewrite (view_mem_cands _ _ _ Hd). reflexivity. }
        { rewrite H2 in Hr. cbn in Hr. destruct Hr as [<-|[]]. reflexivity. }
  - (* published min *)
    pose proof (select_min_spec_any c (g_store g) sets (ss_views s) tpol excl (chain t) Hall) as H1.
    destruct (first_nonempty (ss_views s) excl (chain t)) as [t1|] eqn:E1.
    + destruct H1 as (d & l & sel & Hsel & Hres). rewrite Hsel in Hr. cbn in Hr. destruct Hr as [<-|[]].
      assert (Hf : first_nonempty (ss_views s) excl (if strict then chain t else chain t ++ chain (flip_t t)) = Some t1).
      { destruct strict; auto. unfold first_nonempty in *. rewrite find_app', E1. reflexivity. }
      rewrite Hf. apply min_result_select_ok. exact Hres.
    + rewrite H1 in Hr. destruct strict; cbn [negb] in Hr.
      * rewrite E1. destruct (Nat.eqb (S n) 1) eqn:E1n; cbn in Hr; destruct Hr as [<-|[]]; cbn; reflexivity.
      * pose proof (select_min_spec_any c (g_store g) sets (ss_views s) tpol excl (chain (flip_t t)) Hall) as H2.
        assert (Hf : first_nonempty (ss_views s) excl (chain t ++ chain (flip_t t)) = first_nonempty (ss_views s) excl (chain (flip_t t))).
        { unfold first_nonempty in *. rewrite find_app', E1. reflexivity. }
        rewrite Hf. rewrite Bool.andb_false_r. rewrite chain_selection_types in Hr.
        destruct (first_nonempty (ss_views s) excl (chain (flip_t t))) as [t2|] eqn:E2.
        { destruct H2 as (d & l & sel & Hsel & Hres). rewrite Hsel in Hr. cbn in Hr. destruct Hr as [<-|[]].
          apply min_result_select_ok. exact Hres. }
        { rewrite H2 in Hr. cbn in Hr. destruct Hr as [<-|[]]. reflexivity. }
Qed.

Lemma C15_select_interleaved_proof :
  forall (c : cfg) (p0 : gpol) (h : list mop) (rq : reqtype) (strict : bool) (excl : option nat) (p : spol) (r : sel_res),
    g_policy (xrun c p0 h) = GSet p ->
    In r (results_of (select c (xrun c p0 h) rq strict excl)) ->
    select_ok c (sstate_of (xspec_run c p0 h)) (key_of rq) strict excl r = true.
Proof.
  intros c p0 h rq strict excl p r Hp Hr.
  pose proof (xrun_ok c p0 h) as Hok. pose proof Hok as (_ & Hpol & _).
  destruct (xgroup_ok_sets c _ _ p Hok Hp) as (sets & Hs & Hall).
  eapply select_state_ok with (tpol := x_tpol (xspec_run c p0 h)); eauto.
  cbn. congruence.
Qed.

Lemma C15_select_interleaved_complete_proof :
  forall (c : cfg) (p0 : gpol) (h : list mop) (rq : reqtype) (strict : bool) (excl : option nat) (p : spol),
    c_n c <> O -> g_policy (xrun c p0 h) = GSet p ->
    ((exists l, In (RErr ENoAlive l) (results_of (select c (xrun c p0 h) rq strict excl))) <->
     ((forall t', In t' (tried (key_of rq) strict) -> cands excl (x_views (xspec_run c p0 h) t') = []) /\
      Nat.eqb (c_n c) 1 && strict = false)).
Proof.
  intros c p0 h rq strict excl p Hn Hp.
  pose proof (xrun_ok c p0 h) as (_ & Hpol & _).
  assert (Hok : forall r, In r (results_of (select c (xrun c p0 h) rq strict excl)) ->
                          select_ok c (sstate_of (xspec_run c p0 h)) (key_of rq) strict excl r = true)
    by (intros r; apply (C15_select_interleaved_proof c p0 h rq strict excl p r Hp)).
  change (x_views (xspec_run c p0 h)) with (ss_views (sstate_of (xspec_run c p0 h))).
  rewrite <- first_nonempty_none.
  assert (Hsp : ss_policy (sstate_of (xspec_run c p0 h)) = GSet p) by (cbn; congruence).
  split.
  - intros [l Hin]. apply Hok in Hin. unfold select_ok in Hin. rewrite Hsp in Hin.
    destruct (c_n c) as [|n]; [congruence|].
    destruct (first_nonempty _ _ _); [discriminate|]. split; [reflexivity|].
    destruct (Nat.eqb (S n) 1 && strict); [discriminate|reflexivity].
  - intros [Hf Hl].
    destruct (results_of (select c (xrun c p0 h) rq strict excl)) as [|r rs] eqn:Er;
      [exfalso; eapply select_nonempty; eauto|].
    specialize (Hok r (or_introl eq_refl)). unfold select_ok in Hok. rewrite Hsp in Hok.
    destruct (c_n c) as [|n]; [congruence|]. rewrite Hf, Hl in Hok.
    destruct r as [d l|[] l]; try discriminate. exists l. left. reflexivity.
Qed.

(* the set-level statement for every reachable set state of every interleaving *)
Lemma C15_get_min_nil_best_proof : forall c p0 h sets t excl,
  g_sets (xrun c p0 h) = Some sets -> a_best (sets t) = None ->
  (fst (get_min (sets t) excl) = None <-> cands excl (x_views (xspec_run c p0 h) t) = []) /\
  (forall d l, get_min (sets t) excl = (Some d, l) -> In d (cands excl (x_views (xspec_run c p0 h) t))).
Proof.
  intros c p0 h sets t excl Hs Hb.
  pose proof (xrun_ok c p0 h) as Hok. pose proof Hok as (_ & _ & H).
  destruct (g_policy (xrun c p0 h)) as [i|p] eqn:Ep; [congruence|].
  destruct (xgroup_ok_sets c _ _ p Hok Ep) as (sets' & Hs' & Hall). rewrite Hs in Hs'. inversion Hs'; subst sets'.
  destruct (Hall t) as (_ & Hset & _).
  destruct (get_min_nil_best_proof (sets t) _ excl Hset Hb) as [H1 H2]. split; [exact H1|].
  intros d l He. apply (H2 d l He).
Qed.

(* ---------- the early-return variant is wrong ---------- *)
Definition w4_cfg : cfg := {| c_n := 2; c_off := fun _ => 0; c_tol := 0 |}.
Definition w4_hist : list mop := map (fun t => MSwitchSet t SRandom) switch_order.
Definition w4_rq : reqtype := {| rq_l4 := TCP; rq_ipv := V4; rq_isdns := false; rq_udpdom := UUnset |}.
Lemma C15_get_min_early_refuted_proof :
  let g := xrun w4_cfg (GSet (SMin MLast)) w4_hist in
  let a := match g_sets g with Some s => s (DTcp, V4) | None => new_set SRandom end in
  g_policy g = GSet (SMin MLast) /\ a_policy a = SRandom /\ a_best a = None /\
  cands None (x_views (xspec_run w4_cfg (GSet (SMin MLast)) w4_hist) (DTcp, V4)) = [0%nat; 1%nat] /\
  fst (get_min a None) = Some 0%nat /\ fst (get_min_early a None) = None /\
  results_of (select w4_cfg g w4_rq false None) = [ROk 0 0].
Proof. vm_compute. repeat split; reflexivity. Qed.

(* ---------- sequential histories are micro histories ---------- *)
Lemma xrun_seq : forall c p0 h, xrun c p0 (map MOp h) = run c p0 h.
Proof.
  intros c p0 h. unfold xrun, run. generalize (init_group c p0).
  induction h as [|o h IH]; intros g; cbn; auto.
Qed.

Lemma xspec_seq : forall c p0 h,
  x_store (xspec_run c p0 (map MOp h)) = ss_store (spec_run c p0 h) /\
  x_pub (xspec_run c p0 (map MOp h)) = ss_policy (spec_run c p0 h) /\
  (forall t, x_views (xspec_run c p0 (map MOp h)) t = ss_views (spec_run c p0 h) t) /\
  (forall p, x_pub (xspec_run c p0 (map MOp h)) = GSet p -> forall t, x_tpol (xspec_run c p0 (map MOp h)) t = p).
Proof.
  intros c p0 h. unfold xspec_run, spec_run.
  assert (H0 : x_store (xspec_init c p0) = ss_store (spec_init c p0) /\
               x_pub (xspec_init c p0) = ss_policy (spec_init c p0) /\
               (forall t, x_views (xspec_init c p0) t = ss_views (spec_init c p0) t) /\
               (forall p, x_pub (xspec_init c p0) = GSet p -> forall t, x_tpol (xspec_init c p0) t = p)).
  { destruct p0; cbn; repeat split; auto; try congruence; try (intros p H; inversion H; auto). }
  revert H0. generalize (xspec_init c p0) (spec_init c p0).
  induction h as [|o h IH]; intros x s H; [exact H|]. cbn [map fold_left]. apply IH.
  destruct H as (H1 & H2 & H3 & H4).
  destruct o as [d t l|d t b|d t b|np]; cbn [xspec_step spec_step].
  - cbn. rewrite H1. repeat split; auto.
  - cbn. rewrite H1. repeat split; auto.
  - rewrite <- H2. destruct (x_pub x) as [i|p] eqn:Ep; [repeat split; auto; congruence|].
    cbn. split; [auto|]. split; [auto|]. split.
    + intros t'. destruct (ntype_eqb t' t); auto. rewrite (H4 p eq_refl t), H1, H3. reflexivity.
    + intros q Hq t'. apply H4. exact Hq.
  - rewrite <- H2. destruct (x_pub x) as [i|p] eqn:Ep; destruct np as [i'|p']; cbn;
      (split; [auto|]); (split; [auto|]); split;
      try (intros t; rewrite ?(H4 p eq_refl t), ?H1; try destruct (spol_eqb p p'); rewrite ?H3; reflexivity);
      try (intros q Hq t; inversion Hq; subst; auto; congruence).
Qed.

(* ---------- the atomic policy switch of the sequential model is its step-by-step execution ---------- *)
Lemma expand_policy_refines : forall c g p p' sets,
  g_policy g = GSet p -> g_sets g = Some sets -> (forall t, a_policy (sets t) = p) ->
  let g1 := fst (step c g (OPolicy (GSet p'))) in
  let g2 := fold_left (fun g m => fst (xstep c g m)) (expand_policy (GSet p) (GSet p')) g in
  g_store g2 = g_store g1 /\ g_policy g2 = g_policy g1 /\
  exists s1 s2, g_sets g1 = Some s1 /\ g_sets g2 = Some s2 /\ forall t, s2 t = s1 t.
Proof.
  intros c g p p' sets Hp Hs Hall. cbn zeta. unfold expand_policy.
  cbn [step]. rewrite Hs. cbn [fst g_store g_policy g_sets].
  destruct (spol_eqb p p') eqn:E.
  - cbn. rewrite Hs. cbn. repeat split; auto. eexists _, _. split; [reflexivity|]. split; [reflexivity|].
    intros t. unfold set_selection_policy. rewrite Hall, E. reflexivity.
  - cbn. rewrite Hs. cbn. repeat split; auto. eexists _, _. split; [reflexivity|]. split; [reflexivity|].
    intros [[| |] [|]]; reflexivity.
Qed.

(* ---------- random: every alive candidate of the serving type can come out, and nothing else ---------- *)
Lemma select_rand_reach_state : forall c g s sets rq strict excl t',
  c_n c <> O -> g_policy g = GSet SRandom -> g_sets g = Some sets ->
  (forall t, set_ok (sets t) (ss_views s t)) ->
  first_nonempty (ss_views s) excl (tried (key_of rq) strict) = Some t' ->
  forall d, In d (cands excl (ss_views s t')) <-> In (ROk d 0) (results_of (select c g rq strict excl)).
Proof.
  intros c g s sets rq strict excl t' Hn Hp Hs Hok Hf d.
  unfold select, select1. rewrite Hp, Hs.
  destruct (c_n c) as [|n] eqn:En; [congruence|].
  rewrite !chain_selection_types. set (t := key_of rq) in *. unfold tried in Hf.
  pose proof (select_rand_spec (g_store g) sets (ss_views s) excl (chain t) Hok) as H1.
  destruct (first_nonempty (ss_views s) excl (chain t)) as [t1|] eqn:E1.
  - assert (t1 = t').
    { destruct strict; [congruence|]. unfold first_nonempty in *. rewrite find_app', E1 in Hf. congruence. }
    subst t1. destruct H1 as (ds & sel & Hsel & Hds). rewrite Hsel. cbn [results_of].
    rewrite <- Hds, in_map_iff. split; [intros H; exists d; auto|intros [y [He Hy]]; inversion He; subst; auto].
  - destruct strict; [congruence|]. cbn [negb]. rewrite H1.
    pose proof (select_rand_spec (g_store g) sets (ss_views s) excl (chain (flip_t t)) Hok) as H2.
    assert (Hf' : first_nonempty (ss_views s) excl (chain (flip_t t)) = Some t')
      by (unfold first_nonempty in *; rewrite find_app', E1 in Hf; exact Hf).
    rewrite chain_selection_types. rewrite Hf' in H2.
    destruct H2 as (ds & sel & Hsel & Hds). rewrite Hsel. cbn [results_of].
    rewrite <- Hds, in_map_iff. split; [intros H; exists d; auto|intros [y [He Hy]]; inversion He; subst; auto].
Qed.

Lemma C15_select_random_complete_proof : forall c p0 h rq strict excl t',
  c_n c <> O -> g_policy (run c p0 h) = GSet SRandom ->
  first_nonempty (ss_views (spec_run c p0 h)) excl (tried (key_of rq) strict) = Some t' ->
  forall d, In d (cands excl (ss_views (spec_run c p0 h) t')) <-> In (ROk d 0) (results_of (select c (run c p0 h) rq strict excl)).
Proof.
  intros c p0 h rq strict excl t' Hn Hp Hf.
  destruct (run_ok c p0 h) as (_ & _ & Hsets). rewrite Hp in Hsets. destruct Hsets as (sets & Hs & Hall).
  eapply select_rand_reach_state; eauto. intros t. apply (Hall t).
Qed.

(* ---------- the premise c_n <> 0 of the selection theorems is not needed ---------- *)
Lemma select_ok_empty_group : forall c g s rq strict excl r,
  c_n c = O -> In r (results_of (select c g rq strict excl)) -> select_ok c s (key_of rq) strict excl r = true.
Proof.
  intros c g s rq strict excl r Hn Hr. unfold select_ok. unfold select, select1 in Hr. rewrite Hn in *.
  cbn in Hr. destruct Hr as [<-|[]]. reflexivity.
Qed.

Lemma C15_select_set_ok_all_proof :
  forall (c : cfg) (p0 : gpol) (h : list op) (rq : reqtype) (strict : bool) (excl : option nat) (p : spol) (r : sel_res),
    g_policy (run c p0 h) = GSet p ->
    In r (results_of (select c (run c p0 h) rq strict excl)) ->
    select_ok c (spec_run c p0 h) (key_of rq) strict excl r = true.
Proof.
  intros c p0 h rq strict excl p r Hp Hr. destruct (Nat.eq_dec (c_n c) 0) as [Hn|Hn].
  - eapply select_ok_empty_group; eauto.
  - eapply C15_select_set_ok_proof; eauto.
Qed.

(* ---------- raw notifications: members behave as in the model; a non-member aliases index 0 ---------- *)
Lemma xstep_raw_member : forall c g m, member_mop (c_n c) m = true -> xstep_raw c g m = xstep c g m.
Proof.
  intros c g [[d t l|d t b|d t b|np]|t p|p] H; try reflexivity.
  cbn [member_mop] in H. cbn [xstep_raw xstep step]. unfold notify_raw, touch. rewrite H. reflexivity.
Qed.

Lemma C15_members_only_raw_proof : forall c p0 h,
  forallb (member_mop (c_n c)) h = true -> xrun_raw c p0 h = xrun c p0 h.
Proof.
  intros c p0 h. unfold xrun_raw, xrun. generalize (init_group c p0).
  induction h as [|m h IH]; intros g H; [reflexivity|].
  cbn in H. apply Bool.andb_true_iff in H. destruct H as [Hm Hh].
  cbn [fold_left]. rewrite xstep_raw_member by exact Hm. apply IH. exact Hh.
Qed.

Lemma xstep_raw_member_no_panic : forall c p0 h m,
  member_mop (c_n c) m = true -> xstep_raw_panics c (xrun c p0 h) m = false.
Proof.
  intros c p0 h [[d t l|d t b|d t b|np]|t p|p] H; try reflexivity; try (cbn; destruct (g_sets _); reflexivity).
  cbn [member_mop] in H. unfold xstep_raw_panics. destruct (g_sets (xrun c p0 h)) as [sets|] eqn:Es; [|reflexivity].
  unfold notify_raw_panics, touch. rewrite H.
  destruct (a_idx (sets t) d) as [i| |] eqn:Ei; try reflexivity.
  pose proof (xrun_ok c p0 h) as Hok.
  destruct (g_policy (xrun c p0 h)) as [j|p] eqn:Ep; [destruct Hok as (_ & _ & Hn); rewrite Ep in Hn; congruence|].
  destruct (xgroup_ok_sets c _ _ p Hok Ep) as (sets' & Hs' & Hall). rewrite Es in Hs'. inversion Hs'; subst sets'.
  destruct (Hall t) as (_ & [Hidx _] & _).
  assert ((i < length (a_entries (sets t)))%nat) by (eapply idx_ok_lt; eauto).
  assert (Nat.leb (length (a_entries (sets t))) i = false) by (apply Nat.leb_gt; lia). rewrite H1. reflexivity.
Qed.

(* what the code does with a stranger: 2 members, both alive; a dialer that is not a member is reported NOT alive:
   member 0 (index 0) is evicted from aliveEntries although nothing was said about it, and its index entry still
   says "alive at 0", where member 1 now sits *)
Definition w5_cfg : cfg := {| c_n := 2; c_off := fun _ => 0; c_tol := 0 |}.
Lemma C15_foreign_notification_witness_proof :
  let g := xrun_raw w5_cfg (GSet SRandom) [MOp (ONotify 2 (DTcp, V4) false)] in
  let a := match g_sets g with Some s => s (DTcp, V4) | None => new_set SRandom end in
  map fst (a_entries a) = [1%nat] /\ a_idx a 0%nat = SAt 0 /\ a_idx a 1%nat = SAt 0 /\ a_idx a 2%nat = SNotAlive.
Proof. vm_compute. repeat split; reflexivity. Qed.
