(* C16 — the node-health part of the code-shaped model refines the spec replay (every event but a reload). *)
From Coq Require Import List NArith ZArith Bool Lia.
From Dae Require Import C16_Spec C16_Model C16_Proofs.
From Dae.gen Require Import C16_Consts.
Import ListNotations.  Open Scope N_scope.

(* ---------- R only reads the health fields ---------- *)
Lemma R_health : forall m m' s, health_eq m m' -> R m s -> R m' s.
Proof.
  intros m m' s (A & B & C & D & _) (R1 & R2 & R3 & R4 & R5).
  unfold R. rewrite A, B, C, D. exact (conj R1 (conj R2 (conj R3 (conj R4 R5)))).
Qed.

Lemma health_refl : forall m, health_eq m m.
Proof. intros; repeat split. Qed.
Lemma health_trans : forall a b c, health_eq a b -> health_eq b c -> health_eq a c.
Proof. intros a b c (A & B & C & D & E) (A' & B' & C' & D' & E'). repeat split; congruence. Qed.

Lemma fold_health : forall B (F : mstate -> B -> mstate), (forall m b, health_eq m (F m b)) ->
  forall l m, health_eq m (fold_left F l m).
Proof.
  intros B F HF. induction l as [|b r IH]; intros m; cbn [fold_left]; [apply health_refl|].
  eapply health_trans; [apply HF | apply IH].
Qed.

Lemma fold_tracker : forall B (F : mstate -> B -> mstate), (forall m b, m_tracker (F m b) = m_tracker m) ->
  forall l m, m_tracker (fold_left F l m) = m_tracker m.
Proof.
  intros B F HF. induction l as [|b r IH]; intros m; cbn [fold_left]; [reflexivity|].
  rewrite IH. apply HF.
Qed.

Lemma R_log : forall m s n d b, R m s -> R (log_transition m n d b) s.
Proof. intros m s n d b H. exact H. Qed.

Lemma R_tracker : forall m s a c, R m s -> R (set_tracker m a c) (s_set_deaths s a c).
Proof.
  intros m s a c (R1 & R2 & R3 & R4 & R5).
  unfold R, set_tracker, s_set_deaths; cbn [m_d m_tracker m_supp m_window s_dom s_deaths s_supp s_window].
  split; [exact R1|split; [exact R2|split; [|split; assumption]]].
  intros a'. unfold upd. destruct (a' =? a); [reflexivity|apply R3].
Qed.

Lemma R_tracker0 : forall m s, R m s -> m_tracker m 0 = 0 -> R m (s_set_deaths s 0 0).
Proof.
  intros m s (R1 & R2 & R3 & R4 & R5) H0.
  unfold R, s_set_deaths; cbn [s_dom s_deaths s_supp s_window].
  split; [exact R1|split; [exact R2|split; [|split; assumption]]].
  intros a'. destruct (a' =? 0) eqn:E; [apply N.eqb_eq in E; now subst|apply R3].
Qed.

(* replacing the state of (n, d) on both sides; pointwise on the alive flags *)
Lemma R_point2 : forall m s n d v x' sx,
  R m s ->
  (forall d', d_alive x' d' = if dom_eqb d' d then v else d_alive (m_d m n) d') ->
  (forall d', dom_eqb d' d = false -> md_fail x' (index_of d') = md_fail (m_d m n) (index_of d')
                                    /\ md_traffic x' (index_of d') = md_traffic (m_d m n) (index_of d')) ->
  sa sx = v -> (v = true -> md_fail x' (index_of d) = sp sx /\ md_traffic x' (index_of d) = st sx) ->
  R (set_dialer m n x') (s_set s n d sx).
Proof.
  intros m s n d v x' sx (A & B & C & D & E) Hal Hoth Hv Hc.
  unfold R, set_dialer, s_set; cbn [m_d m_tracker m_supp m_window s_dom s_deaths s_supp s_window].
  split; [|split; [|split; [|split]]]; try assumption.
  - intros n' d'. unfold upd at 1. destruct (n' =? n) eqn:En; cbn [andb].
    + apply N.eqb_eq in En; subst n'. rewrite Hal.
      destruct (dom_eqb d' d); [now symmetry|]. apply A.
    + apply A.
  - intros n' d' Hs. unfold upd at 1 2. destruct (n' =? n) eqn:En; cbn [andb] in *.
    + apply N.eqb_eq in En; subst n'. destruct (dom_eqb d' d) eqn:Ed.
      * apply dom_eqb_eq in Ed; subst d'. apply Hc. congruence.
      * destruct (Hoth d' Ed) as (-> & ->). now apply B.
    + now apply B.
Qed.

Lemma idx_other : forall A (f : N -> A) d d' v, dom_eqb d' d = false -> upd f (index_of d) v (index_of d') = f (index_of d').
Proof. intros. apply upd_other. now rewrite index_eqb. Qed.

Lemma alive_read : forall m s n d, R m s -> md_alive (m_d m n) (canon (index_of d)) = sa (s_dom s n d).
Proof. intros m s n d (A & _). apply A. Qed.

(* ---------- primitives ---------- *)
Lemma mark_forced_ref : forall cfg m s n d l, R m s ->
  R (mark_forced cfg m n d l) (fst (s_kill s n d))
  /\ m_tlog (mark_forced cfg m n d l) = m_tlog m ++ snd (s_kill s n d).
Proof.
  intros cfg m s n d l HR. unfold mark_forced; cbv zeta.
  match goal with |- context [inform cfg ?M n d false l] =>
    set (M0 := M); pose proof (inform_health cfg M0 n d false l) as HH end.
  assert (HM : R M0 (fst (s_kill s n d)) /\ m_tlog M0 = m_tlog m ++ snd (s_kill s n d)).
  { subst M0. unfold s_kill; cbn [fst snd]. rewrite (alive_read m s n d HR).
    assert (HP : R (set_dialer m n
                 {| md_alive := upd (md_alive (m_d m n)) (canon (index_of d)) false;
                    md_fail := upd (md_fail (m_d m n)) (index_of d) (threshold d true);
                    md_traffic := upd (md_traffic (m_d m n)) (index_of d) (threshold d true) |})
               (s_set s n d {| sa := false; sp := sp (s_dom s n d); st := st (s_dom s n d) |})).
    { apply R_point2 with (v := false); auto.
      - intros d'. apply point_alive.
      - intros d' Hd; cbn [md_fail md_traffic]. now rewrite !idx_other.
      - discriminate. }
    destruct (sa (s_dom s n d)).
    - split; [apply R_log, HP|reflexivity].
    - split; [exact HP|cbn [set_dialer m_tlog]; now rewrite app_nil_r]. }
  destruct HM as (HM1 & HM2). split; [eapply R_health; eauto|].
  destruct HH as (_ & _ & _ & _ & E). now rewrite E.
Qed.

Lemma esc_gen : forall cfg n l ds m acc pre, R m (fst acc) -> m_tlog m = pre ++ snd acc ->
  R (fold_left (fun m d => mark_forced cfg m n d l) ds m)
    (fst (fold_left (fun acc d => let '(s', l') := s_kill (fst acc) n d in (s', snd acc ++ l')) ds acc))
  /\ m_tlog (fold_left (fun m d => mark_forced cfg m n d l) ds m)
     = pre ++ snd (fold_left (fun acc d => let '(s', l') := s_kill (fst acc) n d in (s', snd acc ++ l')) ds acc).
Proof.
  intros cfg n l. induction ds as [|d r IH]; intros m acc pre HR HL; cbn [fold_left]; [now split|].
  destruct (mark_forced_ref cfg m (fst acc) n d l HR) as (A & B).
  destruct (s_kill (fst acc) n d) as [s' l'] eqn:E. cbn [fst snd] in A, B.
  apply IH; cbn [fst snd]; [exact A|]. rewrite B, HL. now rewrite app_assoc.
Qed.

Lemma escalate_ref : forall cfg m s n l, R m s ->
  R (escalate cfg m n l) (fst (s_escalate s n)) /\ m_tlog (escalate cfg m n l) = m_tlog m ++ snd (s_escalate s n).
Proof.
  intros cfg m s n l HR. unfold escalate, s_escalate. change escalation_order with all_doms.
  apply esc_gen; cbn [fst snd]; [exact HR|now rewrite app_nil_r].
Qed.

Lemma notify_failure_ref : forall cfg m s n l, R m s -> m_suppressed m = false ->
  R (notify_failure cfg m n l) (fst (s_death_transition cfg s n))
  /\ m_tlog (notify_failure cfg m n l) = m_tlog m ++ snd (s_death_transition cfg s n).
Proof.
  intros cfg m s n l HR Hs. unfold notify_failure, s_death_transition; cbv zeta.
  destruct (c_addr cfg n =? 0); [split; [exact HR|now rewrite app_nil_r]|].
  rewrite Hs. change max_consecutive_failures with k_deaths.
  assert (E : m_tracker m (c_addr cfg n) = s_deaths s (c_addr cfg n)) by (destruct HR as (_ & _ & T & _); apply T).
  rewrite E. destruct (k_deaths <=? s_deaths s (c_addr cfg n) + 1).
  - apply (escalate_ref cfg (set_tracker m (c_addr cfg n) 0) (s_set_deaths s (c_addr cfg n) 0) n l).
    now apply R_tracker.
  - split; [now apply R_tracker|cbn [fst snd set_tracker m_tlog]; now rewrite app_nil_r].
Qed.
