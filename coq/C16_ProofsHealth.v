(* C16 — the node-health part of the code-shaped model refines the spec replay (every event but a reload). *)
From Coq Require Import List NArith ZArith Bool Lia.
From Dae Require Import C16_Spec C16_Model C16_Proofs.
From Dae.gen Require Import C16_Consts.
Import ListNotations.  Open Scope N_scope.

(* ---------- R only reads the health fields ---------- *)
Lemma R_health : forall m m' s, health_eq m m' -> R m s -> R m' s.
Proof.
  intros m m' s (A & B & C & D & _) (R1 & R2 & R3 & R4 & R5).
  unfold R. rewrite A, B, C, D. exact (conj R1 (conj R2 (conj R3 (conj R4 R5)))).
Qed.

Lemma health_refl : forall m, health_eq m m.
Proof. intros; repeat split. Qed.
Lemma health_trans : forall a b c, health_eq a b -> health_eq b c -> health_eq a c.
Proof. intros a b c (A & B & C & D & E) (A' & B' & C' & D' & E'). repeat split; congruence. Qed.

Lemma fold_health : forall B (F : mstate -> B -> mstate), (forall m b, health_eq m (F m b)) ->
  forall l m, health_eq m (fold_left F l m).
Proof.
  intros B F HF. induction l as [|b r IH]; intros m; cbn [fold_left]; [apply health_refl|].
  eapply health_trans; [apply HF | apply IH].
Qed.

Lemma fold_tracker : forall B (F : mstate -> B -> mstate), (forall m b, m_tracker (F m b) = m_tracker m) ->
  forall l m, m_tracker (fold_left F l m) = m_tracker m.
Proof.
  intros B F HF. induction l as [|b r IH]; intros m; cbn [fold_left]; [reflexivity|].
  rewrite IH. apply HF.
Qed.

Lemma R_log : forall m s n d b, R m s -> R (log_transition m n d b) s.
Proof. intros m s n d b H. exact H. Qed.

Lemma R_tracker : forall m s a c, R m s -> R (set_tracker m a c) (s_set_deaths s a c).
Proof.
  intros m s a c (R1 & R2 & R3 & R4 & R5).
  unfold R, set_tracker, s_set_deaths; cbn [m_d m_tracker m_supp m_window s_dom s_deaths s_supp s_window].
  split; [exact R1|split; [exact R2|split; [|split; assumption]]].
  intros a'. unfold upd. destruct (a' =? a); [reflexivity|apply R3].
Qed.

Lemma R_tracker0 : forall m s, R m s -> m_tracker m 0 = 0 -> R m (s_set_deaths s 0 0).
Proof.
  intros m s (R1 & R2 & R3 & R4 & R5) H0.
  unfold R, s_set_deaths; cbn [s_dom s_deaths s_supp s_window].
  split; [exact R1|split; [exact R2|split; [|split; assumption]]].
  intros a'. destruct (a' =? 0) eqn:E; [apply N.eqb_eq in E; now subst|apply R3].
Qed.

(* replacing the state of (n, d) on both sides; pointwise on the alive flags *)
Lemma R_point2 : forall m s n d v x' sx,
  R m s ->
  (forall d', d_alive x' d' = if dom_eqb d' d then v else d_alive (m_d m n) d') ->
  (forall d', dom_eqb d' d = false -> md_fail x' (index_of d') = md_fail (m_d m n) (index_of d')
                                    /\ md_traffic x' (index_of d') = md_traffic (m_d m n) (index_of d')) ->
  sa sx = v -> (v = true -> md_fail x' (index_of d) = sp sx /\ md_traffic x' (index_of d) = st sx) ->
  R (set_dialer m n x') (s_set s n d sx).
Proof.
  intros m s n d v x' sx (A & B & C & D & E) Hal Hoth Hv Hc.
  unfold R, set_dialer, s_set; cbn [m_d m_tracker m_supp m_window s_dom s_deaths s_supp s_window].
  split; [|split; [|split; [|split]]]; try assumption.
  - intros n' d'. unfold upd at 1. destruct (n' =? n) eqn:En; cbn [andb].
    + apply N.eqb_eq in En; subst n'. rewrite Hal.
      destruct (dom_eqb d' d); [now symmetry|]. apply A.
    + apply A.
  - intros n' d' Hs. unfold upd at 1 2. destruct (n' =? n) eqn:En; cbn [andb] in *.
    + apply N.eqb_eq in En; subst n'. destruct (dom_eqb d' d) eqn:Ed.
      * apply dom_eqb_eq in Ed; subst d'. apply Hc. congruence.
      * destruct (Hoth d' Ed) as (-> & ->). now apply B.
    + now apply B.
Qed.

Lemma idx_other : forall A (f : N -> A) d d' v, dom_eqb d' d = false -> upd f (index_of d) v (index_of d') = f (index_of d').
Proof. intros. apply upd_other. now rewrite index_eqb. Qed.

Lemma alive_read : forall m s n d, R m s -> md_alive (m_d m n) (canon (index_of d)) = sa (s_dom s n d).
Proof. intros m s n d (A & _). apply A. Qed.

(* ---------- primitives ---------- *)
Lemma mark_forced_ref : forall cfg m s n d l, R m s ->
  R (mark_forced cfg m n d l) (fst (s_kill s n d))
  /\ m_tlog (mark_forced cfg m n d l) = m_tlog m ++ snd (s_kill s n d).
Proof.
  intros cfg m s n d l HR. unfold mark_forced; cbv zeta.
  match goal with |- context [inform cfg ?M n d false l] =>
    set (M0 := M); pose proof (inform_health cfg M0 n d false l) as HH end.
  assert (HM : R M0 (fst (s_kill s n d)) /\ m_tlog M0 = m_tlog m ++ snd (s_kill s n d)).
  { subst M0. unfold s_kill; cbn [fst snd]. rewrite (alive_read m s n d HR).
    assert (HP : R (set_dialer m n
                 {| md_alive := upd (md_alive (m_d m n)) (canon (index_of d)) false;
                    md_fail := upd (md_fail (m_d m n)) (index_of d) (threshold d true);
                    md_traffic := upd (md_traffic (m_d m n)) (index_of d) (threshold d true) |})
               (s_set s n d {| sa := false; sp := sp (s_dom s n d); st := st (s_dom s n d) |})).
    { apply R_point2 with (v := false); auto.
      - intros d'. apply point_alive.
      - intros d' Hd; cbn [md_fail md_traffic]. now rewrite !idx_other.
      - discriminate. }
    destruct (sa (s_dom s n d)).
    - split; [apply R_log, HP|reflexivity].
    - split; [exact HP|cbn [set_dialer m_tlog]; now rewrite app_nil_r]. }
  destruct HM as (HM1 & HM2). split; [eapply R_health; eauto|].
  destruct HH as (_ & _ & _ & _ & E). now rewrite E.
Qed.

Lemma esc_gen : forall cfg n l ds m acc pre, R m (fst acc) -> m_tlog m = pre ++ snd acc ->
  R (fold_left (fun m d => mark_forced cfg m n d l) ds m)
    (fst (fold_left (fun acc d => let '(s', l') := s_kill (fst acc) n d in (s', snd acc ++ l')) ds acc))
  /\ m_tlog (fold_left (fun m d => mark_forced cfg m n d l) ds m)
     = pre ++ snd (fold_left (fun acc d => let '(s', l') := s_kill (fst acc) n d in (s', snd acc ++ l')) ds acc).
Proof.
  intros cfg n l. induction ds as [|d r IH]; intros m acc pre HR HL; cbn [fold_left]; [now split|].
  destruct (mark_forced_ref cfg m (fst acc) n d l HR) as (A & B).
  destruct (s_kill (fst acc) n d) as [s' l'] eqn:E. cbn [fst snd] in A, B.
  apply IH; cbn [fst snd]; [exact A|]. rewrite B, HL. now rewrite app_assoc.
Qed.

Lemma escalate_ref : forall cfg m s n l, R m s ->
  R (escalate cfg m n l) (fst (s_escalate s n)) /\ m_tlog (escalate cfg m n l) = m_tlog m ++ snd (s_escalate s n).
Proof.
  intros cfg m s n l HR. unfold escalate, s_escalate. change escalation_order with all_doms.
  apply esc_gen; cbn [fst snd]; [exact HR|now rewrite app_nil_r].
Qed.

Lemma notify_failure_ref : forall cfg m s n l, R m s -> m_suppressed m = false ->
  R (notify_failure cfg m n l) (fst (s_death_transition cfg s n))
  /\ m_tlog (notify_failure cfg m n l) = m_tlog m ++ snd (s_death_transition cfg s n).
Proof.
  intros cfg m s n l HR Hs. unfold notify_failure, s_death_transition; cbv zeta.
  destruct (c_addr cfg n =? 0); [split; [exact HR|now rewrite app_nil_r]|].
  rewrite Hs. change max_consecutive_failures with k_deaths.
  assert (E : m_tracker m (c_addr cfg n) = s_deaths s (c_addr cfg n)) by (destruct HR as (_ & _ & T & _); apply T).
  rewrite E. destruct (k_deaths <=? s_deaths s (c_addr cfg n) + 1).
  - apply (escalate_ref cfg (set_tracker m (c_addr cfg n) 0) (s_set_deaths s (c_addr cfg n) 0) n l).
    now apply R_tracker.
  - split; [now apply R_tracker|cbn [fst snd set_tracker m_tlog]; now rewrite app_nil_r].
Qed.

Lemma mark_unavail_ref : forall cfg m s n d t l, R m s ->
  R (mark_unavail cfg m n d t l) (fst (if suppressed s then (s, []) else s_counted_failure cfg s n d t))
  /\ m_tlog (mark_unavail cfg m n d t l)
     = m_tlog m ++ snd (if suppressed s then (s, []) else s_counted_failure cfg s n d t).
Proof.
  intros cfg m s n d t l HR. unfold mark_unavail.
  pose proof (R_suppressed m s HR) as Hsup. rewrite Hsup.
  destruct (suppressed s) eqn:Hs; [split; [exact HR|now rewrite app_nil_r]|].
  rewrite (alive_read m s n d HR). rewrite threshold_doc.
  unfold s_counted_failure; cbv zeta.
  destruct (sa (s_dom s n d)) eqn:Hsa.
  - (* alive: the counters agree *)
    destruct HR as (R1 & R2 & R3 & R4 & R5). destruct (R2 n d Hsa) as (Ef & Et).
    pose proof (conj R1 (conj R2 (conj R3 (conj R4 R5))) : R m s) as HR.
    destruct t; cbn [sa sp st andb].
    + rewrite Et. rewrite (N.leb_antisym _ (k_traffic d)).
      destruct (st (s_dom s n d) + 1 <? k_traffic d) eqn:Hc; cbn [negb xorb andb md_alive md_fail md_traffic].
      * match goal with |- context [inform cfg ?M n d true l] =>
          set (M0 := M); pose proof (inform_health cfg M0 n d true l) as HH end.
        split; [eapply R_health; [exact HH|]|destruct HH as (_ & _ & _ & _ & E); rewrite E; cbn; now rewrite app_nil_r].
        subst M0. apply R_point2 with (v := true); auto.
        -- intros d'. apply point_alive.
        -- intros d' Hd; cbn [md_fail md_traffic]. now rewrite !idx_other.
        -- intros _. cbn [md_fail md_traffic sp st]. rewrite upd_same. now split.
      * match goal with |- context [inform cfg ?M n d false l] =>
          set (M0 := M); pose proof (inform_health cfg M0 n d false l) as HH end.
        match goal with |- context [s_death_transition cfg ?S n] => set (S0 := S) end.
        assert (HM : R M0 (fst (s_death_transition cfg S0 n))
                     /\ m_tlog M0 = (m_tlog m ++ [(n, d, false)]) ++ snd (s_death_transition cfg S0 n)).
        { subst M0. apply notify_failure_ref; [|exact Hsup].
          apply R_log. subst S0. apply R_point2 with (v := false); auto.
          - intros d'. apply point_alive.
          - intros d' Hd; cbn [md_fail md_traffic]. now rewrite !idx_other.
          - discriminate. }
        destruct HM as (HM1 & HM2). destruct (s_death_transition cfg S0 n) as [s2 lg]. cbn [fst snd] in *.
        split; [eapply R_health; eauto|].
        destruct HH as (_ & _ & _ & _ & E). rewrite E, HM2. now rewrite <- app_assoc.
    + rewrite Ef. rewrite (N.leb_antisym _ (k_probe d)).
      destruct (sp (s_dom s n d) + 1 <? k_probe d) eqn:Hc; cbn [negb xorb andb md_alive md_fail md_traffic].
      * match goal with |- context [inform cfg ?M n d true l] =>
          set (M0 := M); pose proof (inform_health cfg M0 n d true l) as HH end.
        split; [eapply R_health; [exact HH|]|destruct HH as (_ & _ & _ & _ & E); rewrite E; cbn; now rewrite app_nil_r].
        subst M0. apply R_point2 with (v := true); auto.
        -- intros d'. apply point_alive.
        -- intros d' Hd; cbn [md_fail md_traffic]. now rewrite !idx_other.
        -- intros _. cbn [md_fail md_traffic sp st]. rewrite upd_same. now split.
      * match goal with |- context [inform cfg ?M n d false l] =>
          set (M0 := M); pose proof (inform_health cfg M0 n d false l) as HH end.
        match goal with |- context [s_death_transition cfg ?S n] => set (S0 := S) end.
        assert (HM : R M0 (fst (s_death_transition cfg S0 n))
                     /\ m_tlog M0 = (m_tlog m ++ [(n, d, false)]) ++ snd (s_death_transition cfg S0 n)).
        { subst M0. apply notify_failure_ref; [|exact Hsup].
          apply R_log. subst S0. apply R_point2 with (v := false); auto.
          - intros d'. apply point_alive.
          - intros d' Hd; cbn [md_fail md_traffic]. now rewrite !idx_other.
          - discriminate. }
        destruct HM as (HM1 & HM2). destruct (s_death_transition cfg S0 n) as [s2 lg]. cbn [fst snd] in *.
        split; [eapply R_health; eauto|].
        destruct HH as (_ & _ & _ & _ & E). rewrite E, HM2. now rewrite <- app_assoc.
  - (* already dead: only the counter moves *)
    cbn [andb].
    assert (Hal : forall (c : bool), (if c then false else false) = false) by (destruct c; reflexivity).
    destruct t; cbv zeta; rewrite Hal; cbn [xorb andb negb md_alive md_fail md_traffic];
      match goal with |- context [inform cfg ?M n d false l] =>
          set (M0 := M); pose proof (inform_health cfg M0 n d false l) as HH end;
      (split; [eapply R_health; [exact HH|]|destruct HH as (_ & _ & _ & _ & E); rewrite E; cbn; now rewrite app_nil_r]);
      subst M0; apply R_point2 with (v := false); auto; try discriminate;
      try (intros d'; apply point_alive);
      intros d' Hd; cbn [md_fail md_traffic]; now rewrite ?idx_other.
Qed.

Lemma mark_avail_ref : forall cfg m s n d l, R m s -> m_tracker m 0 = 0 ->
  R (mark_avail cfg m n d l) (fst (s_success cfg s n d))
  /\ m_tlog (mark_avail cfg m n d l) = m_tlog m ++ snd (s_success cfg s n d).
Proof.
  intros cfg m s n d l HR H0. unfold mark_avail; cbv zeta.
  match goal with |- context [inform cfg ?M n d true l] =>
    set (M0 := M); pose proof (inform_health cfg M0 n d true l) as HH end.
  assert (HM : R M0 (fst (s_success cfg s n d)) /\ m_tlog M0 = m_tlog m ++ snd (s_success cfg s n d)).
  { subst M0. unfold s_success; cbn [fst snd]. rewrite (alive_read m s n d HR).
    assert (HP : R (set_dialer m n
                 {| md_alive := upd (md_alive (m_d m n)) (canon (index_of d)) true;
                    md_fail := upd (md_fail (m_d m n)) (index_of d) 0;
                    md_traffic := upd (md_traffic (m_d m n)) (index_of d) 0 |})
               (s_set s n d sfresh)).
    { apply R_point2 with (v := true); auto.
      - intros d'. apply point_alive.
      - intros d' Hd; cbn [md_fail md_traffic]. now rewrite !idx_other.
      - intros _. cbn [md_fail md_traffic sfresh sp st]. now rewrite !upd_same. }
    match goal with |- context [set_dialer m n ?X] => set (x' := X) in * end.
    assert (HP2 : R (if c_addr cfg n =? 0 then set_dialer m n x' else set_tracker (set_dialer m n x') (c_addr cfg n) 0)
                    (s_set_deaths (s_set s n d sfresh) (c_addr cfg n) 0)).
    { destruct (c_addr cfg n =? 0) eqn:Ea.
      - apply N.eqb_eq in Ea. rewrite Ea. apply R_tracker0; [exact HP|exact H0].
      - now apply R_tracker. }
    destruct (sa (s_dom s n d)).
    - split; [exact HP2|]. destruct (c_addr cfg n =? 0); cbn [set_tracker set_dialer m_tlog]; now rewrite app_nil_r.
    - split; [apply R_log, HP2|]. destruct (c_addr cfg n =? 0); reflexivity. }
  destruct HM as (HM1 & HM2). split; [eapply R_health; eauto|].
  destruct HH as (_ & _ & _ & _ & E). now rewrite E.
Qed.

Lemma traffic_ok_ref : forall cfg m s n d l, R m s -> m_tracker m 0 = 0 ->
  R (traffic_ok cfg m n d l) (fst (s_step cfg s (ETrafficOk n d l)))
  /\ m_tlog (traffic_ok cfg m n d l) = m_tlog m ++ snd (s_step cfg s (ETrafficOk n d l)).
Proof.
  intros cfg m s n d l HR H0. unfold traffic_ok; cbv zeta. cbn [s_step].
  set (x' := if md_traffic (m_d m n) (index_of d) =? 0 then m_d m n else _).
  assert (Hxa : md_alive x' = md_alive (m_d m n)) by (subst x'; destruct (_ =? 0); reflexivity).
  assert (Hxf : md_fail x' = md_fail (m_d m n)) by (subst x'; destruct (_ =? 0); reflexivity).
  assert (Hxt0 : md_traffic x' (index_of d) = 0).
  { subst x'; destruct (_ =? 0) eqn:E; [now apply N.eqb_eq in E|]. cbn [md_traffic]. apply upd_same. }
  assert (Hxt : forall d', dom_eqb d' d = false -> md_traffic x' (index_of d') = md_traffic (m_d m n) (index_of d')).
  { intros d' Hd. subst x'; destruct (_ =? 0); [reflexivity|]. cbn [md_traffic]. now apply idx_other. }
  rewrite Hxa, (alive_read m s n d HR).
  assert (HP : R (set_dialer m n x') (s_set s n d {| sa := sa (s_dom s n d); sp := sp (s_dom s n d); st := 0 |})).
  { apply R_point2 with (v := sa (s_dom s n d)); auto.
    - intros d'. unfold d_alive. rewrite Hxa. destruct (dom_eqb d' d) eqn:Ed; [|reflexivity].
      apply dom_eqb_eq in Ed; subst d'. apply (alive_read m s n d HR).
    - intros d' Hd. rewrite Hxf. split; [reflexivity|now apply Hxt].
    - intros Hv. cbn [sp st]. rewrite Hxf, Hxt0. destruct HR as (_ & R2 & _). destruct (R2 n d Hv) as (-> & _). now split. }
  destruct (is_data d && negb (sa (s_dom s n d))) eqn:Hc.
  - (* revive *)
    apply andb_true_iff in Hc. destruct Hc as (_ & Hdead). apply negb_true_iff in Hdead.
    assert (HP' : R (set_dialer m n x') s).
    { destruct HR as (R1 & R2 & R3 & R4 & R5).
      unfold R, set_dialer; cbn [m_d m_tracker m_supp m_window].
      split; [|split; [|split; [|split]]]; try assumption.
      - intros n' d'. unfold upd. destruct (n' =? n) eqn:En; [|apply R1].
        apply N.eqb_eq in En; subst n'. unfold d_alive. rewrite Hxa. apply R1.
      - intros n' d' Hs. unfold upd. destruct (n' =? n) eqn:En; [|now apply R2].
        apply N.eqb_eq in En; subst n'. rewrite Hxf.
        destruct (dom_eqb d' d) eqn:Ed.
        + apply dom_eqb_eq in Ed; subst d'. congruence.
        + rewrite (Hxt d' Ed). now apply R2. }
    apply (mark_avail_ref cfg (set_dialer m n x') s n d l HP' H0).
  - split; [exact HP|cbn [set_dialer m_tlog snd]; now rewrite app_nil_r].
Qed.

(* ---------- the step ---------- *)
Lemma R_clear : forall m s, R m s -> R (clear_logs m) s.
Proof. intros m s H. exact H. Qed.

Lemma C16_step_refines_proof_partial : forall cfg m s e, no_reload e = true -> m_tracker m 0 = 0 -> R m s ->
  R (m_step cfg m e) (fst (s_step cfg s e)) /\ m_tlog (m_step cfg m e) = snd (s_step cfg s e).
Proof.
  intros cfg m s e Hnr H0 HR. apply R_clear in HR.
  assert (H0' : m_tracker (clear_logs m) 0 = 0) by exact H0.
  assert (HL : m_tlog (clear_logs m) = []) by reflexivity.
  unfold m_step; cbv zeta. set (mc := clear_logs m) in *. clearbody mc.
  destruct e as [n d k ign l|n d l|n d|n d l| | | | |l]; try discriminate Hnr.
  - destruct k.
    1-3: destruct ign; cbn [s_step orb is_traffic fst snd]; [split; [exact HR|exact HL]|];
         destruct (mark_unavail_ref cfg mc s n d false l HR) as (A & B);
         destruct (mark_unavail_ref cfg mc s n d true l HR) as (A' & B'); rewrite HL in B, B'; cbn [app] in B, B'.
    + split; [exact A|exact B].
    + split; [exact A|exact B].
    + split; [exact A'|exact B'].
    + cbn [s_step]. destruct (mark_forced_ref cfg mc s n d l HR) as (A & B). rewrite HL in B. now split.
  - cbn [s_step]. destruct (mark_avail_ref cfg mc s n d l HR H0') as (A & B). rewrite HL in B. now split.
  - cbn [s_step fst snd]. now split.
  - destruct (traffic_ok_ref cfg mc s n d l HR H0') as (A & B). rewrite HL in B. now split.
  - cbn [s_step fst snd]. split; [|exact HL].
    destruct HR as (R1 & R2 & R3 & R4 & R5). unfold R, set_supp; cbn [m_d m_tracker m_supp m_window s_dom s_deaths s_supp s_window].
    rewrite R4. exact (conj R1 (conj R2 (conj R3 (conj eq_refl R5)))).
  - cbn [s_step]. destruct HR as (R1 & R2 & R3 & R4 & R5). rewrite R4.
    destruct (s_supp s =? 0); cbn [fst snd]; (split; [|exact HL]).
    + exact (conj R1 (conj R2 (conj R3 (conj R4 R5)))).
    + unfold R, set_supp; cbn [m_d m_tracker m_supp m_window s_dom s_deaths s_supp s_window].
      rewrite R5. exact (conj R1 (conj R2 (conj R3 (conj eq_refl eq_refl)))).
  - cbn [s_step fst snd]. split; [|exact HL].
    destruct HR as (R1 & R2 & R3 & R4 & R5). unfold R, set_supp; cbn [m_d m_tracker m_supp m_window s_dom s_deaths s_supp s_window].
    exact (conj R1 (conj R2 (conj R3 (conj R4 eq_refl)))).
  - cbn [s_step fst snd]. split; [|exact HL].
    destruct HR as (R1 & R2 & R3 & R4 & R5). unfold R; cbn [m_d m_tracker m_supp m_window s_dom s_deaths s_supp s_window].
    exact (conj R1 (conj R2 (conj (fun _ => eq_refl) (conj R4 R5)))).
Qed.

(* ---------- the statement without the side condition is false: address 0 means "no address" and the
   model never touches the tracker slot 0, while the spec's success clears s_deaths (c_addr cfg n) ---------- *)
Definition cex_cfg : config := {| c_addr := fun _ => 0; c_groups := []; c_tol := 0%Z |}.
Definition cex_m : mstate :=
  {| m_d := fun _ => fresh_dialer; m_tracker := fun _ => 5; m_supp := 0; m_window := false;
     m_sets := fun _ _ => empty_set; m_bits := fun _ _ => true; m_tlog := []; m_blog := [] |}.

Lemma C16_R_abs_proof : forall m, R m (abs_state m).
Proof.
  intros m. unfold R, abs_state; cbn [s_dom s_deaths s_supp s_window sa sp st].
  split; [reflexivity|split; [intros; now split|split; [reflexivity|now split]]].
Qed.

Lemma C16_step_refines_proof_counterexample :
  no_reload (EProbeOk 0 Tcp4 []) = true /\ R cex_m (abs_state cex_m)
  /\ m_tracker (m_step cex_cfg cex_m (EProbeOk 0 Tcp4 [])) 0 = 5
  /\ s_deaths (fst (s_step cex_cfg (abs_state cex_m) (EProbeOk 0 Tcp4 []))) 0 = 0
  /\ ~ (forall cfg m s e, no_reload e = true -> R m s ->
          R (m_step cfg m e) (fst (s_step cfg s e)) /\ m_tlog (m_step cfg m e) = snd (s_step cfg s e)).
Proof.
  split; [reflexivity|]. split; [apply C16_R_abs_proof|].
  split; [vm_compute; reflexivity|]. split; [vm_compute; reflexivity|].
  intros H. destruct (H cex_cfg cex_m (abs_state cex_m) (EProbeOk 0 Tcp4 []) eq_refl (C16_R_abs_proof cex_m))
    as ((_ & _ & T & _) & _).
  specialize (T 0). vm_compute in T. discriminate.
Qed.

(* ---------- tracker slot 0 is never written (all events, reload included) ---------- *)
Lemma mark_forced_tracker : forall cfg m n d l, m_tracker (mark_forced cfg m n d l) = m_tracker m.
Proof.
  intros. unfold mark_forced; cbv zeta.
  match goal with |- context [inform cfg ?M n d false l] =>
    destruct (inform_health cfg M n d false l) as (_ & E & _); rewrite E end.
  destruct (md_alive _ _); reflexivity.
Qed.
Lemma escalate_tracker : forall cfg m n l, m_tracker (escalate cfg m n l) = m_tracker m.
Proof. intros. unfold escalate. apply fold_tracker. intros; apply mark_forced_tracker. Qed.
Lemma notify_failure_tracker0 : forall cfg m n l, m_tracker (notify_failure cfg m n l) 0 = m_tracker m 0.
Proof.
  intros. unfold notify_failure; cbv zeta. destruct (c_addr cfg n =? 0) eqn:Ea; [reflexivity|].
  destruct (m_suppressed m); [reflexivity|].
  destruct (_ <=? _); [rewrite escalate_tracker|]; cbn [set_tracker m_tracker]; apply upd_other; now rewrite N.eqb_sym.
Qed.
Lemma mark_unavail_tracker0 : forall cfg m n d t l, m_tracker (mark_unavail cfg m n d t l) 0 = m_tracker m 0.
Proof.
  intros. unfold mark_unavail. destruct (m_suppressed m); [reflexivity|].
  destruct t; cbv beta iota zeta;
    match goal with |- context [inform cfg ?M n d ?a l] =>
      destruct (inform_health cfg M n d a l) as (_ & E & _); rewrite E; clear E end;
    destruct (md_alive _ _); destruct (_ <? _); cbn [xorb andb negb]; rewrite ?notify_failure_tracker0; reflexivity.
Qed.
Lemma mark_avail_tracker0 : forall cfg m n d l, m_tracker (mark_avail cfg m n d l) 0 = m_tracker m 0.
Proof.
  intros. unfold mark_avail; cbv zeta.
  match goal with |- context [inform cfg ?M n d true l] =>
    destruct (inform_health cfg M n d true l) as (_ & E & _); rewrite E; clear E end.
  destruct (c_addr cfg n =? 0) eqn:Ea; destruct (md_alive _ _); cbn [log_transition set_tracker set_dialer m_tracker];
    try reflexivity; apply upd_other; now rewrite N.eqb_sym.
Qed.
Lemma traffic_ok_tracker0 : forall cfg m n d l, m_tracker (traffic_ok cfg m n d l) 0 = m_tracker m 0.
Proof.
  intros. unfold traffic_ok; cbv zeta. destruct (is_data d && _); [rewrite mark_avail_tracker0|]; reflexivity.
Qed.

Lemma new_group_health : forall cfg m gi g, health_eq m (new_group cfg m gi g).
Proof.
  intros. unfold new_group; cbv zeta.
  match goal with |- context [if keeps_sets g then ?X else m] => set (m1 := if keeps_sets g then X else m) end.
  assert (H : health_eq m m1).
  { subst m1. destruct (keeps_sets g); [|apply health_refl].
    apply fold_health. intros m0 d0. apply fold_health. intros m2 e. apply inform_group_health. }
  destruct H as (A & B & C & D & E). repeat split; assumption.
Qed.
Lemma new_groups_health : forall cfg gs m gi, health_eq m (new_groups cfg m gi gs).
Proof.
  induction gs as [|g r IH]; intros; cbn [new_groups]; [apply health_refl|].
  eapply health_trans; [apply new_group_health|apply IH].
Qed.

Lemma restore_tracker : forall cfg old m n l, m_tracker (restore cfg old m n l) = m_tracker m.
Proof.
  intros. unfold restore. destruct (fold_left _ all_idx _) as [x' ups]. cbv zeta.
  rewrite fold_tracker; [reflexivity|].
  intros m0 [[i was] al]. cbv zeta.
  destruct (inform_health cfg m0 n (dom_of_idx i) al l) as (_ & E & _).
  destruct (xorb was al); cbn [log_transition m_tracker]; exact E.
Qed.
Lemma mark_alive_fallback_tracker : forall cfg m n d l, m_tracker (mark_alive_fallback cfg m n d l) = m_tracker m.
Proof.
  intros. unfold mark_alive_fallback; cbv zeta.
  match goal with |- context [inform cfg ?M n d true l] =>
    destruct (inform_health cfg M n d true l) as (_ & E & _) end.
  destruct (md_alive _ _); cbn [log_transition m_tracker]; exact E.
Qed.
Lemma ensure_floor_tracker : forall cfg m gi g fb l, m_tracker (ensure_floor cfg m gi g fb l) = m_tracker m.
Proof.
  intros. unfold ensure_floor. destruct (keeps_sets g); [|reflexivity].
  apply fold_tracker. intros m0 d0. destruct (negb _); [reflexivity|].
  destruct (fb d0); [apply mark_alive_fallback_tracker|].
  destruct (g_members g); [reflexivity|apply mark_alive_fallback_tracker].
Qed.
Lemma inherit_tracker : forall cfg old l gs m gi, m_tracker (inherit cfg old m gi gs l) = m_tracker m.
Proof.
  intros cfg old l. induction gs as [|g r IH]; intros; cbn [inherit]; [reflexivity|]. cbv zeta.
  rewrite IH, ensure_floor_tracker. apply fold_tracker. intros; apply restore_tracker.
Qed.
Lemma m_reload_tracker : forall cfg m l, m_tracker (m_reload cfg m l) = m_tracker m.
Proof.
  intros. unfold m_reload. rewrite inherit_tracker. unfold m_fresh_generation.
  match goal with |- context [new_groups cfg ?M 0 ?G] => destruct (new_groups_health cfg G M 0) as (_ & E & _) end.
  exact E.
Qed.

Lemma tracker0_step : forall cfg m e, m_tracker m 0 = 0 -> m_tracker (m_step cfg m e) 0 = 0.
Proof.
  intros cfg m e H0. assert (H : m_tracker (clear_logs m) 0 = 0) by exact H0.
  unfold m_step; cbv zeta. set (mc := clear_logs m) in *. clearbody mc.
  destruct e as [n d k ign l|n d l|n d|n d l| | | | |l]; try exact H; try reflexivity.
  - destruct k; try (destruct ign; [exact H|rewrite mark_unavail_tracker0; exact H]).
    rewrite mark_forced_tracker; exact H.
  - rewrite mark_avail_tracker0; exact H.
  - rewrite traffic_ok_tracker0; exact H.
  - destruct (m_supp mc =? 0); exact H.
  - rewrite m_reload_tracker; exact H.
Qed.

Lemma m_init_health : forall cfg, m_d (m_init cfg) = (fun _ => fresh_dialer) /\ m_tracker (m_init cfg) = (fun _ => 0)
  /\ m_supp (m_init cfg) = 0 /\ m_window (m_init cfg) = false.
Proof.
  intros. unfold m_init, m_fresh_generation.
  match goal with |- context [new_groups cfg ?M 0 ?G] => destruct (new_groups_health cfg G M 0) as (A & B & C & D & _) end.
  repeat split; assumption.
Qed.

Lemma tracker0_run : forall cfg h, m_tracker (m_run cfg h) 0 = 0.
Proof.
  intros cfg h. unfold m_run.
  assert (G : forall h m, m_tracker m 0 = 0 -> m_tracker (fold_left (m_step cfg) h m) 0 = 0).
  { induction h0 as [|e r IH]; intros m Hm; cbn [fold_left]; [exact Hm|]. apply IH. now apply tracker0_step. }
  apply G. destruct (m_init_health cfg) as (_ & E & _). now rewrite E.
Qed.

(* ---------- required statements ---------- *)
Lemma C16_R_init_proof : forall cfg, R (m_init cfg) s_init.
Proof.
  intros. destruct (m_init_health cfg) as (A & B & C & D).
  unfold R. rewrite A, B, C, D. unfold s_init; cbn [s_dom s_deaths s_supp s_window sfresh sa sp st].
  split; [intros n d; destruct d; reflexivity|]. split; [intros; now split|]. now repeat split.
Qed.

Lemma C16_run_refines_proof : forall cfg h0 s0 h, R (m_run cfg h0) s0 -> Forall (fun e => no_reload e = true) h ->
  R (m_run cfg (h0 ++ h)) (s_run_from cfg s0 h).
Proof.
  intros cfg h0 s0 h. revert h0 s0. induction h as [|e r IH]; intros h0 s0 HR HF.
  - rewrite app_nil_r. exact HR.
  - inversion HF as [|e' r' He Hr]; subst.
    replace (h0 ++ e :: r) with ((h0 ++ [e]) ++ r) by (rewrite <- app_assoc; reflexivity).
    cbn [s_run_from fold_left]. apply (IH (h0 ++ [e]) (fst (s_step cfg s0 e))); [|exact Hr].
    rewrite m_run_snoc. apply C16_step_refines_proof_partial; auto. apply tracker0_run.
Qed.

(* the step statement holds at every reachable model state (any history, reloads included) *)
Lemma C16_step_refines_reachable : forall cfg h s e, no_reload e = true -> R (m_run cfg h) s ->
  R (m_step cfg (m_run cfg h) e) (fst (s_step cfg s e)) /\ m_tlog (m_step cfg (m_run cfg h) e) = snd (s_step cfg s e).
Proof. intros. apply C16_step_refines_proof_partial; auto. apply tracker0_run. Qed.

Lemma run_R : forall cfg h, Forall (fun e => no_reload e = true) h -> R (m_run cfg h) (s_run cfg h).
Proof.
  intros cfg h HF. exact (C16_run_refines_proof cfg [] s_init h (C16_R_init_proof cfg) HF).
Qed.

Lemma C16_thresholds_proof : forall cfg h, Forall (fun e => no_reload e = true) h ->
  forall n d, model_alive cfg h n d = spec_alive cfg h n d.
Proof.
  intros cfg h HF n d. destruct (run_R cfg h HF) as (A & _). unfold model_alive, spec_alive. apply A.
Qed.

Lemma C16_transitions_refine_proof : forall cfg h e, Forall (fun e => no_reload e = true) h -> no_reload e = true ->
  m_tlog (m_run cfg (h ++ [e])) = spec_transitions cfg h e.
Proof.
  intros cfg h e HF He. rewrite m_run_snoc. unfold spec_transitions.
  apply C16_step_refines_proof_partial; auto; [apply tracker0_run|now apply run_R].
Qed.

(* ---------- spec-side computations ---------- *)
Definition esc_fold (n : N) (ds : list dom) (acc : sstate * tlog) : sstate * tlog :=
  fold_left (fun acc d => let '(s', l') := s_kill (fst acc) n d in (s', snd acc ++ l')) ds acc.

Lemma esc_fold_sa : forall n n' d' ds acc,
  sa (s_dom (fst (esc_fold n ds acc)) n' d')
  = if (n' =? n) && existsb (dom_eqb d') ds then false else sa (s_dom (fst acc) n' d').
Proof.
  intros n n' d'. induction ds as [|d r IH]; intros acc; unfold esc_fold in *; cbn [fold_left existsb].
  - now rewrite andb_false_r.
  - rewrite IH. unfold s_kill; cbn [fst snd s_set s_dom].
    destruct (n' =? n); cbn [andb]; [|reflexivity].
    destruct (dom_eqb d' d); cbn [orb sa]; [now destruct (existsb _ r)|reflexivity].
Qed.
Lemma esc_fold_deaths : forall n ds acc, s_deaths (fst (esc_fold n ds acc)) = s_deaths (fst acc).
Proof.
  intros n. induction ds as [|d r IH]; intros acc; unfold esc_fold in *; cbn [fold_left]; [reflexivity|].
  rewrite IH. reflexivity.
Qed.
Lemma s_escalate_sa : forall s n n' d',
  sa (s_dom (fst (s_escalate s n)) n' d') = if n' =? n then false else sa (s_dom s n' d').
Proof.
  intros. unfold s_escalate. change (fold_left _ all_doms (s, [])) with (esc_fold n all_doms (s, [])).
  rewrite esc_fold_sa. cbn [fst]. replace (existsb (dom_eqb d') all_doms) with true by (destruct d'; reflexivity).
  now rewrite andb_true_r.
Qed.
Lemma s_escalate_deaths : forall s n, s_deaths (fst (s_escalate s n)) = s_deaths s.
Proof.
  intros. unfold s_escalate. change (fold_left _ all_doms (s, [])) with (esc_fold n all_doms (s, [])).
  now rewrite esc_fold_deaths.
Qed.

(* what one counted failure does *)
Lemma counted_cases : forall cfg s n d t,
  (sa (s_dom s n d) = true /\ k_of d t <= run_of (s_dom s n d) t + 1 /\
     exists sx, sa sx = false /\
       fst (s_counted_failure cfg s n d t) = fst (s_death_transition cfg (s_set s n d sx) n))
  \/ ((sa (s_dom s n d) = false \/ run_of (s_dom s n d) t + 1 < k_of d t) /\
      exists sx, sa sx = sa (s_dom s n d) /\ fst (s_counted_failure cfg s n d t) = s_set s n d sx).
Proof.
  intros. unfold s_counted_failure; cbv zeta.
  assert (E : (if t then k_traffic d <=? st (if t then {| sa := sa (s_dom s n d); sp := sp (s_dom s n d); st := st (s_dom s n d) + 1 |}
                                              else {| sa := sa (s_dom s n d); sp := sp (s_dom s n d) + 1; st := st (s_dom s n d) |})
               else k_probe d <=? sp (if t then {| sa := sa (s_dom s n d); sp := sp (s_dom s n d); st := st (s_dom s n d) + 1 |}
                                      else {| sa := sa (s_dom s n d); sp := sp (s_dom s n d) + 1; st := st (s_dom s n d) |}))
              = (k_of d t <=? run_of (s_dom s n d) t + 1)) by (destruct t; reflexivity).
  rewrite E. clear E.
  destruct (sa (s_dom s n d)) eqn:Hsa; cbn [andb].
  - destruct (k_of d t <=? run_of (s_dom s n d) t + 1) eqn:Hk.
    + left. split; [reflexivity|]. split; [now apply N.leb_le|].
      match goal with |- context [s_death_transition cfg (s_set s n d ?X) n] => exists X end.
      split; [reflexivity|destruct (s_death_transition cfg _ n) as [s2 lg]; reflexivity].
    + right. split; [right; now apply N.leb_gt|]. eexists. split; [|reflexivity]. now destruct t.
  - right. split; [now left|]. eexists. split; [|reflexivity]. now destruct t.
Qed.

Lemma s_set_same : forall s n d sx, s_dom (s_set s n d sx) n d = sx.
Proof. intros. unfold s_set; cbn [s_dom]. now rewrite N.eqb_refl, dom_eqb_refl. Qed.

Lemma death_transition_dead : forall cfg s n d,
  sa (s_dom s n d) = false -> sa (s_dom (fst (s_death_transition cfg s n)) n d) = false.
Proof.
  intros cfg s n d H. unfold s_death_transition; cbv zeta.
  destruct (c_addr cfg n =? 0); [exact H|]. destruct (k_deaths <=? _); [|exact H].
  rewrite s_escalate_sa. now rewrite N.eqb_refl.
Qed.

Lemma step_fail_fst : forall cfg s n d k l, k <> KForced ->
  fst (s_step cfg s (EFail n d k false l))
  = if suppressed s then s else fst (s_counted_failure cfg s n d (is_traffic k)).
Proof. intros cfg s n d k l Hk. destruct k; try congruence; cbn [s_step orb]; destruct (suppressed s); reflexivity. Qed.

Lemma C16_death_rule_proof : forall cfg h s n d k l, R (m_run cfg h) s -> k <> KForced ->
  (model_alive cfg (h ++ [EFail n d k false l]) n d = false
   <-> (model_alive cfg h n d = false \/ (suppressed s = false /\ k_of d (is_traffic k) <= run_of (s_dom s n d) (is_traffic k) + 1))).
Proof.
  intros cfg h s n d k l HR Hk.
  destruct (C16_step_refines_proof_partial cfg (m_run cfg h) s (EFail n d k false l) eq_refl (tracker0_run cfg h) HR)
    as ((A & _) & _).
  unfold model_alive. rewrite m_run_snoc, A. destruct HR as (A0 & _). rewrite A0.
  rewrite (step_fail_fst cfg s n d k l Hk). clear A.
  destruct (suppressed s) eqn:Hs.
  - split; [auto|intros [H|[H _]]; [exact H|discriminate]].
  - destruct (counted_cases cfg s n d (is_traffic k)) as [(Ha & Hr & sx & Hsx & E)|(Hc & sx & Hsx & E)]; rewrite E.
    + split; [intros _; right; now split|intros _].
      apply death_transition_dead. now rewrite s_set_same.
    + rewrite s_set_same, Hsx. split; [auto|]. intros [H|[_ H]]; [exact H|].
      destruct Hc as [Hc|Hc]; [exact Hc|lia].
Qed.

Lemma C16_escalation_after_three_deaths_proof : forall cfg h s n d k l,
  R (m_run cfg h) s -> k <> KForced -> suppressed s = false ->
  model_alive cfg h n d = true -> k_of d (is_traffic k) <= run_of (s_dom s n d) (is_traffic k) + 1 ->
  c_addr cfg n <> 0 ->
  let m' := m_run cfg (h ++ [EFail n d k false l]) in
  (forall n' d', n' <> n -> d_alive (m_d m' n') d' = model_alive cfg h n' d')
  /\ (k_deaths <= s_deaths s (c_addr cfg n) + 1 ->
        (forall d', d_alive (m_d m' n) d' = false) /\ m_tracker m' (c_addr cfg n) = 0)
  /\ (s_deaths s (c_addr cfg n) + 1 < k_deaths ->
        (forall d', d' <> d -> d_alive (m_d m' n) d' = model_alive cfg h n d') /\ d_alive (m_d m' n) d = false
        /\ m_tracker m' (c_addr cfg n) = s_deaths s (c_addr cfg n) + 1).
Proof.
  intros cfg h s n d k l HR Hk Hs Hal Hreach Ha m'.
  destruct (C16_step_refines_proof_partial cfg (m_run cfg h) s (EFail n d k false l) eq_refl (tracker0_run cfg h) HR)
    as ((A & _ & T & _) & _).
  subst m'. rewrite m_run_snoc. unfold model_alive in *. destruct HR as (A0 & _).
  rewrite A0 in Hal.
  rewrite (step_fail_fst cfg s n d k l Hk), Hs in A, T.
  destruct (counted_cases cfg s n d (is_traffic k)) as [(_ & _ & sx & Hsx & E)|([Hc|Hc] & _)]; [|congruence|lia].
  rewrite E in A, T. clear E.
  assert (Ea : (c_addr cfg n =? 0) = false) by now apply N.eqb_neq.
  unfold s_death_transition in A, T; cbv zeta in A, T. rewrite Ea in A, T.
  change (s_deaths (s_set s n d sx)) with (s_deaths s) in A, T.
  assert (Hne : forall n', n' <> n -> (n' =? n) = false) by (intros; now apply N.eqb_neq).
  destruct (k_deaths <=? s_deaths s (c_addr cfg n) + 1) eqn:Hkd.
  - apply N.leb_le in Hkd. split; [|split; [intros _|intros; lia]].
    + intros n' d' Hn. rewrite A, A0, s_escalate_sa, (Hne n' Hn).
      unfold s_set_deaths, s_set; cbn [s_dom]. now rewrite (Hne n' Hn).
    + split.
      * intros d'. rewrite A, s_escalate_sa. now rewrite N.eqb_refl.
      * rewrite T, s_escalate_deaths. unfold s_set_deaths; cbn [s_deaths]. now rewrite N.eqb_refl.
  - apply N.leb_gt in Hkd. cbn [fst] in A, T. split; [|split; [intros; lia|intros _]].
    + intros n' d' Hn. rewrite A, A0. unfold s_set_deaths, s_set; cbn [s_dom]. now rewrite (Hne n' Hn).
    + split; [|split].
      * intros d' Hd. rewrite A, A0. unfold s_set_deaths, s_set; cbn [s_dom]. rewrite N.eqb_refl; cbn [andb].
        destruct (dom_eqb d' d) eqn:Ed; [apply dom_eqb_eq in Ed; contradiction|reflexivity].
      * rewrite A. unfold s_set_deaths, s_set; cbn [s_dom]. now rewrite N.eqb_refl, dom_eqb_refl.
      * rewrite T. unfold s_set_deaths; cbn [s_deaths]. now rewrite N.eqb_refl.
Qed.

Print Assumptions C16_R_init_proof.
Print Assumptions C16_R_abs_proof.
Print Assumptions C16_step_refines_proof_partial.
Print Assumptions C16_step_refines_proof_counterexample.
Print Assumptions C16_step_refines_reachable.
Print Assumptions C16_run_refines_proof.
Print Assumptions C16_thresholds_proof.
Print Assumptions C16_transitions_refine_proof.
Print Assumptions C16_death_rule_proof.
Print Assumptions C16_escalation_after_three_deaths_proof.
