(* C05 - the buffered copy loops over read sequences (no proofs in this file).
   control/tcp_copy_engine.go relayCopyLoop / relayCopyDirect: `nr, er := src.Read(buf)`; io.Reader allows
   nr > 0 together with er != nil (TLS record layers, framed outbound conns, Sniffer.Read with dataError set
   while bytes remain buffered, prefixedConn.Read).  Whether the bytes are written BEFORE the error is looked at
   is extracted from the source (gen: c05_loop_write_first, c05_direct_write_first). *)
From Coq Require Import List NArith Bool.
From Dae Require Import C05_Spec C05_Model.
From Dae.gen Require Import C05_Extracted.
Import ListNotations.
Open Scope N_scope.

(* one Read: the bytes it returned and the error it returned with them, if any *)
Definition readres := (list N * option rerr)%type.

(* the loop: returns what was written and how it ended (None: the oracle list ended inside the loop;
   Some None: clean end of stream; Some (Some e): error e) *)
Fixpoint copy_loop (write_first : bool) (reads : list readres) (out : list N) : list N * option (option rerr) :=
  match reads with
  | [] => (out, None)
  | (data, er) :: rest =>
      if write_first then
        let out' := out ++ data in                       (* if nr > 0 { dst.Write(buf[:nr]) } *)
        match er with
        | Some EEof => (out', Some None)
        | Some e => (out', Some (Some e))
        | None => copy_loop write_first rest out'
        end
      else
        match er with                                    (* the error is looked at first: buf[:nr] is dropped *)
        | Some EEof => (out, Some None)
        | Some e => (out, Some (Some e))
        | None => copy_loop write_first rest (out ++ data)
        end
  end.

(* the bytes returned by the reads up to and including the first read that returned an error *)
Fixpoint returned_until_error (reads : list readres) : list N :=
  match reads with
  | [] => []
  | (data, er) :: rest => data ++ match er with Some _ => [] | None => returned_until_error rest end
  end.
