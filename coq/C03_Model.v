(* C03 — code-shaped executable model of the datapath of control/kern/tproxy.c and of the Go side that
   reads its records (control/utils.go, control/bpf_stub.go).  No proofs here.

   Modelled: parse_transport_fast / parse_transport_slow / parse_transport / parse_packet / get_tuples,
   __mark_tcp_seen / __mark_udp_seen (+ wrappers), wan_outbound_is_alive, pid_is_control_plane,
   do_tproxy_lan_ingress, do_tproxy_wan_egress(_tcp/_udp), do_tproxy_wan_ingress, do_tproxy_lan_egress,
   redirect_lan_packet_to_control_plane, publish_routing_handoff, the byte layout of struct conn_state /
   routing_handoff_entry / tuples_key on the C side and of bpfConnState / bpfRoutingHandoffEntry /
   bpfTuplesKey on the Go side, bpfTuplesKeyFromAddrPorts, RetrieveRoutingResult.
   route() is an oracle (property C02): the hooks build its query and consume its result word.
   Not modelled: redirect_track, the event ring buffer, cookie_pid_map.last_seen, map-full failures,
   the frame rewrite for the redirect. *)
From Coq Require Import List NArith ZArith Bool.
From Dae Require Import C03_Spec.
From Dae.gen Require Import C03_Consts.
Import ListNotations.
Open Scope N_scope.

(* ---------------------------------------------------------------------------------------------- *)
(* 1. frames and the two header parsers                                                            *)
(* ---------------------------------------------------------------------------------------------- *)
Definition frame := list N.

Definition byte (l : list N) (i : nat) : N := nth i l 0.
Definition be16 (l : list N) (i : nat) : N := byte l i * 256 + byte l (S i).
Definition be32 (l : list N) (i : nat) : N := be16 l i * 65536 + be16 l (i + 2).
Definition be_val (l : list N) : N := fold_left (fun acc b => acc * 256 + b) l 0.
Definition slice (l : list N) (off n : nat) : list N := firstn n (skipn off l).
Definition lo4 (b : N) : N := N.land b 15.
Definition hi4 (b : N) : N := N.land (N.shiftr b 4) 15.
Definition len (f : frame) : N := N.of_nat (length f).

(* bpf_skb_load_bytes: fails iff the range leaves the packet *)
Definition rd (f : frame) (off : N) (n : nat) : option (list N) :=
  if off + N.of_nat n <=? len f then Some (slice f (N.to_nat off) n) else None.
(* direct packet access: the range must lie below data_end (= data + lim) *)
Definition rdl (lim : N) (f : frame) (off : N) (n : nat) : option (list N) :=
  if off + N.of_nat n <=? lim then Some (slice f (N.to_nat off) n) else None.

Record eth_t := mk_eth { eh_proto : N; eh_source : N; eh_dest : N }.
Record ip4_t := mk_ip4 { i4_ver : N; i4_ihl : N; i4_tos : N; i4_proto : N; i4_saddr : N; i4_daddr : N }.
Record ip6_t := mk_ip6 { i6_b0 : N; i6_b1 : N; i6_saddr : N; i6_daddr : N }.
Record tcp_t := mk_tcp { t_sport : N; t_dport : N; t_syn : bool; t_ack : bool; t_fin : bool; t_rst : bool }.
Record udp_t := mk_udp { u_sport : N; u_dport : N }.
Record pctx := mk_pctx {
  c_eth : eth_t; c_ip4 : ip4_t; c_ip6 : ip6_t; c_icmp_type : N; c_tcp : tcp_t; c_udp : udp_t;
  c_ihl : N; c_l4proto : N; c_listener : N }.

Definition z_eth := mk_eth 0 0 0.
Definition z_ip4 := mk_ip4 0 0 0 0 0 0.
Definition z_ip6 := mk_ip6 0 0 0 0.
Definition z_tcp := mk_tcp 0 0 false false false false.
Definition z_udp := mk_udp 0 0.
Definition z_ctx := mk_pctx z_eth z_ip4 z_ip6 0 z_tcp z_udp 0 0 0.

Definition EFAULT : Z := 14%Z.
Definition ETH_P_IP : N := 0x0800.
Definition ETH_P_IPV6 : N := 0x86DD.
Definition IPPROTO_ICMPV6 : N := 58.
Definition IPPROTO_NONE : N := 59.
Definition IPPROTO_FRAGMENT : N := 44.
Definition is_extension_header (nh : N) : bool := (nh =? 0) || (nh =? 43) || (nh =? 44) || (nh =? 60).

Definition eth_of (h : list N) : eth_t := mk_eth (be16 h 12) (be_val (slice h 6 6)) (be_val (slice h 0 6)).
Definition ip4_of (h : list N) : ip4_t :=
  mk_ip4 (hi4 (byte h 0)) (lo4 (byte h 0)) (byte h 1) (byte h 9) (be32 h 12) (be32 h 16).
Definition ip4_frag (h : list N) : N := N.land (be16 h 6) 0x1FFF.
Definition ip6_of (h : list N) : ip6_t :=
  mk_ip6 (byte h 0) (byte h 1) (be_val (slice h 8 16)) (be_val (slice h 24 16)).
Definition flag (h : list N) (bit : N) : bool := N.testbit (byte h 13) bit.
(* the slow path loads the whole header; the fast path copies source, dest, seq, ack_seq, doff, rst, syn,
   ack, fin, window (ack since the repair of the missing copy) *)
Definition tcp_slow_of (h : list N) : tcp_t := mk_tcp (be16 h 0) (be16 h 2) (flag h 1) (flag h 4) (flag h 0) (flag h 2).
Definition tcp_fast_of (h : list N) : tcp_t := mk_tcp (be16 h 0) (be16 h 2) (flag h 1) (flag h 4) (flag h 0) (flag h 2).
Definition udp_of (h : list N) : udp_t := mk_udp (be16 h 0) (be16 h 2).
(* tcp_listener_l4proto, evaluated on the header in the packet on both paths *)
Definition tcp_listener (h : list N) : N := if flag h 1 && negb (flag h 4) then IPPROTO_TCP else 0.

(* the context is only defined for ret >= 0: every caller drops on a negative return without reading it *)
Inductive xres := XRet (r : Z) (l4 : N) | XDone (off nh l4 : N).

(* ----- parse_transport_fast ----- *)
Fixpoint v6_ext_fast (fuel : nat) (lim : N) (f : frame) (off nh l4 : N) : xres :=
  match fuel with
  | O => XDone off nh l4
  | S fuel' =>
      if nh =? IPPROTO_NONE then XRet (- EFAULT) l4
      else if nh =? IPPROTO_FRAGMENT then
        match rdl lim f off 8 with
        | None => XRet (-1) l4
        | Some h =>
            let nh' := byte h 0 in
            if negb (N.land (be16 h 2) 0xFFF8 =? 0) then XRet (Z.of_N PARSE_FRAGMENT) nh'
            else v6_ext_fast fuel' lim f (off + 8) nh' nh'
        end
      else if negb (is_extension_header nh) then XDone off nh l4
      else match rdl lim f off 2 with
           | None => XRet (-1) l4
           | Some h => v6_ext_fast fuel' lim f (off + (byte h 1 + 1) * 8) (byte h 0) (byte h 0)
           end
  end.

Definition data_end (pull_lin : N) (f : frame) : N :=
  let lin := N.min pull_lin (len f) in N.max lin (N.min HEADER_PULL_SIZE (len f)).

Definition parse_fast (eth : bool) (proto : N) (pull_fail : bool) (lin : N) (f : frame) : Z * pctx :=
  if pull_fail then ((-1)%Z, z_ctx) else
  let lim := data_end lin f in
  match (if eth then match rdl lim f 0 14 with None => None | Some h => Some (eth_of h, 14) end
         else Some (mk_eth proto 0 0, 0)) with
  | None => ((-1)%Z, z_ctx)
  | Some (e, off) =>
      if eh_proto e =? ETH_P_IP then
        match rdl lim f off 20 with
        | None => ((-1)%Z, z_ctx)
        | Some h =>
            if lo4 (byte h 0) <? 5 then ((- EFAULT)%Z, z_ctx)
            else
              let ip := ip4_of h in
              let c0 := mk_pctx e ip z_ip6 0 z_tcp z_udp (i4_ihl ip) (i4_proto ip) 0 in
              let l4off := off + i4_ihl ip * 4 in
              if negb (ip4_frag h =? 0) then (Z.of_N PARSE_FRAGMENT, c0)
              else if i4_proto ip =? IPPROTO_TCP then
                match rdl lim f l4off 20 with
                | None => ((-1)%Z, z_ctx)
                | Some t => (0%Z, mk_pctx e ip z_ip6 0 (tcp_fast_of t) z_udp (i4_ihl ip) (i4_proto ip) (tcp_listener t))
                end
              else if i4_proto ip =? IPPROTO_UDP then
                match rdl lim f l4off 8 with
                | None => ((-1)%Z, z_ctx)
                | Some u => (0%Z, mk_pctx e ip z_ip6 0 z_tcp (udp_of u) (i4_ihl ip) (i4_proto ip) IPPROTO_UDP)
                end
              else (1%Z, c0)
        end
      else if eh_proto e =? ETH_P_IPV6 then
        match rdl lim f off 40 with
        | None => ((-1)%Z, z_ctx)
        | Some h =>
            let ip := ip6_of h in
            match v6_ext_fast (N.to_nat IPV6_MAX_EXTENSIONS) lim f (off + 40) (byte h 6) (byte h 6) with
            | XRet r l4 => if (r <? 0)%Z then (r, z_ctx) else (r, mk_pctx e z_ip4 ip 0 z_tcp z_udp 10 l4 0)
            | XDone off' nh l4 =>
                if is_extension_header nh then ((- EFAULT)%Z, z_ctx)
                else if nh =? IPPROTO_TCP then
                  match rdl lim f off' 20 with
                  | None => ((-1)%Z, z_ctx)
                  | Some t => (0%Z, mk_pctx e z_ip4 ip 0 (tcp_fast_of t) z_udp 10 l4 (tcp_listener t))
                  end
                else if nh =? IPPROTO_UDP then
                  match rdl lim f off' 8 with
                  | None => ((-1)%Z, z_ctx)
                  | Some u => (0%Z, mk_pctx e z_ip4 ip 0 z_tcp (udp_of u) 10 l4 IPPROTO_UDP)
                  end
                else if nh =? IPPROTO_ICMPV6 then
                  match rdl lim f off' 8 with
                  | None => ((-1)%Z, z_ctx)
                  | Some i => (0%Z, mk_pctx e z_ip4 ip (byte i 0) z_tcp z_udp 10 l4 0)
                  end
                else (1%Z, mk_pctx e z_ip4 ip 0 z_tcp z_udp 10 l4 0)
            end
        end
      else (1%Z, mk_pctx e z_ip4 z_ip6 0 z_tcp z_udp 0 0 0)
  end.

(* ----- parse_transport_slow ----- *)
Fixpoint v6_ext_slow (fuel : nat) (f : frame) (off nh l4 : N) : xres :=
  match fuel with
  | O => XDone off nh l4
  | S fuel' =>
      if nh =? IPPROTO_NONE then XRet (- EFAULT) l4
      else if nh =? IPPROTO_FRAGMENT then
        match rd f off 8 with
        | None => XRet (- EFAULT) l4
        | Some h =>
            let nh' := byte h 0 in
            if negb (N.land (be16 h 2) 0xFFF8 =? 0) then XRet (Z.of_N PARSE_FRAGMENT) nh'
            else v6_ext_slow fuel' f (off + 8) nh' nh'
        end
      else if negb (is_extension_header nh) then XDone off nh l4
      else match rd f off 1 with
           | None => XRet (- EFAULT) l4
           | Some h0 =>
               match rd f (off + 1) 1 with
               | None => XRet (- EFAULT) l4
               | Some h1 => v6_ext_slow fuel' f (off + (byte h1 0 + 1) * 8) (byte h0 0) l4
               end
           end
  end.

Definition parse_slow (eth : bool) (proto : N) (f : frame) : Z * pctx :=
  match (if eth then match rd f 0 14 with None => None | Some h => Some (eth_of h, 14) end
         else Some (mk_eth proto 0 0, 0)) with
  | None => (1%Z, z_ctx)
  | Some (e, off) =>
      if eh_proto e =? ETH_P_IP then
        match rd f off 20 with
        | None => ((- EFAULT)%Z, z_ctx)
        | Some h =>
            if lo4 (byte h 0) <? 5 then ((- EFAULT)%Z, z_ctx)
            else
              let ip := ip4_of h in
              let c0 := mk_pctx e ip z_ip6 0 z_tcp z_udp (i4_ihl ip) (i4_proto ip) 0 in
              if negb (ip4_frag h =? 0) then (Z.of_N PARSE_FRAGMENT, c0)
              else
                let l4off := off + i4_ihl ip * 4 in
                if i4_proto ip =? IPPROTO_TCP then
                  match rd f l4off 20 with
                  | None => ((- EFAULT)%Z, z_ctx)
                  | Some t => (0%Z, mk_pctx e ip z_ip6 0 (tcp_slow_of t) z_udp (i4_ihl ip) (i4_proto ip) (tcp_listener t))
                  end
                else if i4_proto ip =? IPPROTO_UDP then
                  match rd f l4off 8 with
                  | None => ((- EFAULT)%Z, z_ctx)
                  | Some u => (0%Z, mk_pctx e ip z_ip6 0 z_tcp (udp_of u) (i4_ihl ip) (i4_proto ip) IPPROTO_UDP)
                  end
                else (1%Z, c0)
        end
      else if eh_proto e =? ETH_P_IPV6 then
        match rd f off 40 with
        | None => ((- EFAULT)%Z, z_ctx)
        | Some h =>
            let ip := ip6_of h in
            match v6_ext_slow (N.to_nat IPV6_MAX_EXTENSIONS) f (off + 40) (byte h 6) 0 with
            | XRet r l4 => if (r <? 0)%Z then (r, z_ctx) else (r, mk_pctx e z_ip4 ip 0 z_tcp z_udp 10 l4 0)
            | XDone off' nh _ =>
                if is_extension_header nh then ((- EFAULT)%Z, z_ctx)
                else if nh =? IPPROTO_TCP then
                  match rd f off' 20 with
                  | None => ((- EFAULT)%Z, z_ctx)
                  | Some t => (0%Z, mk_pctx e z_ip4 ip 0 (tcp_slow_of t) z_udp 10 nh (tcp_listener t))
                  end
                else if nh =? IPPROTO_UDP then
                  match rd f off' 8 with
                  | None => ((- EFAULT)%Z, z_ctx)
                  | Some u => (0%Z, mk_pctx e z_ip4 ip 0 z_tcp (udp_of u) 10 nh IPPROTO_UDP)
                  end
                else if nh =? IPPROTO_ICMPV6 then
                  match rd f off' 8 with
                  | None => ((- EFAULT)%Z, z_ctx)
                  | Some i => (0%Z, mk_pctx e z_ip4 ip (byte i 0) z_tcp z_udp 10 nh 0)
                  end
                else (1%Z, mk_pctx e z_ip4 ip 0 z_tcp z_udp 10 nh 0)
            end
        end
      else (1%Z, mk_pctx e z_ip4 z_ip6 0 z_tcp z_udp 0 0 0)
  end.

(* parse_transport: fast first, slow on -1 *)
Definition parse_transport (eth : bool) (proto : N) (pull_fail : bool) (lin : N) (f : frame) : Z * pctx :=
  let r := parse_fast eth proto pull_fail lin f in
  if (fst r =? -1)%Z then parse_slow eth proto f else r.

(* ----- get_tuples / parse_packet ----- *)
Definition V4MAPPED : N := 0xffff00000000.
Definition get_tuples (c : pctx) : fkey * N :=
  let v4 := i4_ver (c_ip4 c) =? 4 in
  let sip := if v4 then V4MAPPED + i4_saddr (c_ip4 c) else i6_saddr (c_ip6 c) in
  let dip := if v4 then V4MAPPED + i4_daddr (c_ip4 c) else i6_daddr (c_ip6 c) in
  let dscp := if v4 then N.shiftr (N.land (i4_tos (c_ip4 c)) 0xfc) 2
              else N.lor (N.shiftl (N.land (i6_b0 (c_ip6 c)) 0x0f) 2) (N.shiftr (i6_b1 (c_ip6 c)) 6) in
  let tcp := c_l4proto c =? IPPROTO_TCP in
  (mk_fkey sip dip (if tcp then t_sport (c_tcp c) else u_sport (c_udp c))
           (if tcp then t_dport (c_tcp c) else u_dport (c_udp c)) (c_l4proto c), dscp).

Record ppkt := mk_ppkt { pp_hproto : N; pp_hsource : N; pp_key : fkey; pp_dscp : N; pp_tcp : tcp_t;
                         pp_l4 : N; pp_listener : N }.
Definition parse_packet (r : Z * pctx) : Z * option ppkt :=
  let '(ret, c) := r in
  if (ret <? 0)%Z then (ret, None)
  else if c_l4proto c =? IPPROTO_ICMPV6 then (1%Z, None)
  else let '(k, dscp) := get_tuples c in
       (ret, Some (mk_ppkt (eh_proto (c_eth c)) (eh_source (c_eth c)) k dscp (c_tcp c) (c_l4proto c) (c_listener c))).

(* the packet of the specification: classification by a parse result *)
Definition z_key := mk_fkey 0 0 0 0 0.
Definition classify (r : Z * pctx) : packet :=
  let '(ret, c) := r in
  if (ret <? 0)%Z then mk_packet PMalformed z_key 0 0 false false false false
  else if (0 <? ret)%Z || (c_l4proto c =? IPPROTO_ICMPV6) then mk_packet PIgnored z_key 0 0 false false false false
  else let '(k, dscp) := get_tuples c in
       if c_l4proto c =? IPPROTO_TCP
       then mk_packet PTcp k dscp (eh_source (c_eth c)) (t_syn (c_tcp c)) (t_ack (c_tcp c)) (t_fin (c_tcp c)) (t_rst (c_tcp c))
       else mk_packet PUdp k dscp (eh_source (c_eth c)) false false false false.

(* what any hook reads of a parse result *)
Definition proj (r : Z * pctx) : Z * (packet * N * N * N) :=
  let '(ret, c) := r in
  if (ret =? 0)%Z then (ret, (classify r, c_l4proto c, c_listener c, c_icmp_type c))
  else (ret, (classify r, 0, 0, 0)).
(* the same without the TCP ack flag *)
Definition drop_ack (p : packet) : packet :=
  mk_packet (p_class p) (p_key p) (p_dscp p) (p_mac p) (p_syn p) false (p_fin p) (p_rst p).
Definition proj_noack (r : Z * pctx) : Z * (packet * N * N * N) :=
  let '(ret, (p, a, b, c)) := proj r in (ret, (drop_ack p, a, b, c)).

(* ---------------------------------------------------------------------------------------------- *)
(* 2. kernel state                                                                                 *)
(* ---------------------------------------------------------------------------------------------- *)
Record cstate := mk_cs { cs_wan_in : bool; cs_state : N; cs_last : N; cs_mark : N; cs_out : N; cs_must : N;
                         cs_dscp : N; cs_has : N; cs_mac : N; cs_pname : N; cs_pid : N }.
Record rresult := mk_rr { rr_mark : N; rr_must : N; rr_mac : N; rr_out : N; rr_pname : N; rr_pid : N; rr_dscp : N }.
Record hentry := mk_he { he_last : N; he_res : rresult }.
Record kstate := mk_ks { ks_conn : list (fkey * cstate); ks_hand : list (fkey * hentry) }.

Record cargs := mk_args { a_rt : option (N * N * N); a_mac : option N; a_pname : option N; a_dscp : N; a_pid : N }.
Definition no_args : cargs := mk_args None None None 0 0.

Definition sub64 (a b : N) : N := (a + TWO64 - b mod TWO64) mod TWO64.
Definition gt (x y : N) : bool := y <? x.

Definition tcp_conn_state_expired (s : cstate) (now : N) : bool :=
  gt (sub64 now (cs_last s))
     (if cs_state s =? TCP_STATE_CLOSING then TCP_CONN_STATE_CLOSING_TIMEOUT_NS else TCP_CONN_STATE_ESTABLISHED_TIMEOUT_NS).
Definition udp_conn_state_expired (s : cstate) (now : N) : bool :=
  gt (sub64 now (cs_last s)) UDP_CONN_STATE_TIMEOUT_NS.

Definition set_last (s : cstate) (now : N) : cstate :=
  mk_cs (cs_wan_in s) (cs_state s) now (cs_mark s) (cs_out s) (cs_must s) (cs_dscp s) (cs_has s) (cs_mac s) (cs_pname s) (cs_pid s).
Definition set_state (s : cstate) (x : N) : cstate :=
  mk_cs (cs_wan_in s) x (cs_last s) (cs_mark s) (cs_out s) (cs_must s) (cs_dscp s) (cs_has s) (cs_mac s) (cs_pname s) (cs_pid s).
(* "Update routing if provided": mac / pname only when given, pid always, then the meta word *)
Definition apply_routing (s : cstate) (a : cargs) : cstate :=
  match a_rt a with
  | None => s
  | Some (o, m, mu) =>
      mk_cs (cs_wan_in s) (cs_state s) (cs_last s) m o mu (a_dscp a) 1
            (match a_mac a with Some x => x | None => cs_mac s end)
            (match a_pname a with Some x => x | None => cs_pname s end) (a_pid a)
  end.
Definition new_state (wan_in : bool) (now : N) (a : cargs) : cstate :=
  match a_rt a with
  | None => mk_cs wan_in TCP_STATE_ACTIVE now 0 0 0 (a_dscp a) 0 0 0 (a_pid a)
  | Some (o, m, mu) =>
      mk_cs wan_in TCP_STATE_ACTIVE now m o mu (a_dscp a) 1
            (match a_mac a with Some x => x | None => 0 end)
            (match a_pname a with Some x => x | None => 0 end) (a_pid a)
  end.

(* __mark_tcp_seen: returns the entry the returned pointer designates and the map *)
Definition mark_tcp_seen (m : list (fkey * cstate)) (k : fkey) (wan_in new_syn fin_rst : bool) (a : cargs) (now : N)
  : option cstate * list (fkey * cstate) :=
  let '(st, m1) :=
    match tab_get m k with
    | Some s => if new_syn then (None, tab_del m k)
                else if tcp_conn_state_expired s now then (None, tab_del m k) else (Some s, m)
    | None => (None, m)
    end in
  match st with
  | Some s =>
      let s1 := if gt (sub64 now (cs_last s)) TCP_CONN_STATE_UPDATE_INTERVAL_NS then set_last s now else s in
      let s2 := if fin_rst then set_state s1 TCP_STATE_CLOSING else s1 in
      let s3 := apply_routing s2 a in
      (Some s3, tab_set m1 k s3)
  | None =>
      if new_syn then let ns := new_state wan_in now a in (Some ns, tab_set m1 k ns)
      else (None, m1)
  end.

Definition mark_udp_seen (m : list (fkey * cstate)) (k : fkey) (wan_in : bool) (a : cargs) (now : N)
  : cstate * list (fkey * cstate) :=
  let '(st, m1) :=
    match tab_get m k with
    | Some s => if udp_conn_state_expired s now then (None, tab_del m k) else (Some s, m)
    | None => (None, m)
    end in
  match st with
  | Some s =>
      let s1 := if gt (sub64 now (cs_last s)) UDP_CONN_STATE_UPDATE_INTERVAL_NS then set_last s now else s in
      let s3 := apply_routing s1 a in
      (s3, tab_set m1 k s3)
  | None => let ns := new_state wan_in now a in (ns, tab_set m1 k ns)
  end.

Definition tcp_flags_new (t : tcp_t) : bool := t_syn t && negb (t_ack t).
Definition tcp_flags_finrst (t : tcp_t) : bool := t_fin t || t_rst t.
Definition is_short_lived_udp_traffic (k : fkey) : bool :=
  (k_proto k =? IPPROTO_UDP) && ((k_dport k =? 53) || (k_sport k =? 53)).

(* wan_outbound_is_alive *)
Definition wan_outbound_is_alive (e : env) (outbound l4proto dport : N) : bool :=
  if dport =? 53 then true
  else
    let domain_idx := if l4proto =? IPPROTO_UDP then (if dport =? 53 then 1 else 2) else 0 in
    let ip_idx := if e_v4 e then 0 else 1 in
    let key := outbound * 6 + domain_idx * 2 + ip_idx in
    if key <? CONNECTIVITY_ENTRIES then negb (alist_get (e_alive e) key =? 0) else true.

(* pid_is_control_plane *)
Definition pid_is_control_plane (P : param) (e : env) : bool :=
  match e_proc e with
  | Some (pid, _) => if P_cp_pid P =? 0 then false else pid =? P_cp_pid P
  | None =>
      if negb (P_sock_mark P =? 0) && (e_skb_mark e =? P_sock_mark P) then true
      else N.land (e_skb_mark e) 0x100 =? 0x100
  end.
Definition bpf_sock_is_dae_socket (P : param) (sk_mark : N) : bool :=
  if P_sock_mark P =? 0 then false else sk_mark =? P_sock_mark P.

(* hook results *)
Definition TC_ACT_OK : N := 0.
Definition TC_ACT_SHOT : N := 2.
Definition TC_ACT_PIPE : N := 3.
Definition TC_ACT_REDIRECT : N := 7.
Record hres := mk_hres {
  h_act : N;
  h_mark : option N;          (* value written to skb->mark *)
  h_cb : option (N * N);      (* cb[0], cb[1] *)
  h_peer : bool;              (* bpf_redirect_peer rather than bpf_redirect *)
  h_query : option rquery;    (* the call to route(), if any *)
  h_st : kstate }.
Definition ret_act (a : N) (mk : option N) (q : option rquery) (st : kstate) : hres := mk_hres a mk None false q st.

Definition unpack (w : Z) : N * N * N :=
  let n := Z.to_N w in (N.land n 0xff, N.shiftr n 8 mod 0x100000000, N.land (N.shiftr n 40) 1).

Definition rquery_of (e : env) (pk : ppkt) (wan : bool) (pname : N) : rquery :=
  mk_rq (if pp_l4 pk =? IPPROTO_TCP then 1 else 2) (if e_v4 e then 1 else 2) pname (pp_dscp pk)
        (if wan then 1 else 0) (pp_hsource pk)
        (k_sport (pp_key pk)) (k_dport (pp_key pk)) (k_sip (pp_key pk)) (k_dip (pp_key pk)).

(* redirect_lan_packet_to_control_plane *)
Definition redirect_lan (P : param) (e : env) (pk : ppkt) (meta : N * N * N * N) (mk : option N) (q : option rquery)
           (st : kstate) : hres :=
  let '(o, m, mu, dscp) := meta in
  let he := mk_he (e_now e) (mk_rr m mu (pp_hsource pk) o 0 0 dscp) in
  mk_hres TC_ACT_REDIRECT mk (Some (TPROXY_MARK, pp_listener pk)) (P_peer P) q
          (mk_ks (ks_conn st) (tab_set (ks_hand st) (pp_key pk) he)).

(* ----- do_tproxy_lan_ingress ----- *)
Definition lan_ingress (P : param) (e : env) (st : kstate) (pr : Z * option ppkt) : hres :=
  match pr with
  | (ret, None) => if (ret <? 0)%Z then ret_act TC_ACT_SHOT None None st else ret_act TC_ACT_OK None None st
  | (ret, Some pk) =>
    if negb (ret =? 0)%Z then (if (ret <? 0)%Z then ret_act TC_ACT_SHOT None None st else ret_act TC_ACT_OK None None st)
    else
    let k := pp_key pk in
    let now := e_now e in
    if (pp_l4 pk =? IPPROTO_TCP) && negb (tcp_flags_new (pp_tcp pk)) then
      let '(ts, conn1) := mark_tcp_seen (ks_conn st) k false (tcp_flags_new (pp_tcp pk)) (tcp_flags_finrst (pp_tcp pk)) no_args now in
      let st1 := mk_ks conn1 (ks_hand st) in
      match ts with
      | None => ret_act TC_ACT_OK None None st1
      | Some s =>
          if cs_has s =? 0 then ret_act TC_ACT_OK None None st1
          else if cs_out s =? OUTBOUND_DIRECT then ret_act TC_ACT_OK (Some (cs_mark s)) None st1
          else if cs_out s =? OUTBOUND_BLOCK then ret_act TC_ACT_SHOT None None st1
          else if negb (wan_outbound_is_alive e (cs_out s) (pp_l4 pk) (k_dport k)) then ret_act TC_ACT_SHOT None None st1
          else redirect_lan P e pk (cs_out s, cs_mark s, cs_must s, cs_dscp s) None None st1
      end
    else
      (* routing for a new connection *)
      let tcp := pp_l4 pk =? IPPROTO_TCP in
      let step1 : option hres * option cstate * list (fkey * cstate) :=
        if tcp then
          let '(ts, conn1) := mark_tcp_seen (ks_conn st) k false (tcp_flags_new (pp_tcp pk)) (tcp_flags_finrst (pp_tcp pk))
                                            (mk_args None None None (pp_dscp pk) 0) now in
          (None, ts, conn1)
        else if negb (is_short_lived_udp_traffic k) then
          let '(us, conn1) := mark_udp_seen (ks_conn st) k false (mk_args None None None (pp_dscp pk) 0) now in
          let st1 := mk_ks conn1 (ks_hand st) in
          if cs_wan_in us then (Some (ret_act TC_ACT_OK None None st1), Some us, conn1)
          else if negb (cs_has us =? 0) then
            if cs_out us =? OUTBOUND_DIRECT then (Some (ret_act TC_ACT_OK (Some (cs_mark us)) None st1), Some us, conn1)
            else if cs_out us =? OUTBOUND_BLOCK then (Some (ret_act TC_ACT_SHOT None None st1), Some us, conn1)
            else if negb (wan_outbound_is_alive e (cs_out us) (pp_l4 pk) (k_dport k))
                 then (Some (ret_act TC_ACT_SHOT None None st1), Some us, conn1)
            else
              let us' := set_last us now in
              (Some (redirect_lan P e pk (cs_out us, cs_mark us, cs_must us, cs_dscp us) None None
                                  (mk_ks (tab_set conn1 k us') (ks_hand st))), Some us, conn1)
          else (None, Some us, conn1)
        else (None, None, ks_conn st) in
      match step1 with
      | (Some r, _, _) => r
      | (None, cur, conn1) =>
          let st1 := mk_ks conn1 (ks_hand st) in
          (* socket lookup before routing *)
          let local :=
            if tcp then
              if negb (t_syn (pp_tcp pk) && negb (t_ack (pp_tcp pk))) then
                match e_sock e with
                | Some (smark, sstate) => negb (bpf_sock_is_dae_socket P smark) && (sstate =? 10)
                | None => false
                end
              else false
            else match e_sock e with
                 | Some (smark, _) => negb (bpf_sock_is_dae_socket P smark)
                 | None => false
                 end in
          if local then ret_act TC_ACT_OK None None st1
          else
            let q := rquery_of e pk false 0 in
            let w := e_route e q in
            if (w <? 0)%Z then ret_act TC_ACT_SHOT None (Some q) st1
            else
              let '(outbound, mark, must) := unpack w in
              (* cache the routing in the conn state *)
              let conn2 :=
                if (pp_l4 pk =? IPPROTO_UDP) && is_short_lived_udp_traffic k then conn1
                else match cur with
                     | Some s =>
                         tab_set conn1 k (mk_cs (cs_wan_in s) (cs_state s) (cs_last s) mark outbound must (pp_dscp pk) 1
                                                (pp_hsource pk) (cs_pname s) (cs_pid s))
                     | None => conn1
                     end in
              let st2 := mk_ks conn2 (ks_hand st) in
              if tcp && (match cur with None => true | Some _ => false end) then
                (* fail-closed: TCP without conn state *)
                if (outbound =? OUTBOUND_DIRECT) && (mark =? 0) then ret_act TC_ACT_OK (Some mark) (Some q) st2
                else ret_act TC_ACT_SHOT None (Some q) st2
              else if outbound =? OUTBOUND_DIRECT then ret_act TC_ACT_OK (Some mark) (Some q) st2
              else if outbound =? OUTBOUND_BLOCK then ret_act TC_ACT_SHOT None (Some q) st2
              else if negb (wan_outbound_is_alive e outbound (pp_l4 pk) (k_dport k)) then ret_act TC_ACT_SHOT None (Some q) st2
              else redirect_lan P e pk (outbound, mark, must, pp_dscp pk) None (Some q) st2
      end
  end.

(* ----- do_tproxy_wan_egress ----- *)
Definition needs_control_plane (outbound mark : N) : bool := negb ((outbound =? OUTBOUND_DIRECT) && (mark =? 0)).

Definition wan_tail (e : env) (pk : ppkt) (listener : N) (outbound mark must hmac hpname hpid : N) (set_mark : bool)
           (q : option rquery) (st : kstate) : hres :=
  if negb (needs_control_plane outbound mark) then ret_act TC_ACT_OK (if set_mark then Some mark else None) q st
  else if outbound =? OUTBOUND_BLOCK then ret_act TC_ACT_SHOT None q st
  else if negb (wan_outbound_is_alive e outbound (pp_l4 pk) (k_dport (pp_key pk))) then ret_act TC_ACT_SHOT None q st
  else
    let he := mk_he (e_now e) (mk_rr mark must hmac outbound hpname hpid (pp_dscp pk)) in
    mk_hres TC_ACT_REDIRECT None (Some (TPROXY_MARK, listener)) false q
            (mk_ks (ks_conn st) (tab_set (ks_hand st) (pp_key pk) he)).

Definition wan_egress_tcp (P : param) (e : env) (st : kstate) (pk : ppkt) : hres :=
  let k := pp_key pk in
  let now := e_now e in
  let listener := if tcp_flags_new (pp_tcp pk) then IPPROTO_TCP else 0 in
  if tcp_flags_new (pp_tcp pk) then
    if pid_is_control_plane P e then ret_act TC_ACT_OK None None st
    else
      let pname := match e_proc e with Some (_, nm) => nm | None => 0 end in
      let q := rquery_of e pk true pname in
      let w := e_route e q in
      if (w <? 0)%Z then ret_act TC_ACT_SHOT None (Some q) st
      else
        let '(outbound, mark, must) := unpack w in
        let pid_val := match e_proc e with Some (pid, _) => pid | None => 0 end in
        let rt := if (outbound =? OUTBOUND_DIRECT) && (mark =? 0) && (must =? 0) then None else Some (outbound, mark, must) in
        let a := mk_args rt (Some (pp_hsource pk)) (match e_proc e with Some (_, nm) => Some nm | None => None end)
                         (pp_dscp pk) pid_val in
        let '(tc, conn1) := mark_tcp_seen (ks_conn st) k false true (tcp_flags_finrst (pp_tcp pk)) a now in
        let st1 := mk_ks conn1 (ks_hand st) in
        match tc with
        | None => if (outbound =? OUTBOUND_DIRECT) && (mark =? 0) then ret_act TC_ACT_OK None (Some q) st1
                  else ret_act TC_ACT_SHOT None (Some q) st1
        | Some _ => wan_tail e pk listener outbound mark must (pp_hsource pk) pname pid_val true (Some q) st1
        end
  else
    let '(tc, conn1) := mark_tcp_seen (ks_conn st) k false false (tcp_flags_finrst (pp_tcp pk)) no_args now in
    let st1 := mk_ks conn1 (ks_hand st) in
    match tc with
    | None => ret_act TC_ACT_OK None None st1
    | Some s =>
        if cs_has s =? 0 then ret_act TC_ACT_OK None None st1
        else wan_tail e pk listener (cs_out s) (cs_mark s) (cs_must s) (cs_mac s) (cs_pname s) (cs_pid s) true None st1
    end.

Definition wan_egress_udp (P : param) (e : env) (st : kstate) (pk : ppkt) : hres :=
  let k := pp_key pk in
  let now := e_now e in
  if pid_is_control_plane P e then ret_act TC_ACT_OK None None st
  else
    let '(early, cur, conn1) :=
      if negb (is_short_lived_udp_traffic k) then
        let '(us, c1) := mark_udp_seen (ks_conn st) k false no_args now in
        if cs_wan_in us then (Some (ret_act TC_ACT_OK None None (mk_ks c1 (ks_hand st))), Some us, c1)
        else (None, Some us, c1)
      else (None, None, ks_conn st) in
    match early with
    | Some r => r
    | None =>
        let st1 := mk_ks conn1 (ks_hand st) in
        let cached := match cur with Some us => negb (cs_has us =? 0) | None => false end in
        let pname := match e_proc e with Some (_, nm) => nm | None => 0 end in
        let q := rquery_of e pk true pname in
        let w := if cached then 0%Z else e_route e q in
        let qo := if cached then None else Some q in
        if (w <? 0)%Z then ret_act TC_ACT_SHOT None qo st1
        else
          let '(outbound, mark, must, mac, hpname, hpid) :=
            match cur with
            | Some us =>
                if cached then (cs_out us, cs_mark us, cs_must us, cs_mac us, cs_pname us, cs_pid us)
                else let '(o, m, mu) := unpack w in
                     (o, m, mu, pp_hsource pk, pname, match e_proc e with Some (pid, _) => pid | None => 0 end)
            | None => let '(o, m, mu) := unpack w in
                      (o, m, mu, pp_hsource pk, pname, match e_proc e with Some (pid, _) => pid | None => 0 end)
            end in
          (* fast_path_skip_routing: *)
          let us1o :=
            match cur with
            | Some us =>
                if negb (k_dport k =? 53) then
                  Some (if negb (outbound =? OUTBOUND_DIRECT) || negb (mark =? 0) || negb (must =? 0) then
                          mk_cs (cs_wan_in us) (cs_state us) (cs_last us) mark outbound must (pp_dscp pk) 1 mac
                                (match e_proc e with Some (_, nm) => nm | None => cs_pname us end)
                                (match e_proc e with Some (pid, _) => pid | None => cs_pid us end)
                        else us)
                else None
            | None => None
            end in
          let conn2 := match us1o with Some us1 => tab_set conn1 k (set_last us1 now) | None => conn1 end in
          (* on the cached path handoff_pname POINTS into the conn state (just rewritten above), while
             handoff_pid was copied before the rewrite *)
          let hpname' := if cached then match us1o with Some us1 => cs_pname us1 | None => hpname end else hpname in
          wan_tail e pk IPPROTO_UDP outbound mark must mac hpname' hpid false qo (mk_ks conn2 (ks_hand st))
    end.

Definition wan_egress (P : param) (e : env) (st : kstate) (pr : Z * option ppkt) : hres :=
  if negb (e_ingress_if e =? 0) then ret_act TC_ACT_OK None None st
  else
  match pr with
  | (ret, None) => if (ret <? 0)%Z then ret_act TC_ACT_SHOT None None st else ret_act TC_ACT_OK None None st
  | (ret, Some pk) =>
    if negb (ret =? 0)%Z then (if (ret <? 0)%Z then ret_act TC_ACT_SHOT None None st else ret_act TC_ACT_OK None None st)
    else if pp_l4 pk =? IPPROTO_TCP then wan_egress_tcp P e st pk
    else if pp_l4 pk =? IPPROTO_UDP then wan_egress_udp P e st pk
    else ret_act TC_ACT_OK None None st
  end.

(* ----- do_tproxy_wan_ingress / do_tproxy_lan_egress (they work on parse_transport's result) ----- *)
Definition reverse_hook (lan_egress : bool) (e : env) (st : kstate) (r : Z * pctx) : hres :=
  let '(ret, c) := r in
  if negb (ret =? 0)%Z then (if (ret <? 0)%Z then ret_act TC_ACT_SHOT None None st else ret_act TC_ACT_OK None None st)
  else if lan_egress && (e_ingress_if e =? 0) && (c_l4proto c =? IPPROTO_ICMPV6) && (c_icmp_type c =? NDP_REDIRECT)
  then ret_act TC_ACT_SHOT None None st
  else if c_l4proto c =? IPPROTO_TCP then
    let rk := rev_key (fst (get_tuples c)) in
    let '(_, conn1) := mark_tcp_seen (ks_conn st) rk true (tcp_flags_new (c_tcp c)) (tcp_flags_finrst (c_tcp c)) no_args (e_now e) in
    ret_act TC_ACT_PIPE None None (mk_ks conn1 (ks_hand st))
  else if c_l4proto c =? IPPROTO_UDP then
    if (u_sport (c_udp c) =? 53) || (u_dport (c_udp c) =? 53) then ret_act TC_ACT_PIPE None None st
    else
      let rk := rev_key (fst (get_tuples c)) in
      let '(_, conn1) := mark_udp_seen (ks_conn st) rk true no_args (e_now e) in
      ret_act TC_ACT_PIPE None None (mk_ks conn1 (ks_hand st))
  else ret_act TC_ACT_PIPE None None st.

(* ---------------------------------------------------------------------------------------------- *)
(* 3. the records as bytes, and the Go side that reads them                                        *)
(* ---------------------------------------------------------------------------------------------- *)
Fixpoint le_bytes (w : nat) (n : N) : list N :=
  match w with O => [] | S w' => (n mod 256) :: le_bytes w' (n / 256) end.
Fixpoint be_bytes (w : nat) (n : N) : list N :=
  match w with O => [] | S w' => ((n / 256 ^ N.of_nat w') mod 256) :: be_bytes w' n end.
Fixpoint le_val (l : list N) : N := match l with [] => 0 | b :: r => b + 256 * le_val r end.
Definition zeros (n : nat) : list N := repeat 0 n.
Definition b2n (b : bool) : N := if b then 1 else 0.

(* struct conn_state as clang lays it out (offsets re-checked against the compiler on every run):
   0 is_wan_ingress_direction, 1 state, 2..7 pad, 8 last_seen_ns, 16 mark, 20 outbound, 21 must, 22 dscp,
   23 has_routing, 24 mac[6], 30 padding[2], 32 pname[16], 48 pid, 52..55 tail pad *)
Definition c_conn_bytes (s : cstate) : list N :=
  [b2n (cs_wan_in s); cs_state s] ++ zeros 6 ++ le_bytes 8 (cs_last s) ++ le_bytes 4 (cs_mark s) ++
  [cs_out s; cs_must s; cs_dscp s; cs_has s] ++ be_bytes 6 (cs_mac s) ++ zeros 2 ++ be_bytes 16 (cs_pname s) ++
  le_bytes 4 (cs_pid s) ++ zeros 4.
(* struct routing_handoff_entry: 0 last_seen_ns; result at 8: 0 mark, 4 must, 5 mac[6], 11 outbound,
   12 pname[16], 28 pid, 32 dscp, 33..35 pad  -> 48 bytes *)
Definition c_rr_bytes (r : rresult) : list N :=
  le_bytes 4 (rr_mark r) ++ [rr_must r] ++ be_bytes 6 (rr_mac r) ++ [rr_out r] ++ be_bytes 16 (rr_pname r) ++
  le_bytes 4 (rr_pid r) ++ [rr_dscp r] ++ zeros 3.
Definition c_hand_bytes (h : hentry) : list N := le_bytes 8 (he_last h) ++ c_rr_bytes (he_res h) ++ zeros 4.
(* struct tuples_key: sip[16] dip[16] sport dport (network order) l4proto pad[3] -> 40 bytes *)
Definition c_key_bytes (k : fkey) : list N :=
  be_bytes 16 (k_sip k) ++ be_bytes 16 (k_dip k) ++ be_bytes 2 (k_sport k) ++ be_bytes 2 (k_dport k) ++ [k_proto k] ++ zeros 3.

(* Go: bpfTuplesKeyFromAddrPorts on converged addresses (As16 = 16 big-endian bytes; Htons(port) stored
   in host order = the two bytes in network order) *)
Definition go_key_bytes (sip dip sport dport l4proto : N) : list N :=
  be_bytes 16 sip ++ be_bytes 16 dip ++ be_bytes 2 sport ++ be_bytes 2 dport ++ [l4proto] ++ zeros 3.

(* Go: bpfConnState / bpfRoutingHandoffEntry field reads by their Go offsets *)
Definition go_conn_decode (b : list N) : cstate :=
  mk_cs (negb (byte b 0 =? 0)) (byte b 1) (le_val (slice b 8 8)) (le_val (slice b 16 4)) (byte b 20) (byte b 21)
        (byte b 22) (byte b 23) (be_val (slice b 24 6)) (be_val (slice b 32 16)) (le_val (slice b 48 4)).
Definition go_hand_decode (b : list N) : hentry :=
  mk_he (le_val (slice b 0 8))
        (mk_rr (le_val (slice b 8 4)) (byte b 12) (be_val (slice b 13 6)) (byte b 19) (be_val (slice b 20 16))
               (le_val (slice b 36 4)) (byte b 40)).

(* routingHandoffExpired *)
Definition routing_handoff_expired (now last : N) : bool :=
  if last =? 0 then true else if now <=? last then false else gt (now - last) GO_HANDOFF_TIMEOUT_NS.

(* RetrieveRoutingResult on decoded records: conn_state first (needs has_routing), then the handoff *)
Definition go_retrieve_rec (cs : option cstate) (he : option hentry) (now : N) : option frec :=
  match (match cs with
         | Some s => if cs_has s =? 0 then None
                     else Some (mk_frec (mk_dec (cs_out s) (cs_mark s) (cs_must s)) (cs_dscp s) (cs_mac s) (cs_pname s) (cs_pid s))
         | None => None
         end) with
  | Some r => Some r
  | None =>
      match he with
      | Some h => if routing_handoff_expired now (he_last h) then None
                  else let r := he_res h in
                       Some (mk_frec (mk_dec (rr_out r) (rr_mark r) (rr_must r)) (rr_dscp r) (rr_mac r) (rr_pname r) (rr_pid r))
      | None => None
      end
  end.
Definition go_retrieve (st : kstate) (k : fkey) (now : N) : option frec :=
  go_retrieve_rec (tab_get (ks_conn st) k) (tab_get (ks_hand st) k) now.
(* the same through the bytes: C writes, Go reads *)
Definition go_retrieve_bytes (st : kstate) (k : fkey) (now : N) : option frec :=
  go_retrieve_rec (option_map (fun s => go_conn_decode (c_conn_bytes s)) (tab_get (ks_conn st) k))
                  (option_map (fun h => go_hand_decode (c_hand_bytes h)) (tab_get (ks_hand st) k)) now.

(* ---------------------------------------------------------------------------------------------- *)
(* 4. observation of a hook result as a verdict of the specification; abstraction of the state      *)
(* ---------------------------------------------------------------------------------------------- *)
Definition observe (r : hres) (k : fkey) (now : N) : verdict :=
  if h_act r =? TC_ACT_SHOT then Drop
  else if h_act r =? TC_ACT_REDIRECT then
    match h_cb r with
    | Some (_, l) => match go_retrieve (h_st r) k now with
                     | Some rec => ToDae (h_peer r) l rec
                     | None => Lost (h_peer r) l
                     end
    | None => Lost (h_peer r) 0
    end
  else Pass (h_mark r).

Definition abs_cs (s : cstate) : fentry :=
  mk_fentry (cs_wan_in s) (cs_state s =? TCP_STATE_CLOSING) (cs_last s)
            (if cs_has s =? 0 then None else Some (mk_dec (cs_out s) (cs_mark s) (cs_must s)))
            (cs_dscp s) (cs_mac s) (cs_pname s) (cs_pid s).
Definition abs_conn (m : list (fkey * cstate)) : ftab := map (fun kv => (fst kv, abs_cs (snd kv))) m.

(* sequences: one packet at one hook *)
Inductive hook := HLanIngress | HWanEgress | HWanIngress | HLanEgress.
Record step := mk_step { s_hook : hook; s_env : env; s_eth : bool; s_proto : N; s_pull_fail : bool; s_lin : N; s_frame : frame }.
Definition run_hook (P : param) (st : kstate) (s : step) : hres :=
  let r := parse_transport (s_eth s) (s_proto s) (s_pull_fail s) (s_lin s) (s_frame s) in
  match s_hook s with
  | HLanIngress => lan_ingress P (s_env s) st (parse_packet r)
  | HWanEgress => wan_egress P (s_env s) st (parse_packet r)
  | HWanIngress => reverse_hook false (s_env s) st r
  | HLanEgress => reverse_hook true (s_env s) st r
  end.

(* ---------------------------------------------------------------------------------------------- *)
(* 5. predicates used by the theorems (definitions only)                                           *)
(* ---------------------------------------------------------------------------------------------- *)
(* a parse result is coherent: supported transport, and the listener hint agrees with the copied flags *)
Definition wf_parse (r : Z * pctx) : Prop :=
  fst r = 0%Z ->
  let c := snd r in
  (c_l4proto c = IPPROTO_TCP \/ c_l4proto c = IPPROTO_UDP \/ c_l4proto c = IPPROTO_ICMPV6) /\
  (c_l4proto c = IPPROTO_TCP -> c_listener c = (if tcp_flags_new (c_tcp c) then IPPROTO_TCP else 0)) /\
  (c_l4proto c = IPPROTO_UDP -> c_listener c = IPPROTO_UDP).
(* stateless datagrams are never tracked *)
Definition inv (st : kstate) : Prop :=
  forall k, is_short_lived_udp_traffic k = true -> tab_get (ks_conn st) k = None.
Definition parse_paths_agree_stmt (pj : Z * pctx -> Z * (packet * N * N * N)) : Prop :=
  forall eth proto pf lin f, fst (parse_fast eth proto pf lin f) <> (-1)%Z ->
    pj (parse_fast eth proto pf lin f) = pj (parse_slow eth proto f).
(* field ranges of the stored records (what fits the C fields) *)
Definition wf_cstate (s : cstate) : Prop :=
  cs_state s < 256 /\ cs_last s < TWO64 /\ cs_mark s < 0x100000000 /\ cs_out s < 256 /\ cs_must s < 256 /\
  cs_dscp s < 256 /\ cs_has s < 256 /\ cs_mac s < 0x1000000000000 /\ cs_pname s < 2 ^ 128 /\ cs_pid s < 0x100000000.
Definition wf_hentry (h : hentry) : Prop :=
  he_last h < TWO64 /\ rr_mark (he_res h) < 0x100000000 /\ rr_must (he_res h) < 256 /\
  rr_mac (he_res h) < 0x1000000000000 /\ rr_out (he_res h) < 256 /\ rr_pname (he_res h) < 2 ^ 128 /\
  rr_pid (he_res h) < 0x100000000 /\ rr_dscp (he_res h) < 256.

(* ---------------------------------------------------------------------------------------------- *)
(* 6. dae's recovery of the record as a step on the maps                                           *)
(* ---------------------------------------------------------------------------------------------- *)
(* RetrieveRoutingResult with its effect on the maps: retrieveRoutingHandoffResult deletes an entry it finds
   expired, and nothing else.  (dae may handle a redirected packet after further packets of the same tuple
   were redirected: every such recovery has to find the record.) *)
Definition frec_of_rr (r : rresult) : frec :=
  mk_frec (mk_dec (rr_out r) (rr_mark r) (rr_must r)) (rr_dscp r) (rr_mac r) (rr_pname r) (rr_pid r).
Definition go_recover (st : kstate) (k : fkey) (now : N) : option frec * kstate :=
  match (match tab_get (ks_conn st) k with
         | Some s => if cs_has s =? 0 then None
                     else Some (mk_frec (mk_dec (cs_out s) (cs_mark s) (cs_must s)) (cs_dscp s) (cs_mac s) (cs_pname s) (cs_pid s))
         | None => None
         end) with
  | Some r => (Some r, st)
  | None =>
      match tab_get (ks_hand st) k with
      | Some h => if routing_handoff_expired now (he_last h)
                  then (None, mk_ks (ks_conn st) (tab_del (ks_hand st) k))
                  else (Some (frec_of_rr (he_res h)), st)
      | None => (None, st)
      end
  end.
(* a variant that consumes the handoff record when it is read (NOT what the code does; see C03_Props) *)
Definition go_recover_consuming (st : kstate) (k : fkey) (now : N) : option frec * kstate :=
  match fst (go_recover st k now), tab_get (ks_conn st) k with
  | Some r, None => (Some r, mk_ks (ks_conn st) (tab_del (ks_hand st) k))
  | _, _ => go_recover st k now
  end.
Fixpoint recover_many (rec : kstate -> fkey -> N -> option frec * kstate) (st : kstate) (ks : list fkey) (now : N)
  : list (option frec) * kstate :=
  match ks with
  | [] => ([], st)
  | k :: r => let '(x, st1) := rec st k now in let '(xs, st2) := recover_many rec st1 r now in (x :: xs, st2)
  end.
