(* C13 — the conditional ordered exactly-once theorem (rename to C13_PropsOrder.v once coq/C13_Order.v closes
   C13_in_order_partial_proof; tools/c13.py picks the file up automatically). *)
From Coq Require Import List Arith Bool ZArith.
From Dae Require Import C13_Spec C13_Model C13_Race C13_Order.
Import ListNotations.

(* For EVERY schedule that never takes a step inside a recorded race window (decidable predicate
   race_free of C13_Race.v: the claiming CAS succeeding on a non-empty queue [open finding]; the overflow pop
   overtaking a refilled channel [closed by the repair: constantly false on this tree]) the history satisfies
   the whole safety clause of the spec and, at rest, nothing accepted is left unstarted. *)
Theorem C13_in_order_partial :
  forall cap keys sched,
    race_free cap keys sched = true ->
    let s := run cap keys sched in
    spec_safe (st_log s) = true /\ (quiescent s = true -> spec_complete (st_log s) = true).
Proof. exact C13_in_order_partial_proof. Qed.
Print Assumptions C13_in_order_partial.
