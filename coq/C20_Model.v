(* C20 — executable, code-shaped model of the reload/suspend serialisation in
   cmd/run.go (tryQueueReloadRequest, clearReloadPending, releaseReloadPendingAfterRetirement, the
   reload worker closure and the main-loop completion code of Runner.Run), cmd/reload_manager.go
   (finishReloadFailure/Success, beginHandoff, coalesceReloadRequest, startControlPlaneRetirement) and
   the suppression counter of component/outbound/dialer/sticky_cache.go.

   Goroutines are agents of a small-step transition system; one step = one atomic operation of the
   Go code (one atomic load/store/CAS, one channel operation, one progress-file write).  The control
   flow of the worker closure and of the main-loop completion code is NOT written here: it is a
   parameter ([tables]), instantiated with the paths regenerated from cmd/run.go on every run
   (gen/C20_ReloadPaths.v).  No proofs in this file. *)
From Coq Require Import List NArith ZArith Bool Arith.
From Dae Require Import C20_Spec.
Import ListNotations.

(* progress codes of common/consts/reload.go (numeric values: gen/C20_ReloadPaths.v) *)
Inductive pcode := CSend | CProcessing | CDone | CError | CBusy.
(* class of the progress text *)
Inductive msg := MsgNone | MsgActive (* reloadBusyActiveMessage *) | MsgRetiring (* reloadBusyRetiringMessage *) | MsgOther.

(* abstract effects: the vocabulary of the generated paths *)
Inductive eff :=
| ESetActive (b : bool)          (* reloadManager.reloadActive.Store(b) *)
| ESetReloading (b : bool)       (* reloadManager.reloading.Store(b) *)
| EClearPending                  (* clearReloadPending(&reloadManager.reloadPending) *)
| EFinishOk                      (* reloadManager.finishReloadSuccess() *)
| EFinishFail                    (* reloadManager.finishReloadFailure() *)
| EProgress (c : pcode)          (* setRunSignalProgress(consts.ReloadX, _) *)
| ECoalesce                      (* reloadManager.coalesceReloadRequest(req) *)
| EBeginHandoff                  (* reloadManager.beginHandoff() *)
| ENotify                        (* notifyRunStateChange(runStateChanges) *)
| EStartRetirement               (* reloadManager.startControlPlaneRetirement(...) *)
| EClearPendingRetirement        (* reloadManager.clearPendingRetirement() *)
| EExit                          (* log.Fatalln / break loop: the process leaves the protocol *)
| EOther (tag : N)               (* named call without effect on the lock (wait ready, staged hand-off bookkeeping) *)
| EUnknownFlagOp.                (* any other touch of reloadPending/reloadActive/reloading: never accepted *)

(* atomic steps *)
Inductive prim :=
| PSetActive (b : bool)
| PSetReloading (b : bool)
| PStorePendingFalse             (* flag.Store(false): the release *)
| PEndSupp                       (* EndReloadProxyFailureSuppression *)
| PClearBusy                     (* clearRejectedReloadProgress *)
| PProgress (c : pcode)
| PCoalesce
| PBeginHandoff                  (* reloading.Store(true) + notify: the request is handed to the main loop *)
| PStartRetirement
| PClearPendingRetirement
| PReleaseAfterRetirement        (* takePendingRetirementDone + releaseReloadPendingAfterRetirement *)
| PExit
| PSkip.

Definition clear_pending_prims : list prim := [PStorePendingFalse; PEndSupp; PClearBusy].

Definition expand_eff (e : eff) : list prim :=
  match e with
  | ESetActive b => [PSetActive b]
  | ESetReloading b => [PSetReloading b]
  | EClearPending => clear_pending_prims
  | EFinishOk => [PSetReloading false; PSetActive false; PReleaseAfterRetirement]
  | EFinishFail => [PSetReloading false; PSetActive false] ++ clear_pending_prims
  | EProgress c => [PProgress c]
  | ECoalesce => [PCoalesce]
  | EBeginHandoff => [PBeginHandoff]
  | ENotify => [PSkip]
  | EStartRetirement => [PStartRetirement]
  | EClearPendingRetirement => [PClearPendingRetirement]
  | EExit => [PExit]
  | EOther _ => [PSkip]
  | EUnknownFlagOp => [PSkip]
  end.

Definition expand (p : list eff) : list prim := flat_map expand_eff p.

(* Shape of the timer of waitForControlPlaneDrain, as found in the source: the condition on maxWait under
   which `case <-timer.C` can ever fire. *)
Inductive guard :=
| GAlways        (* timer := time.NewTimer(maxWait), unconditionally (a non-positive duration fires at once) *)
| GNonNeg        (* armed when maxWait >= 0 *)
| GPositive      (* armed only when maxWait > 0 *)
| GNever.        (* no timeout case / shape not understood *)

Definition timer_armed (g : guard) (w : Z) : bool :=
  match g with
  | GAlways => true
  | GNonNeg => (0 <=? w)%Z
  | GPositive => (0 <? w)%Z
  | GNever => false
  end.
(* armed for every budget remainingReloadRetirementBudget can return *)
Definition guard_total (g : guard) : bool := match g with GAlways | GNonNeg => true | _ => false end.

(* remainingReloadRetirementBudget(startedAt, budget); elapsed = time.Since(startedAt) *)
Definition remaining_budget (budget : Z) (elapsed : N) (zero_start : bool) : Z :=
  if (budget <=? 0)%Z then 0%Z
  else if zero_start then budget
  else let r := (budget - Z.of_N elapsed)%Z in if (r <? 0)%Z then 0%Z else r.

(* What the environment decides about one retirement: the --abort flag, whether old and new generation
   share a dialer, how long ago the reload was requested, and how many sessions the old generation has. *)
Record ret_params := {
  rp_abort : bool; rp_overlap : bool; rp_elapsed : N; rp_zero_start : bool; rp_sessions : nat
}.
Definition default_params : ret_params :=
  {| rp_abort := false; rp_overlap := false; rp_elapsed := 0%N; rp_zero_start := false; rp_sessions := 0 |}.

(* what the goroutine of startControlPlaneRetirement does after the connections are drained or aborted,
   in EXECUTED order (deferred calls run last-registered-first after the body) *)
Inductive tail_step :=
| TCancel        (* oldCancel() *)
| TCloseGen      (* oldControlPlane.Close(): the previous generation is gone when this returns *)
| TCleanup       (* successor.RunReloadRetirementCleanup *)
| TCloseDone     (* close(done): whoever waits for the retirement may go on *)
| TOther.

(* the previous generation is closed before done is, and done is closed exactly once *)
Fixpoint tail_ok (closed : bool) (l : list tail_step) : bool :=
  match l with
  | [] => false
  | TCloseDone :: rest => closed && negb (existsb (fun x => match x with TCloseDone => true | _ => false end) rest)
  | TCloseGen :: rest => tail_ok true rest
  | _ :: rest => tail_ok closed rest
  end.

(* the goroutine of startControlPlaneRetirement *)
Inductive rt_pc :=
| RtInit                       (* spawned; before retireControlPlaneConnections *)
| RtWait (deadline : option N) (* in the select of waitForControlPlaneDrain; Some t: timer fires at t *)
| RtTail                       (* connections drained or aborted; executing rt_tail *)
| RtDone.                      (* goroutine finished *)
Record retirement := {
  rt_pc_of : rt_pc;
  rt_abort : bool; rt_overlap : bool;
  rt_budget : Z;               (* drainBudget computed by startControlPlaneRetirement *)
  rt_sessions : nat;           (* ActiveSessionCount() of the old generation *)
  rt_idle : bool;              (* DrainIdleCh() closed *)
  rt_cancelled : bool;         (* retireCtx cancelled by the next startControlPlaneRetirement *)
  rt_closed : bool;            (* oldControlPlane.Close() has returned *)
  rt_tail : list tail_step     (* what is left of the tail *)
}.
Definition set_rt_pc (pc : rt_pc) (r : retirement) : retirement :=
  Build_retirement pc (rt_abort r) (rt_overlap r) (rt_budget r) (rt_sessions r) (rt_idle r) (rt_cancelled r) (rt_closed r) (rt_tail r).
Definition rt_cancel (r : retirement) : retirement :=
  Build_retirement (rt_pc_of r) (rt_abort r) (rt_overlap r) (rt_budget r) (rt_sessions r) (rt_idle r) true (rt_closed r) (rt_tail r).
Definition rt_drain (r : retirement) : retirement :=
  Build_retirement (rt_pc_of r) (rt_abort r) (rt_overlap r) (rt_budget r) 0 true (rt_cancelled r) (rt_closed r) (rt_tail r).
(* one step of the tail done: [closed] whether it was the Close of the old generation *)
Definition rt_advance (closed : bool) (rest : list tail_step) (r : retirement) : retirement :=
  Build_retirement (rt_pc_of r) (rt_abort r) (rt_overlap r) (rt_budget r) (rt_sessions r) (rt_idle r) (rt_cancelled r)
                   (rt_closed r || closed) rest.

(* What the translator supplies. *)
Record tables := {
  t_worker : list (list eff);   (* paths of one iteration of the reload worker loop *)
  t_main : list (list eff);     (* paths of the main loop's `case <-runStateChanges` body when reloading is set *)
  t_cap : nat;                  (* capacity of the request channel *)
  t_quiesce : N;                (* reloadFailureQuiesce, ns *)
  t_timer_guard : guard;        (* when waitForControlPlaneDrain arms its drain timer *)
  t_budget_total : Z;           (* reloadTotalSwitchBudget, ns *)
  t_ret_tail : list tail_step   (* tail of the retirement goroutine, defers linearised *)
}.

(* program counter of a signal thread inside tryQueueReloadRequest *)
Inductive sigpc :=
| S0 (susp : bool)      (* before the CompareAndSwap *)
| S1 (susp : bool)      (* CAS succeeded; before BeginReloadProxyFailureSuppression *)
| S2 (susp : bool)      (* before the non-blocking send *)
| S3                    (* send failed; before reloadPending.Store(false) *)
| S4                    (* before EndReloadProxyFailureSuppression *)
| S5 (force : bool)     (* before restoreRejectedReloadProgress(reloadActive, force) *)
| SAccepted
| SRefused.

(* the goroutine spawned by releaseReloadPendingAfterRetirement *)
Inductive rstate :=
| RWait (d : nat)            (* blocked in <-retirementDone (channel number d) *)
| RRun (prog : list prim).   (* inside clearReloadPending *)

Record state := {
  pending : bool;
  active : bool;
  reloading : bool;
  supp : nat;
  until : N;
  now : N;
  queue : list bool;
  progress : pcode * msg;
  sigs : list sigpc;
  w_prog : list prim;
  handoff : nat;
  m_prog : list prim;
  pend_ret : option nat;
  dones : list bool;
  releasers : list rstate;
  exited : bool;
  trace : list event;
  rets : list retirement;
  next_ret : ret_params
}.

Definition set_pending (x : bool) (s : state) : state :=
  Build_state x (active s) (reloading s) (supp s) (until s) (now s) (queue s) (progress s) (sigs s) (w_prog s) (handoff s) (m_prog s) (pend_ret s) (dones s) (releasers s) (exited s) (trace s) (rets s) (next_ret s).

Definition set_active (x : bool) (s : state) : state :=
  Build_state (pending s) x (reloading s) (supp s) (until s) (now s) (queue s) (progress s) (sigs s) (w_prog s) (handoff s) (m_prog s) (pend_ret s) (dones s) (releasers s) (exited s) (trace s) (rets s) (next_ret s).

Definition set_reloading (x : bool) (s : state) : state :=
  Build_state (pending s) (active s) x (supp s) (until s) (now s) (queue s) (progress s) (sigs s) (w_prog s) (handoff s) (m_prog s) (pend_ret s) (dones s) (releasers s) (exited s) (trace s) (rets s) (next_ret s).

Definition set_supp (x : nat) (s : state) : state :=
  Build_state (pending s) (active s) (reloading s) x (until s) (now s) (queue s) (progress s) (sigs s) (w_prog s) (handoff s) (m_prog s) (pend_ret s) (dones s) (releasers s) (exited s) (trace s) (rets s) (next_ret s).

Definition set_until (x : N) (s : state) : state :=
  Build_state (pending s) (active s) (reloading s) (supp s) x (now s) (queue s) (progress s) (sigs s) (w_prog s) (handoff s) (m_prog s) (pend_ret s) (dones s) (releasers s) (exited s) (trace s) (rets s) (next_ret s).

Definition set_now (x : N) (s : state) : state :=
  Build_state (pending s) (active s) (reloading s) (supp s) (until s) x (queue s) (progress s) (sigs s) (w_prog s) (handoff s) (m_prog s) (pend_ret s) (dones s) (releasers s) (exited s) (trace s) (rets s) (next_ret s).

Definition set_queue (x : list bool) (s : state) : state :=
  Build_state (pending s) (active s) (reloading s) (supp s) (until s) (now s) x (progress s) (sigs s) (w_prog s) (handoff s) (m_prog s) (pend_ret s) (dones s) (releasers s) (exited s) (trace s) (rets s) (next_ret s).

Definition set_progress (x : pcode * msg) (s : state) : state :=
  Build_state (pending s) (active s) (reloading s) (supp s) (until s) (now s) (queue s) x (sigs s) (w_prog s) (handoff s) (m_prog s) (pend_ret s) (dones s) (releasers s) (exited s) (trace s) (rets s) (next_ret s).

Definition set_sigs (x : list sigpc) (s : state) : state :=
  Build_state (pending s) (active s) (reloading s) (supp s) (until s) (now s) (queue s) (progress s) x (w_prog s) (handoff s) (m_prog s) (pend_ret s) (dones s) (releasers s) (exited s) (trace s) (rets s) (next_ret s).

Definition set_w_prog (x : list prim) (s : state) : state :=
  Build_state (pending s) (active s) (reloading s) (supp s) (until s) (now s) (queue s) (progress s) (sigs s) x (handoff s) (m_prog s) (pend_ret s) (dones s) (releasers s) (exited s) (trace s) (rets s) (next_ret s).

Definition set_handoff (x : nat) (s : state) : state :=
  Build_state (pending s) (active s) (reloading s) (supp s) (until s) (now s) (queue s) (progress s) (sigs s) (w_prog s) x (m_prog s) (pend_ret s) (dones s) (releasers s) (exited s) (trace s) (rets s) (next_ret s).

Definition set_m_prog (x : list prim) (s : state) : state :=
  Build_state (pending s) (active s) (reloading s) (supp s) (until s) (now s) (queue s) (progress s) (sigs s) (w_prog s) (handoff s) x (pend_ret s) (dones s) (releasers s) (exited s) (trace s) (rets s) (next_ret s).

Definition set_pend_ret (x : option nat) (s : state) : state :=
  Build_state (pending s) (active s) (reloading s) (supp s) (until s) (now s) (queue s) (progress s) (sigs s) (w_prog s) (handoff s) (m_prog s) x (dones s) (releasers s) (exited s) (trace s) (rets s) (next_ret s).

Definition set_dones (x : list bool) (s : state) : state :=
  Build_state (pending s) (active s) (reloading s) (supp s) (until s) (now s) (queue s) (progress s) (sigs s) (w_prog s) (handoff s) (m_prog s) (pend_ret s) x (releasers s) (exited s) (trace s) (rets s) (next_ret s).

Definition set_releasers (x : list rstate) (s : state) : state :=
  Build_state (pending s) (active s) (reloading s) (supp s) (until s) (now s) (queue s) (progress s) (sigs s) (w_prog s) (handoff s) (m_prog s) (pend_ret s) (dones s) x (exited s) (trace s) (rets s) (next_ret s).

Definition set_exited (x : bool) (s : state) : state :=
  Build_state (pending s) (active s) (reloading s) (supp s) (until s) (now s) (queue s) (progress s) (sigs s) (w_prog s) (handoff s) (m_prog s) (pend_ret s) (dones s) (releasers s) x (trace s) (rets s) (next_ret s).

Definition set_trace (x : list event) (s : state) : state :=
  Build_state (pending s) (active s) (reloading s) (supp s) (until s) (now s) (queue s) (progress s) (sigs s) (w_prog s) (handoff s) (m_prog s) (pend_ret s) (dones s) (releasers s) (exited s) x (rets s) (next_ret s).

Definition set_rets (x : list retirement) (s : state) : state :=
  Build_state (pending s) (active s) (reloading s) (supp s) (until s) (now s) (queue s) (progress s) (sigs s) (w_prog s) (handoff s) (m_prog s) (pend_ret s) (dones s) (releasers s) (exited s) (trace s) x (next_ret s).

Definition set_next_ret (x : ret_params) (s : state) : state :=
  Build_state (pending s) (active s) (reloading s) (supp s) (until s) (now s) (queue s) (progress s) (sigs s) (w_prog s) (handoff s) (m_prog s) (pend_ret s) (dones s) (releasers s) (exited s) (trace s) (rets s) x.

Definition init_state : state :=
  Build_state false false false 0 0%N 0%N [] (CDone, MsgNone) [] [] 0 [] None [] [] false [] [] default_params.

Definition emit (e : event) (s : state) : state := set_trace (e :: trace s) s.

Fixpoint upd {A} (l : list A) (i : nat) (x : A) : list A :=
  match l, i with
  | [], _ => []
  | _ :: l', O => x :: l'
  | y :: l', S i' => y :: upd l' i' x
  end.

(* EndReloadProxyFailureSuppression: the CAS loop is linearisable, one atomic step *)
Definition end_supp (q : N) (s : state) : state :=
  match supp s with
  | O => s
  | S n => let s1 := emit EvUnmute (set_supp n s) in
           if Nat.eqb n 0 then set_until (now s + q)%N s1 else s1
  end.

Definition suppressed (s : state) : bool := Nat.ltb 0 (supp s) || N.ltb (now s) (until s).

Definition busy_msg (force : bool) (act : bool) : msg := if force || act then MsgActive else MsgRetiring.

(* one atomic step of tryQueueReloadRequest by signal thread i *)
Definition sig_step (T : tables) (s : state) (i : nat) : state :=
  match nth_error (sigs s) i with
  | None => s
  | Some pc =>
      match pc with
      | S0 b => if pending s
                then set_sigs (upd (sigs s) i (S5 false)) (emit EvRefuse s)
                else set_sigs (upd (sigs s) i (S1 b)) (emit EvAccept (set_pending true s))
      | S1 b => set_sigs (upd (sigs s) i (S2 b)) (emit EvMute (set_supp (S (supp s)) s))
      | S2 b => if Nat.ltb (length (queue s)) (t_cap T)
                then set_sigs (upd (sigs s) i SAccepted) (set_queue (queue s ++ [b]) s)
                else set_sigs (upd (sigs s) i S3) (emit EvRefuse s)
      | S3 => set_sigs (upd (sigs s) i S4) (emit EvRelease (set_pending false s))
      | S4 => set_sigs (upd (sigs s) i (S5 true)) (end_supp (t_quiesce T) s)
      | S5 f => set_sigs (upd (sigs s) i SRefused) (set_progress (CBusy, busy_msg f (active s)) s)
      | SAccepted | SRefused => s
      end
  end.

Fixpoint cancel_last (l : list retirement) : list retirement :=
  match l with
  | [] => []
  | [r] => [rt_cancel r]
  | r :: l' => r :: cancel_last l'
  end.

(* one step of retirement goroutine d: retireControlPlaneConnections / waitForControlPlaneDrain /
   close(done).  The only place where it can block is the select of waitForControlPlaneDrain. *)
Definition ret_step (T : tables) (s : state) (d : nat) : state :=
  match nth_error (rets s) d with
  | None => s
  | Some r =>
      match rt_pc_of r with
      | RtInit =>
          if rt_abort r || negb (rt_overlap r) || Nat.eqb (rt_sessions r) 0
          then set_rets (upd (rets s) d (set_rt_pc RtTail r)) s
          else set_rets (upd (rets s) d
                 (set_rt_pc (RtWait (if timer_armed (t_timer_guard T) (rt_budget r)
                                     then Some (now s + Z.to_N (rt_budget r))%N else None)) r)) s
      | RtWait dl =>
          if rt_cancelled r || rt_idle r || (match dl with Some t => (t <=? now s)%N | None => false end)
          then set_rets (upd (rets s) d (set_rt_pc RtTail r)) s
          else s
      | RtTail =>
          match rt_tail r with
          | [] => set_rets (upd (rets s) d (set_rt_pc RtDone r)) s
          | TCloseDone :: rest => set_rets (upd (rets s) d (rt_advance false rest r)) (set_dones (upd (dones s) d true) s)
          | TCloseGen :: rest => set_rets (upd (rets s) d (rt_advance true rest r)) s
          | _ :: rest => set_rets (upd (rets s) d (rt_advance false rest r)) s
          end
      | RtDone => s
      end
  end.

(* one atomic step of a program; returns the state and the steps to be executed next by the same
   agent (clearReloadPending called synchronously by releaseReloadPendingAfterRetirement) *)
Definition exec_prim (T : tables) (s : state) (p : prim) : state * list prim :=
  match p with
  | PSetActive b => (set_active b s, [])
  | PSetReloading b => (set_reloading b s, [])
  | PStorePendingFalse => (emit EvRelease (set_pending false s), [])
  | PEndSupp => (end_supp (t_quiesce T) s, [])
  | PClearBusy => (match fst (progress s) with CBusy => set_progress (CDone, MsgNone) s | _ => s end, [])
  | PProgress c => (set_progress (c, MsgOther) s, [])
  | PCoalesce => (set_queue [] s, [])
  | PBeginHandoff => (set_handoff (S (handoff s)) (set_reloading true s), [])
  | PStartRetirement =>
      (* lastRetirementCancel(); fresh context and done channel; drainBudget computed here; go func *)
      let p := next_ret s in
      let r := Build_retirement RtInit (rp_abort p) (rp_overlap p)
                 (remaining_budget (t_budget_total T) (rp_elapsed p) (rp_zero_start p)) (rp_sessions p) false false
                 false (t_ret_tail T) in
      (set_rets (cancel_last (rets s) ++ [r])
         (set_pend_ret (Some (length (dones s))) (set_dones (dones s ++ [false]) s)), [])
  | PClearPendingRetirement => (set_pend_ret None s, [])
  | PReleaseAfterRetirement =>
      match pend_ret s with
      | None => (s, clear_pending_prims)
      | Some d => (set_releasers (releasers s ++ [RWait d]) (set_pend_ret None s), [])
      end
  | PExit => (set_exited true s, [])
  | PSkip => (s, [])
  end.

Definition prog_step (T : tables) (s : state) (prog : list prim) : state * list prim :=
  match prog with
  | [] => (s, [])
  | p :: ps => let '(s', pre) := exec_prim T s p in (s', pre ++ ps)
  end.

Definition rel_step (T : tables) (s : state) (r : nat) : state :=
  match nth_error (releasers s) r with
  | None => s
  | Some (RWait d) =>
      if nth d (dones s) false then set_releasers (upd (releasers s) r (RRun clear_pending_prims)) s else s
  | Some (RRun prog) =>
      match prog with
      | [] => s
      | _ => let '(s', prog') := prog_step T s prog in set_releasers (upd (releasers s') r (RRun prog')) s'
      end
  end.

Inductive action :=
| ASignal (susp : bool)   (* a reload (false) or suspend (true) signal: a new thread enters tryQueueReloadRequest *)
| ASig (i : nat)          (* signal thread i: next atomic step *)
| AWorkerTake (k : nat)   (* the worker receives from the channel and commits to path k (failure injection) *)
| AWorker                 (* the worker: next atomic step *)
| AMainStart (k : nat)    (* the main loop sees reloading set and commits to completion path k *)
| AMain
| ARetire (d : nat)       (* retirement goroutine d: next step *)
| AEnvRetire (p : ret_params)  (* the environment fixes the circumstances of the next retirement *)
| ASessionsEnd (d : nat)  (* the old generation of retirement d goes idle *)
| AAdvance (n : N)        (* n nanoseconds pass *)
| AReleaser (r : nat)
| ATick.                  (* one nanosecond passes *)

Definition is_signal (a : action) : bool := match a with ASignal _ => true | _ => false end.

Definition step (T : tables) (s : state) (a : action) : state :=
  if exited s then s else
  match a with
  | ASignal b => set_sigs (sigs s ++ [S0 b]) s
  | ASig i => sig_step T s i
  | AWorkerTake k =>
      match w_prog s, queue s, nth_error (t_worker T) k with
      | [], _ :: q', Some path => set_w_prog (expand path) (set_queue q' s)
      | _, _, _ => s
      end
  | AWorker =>
      match w_prog s with
      | [] => s
      | prog => let '(s', prog') := prog_step T s prog in set_w_prog prog' s'
      end
  | AMainStart k =>
      match m_prog s, reloading s, nth_error (t_main T) k with
      | [], true, Some path => set_m_prog (expand path) (set_handoff (pred (handoff s)) s)
      | _, _, _ => s
      end
  | AMain =>
      match m_prog s with
      | [] => s
      | prog => let '(s', prog') := prog_step T s prog in set_m_prog prog' s'
      end
  | ARetire d => ret_step T s d
  | AEnvRetire p => set_next_ret p s
  | ASessionsEnd d => match nth_error (rets s) d with
                      | Some r => set_rets (upd (rets s) d (rt_drain r)) s
                      | None => s
                      end
  | AAdvance n => set_now (now s + n)%N s
  | AReleaser r => rel_step T s r
  | ATick => set_now (now s + 1)%N s
  end.

Definition run_from (T : tables) (s : state) (sched : list action) : state := fold_left (step T) sched s.
Definition run (T : tables) (sched : list action) : state := run_from T init_state sched.

(* the history an observer has seen, oldest first *)
Definition history (s : state) : list event := rev (trace s).

(* ---------------------------------------------------------------------------------------------
   Static conditions on the generated paths (decided by vm_compute on gen/C20_ReloadPaths.v). *)

(* a step that ends this program's custody of the request: release, hand-over, or leaving *)
Definition rel_prim (p : prim) : nat :=
  match p with PStorePendingFalse | PBeginHandoff | PReleaseAfterRetirement | PExit => 1 | _ => 0 end.
(* ... and of the muting scope that belongs to it *)
Definition end_prim (p : prim) : nat :=
  match p with PEndSupp | PBeginHandoff | PReleaseAfterRetirement | PExit => 1 | _ => 0 end.
Fixpoint relc (l : list prim) : nat := match l with [] => 0 | p :: l' => rel_prim p + relc l' end.
Fixpoint endc (l : list prim) : nat := match l with [] => 0 | p :: l' => end_prim p + endc l' end.

Definition is_deact (p : prim) : bool := match p with PSetActive false | PBeginHandoff | PExit => true | _ => false end.
Definition is_reset (p : prim) : bool := match p with PSetReloading false | PExit => true | _ => false end.
Definition is_reload_write (p : prim) : bool := match p with PSetReloading _ => true | _ => false end.
Definition is_handoff (p : prim) : bool := match p with PBeginHandoff => true | _ => false end.
Definition has_deact (l : list prim) : bool := existsb is_deact l.
Definition has_reset (l : list prim) : bool := existsb is_reset l.

(* flags are written, and the channel is drained (coalesce), only while the request is still in this
   program's custody; reloading is never set except by the hand-over *)
Fixpoint guarded (l : list prim) : bool :=
  match l with
  | [] => true
  | p :: l' => (match p with
                | PSetActive _ | PSetReloading false | PCoalesce => Nat.leb 1 (relc l')
                | PSetReloading true => false
                | _ => true
                end) && guarded l'
  end.

(* reloadActive set is always followed by its reset (or the hand-over) *)
Fixpoint deact_ok (l : list prim) : bool :=
  match l with
  | [] => true
  | p :: l' => (match p with PSetActive true => has_deact l' | _ => true end) && deact_ok l'
  end.

(* the worker and the completion code never write the busy report themselves *)
Definition known_eff (e : eff) : bool := match e with EUnknownFlagOp | EProgress CBusy => false | _ => true end.

(* cmd/reload.go: the `dae reload` client sends its signal only when the progress file says Done or Error *)
Definition client_would_send (c : pcode) : bool := match c with CDone | CError => true | _ => false end.

Definition worker_path_ok (p : list eff) : bool :=
  let l := expand p in
  forallb known_eff p && Nat.eqb (relc l) 1 && Nat.eqb (endc l) 1 && guarded l && deact_ok l
  && negb (existsb is_reload_write l).

Definition main_path_ok (p : list eff) : bool :=
  let l := expand p in
  forallb known_eff p && Nat.eqb (relc l) 1 && Nat.eqb (endc l) 1 && guarded l && deact_ok l
  && has_deact l && has_reset l && negb (existsb is_handoff l).

Definition tables_ok (T : tables) : bool :=
  forallb worker_path_ok (t_worker T) && forallb main_path_ok (t_main T)
  && negb (Nat.eqb (length (t_worker T)) 0) && negb (Nat.eqb (length (t_main T)) 0)
  && Nat.leb 1 (t_cap T) && guard_total (t_timer_guard T) && tail_ok false (t_ret_tail T).

(* ---------------------------------------------------------------------------------------------
   Who has custody of an accepted, unreleased request (used to state mutual exclusion). *)
Definition sumf {A} (f : A -> nat) (l : list A) : nat := fold_right (fun x acc => f x + acc) 0 l.

Definition sig_rel (pc : sigpc) : nat := match pc with S1 _ | S2 _ | S3 => 1 | _ => 0 end.
Definition sig_end (pc : sigpc) : nat := match pc with S2 _ | S3 | S4 => 1 | _ => 0 end.
Definition rs_rel (r : rstate) : nat := match r with RWait _ => 1 | RRun l => relc l end.
Definition rs_end (r : rstate) : nat := match r with RWait _ => 1 | RRun l => endc l end.

(* number of accepted requests that are between acceptance and release *)
Definition holders (s : state) : nat :=
  sumf sig_rel (sigs s) + length (queue s) + relc (w_prog s) + handoff s + relc (m_prog s)
  + sumf rs_rel (releasers s).
(* number of muting scopes that are still to be lifted by somebody *)
Definition mute_owed (s : state) : nat :=
  sumf sig_end (sigs s) + length (queue s) + endc (w_prog s) + handoff s + endc (m_prog s)
  + sumf rs_end (releasers s).

Definition sig_done (pc : sigpc) : bool := match pc with SAccepted | SRefused => true | _ => false end.
Definition rs_done (r : rstate) : bool := match r with RRun [] => true | _ => false end.

(* nobody is in the middle of anything *)
Definition settled (s : state) : bool :=
  forallb sig_done (sigs s) && Nat.eqb (length (queue s)) 0
  && Nat.eqb (length (w_prog s)) 0 && Nat.eqb (handoff s) 0 && Nat.eqb (length (m_prog s)) 0
  && forallb rs_done (releasers s).

(* ---------------------------------------------------------------------------------------------
   Whole calls (no interleaving inside a call): what the correspondence run compares with the real
   functions. *)
Fixpoint run_prog (fuel : nat) (T : tables) (s : state) (prog : list prim) : state :=
  match fuel with
  | O => s
  | S f => match prog with
           | [] => s
           | _ => let '(s', prog') := prog_step T s prog in run_prog f T s' prog'
           end
  end.

Definition call_prog (T : tables) (s : state) (prog : list prim) : state := run_prog (3 * length prog + 8) T s prog.

(* tryQueueReloadRequest(req) executed without interruption; returns the state and the result *)
Definition call_try_queue (T : tables) (s : state) (susp : bool) : state * bool :=
  let i := length (sigs s) in
  let s1 := step T s (ASignal susp) in
  let s2 := fold_left (fun st _ => sig_step T st i) [0;1;2;3;4;5] s1 in
  (s2, match nth_error (sigs s2) i with Some SAccepted => true | _ => false end).

(* req := <-reloadReqs (non-blocking in the harness) *)
Definition call_take (s : state) : state * option bool :=
  match queue s with
  | [] => (s, None)
  | b :: q' => (set_queue q' s, Some b)
  end.

(* coalesceReloadRequest(req): the last queued request wins *)
Definition call_coalesce (s : state) (req : bool) : state * bool :=
  (set_queue [] s, last (queue s) req).

(* the harness lets [wait] nanoseconds pass for retirement goroutine d (sessions possibly draining
   meanwhile), then every goroutine waiting on a closed channel runs to completion *)
Definition call_retire (T : tables) (s : state) (d : nat) (wait : N) : state :=
  let s1 := fold_left (step T) ([ARetire d; AAdvance wait; ARetire d] ++ repeat (ARetire d) (S (length (t_ret_tail T)))) s in
  fold_left (fun st r => fold_left (fun st' _ => rel_step T st' r) [0;1;2;3;4] st)
            (seq 0 (length (releasers s1))) s1.

(* everything except the signal threads' program counters, the progress report and the history *)
Definition same_core (s s' : state) : Prop :=
  pending s' = pending s /\ active s' = active s /\ reloading s' = reloading s /\ supp s' = supp s
  /\ until s' = until s /\ now s' = now s /\ queue s' = queue s /\ w_prog s' = w_prog s
  /\ handoff s' = handoff s /\ m_prog s' = m_prog s /\ pend_ret s' = pend_ret s /\ dones s' = dones s
  /\ releasers s' = releasers s /\ exited s' = exited s /\ rets s' = rets s /\ next_ret s' = next_ret s.

(* a small table and three schedules for the non-vacuity example *)
Definition demo_tables : tables :=
  {| t_worker := [ [ESetActive true; ECoalesce; EProgress CProcessing; EProgress CError; ESetActive false; EClearPending];
                   [ESetActive true; ECoalesce; EProgress CProcessing; EBeginHandoff; EStartRetirement; ENotify] ];
     t_main := [ [ESetReloading false; EProgress CDone; EFinishOk];
                 [ESetReloading false; EProgress CError; EFinishFail] ];
     t_cap := 1;
     t_quiesce := 0x4A817C800%N;
     t_timer_guard := GAlways;
     t_budget_total := 0x2540BE400%Z;
     t_ret_tail := [TCancel; TCloseGen; TCleanup; TOther; TCloseDone] |}.

Definition demo_schedule_mid : list action :=
  [ASignal false; ASig 0; ASig 0; ASig 0; ASignal true; ASig 1; ASig 1;
   AWorkerTake 1; AWorker; AWorker; AWorker; AWorker; AWorker; AWorker; AMainStart 0].
Definition demo_schedule_ok : list action :=
  demo_schedule_mid ++ [AMain; AMain; AMain; AMain; AMain; ARetire 0; ARetire 0; ARetire 0; ARetire 0; ARetire 0; ARetire 0; ARetire 0; AReleaser 0; AReleaser 0; AReleaser 0; AReleaser 0].
Definition demo_schedule_fail : list action :=
  [ASignal false; ASig 0; ASig 0; ASig 0; AWorkerTake 0;
   AWorker; AWorker; AWorker; AWorker; AWorker; AWorker; AWorker; AWorker].

(* the schedule under which retirement goroutine d has to finish: it gets to run, k nanoseconds pass,
   it runs twice more *)
Definition retire_schedule (T : tables) (d : nat) (k : N) : list action :=
  [ARetire d; AAdvance k; ARetire d] ++ repeat (ARetire d) (S (length (t_ret_tail T))).

(* the previous generation of retirement d is closed *)
Definition gen_closed (s : state) (d : nat) : bool :=
  match nth_error (rets s) d with Some r => rt_closed r | None => false end.

(* ---------------------------------------------------------------------------------------------
   waitReloadReadyOrSignal: the main loop waits for the new generation to become ready.  The loop takes
   events - readiness reported (ok / failed), a reload/suspend/hangup signal that is ignored, a
   termination signal - and the timer.  Virtual clock: every event carries the instant at which it
   arrives.  Where the source arms the timer is regenerated from cmd/run.go. *)
Inductive ready_deadline :=
| RFixed      (* one timer, created before the loop: the deadline is the absolute instant origin + timeout *)
| RRearmed    (* the timer/After expression is evaluated inside the loop: every iteration starts a new timeout *)
| RNone.      (* no timeout case / shape not understood *)

Inductive wev := WReady (ok : bool) | WIgnored | WTerm.
Inductive wres := WRReady | WRFailed | WRSignal | WRTimeout.

(* [deadline]: the instant at which the armed timer fires; returns the outcome and the instant of return
   (when the events run out nothing else ever happens, so the timer fires) *)
Fixpoint ready_wait (mode : ready_deadline) (timeout deadline : N) (evs : list (N * wev)) : wres * N :=
  match evs with
  | [] => (WRTimeout, deadline)
  | (t, e) :: rest =>
      if (deadline <=? t)%N then (WRTimeout, deadline)
      else match e with
           | WReady true => (WRReady, t)
           | WReady false => (WRFailed, t)
           | WTerm => (WRSignal, t)
           | WIgnored => ready_wait mode timeout (match mode with RRearmed => (t + timeout)%N | _ => deadline end) rest
           end
  end.

(* how many times a timeout is armed while k ignored signals arrive and then readiness *)
Definition ready_wait_arms (mode : ready_deadline) (k : nat) : nat :=
  match mode with RFixed => 1 | RRearmed => S k | RNone => 0 end.

Definition ready_deadline_ok (mode : ready_deadline) : bool := match mode with RFixed => true | _ => false end.
Definition only_ignored (evs : list (N * wev)) : bool :=
  forallb (fun x => match snd x with WIgnored => true | _ => false end) evs.

(* ---------------------------------------------------------------------------------------------
   The progress file (cmd/reload.go writeSignalProgressBytesFile): every answer is written by
   create staging file / write / rename onto the path / remove staging file.  A tiny file system:
   directory name -> inode, inode -> the writers whose bytes are in it.  Name 0 is the progress file;
   writer w stages through name [stg w].  How the source chooses the staging name is regenerated. *)
Inductive staging := SUnique (* os.CreateTemp with a pattern: a fresh name per writer *)
                   | SShared (* one fixed name, opened with truncate *)
                   | SUnknown.
Definition staging_name (m : staging) (w : nat) : nat := match m with SUnique => S w | _ => 1 end.

Record pw_state := {
  pw_dir : list (nat * nat);          (* name -> inode *)
  pw_inodes : list (list nat);        (* inode -> writers whose bytes it holds *)
  pw_pc : list nat;                   (* per writer: 0 create, 1 write, 2 rename, 3 remove, 4 done *)
  pw_fd : list nat;                   (* per writer: inode of its open staging file *)
  pw_lost : bool                      (* some rename failed: that answer was never published *)
}.
Definition pw_lookup (d : list (nat * nat)) (n : nat) : option nat :=
  match find (fun x => Nat.eqb (fst x) n) d with Some x => Some (snd x) | None => None end.
Definition pw_unlink (d : list (nat * nat)) (n : nat) := filter (fun x => negb (Nat.eqb (fst x) n)) d.
(* inode 0 holds the record that was there before (writer 99) *)
Definition pw_init (writers : nat) : pw_state :=
  Build_pw_state [(0, 0)] [[99]] (repeat 0 writers) (repeat 0 writers) false.

Definition pw_step (m : staging) (s : pw_state) (w : nat) : pw_state :=
  let n := staging_name m w in
  match nth_error (pw_pc s) w with
  | Some 0 =>  (* create (unique name: new file; fixed name: open, truncating what is there) *)
      match pw_lookup (pw_dir s) n with
      | Some i => Build_pw_state (pw_dir s) (upd (pw_inodes s) i []) (upd (pw_pc s) w 1) (upd (pw_fd s) w i) (pw_lost s)
      | None => let i := length (pw_inodes s) in
                Build_pw_state ((n, i) :: pw_dir s) (pw_inodes s ++ [[]]) (upd (pw_pc s) w 1) (upd (pw_fd s) w i) (pw_lost s)
      end
  | Some 1 =>  (* write through the open descriptor *)
      let i := nth w (pw_fd s) 0 in
      Build_pw_state (pw_dir s) (upd (pw_inodes s) i (nth i (pw_inodes s) [] ++ [w])) (upd (pw_pc s) w 2) (pw_fd s) (pw_lost s)
  | Some 2 =>  (* rename staging -> progress file: atomic replace, fails when the staging name is gone *)
      match pw_lookup (pw_dir s) n with
      | Some i => Build_pw_state ((0, i) :: pw_unlink (pw_unlink (pw_dir s) n) 0) (pw_inodes s) (upd (pw_pc s) w 3) (pw_fd s) (pw_lost s)
      | None => Build_pw_state (pw_dir s) (pw_inodes s) (upd (pw_pc s) w 3) (pw_fd s) true
      end
  | Some 3 =>  (* deferred remove of the staging name *)
      Build_pw_state (pw_unlink (pw_dir s) n) (pw_inodes s) (upd (pw_pc s) w 4) (pw_fd s) (pw_lost s)
  | _ => s
  end.

(* what a reader of the progress file sees: Some w = exactly the complete record of writer w *)
Definition pw_read (s : pw_state) : option nat :=
  match pw_lookup (pw_dir s) 0 with
  | Some i => match nth i (pw_inodes s) [] with [w] => Some w | _ => None end
  | None => None
  end.

(* every reader sees a complete record at all times; when all writers are done no rename was lost *)
Fixpoint pw_safe (m : staging) (s : pw_state) (sched : list nat) : bool :=
  match pw_read s with
  | None => false
  | Some _ =>
      match sched with
      | [] => negb (forallb (Nat.eqb 4) (pw_pc s)) || negb (pw_lost s)
      | w :: rest => pw_safe m (pw_step m s w) rest
      end
  end.

Fixpoint all_seqs (n : nat) (len : nat) : list (list nat) :=
  match len with
  | O => [[]]
  | S l => flat_map (fun tl => map (fun w => w :: tl) (seq 0 n)) (all_seqs n l)
  end.
