(* C03 — datapath verdicts: the property in its own terms (executable).

   A hook sees a packet (already classified by the reference, byte-load, header parser), the table of
   tracked flows, and the environment of that instant (clock, health bits, sender process, rule program
   as a routing oracle).  It answers with a verdict and the new table.

     Pass m        let through; m = Some x: the packet mark is set to x
     Drop
     ToDae p l r   redirected to dae (p: peer redirect, l: listener to assign), and r is the per-flow
                   record the control plane recovers for this flow
     Lost p l      redirected to dae but NO record can be recovered (never produced by this spec)

   Documented exceptions, all visible below by name:
     - a TCP packet that is not a pure SYN and belongs to no tracked flow passes;
     - replies of flows first seen on the WAN side (fe_wan_in) pass;
     - port 53 is never dropped for a dead group (dae falls back in userspace);
     - LAN direct sets the rule's mark in the kernel; WAN direct with a mark is handed to dae, subject
       to the health bit of the group it names (the direct group, id 0);
     - UDP with source or destination port 53 is stateless;
     - a pure SYN (SYN without ACK) seen in either direction restarts tracking of the flow. *)
From Coq Require Import List NArith ZArith Bool.
Import ListNotations.
Open Scope N_scope.

(* ---------- flows, decisions, records ---------- *)
Record fkey := mk_fkey { k_sip : N; k_dip : N; k_sport : N; k_dport : N; k_proto : N }.
Definition fkey_eqb (a b : fkey) : bool :=
  (k_sip a =? k_sip b) && (k_dip a =? k_dip b) && (k_sport a =? k_sport b) &&
  (k_dport a =? k_dport b) && (k_proto a =? k_proto b).
Definition rev_key (k : fkey) : fkey := mk_fkey (k_dip k) (k_sip k) (k_dport k) (k_sport k) (k_proto k).

Record decision := mk_dec { d_out : N; d_mark : N; d_must : N }.
Record frec := mk_frec { r_dec : decision; r_dscp : N; r_mac : N; r_pname : N; r_pid : N }.

Inductive verdict :=
| Pass (mark : option N)
| Drop
| ToDae (peer : bool) (listener : N) (r : frec)
| Lost (peer : bool) (listener : N).

(* documented values (the model takes its own from the source text; C03_constants_documented ties them) *)
Definition DOC_TCP_IDLE_NS : N := 120000000000.
Definition DOC_TCP_CLOSING_NS : N := 10000000000.
Definition DOC_UDP_IDLE_NS : N := 120000000000.
Definition DOC_REFRESH_NS : N := 1000000000.
Definition DOC_HANDOFF_NS : N := 10000000000.
Definition OUT_DIRECT : N := 0.
Definition OUT_BLOCK : N := 1.
Definition IPPROTO_TCP : N := 6.
Definition IPPROTO_UDP : N := 17.
Definition TWO64 : N := 0x10000000000000000.

(* the routing decision carried by a result word of the rule program: outbound | mark<<8 | must<<40 *)
Definition decide (w : Z) : option decision :=
  if (w <? 0)%Z then None
  else let n := Z.to_N w in
       Some (mk_dec (N.land n 0xff) (N.shiftr n 8 mod 0x100000000) (N.land (N.shiftr n 40) 1)).

(* what the rule program is asked *)
Record rquery := mk_rq { q_l4 : N; q_ipver : N; q_pname : N; q_dscp : N; q_wan : N; q_mac : N;
                         q_sport : N; q_dport : N; q_sip : N; q_dip : N }.

(* ---------- packets as the hooks see them ---------- *)
Inductive pclass := PMalformed | PIgnored | PTcp | PUdp.
Record packet := mk_packet {
  p_class : pclass;
  p_key : fkey;
  p_dscp : N;
  p_mac : N;            (* source MAC, 0 on L3 links *)
  p_syn : bool; p_ack : bool; p_fin : bool; p_rst : bool
}.
Definition p_new (p : packet) : bool := p_syn p && negb (p_ack p).
Definition p_finrst (p : packet) : bool := p_fin p || p_rst p.
Definition p_listener (p : packet) : N :=
  match p_class p with PTcp => if p_new p then IPPROTO_TCP else 0 | PUdp => IPPROTO_UDP | _ => 0 end.
Definition p_stateless (p : packet) : bool :=
  (k_proto (p_key p) =? IPPROTO_UDP) && ((k_dport (p_key p) =? 53) || (k_sport (p_key p) =? 53)).

Record param := mk_param { P_cp_pid : N; P_sock_mark : N; P_peer : bool }.
Record env := mk_env {
  e_now : N;
  e_v4 : bool;                    (* the frame's L3 protocol as the stack reports it is IPv4 *)
  e_skb_mark : N;
  e_ingress_if : N;
  e_proc : option (N * N);        (* sender process (pid, name) when the socket is known *)
  e_sock : option (N * N);        (* a local socket owns the packet's tuple: (socket mark, tcp state) *)
  e_alive : list (N * N);         (* health bits: index -> value; unlisted = 0 *)
  e_route : rquery -> Z           (* the installed rule program *)
}.

(* ---------- health bits ---------- *)
Fixpoint alist_get (l : list (N * N)) (k : N) : N :=
  match l with [] => 0 | (a, v) :: r => if a =? k then v else alist_get r k end.
Definition group_alive (e : env) (out : N) (udp : bool) (dport : N) : bool :=
  if dport =? 53 then true
  else let idx := out * 6 + (if udp then 4 else 0) + (if e_v4 e then 0 else 1) in
       if idx <? 1536 then negb (alist_get (e_alive e) idx =? 0) else true.

(* ---------- loop guard ---------- *)
Definition from_dae (P : param) (e : env) : bool :=
  match e_proc e with
  | Some (pid, _) => if P_cp_pid P =? 0 then false else pid =? P_cp_pid P
  | None => (negb (P_sock_mark P =? 0) && (e_skb_mark e =? P_sock_mark P))
            || (N.land (e_skb_mark e) 0x100 =? 0x100)
  end.
Definition local_service (P : param) (e : env) : bool :=
  match e_sock e with
  | Some (m, _) => negb (negb (P_sock_mark P =? 0) && (m =? P_sock_mark P))
  | None => false
  end.

(* ---------- the table of tracked flows ---------- *)
Record fentry := mk_fentry {
  fe_wan_in : bool; fe_closing : bool; fe_last : N;
  fe_dec : option decision; fe_dscp : N; fe_mac : N; fe_pname : N; fe_pid : N }.
Definition ftab := list (fkey * fentry).
Fixpoint tab_get {V} (t : list (fkey * V)) (k : fkey) : option V :=
  match t with [] => None | (a, v) :: r => if fkey_eqb a k then Some v else tab_get r k end.
Fixpoint tab_del {V} (t : list (fkey * V)) (k : fkey) : list (fkey * V) :=
  match t with [] => [] | (a, v) :: r => if fkey_eqb a k then tab_del r k else (a, v) :: tab_del r k end.
Fixpoint tab_set {V} (t : list (fkey * V)) (k : fkey) (v : V) : list (fkey * V) :=
  match t with
  | [] => [(k, v)]
  | (a, w) :: r => if fkey_eqb a k then (a, v) :: r else (a, w) :: tab_set r k v
  end.

Definition exceeds (x lim : N) : bool := lim <? x.
Definition age (now last : N) : N := (now + TWO64 - last mod TWO64) mod TWO64.
Definition tcp_expired (en : fentry) (now : N) : bool :=
  exceeds (age now (fe_last en)) (if fe_closing en then DOC_TCP_CLOSING_NS else DOC_TCP_IDLE_NS).
Definition udp_expired (en : fentry) (now : N) : bool := exceeds (age now (fe_last en)) DOC_UDP_IDLE_NS.
Definition refreshed (en : fentry) (now : N) : fentry :=
  if exceeds (age now (fe_last en)) DOC_REFRESH_NS
  then mk_fentry (fe_wan_in en) (fe_closing en) now (fe_dec en) (fe_dscp en) (fe_mac en) (fe_pname en) (fe_pid en)
  else en.
Definition closing (en : fentry) : fentry :=
  mk_fentry (fe_wan_in en) true (fe_last en) (fe_dec en) (fe_dscp en) (fe_mac en) (fe_pname en) (fe_pid en).
Definition touched_now (en : fentry) (now : N) : fentry :=
  mk_fentry (fe_wan_in en) (fe_closing en) now (fe_dec en) (fe_dscp en) (fe_mac en) (fe_pname en) (fe_pid en).
Definition fresh_entry (wan_in : bool) (now dscp pid : N) : fentry :=
  mk_fentry wan_in false now None dscp 0 0 pid.
Definition with_decision (en : fentry) (d : decision) (dscp mac : N) (proc : option (N * N)) : fentry :=
  mk_fentry (fe_wan_in en) (fe_closing en) (fe_last en) (Some d) dscp mac
            (match proc with Some (_, nm) => nm | None => fe_pname en end)
            (match proc with Some (pid, _) => pid | None => fe_pid en end).
Definition rec_of (en : fentry) (d : decision) : frec :=
  mk_frec d (fe_dscp en) (fe_mac en) (fe_pname en) (fe_pid en).

(* A TCP packet meets the table: a pure SYN restarts tracking, an expired entry is forgotten, a later
   packet refreshes the entry (lazily) and FIN/RST moves it to closing.  Returns the live entry. *)
Definition tcp_track (t : ftab) (k : fkey) (p : packet) (wan_in : bool) (now dscp pid : N)
  : option fentry * ftab :=
  if p_new p then let en := fresh_entry wan_in now dscp pid in (Some en, tab_set (tab_del t k) k en)
  else match tab_get t k with
       | None => (None, t)
       | Some en =>
           if tcp_expired en now then (None, tab_del t k)
           else let en1 := refreshed en now in
                let en2 := if p_finrst p then closing en1 else en1 in
                (Some en2, tab_set t k en2)
       end.
Definition udp_track (t : ftab) (k : fkey) (wan_in : bool) (now dscp : N) : fentry * ftab :=
  match tab_get t k with
  | Some en =>
      if udp_expired en now
      then let en' := fresh_entry wan_in now dscp 0 in (en', tab_set (tab_del t k) k en')
      else let en1 := refreshed en now in (en1, tab_set t k en1)
  | None => let en' := fresh_entry wan_in now dscp 0 in (en', tab_set t k en')
  end.

(* ---------- verdict of a decision ---------- *)
Definition lan_verdict (P : param) (e : env) (p : packet) (d : decision) (r : frec) : verdict :=
  if d_out d =? OUT_DIRECT then Pass (Some (d_mark d))
  else if d_out d =? OUT_BLOCK then Drop
  else if negb (group_alive e (d_out d) (k_proto (p_key p) =? IPPROTO_UDP) (k_dport (p_key p))) then Drop
  else ToDae (P_peer P) (p_listener p) r.
Definition wan_verdict (e : env) (p : packet) (d : decision) (r : frec) : verdict :=
  if (d_out d =? OUT_DIRECT) && (d_mark d =? 0)
  then Pass (if k_proto (p_key p) =? IPPROTO_TCP then Some 0 else None)
  else if d_out d =? OUT_BLOCK then Drop
  else if negb (group_alive e (d_out d) (k_proto (p_key p) =? IPPROTO_UDP) (k_dport (p_key p))) then Drop
  else ToDae false (p_listener p) r.

Definition query (e : env) (p : packet) (wan : bool) : rquery :=
  mk_rq (if k_proto (p_key p) =? IPPROTO_TCP then 1 else 2) (if e_v4 e then 1 else 2)
        (if wan then match e_proc e with Some (_, nm) => nm | None => 0 end else 0)
        (p_dscp p) (if wan then 1 else 0) (p_mac p)
        (k_sport (p_key p)) (k_dport (p_key p)) (k_sip (p_key p)) (k_dip (p_key p)).

(* ---------- LAN ingress ---------- *)
Definition spec_lan_ingress (P : param) (e : env) (t : ftab) (p : packet) : verdict * ftab :=
  let k := p_key p in
  match p_class p with
  | PMalformed => (Drop, t)
  | PIgnored => (Pass None, t)
  | PTcp =>
      match tcp_track t k p false (e_now e) (p_dscp p) 0 with
      | (None, t1) => (Pass None, t1)                       (* untracked, not a SYN *)
      | (Some en, t1) =>
          if p_new p then
            match decide (e_route e (query e p false)) with
            | None => (Drop, t1)
            | Some d =>
                let en' := with_decision en d (p_dscp p) (p_mac p) None in
                (lan_verdict P e p d (rec_of en' d), tab_set t1 k en')
            end
          else match fe_dec en with
               | None => (Pass None, t1)                    (* reply of a WAN-originated flow, or undecided *)
               | Some d => (lan_verdict P e p d (rec_of en d), t1)
               end
      end
  | PUdp =>
      if p_stateless p then
        if local_service P e then (Pass None, t)
        else match decide (e_route e (query e p false)) with
             | None => (Drop, t)
             | Some d => (lan_verdict P e p d (mk_frec d (p_dscp p) (p_mac p) 0 0), t)
             end
      else
        let '(en, t1) := udp_track t k false (e_now e) (p_dscp p) in
        if fe_wan_in en then (Pass None, t1)
        else match fe_dec en with
             | Some d =>
                 let v := lan_verdict P e p d (rec_of en d) in
                 (v, match v with ToDae _ _ _ => tab_set t1 k (touched_now en (e_now e)) | _ => t1 end)
             | None =>
                 if local_service P e then (Pass None, t1)
                 else match decide (e_route e (query e p false)) with
                      | None => (Drop, t1)
                      | Some d =>
                          let en' := with_decision en d (p_dscp p) (p_mac p) None in
                          (lan_verdict P e p d (rec_of en' d), tab_set t1 k en')
                      end
             end
  end.

(* ---------- WAN egress ---------- *)
Definition needs_record (d : decision) : bool :=
  negb ((d_out d =? OUT_DIRECT) && (d_mark d =? 0) && (d_must d =? 0)).

(* [strict = true] is the property as written: every decision of a tracked flow is remembered.
   [strict = false] is the datapath as built: a locally originated UDP flow decided "direct, no mark, not
   must" is tracked but its decision is not stored, so it is routed afresh by every later packet. *)
Definition spec_wan_egress (strict : bool) (P : param) (e : env) (t : ftab) (p : packet) : verdict * ftab :=
  let k := p_key p in
  if negb (e_ingress_if e =? 0) then (Pass None, t)         (* forwarded, not locally originated *)
  else
  match p_class p with
  | PMalformed => (Drop, t)
  | PIgnored => (Pass None, t)
  | PTcp =>
      if p_new p then
        if from_dae P e then (Pass None, t)
        else match decide (e_route e (query e p true)) with
             | None => (Drop, t)
             | Some d =>
                 let pid := match e_proc e with Some (pid, _) => pid | None => 0 end in
                 let en := fresh_entry false (e_now e) (p_dscp p) pid in
                 let en' := if needs_record d
                            then mk_fentry false false (e_now e) (Some d) (p_dscp p) (p_mac p)
                                           (match e_proc e with Some (_, nm) => nm | None => 0 end) pid
                            else en in
                 (wan_verdict e p d (rec_of en' d), tab_set (tab_del t k) k en')
             end
      else
        match tcp_track t k p false (e_now e) 0 0 with
        | (None, t1) => (Pass None, t1)
        | (Some en, t1) =>
            match fe_dec en with
            | None => (Pass None, t1)
            | Some d => (wan_verdict e p d (rec_of en d), t1)
            end
        end
  | PUdp =>
      if from_dae P e then (Pass None, t)
      else if p_stateless p then
        match decide (e_route e (query e p true)) with
        | None => (Drop, t)
        | Some d =>
            (wan_verdict e p d (mk_frec d (p_dscp p) (p_mac p)
                                        (match e_proc e with Some (_, nm) => nm | None => 0 end)
                                        (match e_proc e with Some (pid, _) => pid | None => 0 end)), t)
        end
      else
        let '(en, t1) := udp_track t k false (e_now e) 0 in
        if fe_wan_in en then (Pass None, t1)
        else
          let dd := match fe_dec en with
                    | Some d => Some (d, fe_mac en)
                    | None => match decide (e_route e (query e p true)) with
                              | Some d => Some (d, p_mac p) | None => None end
                    end in
          match dd with
          | None => (Drop, t1)
          | Some (d, mac) =>
              let en' := if strict || needs_record d then with_decision en d (p_dscp p) mac (e_proc e) else en in
              let en'' := touched_now en' (e_now e) in
              (wan_verdict e p d (rec_of en'' d), tab_set t1 k en'')
          end
  end.

(* ---------- the reverse-direction hooks only keep the table up to date ---------- *)
Definition spec_reverse_hook (e : env) (t : ftab) (p : packet) : ftab :=
  match p_class p with
  | PTcp => snd (tcp_track t (rev_key (p_key p)) p true (e_now e) 0 0)
  | PUdp => if p_stateless p then t else snd (udp_track t (rev_key (p_key p)) true (e_now e) 0)
  | _ => t
  end.

(* ---------- what the control plane must be able to recover ---------- *)
(* the flow's stored record if a decision is stored, else the stateless hand-over record *)
Definition handoff_live (now last : N) : bool :=
  if last =? 0 then false else if now <=? last then true else negb (exceeds (now - last) DOC_HANDOFF_NS).
