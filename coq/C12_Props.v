(* C12 — property theorems only. *)
From Coq Require Import List NArith Bool.
From Dae Require Import C12_Spec C12_Model C12_Proofs.
Import ListNotations.
Open Scope N_scope.

Definition C12_prefix2bin_full : Prop :=
  forall p, wf_prefix p = true -> prefix2bin128 p = prefix_bits p.

Theorem C12_prefix2bin_refuted : ~ C12_prefix2bin_full.
Proof. intro H. destruct C12_prefix2bin_refuted_proof as [p [W N]]. exact (N (H p W)). Qed.
Print Assumptions C12_prefix2bin_refuted.
