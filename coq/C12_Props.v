(* C12 — property theorems only.  Each is closed by `exact` of a lemma of C12_Proofs.v.
   Spec vocabulary (C12_Spec): prefix, addr128/len128 (IPv4 as ::ffff:a.b.c.d, length +96), contains,
   set_contains, prefix_bits, mac_set_contains, identical, first_hit, response_first_hit.
   Model vocabulary (C12_Model): prefix2bin128, trie_match (trie as the set of its keys), cidr_to_lpm_key,
   kernel_match/kernel_lookup (LPM trie over the emitted keys), canonicalize, run (addIp/addSourceIp/addSourceMac
   with an arbitrary hash function), match_rules / match_rules_kernel, response_match.
   All statements are at full strength.  (On the tree before commit 1e92e18 the faithful model refuted the
   userspace statements at IPv6 /0: Prefix2bin128 emitted 128 bits; see before_fix_len0 in C12_Proofs.) *)
From Coq Require Import List NArith Bool.
From Dae Require Import C12_Spec C12_Model C12_Proofs.
Import ListNotations.
Open Scope N_scope.

(* ---- Prefix2bin128 yields the leading len bits of the mapped address, for every length 0..32 / 0..128 *)
Theorem C12_prefix2bin :
  forall p, wf_prefix p = true -> prefix2bin128 p = prefix_bits p.
Proof. intros p _. exact (prefix2bin128_spec p). Qed.
Print Assumptions C12_prefix2bin.

(* ---- the userspace trie matches exactly when some member contains the address *)
Theorem C12_trie_contains :
  forall ps a, forallb wf_prefix ps = true -> wf_addr a = true -> trie_match ps a = set_contains ps a.
Proof. exact trie_contains_proof. Qed.
Print Assumptions C12_trie_contains.

(* ---- a kernel-style longest-prefix lookup over the keys cidrToBpfLpmKey emits succeeds exactly when some
   member contains the address (either byte order), and reports the longest such member *)
Theorem C12_lpm_key_contains :
  forall big ps a, forallb wf_prefix ps = true -> wf_addr a = true ->
    kernel_match big ps a = set_contains ps a.
Proof. exact lpm_key_contains_proof. Qed.
Print Assumptions C12_lpm_key_contains.

Theorem C12_lpm_longest :
  forall big ps a r, forallb wf_prefix ps = true -> wf_addr a = true ->
    kernel_lookup big ps a = Some r ->
    forall p, In p ps -> contains p a = true -> len128 p <= r.
Proof. exact kernel_lookup_longest_proof. Qed.
Print Assumptions C12_lpm_longest.

(* ---- userspace trie and kernel keys describe the same set *)
Theorem C12_userspace_kernel_same_set :
  forall big ps a, forallb wf_prefix ps = true -> wf_addr a = true -> trie_match ps a = kernel_match big ps a.
Proof. exact same_set_proof. Qed.
Print Assumptions C12_userspace_kernel_same_set.

(* ---- sharing: whatever the hash function, two rules receive the same LPM index only if their sets are
   identical; canonicalisation keeps the denoted set; the stored set a rule points to denotes its own set *)
Theorem C12_share_only_identical :
  forall (hash : list prefix -> N) ops r1 r2,
    In r1 (b_rules (run hash ops)) -> In r2 (b_rules (run hash ops)) ->
    r_index r1 = r_index r2 -> identical (r_values r1) (r_values r2).
Proof. exact share_only_identical_proof. Qed.
Print Assumptions C12_share_only_identical.

Theorem C12_canonical_denotes :
  forall l a, set_contains (canonicalize l) a = set_contains l a.
Proof. exact canonicalize_denotes_proof. Qed.
Print Assumptions C12_canonical_denotes.

Theorem C12_stored_set_denotes :
  forall (hash : list prefix -> N) ops r a,
    In r (b_rules (run hash ops)) ->
    exists s, nth_error (b_tries (run hash ops)) (N.to_nat (r_index r)) = Some s
              /\ set_contains s a = set_contains (r_values r) a.
Proof. exact stored_set_denotes_proof. Qed.
Print Assumptions C12_stored_set_denotes.

(* ---- MAC sets as /128 prefixes of ::mac match by equality, in the trie and in the kernel keys *)
Theorem C12_mac_as_prefix :
  forall big ms m, forallb wf_mac ms = true -> wf_mac m = true ->
    trie_match (map mac_prefix ms) m = mac_set_contains ms m
    /\ kernel_match big (map mac_prefix ms) m = mac_set_contains ms m.
Proof. exact mac_as_prefix_proof. Qed.
Print Assumptions C12_mac_as_prefix.

(* ---- rules over the stored (possibly shared) sets decide as the rules the user wrote, in the kernel form
   and in userspace (dip / sip / mac rules, any hash function, any history of additions) *)
Theorem C12_rules_kernel :
  forall (hash : list prefix -> N) big ops k,
    forallb wf_op ops = true -> wf_packet k = true ->
    let b := run hash ops in
    match_rules_kernel big (b_tries b) (b_rules b) k = Some (first_hit (map spec_rule_of (b_rules b)) k 0).
Proof. exact rules_kernel_proof. Qed.
Print Assumptions C12_rules_kernel.

Theorem C12_rules_userspace :
  forall (hash : list prefix -> N) ops k,
    forallb wf_op ops = true -> wf_packet k = true ->
    let b := run hash ops in
    match_rules (b_tries b) (b_rules b) k = Some (first_hit (map spec_rule_of (b_rules b)) k 0).
Proof. exact rules_userspace_proof. Qed.
Print Assumptions C12_rules_userspace.

(* ---- DNS response routing: ip(...) rules over the answer's addresses *)
Theorem C12_response :
  forall rs ips, forallb wf_resp_rule rs = true -> forallb wf_addr ips = true ->
    response_match rs ips = response_first_hit (resp_spec_rules rs) ips 0.
Proof. exact response_proof. Qed.
Print Assumptions C12_response.

(* ---- whatever the order in which production takes the kernel snapshot, builds the userspace matcher and
   turns the snapshot into kernel keys (first start: snapshot, keys, userspace; staged reload: snapshot,
   userspace, keys at cutover, keys again on rollback), every key list handed to the kernel is the stored
   (canonical) prefix list of its set, and for every rule the kernel map written from it and the userspace
   trie match the same addresses, namely those of the set the rule was given.  The snapshot is a value. *)
Theorem C12_same_set_any_order :
  forall (hash : list prefix -> N) big ops order m,
    forallb wf_op ops = true ->
    order_run false big (mem_init (b_tries (run hash ops))) order = Some m ->
    (forall inst, In inst (m_installs m) -> inst = kernel_keys_of big (canonical_tries hash ops))
    /\ (forall inst l r keys t a,
          In inst (m_installs m) -> m_lpm m = Some l -> In r (b_rules (run hash ops)) -> wf_addr a = true ->
          nth_error inst (N.to_nat (r_index r)) = Some keys -> nth_error l (N.to_nat (r_index r)) = Some t ->
          keys = map (cidr_to_lpm_key big) (stored_form r)
          /\ keys_match big keys a = has_prefix t (probe_bin a)
          /\ has_prefix t (probe_bin a) = set_contains (r_values r) a).
Proof. exact same_set_any_order_proof. Qed.
Print Assumptions C12_same_set_any_order.

(* the hazard the statement guards against: were BuildUserspace to write the backing array it shares with the
   snapshot while releasing its fields (clear_on_release = true), the staged-reload order would hand the kernel
   an empty key list for a set whose userspace trie is full *)
Definition C12_same_set_any_order_if_release_clears : Prop :=
  forall (hash : list prefix -> N) big ops order m inst l r keys t a,
    forallb wf_op ops = true ->
    order_run true big (mem_init (b_tries (run hash ops))) order = Some m ->
    In inst (m_installs m) -> m_lpm m = Some l -> In r (b_rules (run hash ops)) -> wf_addr a = true ->
    nth_error inst (N.to_nat (r_index r)) = Some keys -> nth_error l (N.to_nat (r_index r)) = Some t ->
    keys_match big keys a = has_prefix t (probe_bin a).

Theorem C12_same_set_any_order_if_release_clears_refuted :
  exists ops order m inst l keys t a,
    forallb wf_op ops = true /\ wf_addr a = true /\
    order_run true false (mem_init (b_tries (run hash_lpm_set ops))) order = Some m /\
    In inst (m_installs m) /\ m_lpm m = Some l /\
    nth_error inst 0 = Some keys /\ nth_error l 0 = Some t /\
    keys = [] /\ keys_match false keys a = false /\ has_prefix t (probe_bin a) = true.
Proof. exact same_set_aliased_clear_refuted_proof. Qed.
Print Assumptions C12_same_set_any_order_if_release_clears_refuted.

(* ---- non-vacuity: a mixed set (unmasked, nested, mapped literal, IPv4 /0, IPv6) satisfies the hypotheses
   and matches / rejects boundary probes, ::/0 matches everything with kernel prefix length 0; a history
   where two rules share (under the real hash and under a constant one) and two do not *)
Example C12_nonvacuous :
  let ps := [ {| p_is4 := true; p_addr := 0x0a010203; p_bits := 8 |};
              {| p_is4 := true; p_addr := 0x0a800000; p_bits := 9 |};
              {| p_is4 := false; p_addr := 0xffff01020304; p_bits := 128 |};
              {| p_is4 := true; p_addr := 0; p_bits := 0 |};
              {| p_is4 := false; p_addr := 0x20010db8000000000000000000000000; p_bits := 32 |} ] in
  let probes := [ v4_mapped 0x0a000000; v4_mapped 0x0affffff; v4_mapped 0x09ffffff; v4_mapped 0x0b000000;
                  0xfffeffffffff; 0x1000000000000; 0x20010db8ffffffffffffffffffffffff;
                  0x20010db9000000000000000000000000; 0 ] in
  forallb wf_prefix ps = true /\ forallb wf_addr probes = true
  /\ map (set_contains (firstn 3 ps)) probes = [true; true; false; false; false; false; false; false; false]
  /\ map (set_contains ps) probes = [true; true; true; true; false; false; true; false; false]
  /\ map (trie_match ps) probes = map (set_contains ps) probes
  /\ map (kernel_lookup false ps) probes
     = [Some 104; Some 105; Some 96; Some 96; None; None; Some 32; None; None]
  /\ (let any6 := [ {| p_is4 := false; p_addr := 0; p_bits := 0 |} ] in
      forallb (trie_match any6) probes = true /\ map (kernel_lookup true any6) probes = map (fun _ => Some 0) probes).
Proof. exact nonvacuous_proof. Qed.

Example C12_share_nonvacuous :
  let a := {| p_is4 := true; p_addr := 0xc6336400; p_bits := 24 |} in
  let b := {| p_is4 := true; p_addr := 0xcb007100; p_bits := 24 |} in
  let c := {| p_is4 := false; p_addr := 0xffffcb007100; p_bits := 120 |} in
  let ops := [OpIp false false [a; b]; OpIp true false [b; a; a]; OpIp false true [a; c]; OpMac true [0x001122334455]] in
  map r_index (b_rules (run hash_lpm_set ops)) = [0; 0; 1; 2]
  /\ map r_index (b_rules (run (fun _ => 7) ops)) = [0; 0; 1; 2]
  /\ length (b_tries (run (fun _ => 7) ops)) = 3%nat
  /\ forallb wf_op ops = true.
Proof. exact share_nonvacuous_proof. Qed.

Example C12_any_order_nonvacuous :
  let a := {| p_is4 := true; p_addr := 0xc6336400; p_bits := 24 |} in
  let b := {| p_is4 := false; p_addr := 0x20010db8000000000000000000000000; p_bits := 32 |} in
  let ops := [OpIp false false [b; a]; OpMac false [0x001122334455]] in
  let tries := b_tries (run hash_lpm_set ops) in
  forall order, In order [[SSnapshot; SInstall; SUserspace]; [SSnapshot; SUserspace; SInstall];
                          [SSnapshot; SInstall; SUserspace; SInstall]] ->
    exists m, order_run false true (mem_init tries) order = Some m
              /\ m_installs m <> [] /\ m_lpm m <> None
              /\ forallb (fun inst => Nat.eqb (length (concat inst)) 3) (m_installs m) = true.
Proof. exact any_order_nonvacuous_proof. Qed.
