(* C06 — the variant of sniffHTTPHostHeader that does NOT stop at the empty line ending the request
   head (an empty line is skipped like a line without ':'), kept only to exhibit why the head/body
   boundary matters.  The real function is C06_Model.http_lines. *)
From Coq Require Import List NArith Bool Arith.
From Dae.gen Require Import C06_Extracted.
From Dae Require Import C06_Spec C06_Model.
Import ListNotations.
Open Scope N_scope.

Fixpoint http_lines_past (fuel : nat) (rest : option bytes) : outcome :=
  match fuel with
  | O => OutOfFuel
  | S f =>
      match rest with
      | None => NotFound
      | Some d =>
          let '(line, rest') := match index_crlf d with
                                | Some k => (firstn k d, Some (skipn (k + 2) d))
                                | None => (d, None)
                                end in
          if (length line =? 0)%nat then http_lines_past f rest' else      (* <- `continue` instead of `break` *)
          match index_byte 58 line with
          | None => http_lines_past f rest'
          | Some c =>
              let key := firstn c line in
              let value := skipn (c + 1) line in
              if bytes_eqb (map lower (trim_sp key)) host_key then
                let host := trim_sp value in
                if (length host =? 0)%nat then NotFound else Found host
              else http_lines_past f rest'
          end
      end
  end.
Definition sniff_http_past (buf : bytes) : outcome :=
  match sniff_http buf with
  | NotApplicable => NotApplicable
  | _ => norm_outcome (http_lines_past (S (length buf)) (Some buf))
  end.
