(* C06 — the asynchronous fallback of Sniffer.readStreamOnce (sniffer.go readStreamOnceAsync), taken
   when the reader is not a net.Conn or its SetReadDeadline fails.  Event system: the reads of the
   sniff phase are as in the deadline path; when the context deadline fires while a read is
   outstanding, SniffTcp returns (dataError = ctx.Err(), NOT cleared by fix 9ef4b71 which only
   touched the deadline path) and the inner goroutine stays blocked in buf.ReadFromOnce(r): the
   next bytes of the client are delivered INTO the sniffer buffer by that goroutine, whenever they
   arrive, racing with the relay.  `pending = Some i` records that outstanding read and the buffer
   length i at the time it was issued (ReadFromOnce ends with b.buf = b.buf[:i+m]).  No proofs. *)
From Coq Require Import List NArith Bool Arith.
From Dae Require Import C06_Spec C06_Model.
Import ListNotations.
Open Scope N_scope.

Fixpoint async_sniff_loop (script : list rd) (st : sstate) : outcome * sstate * option N * list rd :=
  match script with
  | [] => (TimedOut, {| s_buf := s_buf st; s_cap := s_cap st; s_dataerr := Some RsTimeout |},
           Some (blen (s_buf st)), [])
  | e :: rest =>
      let buf := s_buf st ++ rd_data e in
      let cap := blen (s_buf st) + rd_window e in
      match rd_status e with
      | RsTimeout => (TimedOut, {| s_buf := s_buf st; s_cap := cap; s_dataerr := Some RsTimeout |},
                      Some (blen (s_buf st)), rest)
      | RsErr => (IoError, {| s_buf := buf; s_cap := cap; s_dataerr := Some RsErr |}, None, rest)
      | _ =>
          let st' := {| s_buf := buf; s_cap := cap; s_dataerr := None |} in
          if (length buf =? 0)%nat then (NotApplicable, st', None, rest) else
          match sniff_group_tcp buf (zeros (cap - blen buf)) with
          | NeedMore => async_sniff_loop rest st'
          | r => (r, st', None, rest)
          end
      end
  end.
Definition async_sniff (script : list rd) := async_sniff_loop script new_stream.

(* who runs first after the timeout: the late read (the client's next bytes arrive before the relay
   touches the sniffer) or the relay's first step *)
Inductive sched := LateFirst | DrainFirst.

Definition take_first (rest : list rd) : bytes * list rd :=
  match rest with [] => ([], []) | e :: r => (rd_data e, r) end.

(* drain: 0 Read, 1 TakeRelayPrefix+CopyRelayRemainder, 2 WriteTo *)
Definition async_relay (drain : N) (sc : sched) (p : N) (st : sstate) (pend : option N) (rest : list rd)
  : bytes * rstatus :=
  match pend with
  | None => match drain with 0 => relay_read_all p st rest | _ => relay_prefix_copy st rest end
  | Some i =>
      let '(late, rest') := take_first rest in
      match sc with
      | LateFirst =>
          (* b.buf = b.buf[:i+m] with the read offset still 0: old bytes, then the late ones *)
          let st' := {| s_buf := firstn (N.to_nat i) (s_buf st) ++ late; s_cap := s_cap st; s_dataerr := s_dataerr st |} in
          match drain with 0 => relay_read_all p st' rest' | _ => relay_prefix_copy st' rest' end
      | DrainFirst =>
          match drain with
          | 0 => relay_read_all p st rest
          | _ => (* the buffer has been handed over; the outstanding read then swallows `late` into
                    the sniffer buffer, which nobody reads any more *)
                 let '(b, s) := relay_conn rest' in (s_buf st ++ b, s)
          end
      end
  end.
