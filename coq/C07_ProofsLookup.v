(* C07 — lemmas about Router.LookupIPAddr: every address family's question is routed on its own. *)
From Coq Require Import List NArith Bool String Ascii Arith Lia ZifyBool ZifyN ZifyNat.
From Dae Require Import C07_Spec C07_Model C07_Proofs C07_ProofsSplit C07_ProofsRouter.
Import ListNotations.
Open Scope N_scope.

Lemma same_host_no_control h : same_host h "" = false.
Proof. unfold same_host. cbn [strip_dot]. now rewrite andb_false_r. Qed.

Section Lookup.
Variable rc : rconfig.
Variable r : router.
Variable named : option string.
Variable host : string.
Variable bm : list N.
Variable q : question.
Hypothesis Hwf : wf_rconfig rc = true.
Hypothesis Hr : router_new rc = Ok (Some r).
Hypothesis Hn : named_ok (rc_upstreams rc) named.
Hypothesis Hor : oracle_agrees (ro_req r) bm q.
Let nm := match named with Some n => n | None => ""%string end.

Lemma select_upstream_question t :
  select_upstream r nm bm (with_type q t) = Ok (question_plan rc named host (with_type q t)).
Proof.
  pose proof (C07_router_lookup_plan_proof rc r named "" host bm (with_type q t) Hwf Hr Hn Hor) as H.
  unfold dialer_plan in H. rewrite same_host_no_control in H. exact H.
Qed.

Lemma question_plan_shape t :
  match question_plan rc named host (with_type q t) with PlanUp _ | PlanBase | PlanErr => True | PlanBootstrap => False end.
Proof.
  unfold question_plan, lookup_plan. rewrite same_host_no_control.
  destruct named as [n|]; [destruct (index_of _ n 0); exact I|].
  destruct (request_route_raw rc (with_type q t)) as [[| |i]|]; exact I.
Qed.

Definition sent_of (ts : list N) : list (N * N) :=
  flat_map (fun t => match question_plan rc named host (with_type q t) with PlanUp i => [(t, i)] | _ => [] end) ts.

Lemma lookup_loop_spec : forall ts sent saw fe,
  Forall (fun t => question_plan rc named host (with_type q t) <> PlanErr) ts ->
  fst (lookup_loop r nm bm q ts sent saw fe) = sent ++ sent_of ts /\
  (sent ++ sent_of ts <> [] -> snd (lookup_loop r nm bm q ts sent saw fe) = LAddrs) /\
  (sent ++ sent_of ts = [] -> fe = None ->
     snd (lookup_loop r nm bm q ts sent saw fe) = if saw || negb (Nat.eqb (List.length ts) 0) then LPassthrough else LNone).
Proof.
  induction ts as [|t ts IH]; intros sent saw fe Hok.
  - cbn [lookup_loop sent_of flat_map fst snd]. rewrite app_nil_r. split; [reflexivity|]. split.
    + intros H. destruct sent; [congruence|reflexivity].
    + intros H E. subst. cbn. rewrite orb_false_r. destruct saw; reflexivity.
  - inversion Hok as [|? ? Ht Hok']; subst. cbn [lookup_loop]. rewrite select_upstream_question.
    pose proof (question_plan_shape t) as Hs. unfold sent_of. cbn [flat_map]. fold (sent_of ts).
    destruct (question_plan rc named host (with_type q t)) as [i| | |] eqn:E; try contradiction; try congruence.
    + destruct (IH (sent ++ [(t, i)]) saw fe Hok') as [H1 [H2 H3]]. rewrite <- app_assoc in *. cbn [app] in *.
      split; [exact H1|]. split; [exact H2|]. intros H. apply app_eq_nil in H. destruct H; discriminate.
    + destruct (IH sent true fe Hok') as [H1 [H2 H3]]. cbn [app]. split; [exact H1|]. split; [exact H2|].
      intros H E'. rewrite (H3 H E'). cbn [orb List.length Nat.eqb negb]. now rewrite orb_true_r.
Qed.
End Lookup.

Lemma question_plan_not_err rc named host q :
  wf_rconfig rc = true -> named_ok (rc_upstreams rc) named -> question_plan rc named host q <> PlanErr.
Proof.
  intros Hwf Hn. unfold question_plan, lookup_plan. rewrite same_host_no_control.
  destruct named as [n|].
  - destruct Hn as [_ [_ Hd]]. unfold defined in Hd. destruct (index_of (rc_upstreams rc) n 0); [discriminate|discriminate].
  - unfold request_route_raw. rewrite C07_split_preserves_first_match_proof.
    destruct (wf_rconfig_split rc Hwf) as [_ Hc]. destruct (wf_config_parts _ Hc) as [Hw [Hq _]].
    set (x := {| x_q := q; x_ips := []; x_from := SAsIs |}).
    destruct (verdict_req _ _ Hw (routing_ok_first_target Request _ _ x Hq)) as [oid [v [_ [Hv _]]]].
    cbn [cfg_of cf_upstreams cf_request rt_rules rt_fallback split_of sp_dns] in Hv. fold x. rewrite Hv.
    destruct v; discriminate.
Qed.

Lemma C07_router_each_question_routed_proof rc r named control host ver bm q :
  wf_rconfig rc = true -> router_new rc = Ok (Some r) -> named_ok (rc_upstreams rc) named ->
  oracle_agrees (ro_req r) bm q ->
  (forall t, select_upstream r (match named with Some n => n | None => ""%string end) bm (with_type q t)
             = Ok (question_plan rc named host (with_type q t))) /\
  dialer_lookup r named control host ver bm q = lookup_spec rc named control host ver q.
Proof.
  intros Hwf Hr Hn Hor. split; [intros t; now apply select_upstream_question|].
  assert (Hok : Forall (fun t => question_plan rc named host (with_type q t) <> PlanErr) (families ver))
    by (apply Forall_forall; intros t _; now apply question_plan_not_err).
  destruct (lookup_loop_spec rc r named host bm q Hwf Hr Hn Hor (families ver) [] false None Hok) as [H1 [H2 H3]].
  cbn [app] in H1, H2, H3. unfold dialer_lookup, lookup_spec, lookup_ip_addr.
  fold (sent_of rc named host q (families ver)).
  assert (Hfam : negb (Nat.eqb (List.length (families ver)) 0) = true)
    by (unfold families; destruct (ver =? 4); [reflexivity|destruct (ver =? 6); reflexivity]).
  destruct (lookup_loop r _ bm q (families ver) [] false None) as [s l]. cbn [fst snd] in H1, H2, H3. subst s.
  assert (Hnm : String.eqb (match named with Some n => n | None => ""%string end) "" = match named with None => true | Some _ => false end).
  { destruct named as [n|]; [|reflexivity]. destruct Hn as [Hne _]. now apply String.eqb_neq. }
  rewrite Hnm. destruct (same_host host control); cbn [andb].
  - destruct named as [n|]; [|reflexivity].
    destruct (sent_of rc (Some n) host q (families ver)) as [|p ps] eqn:E.
    + rewrite (H3 eq_refl eq_refl), Hfam. reflexivity.
    + rewrite H2 by discriminate. reflexivity.
  - destruct (sent_of rc named host q (families ver)) as [|p ps] eqn:E.
    + rewrite (H3 eq_refl eq_refl), Hfam. destruct named; reflexivity.
    + rewrite H2 by discriminate. destruct named; reflexivity.
Qed.

(* "keep the upstream found for the A question and use it for the AAAA question" is not what the rules say *)
Definition reuse_rc : rconfig :=
  {| rc_upstreams := ["dns4"; "dns6"]%string;
     rc_request := [ {| rr_conds := [RDns {| c_neg := false; c_body := BQType [28] |}]; rr_target := "dns6" |};
                     {| rr_conds := [RDns {| c_neg := false; c_body := BQName [(DSuffix, "v6off.test")]%string |};
                                     RDns {| c_neg := false; c_body := BQType [28] |}]; rr_target := "reject" |} ];
     rc_fallback := "dns4"; rc_response := {| rt_rules := []; rt_fallback := "accept" |} |}.
Definition reuse_q : question := {| q_name := "node.example.org"; q_type := 1; q_regex_hits := [] |}.

Lemma C07_reuse_first_family_refuted_proof :
  wf_rconfig reuse_rc = true /\
  question_plan reuse_rc None "node.example.org" (with_type reuse_q 1) = PlanUp 0 /\
  question_plan reuse_rc None "node.example.org" (with_type reuse_q 28) = PlanUp 1 /\
  lookup_spec reuse_rc None "" "node.example.org" 0 reuse_q = ([(1, 0); (28, 1)], 0) /\
  lookup_spec reuse_rc None "" "node.example.org" 0 reuse_q
  <> (map (fun t => (t, 0)) (families 0), 0).
Proof. repeat split; try (vm_compute; reflexivity). vm_compute. discriminate. Qed.
