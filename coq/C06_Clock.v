(* C06 — "never waits past its timeout": SniffTcp on a virtual clock (sniffer.go: NewStreamSniffer
   fixes `deadline = time.Now().Add(timeout)` ONCE; readStreamOnceWithReadDeadline arms every read
   with that absolute deadline).  Where the deadline is computed is extracted from the source on
   every run (gen/C06_Extracted.v: sniff_deadline_rearmed); the model is parametric in it so that
   the per-read re-arming variant can be exhibited and refuted.  Times are abstract ticks.
   Parsing takes no virtual time (the documented slack is computation time only).  No proofs. *)
From Coq Require Import List NArith Bool Arith.
From Dae.gen Require Import C06_Extracted.
From Dae Require Import C06_Spec.
Import ListNotations.
Open Scope N_scope.

Inductive deadline_policy := FixedAtConstruction | RearmedPerRead.
Definition extracted_policy : deadline_policy :=
  if sniff_deadline_rearmed then RearmedPerRead else FixedAtConstruction.

(* the client's arrival schedule: chunk k becomes readable `ar_delay` ticks after chunk k-1 did
   (the first: after the sniffer was constructed) *)
Record arrival := { ar_delay : N; ar_data : bytes }.

(* the deadline a read issued at `now` is armed with *)
Definition armed (pol : deadline_policy) (origin timeout now : N) : N :=
  match pol with FixedAtConstruction => origin + timeout | RearmedPerRead => now + timeout end.

(* SniffTcp: read once, parse, loop on NeedMore.  `last` = time the previous chunk became readable.
   Returns (outcome, time of return, buffer, arrivals not consumed, deadlines armed in order). *)
Fixpoint clock_loop (pol : deadline_policy) (origin timeout : N) (parse : bytes -> outcome)
         (sched : list arrival) (now last : N) (buf : bytes) : outcome * N * bytes * list arrival * list N :=
  let d := armed pol origin timeout now in
  match sched with
  | [] => (TimedOut, N.max now d, buf, [], [d])                 (* nothing more ever arrives *)
  | a :: rest =>
      let t := last + ar_delay a in                              (* when this chunk is readable *)
      if d <=? now then (TimedOut, now, buf, sched, [d])         (* deadline already passed: the read fails at once *)
      else if d <=? t then (TimedOut, d, buf, sched, [d])        (* the read blocks until the deadline *)
      else
        let now' := N.max now t in
        let buf' := buf ++ ar_data a in
        match parse buf' with
        | NeedMore => let '(r, tf, b, rs, ds) := clock_loop pol origin timeout parse rest now' t buf' in
                      (r, tf, b, rs, d :: ds)
        | r => (r, now', buf', rest, [d])
        end
  end.
Definition clock_sniff (pol : deadline_policy) (origin timeout : N) (parse : bytes -> outcome) (sched : list arrival) :=
  clock_loop pol origin timeout parse sched origin origin [].
