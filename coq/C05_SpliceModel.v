(* C05 - the splice fast path and its pipe pool (no proofs in this file).
   control/tcp_copy_linux.go: relaySpliceCopyExact (record != nil, both ends *net.TCPConn) moves bytes
   socket -> pipe -> socket through a pipe taken from the process-wide relaySplicePipePool; `pipe.data` is the
   recorded number of bytes sitting in the pipe; putRelaySplicePipe (deferred, so on EVERY exit) closes a pipe
   whose data != 0 and otherwise hands it back to the pool (capacity relaySplicePipePoolLimit).
   Where pipe.data is assigned is extracted from the source (gen: c05_splice_ constants), so the flags below ARE the code. *)
From Coq Require Import List NArith ZArith Bool.
From Dae Require Import C05_Spec C05_Model.
From Dae.gen Require Import C05_Extracted.
Import ListNotations.
Open Scope N_scope.

Record sflags := mkSF {
  f_fill : bool;     (* pipe.data += n after a socket->pipe splice *)
  f_drain : bool;    (* pipe.data -= n after a pipe->socket splice *)
  f_err : bool;      (* pipe.data = inPipe on the failing-drain exit *)
  f_short : bool     (* pipe.data = inPipe on the zero-drain (ErrShortWrite) exit *)
}.
Definition code_flags : sflags :=
  mkSF c05_splice_upd_fill c05_splice_upd_drain c05_splice_set_on_err c05_splice_set_on_short.

Record pipe := mkPipe { pp_bytes : list N; pp_data : Z }.   (* FIFO content, recorded count (a Go int) *)
Definition new_pipe : pipe := mkPipe [] 0%Z.

(* what the kernel does at each step of one loop iteration (the oracle; every value is possible) *)
Inductive fillres := FillN (n : N) | FillEof | FillErr.
Inductive drainres := DrainN (k : N) | DrainErr | DrainZero.
Record iter := mkIt { i_cancel : bool (* ctx.Err() != nil at the loop top *); i_fill : fillres; i_drain : drainres }.

Inductive sexit := XCtx | XEof | XFillErr | XDrainErr | XShort | XRunning (* still in the loop: keeps its pipe *).

Definition set_data (p : pipe) (d : Z) : pipe := mkPipe (pp_bytes p) d.

(* the for-loop of relaySpliceCopyExact; src: bytes the source socket still has; out: bytes written to dst *)
Fixpoint splice_loop (f : sflags) (its : list iter) (src : list N) (p : pipe) (inPipe : N) (out : list N)
  : sexit * list N * pipe * list N :=
  match its with
  | [] => (XRunning, src, p, out)
  | it :: rest =>
      if i_cancel it then (XCtx, src, p, out) else
      let filled : sexit + (list N * pipe * N) :=
          if inPipe =? 0 then
            match i_fill it with
            | FillN n =>
                let m := take (N.max 1 n) src in
                match m with
                | [] => inl XEof                               (* nothing to move: end of stream *)
                | _ => inr (drop (N.max 1 n) src,
                            mkPipe (pp_bytes p ++ m) (if f_fill f then (pp_data p + Z.of_N (len m))%Z else pp_data p),
                            len m)
                end
            | FillEof => inl XEof
            | FillErr => inl XFillErr
            end
          else inr (src, p, inPipe) in
      match filled with
      | inl x => (x, src, p, out)
      | inr (src1, p1, in1) =>
          match i_drain it with
          | DrainN k =>
              let k' := N.min (N.max 1 k) in1 in
              let moved := take k' (pp_bytes p1) in            (* a pipe is FIFO: whatever is in front goes first *)
              let p2 := mkPipe (drop k' (pp_bytes p1)) (if f_drain f then (pp_data p1 - Z.of_N k')%Z else pp_data p1) in
              splice_loop f rest src1 p2 (in1 - k') (out ++ moved)
          | DrainErr => (XDrainErr, src1, (if f_err f then set_data p1 (Z.of_N in1) else p1), out)
          | DrainZero => (XShort, src1, (if f_short f then set_data p1 (Z.of_N in1) else p1), out)
          end
      end
  end.

(* the pool: a buffered channel *)
Definition pool := list pipe.
Definition pool_get (pl : pool) : pipe * pool := match pl with p :: r => (p, r) | [] => (new_pipe, []) end.
Definition pool_put (pl : pool) (p : pipe) : pool :=
  if (pp_data p =? 0)%Z
  then (if N.of_nat (length pl) <? c05_splice_pool_limit then pl ++ [p] else pl)   (* pool full: close *)
  else pl.                                                                         (* data != 0: close *)

(* one direction of one connection on the splice path: get a pipe, loop, deferred put *)
Definition run_conn (f : sflags) (its : list iter) (src : list N) (pl : pool) : sexit * list N * pool :=
  let '(p, pl1) := pool_get pl in
  let '(x, _, p', out) := splice_loop f its src p 0 [] in
  (x, out, match x with XRunning => pl1 | _ => pool_put pl1 p' end).

(* a history: directions run one after the other (a pipe is owned exclusively between get and put, so every
   interleaving of gets and puts is such a sequence for the pool) *)
Fixpoint run_history (f : sflags) (conns : list (list iter * list N)) (pl : pool) : list (list N) * pool :=
  match conns with
  | [] => ([], pl)
  | (its, src) :: rest =>
      let '(_, out, pl1) := run_conn f its src pl in
      let '(outs, pl2) := run_history f rest pl1 in
      (out :: outs, pl2)
  end.

Definition pipe_clean (p : pipe) : Prop := pp_bytes p = [] /\ pp_data p = 0%Z.
Definition pool_clean (pl : pool) : Prop := Forall pipe_clean pl.
Definition pipe_dirtyb (p : pipe) : bool := match pp_bytes p with [] => false | _ => true end.
