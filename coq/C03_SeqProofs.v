(* C03 — the sticky decision over arbitrary interleaved packet sequences (TCP). *)
From Coq Require Import List NArith ZArith Bool Lia.
From Dae Require Import C03_Spec C03_Model C03_Proofs C03_ParseProofs.
From Dae.gen Require Import C03_Consts.
Import ListNotations.
Open Scope N_scope.

Lemma fkey_eqb_eq : forall a b, fkey_eqb a b = true -> a = b.
Proof.
  intros [a1 a2 a3 a4 a5] [b1 b2 b3 b4 b5]. unfold fkey_eqb. cbn [k_sip k_dip k_sport k_dport k_proto].
  rewrite !andb_true_iff, !N.eqb_eq. intros [[[[-> ->] ->] ->] ->]. reflexivity.
Qed.

Section Maps.
  Context {V : Type}.
  Definition only_at (k0 : fkey) (m m' : list (fkey * V)) : Prop :=
    forall k, fkey_eqb k0 k = false -> tab_get m' k = tab_get m k.
  Lemma only_at_refl : forall k0 m, only_at k0 m m.
  Proof. intros k0 m k _. reflexivity. Qed.
  Lemma only_at_trans : forall k0 m1 m2 m3, only_at k0 m1 m2 -> only_at k0 m2 m3 -> only_at k0 m1 m3.
  Proof. intros k0 m1 m2 m3 H1 H2 k Hk. rewrite H2, H1 by assumption. reflexivity. Qed.
  Lemma only_at_set : forall k0 (m : list (fkey * V)) v, only_at k0 m (tab_set m k0 v).
  Proof.
    intros k0 m v k Hk. induction m as [| [a w] r IH]; cbn [tab_set tab_get].
    - rewrite Hk. reflexivity.
    - destruct (fkey_eqb a k0) eqn:E; cbn [tab_get].
      + apply fkey_eqb_eq in E. subst a. rewrite Hk. reflexivity.
      + destruct (fkey_eqb a k); [reflexivity | exact IH].
  Qed.
  Lemma only_at_del : forall k0 (m : list (fkey * V)), only_at k0 m (tab_del m k0).
  Proof.
    intros k0 m k Hk. induction m as [| [a w] r IH]; cbn [tab_del tab_get]; [reflexivity|].
    destruct (fkey_eqb a k0) eqn:E; cbn [tab_get].
    - apply fkey_eqb_eq in E. subst a. rewrite Hk. exact IH.
    - destruct (fkey_eqb a k); [reflexivity | exact IH].
  Qed.
End Maps.
#[local] Hint Resolve only_at_refl only_at_set only_at_del : oa.

Lemma only_at_set_del : forall V k0 (m : list (fkey * V)) v, only_at k0 m (tab_set (tab_del m k0) k0 v).
Proof. intros. eapply only_at_trans; [apply only_at_del | apply only_at_set]. Qed.
Lemma only_at_set_set : forall V k0 (m : list (fkey * V)) v w, only_at k0 m (tab_set (tab_set m k0 v) k0 w).
Proof. intros. eapply only_at_trans; apply only_at_set. Qed.
#[local] Hint Resolve only_at_set_del only_at_set_set : oa.

Lemma mark_tcp_seen_only_at : forall m k w n f a now, only_at k m (snd (mark_tcp_seen m k w n f a now)).
Proof.
  intros. unfold mark_tcp_seen.
  destruct (tab_get m k) as [s|]; [destruct n; [| destruct (tcp_conn_state_expired s now)] |]; cbn [snd];
    try destruct n; cbn [snd]; auto with oa.
Qed.
Lemma mark_udp_seen_only_at : forall m k w a now, only_at k m (snd (mark_udp_seen m k w a now)).
Proof.
  intros. unfold mark_udp_seen.
  destruct (tab_get m k) as [s|]; [destruct (udp_conn_state_expired s now) |]; cbn [snd]; auto with oa.
Qed.

(* every hook writes conn_state_map only under the key of the packet it handles *)
Ltac split_all :=
  repeat (first
    [ match goal with |- context [if ?x then _ else _] => destruct x eqn:? end
    | match goal with |- context [match ?x with _ => _ end] =>
        match type of x with option _ => destruct x eqn:? end end
    | match goal with |- context [match ?x with _ => _ end] =>
        match type of x with prod _ _ => destruct x eqn:? end end ];
    repeat match goal with H : (_, _) = (_, _) |- _ => inversion H; subst; clear H end).

Ltac solve_oa :=
  match goal with
  | H : only_at _ _ ?c |- only_at _ _ (tab_set ?c _ _) => exact (only_at_trans _ _ _ _ H (only_at_set _ _ _))
  | H : only_at _ _ ?c |- only_at _ _ (tab_set (tab_set ?c _ _) _ _) =>
      exact (only_at_trans _ _ _ _ H (only_at_set_set _ _ _ _ _))
  end.

Lemma lan_ingress_only_at : forall P e st ret pk,
  only_at (pp_key pk) (ks_conn st) (ks_conn (h_st (lan_ingress P e st (ret, Some pk)))).
Proof.
  intros. unfold lan_ingress, redirect_lan, ret_act.
  pose proof (mark_tcp_seen_only_at (ks_conn st) (pp_key pk) false (tcp_flags_new (pp_tcp pk)) (tcp_flags_finrst (pp_tcp pk)) no_args (e_now e)) as Ht1.
  pose proof (mark_tcp_seen_only_at (ks_conn st) (pp_key pk) false (tcp_flags_new (pp_tcp pk)) (tcp_flags_finrst (pp_tcp pk))
                                    (mk_args None None None (pp_dscp pk) 0) (e_now e)) as Ht2.
  pose proof (mark_udp_seen_only_at (ks_conn st) (pp_key pk) false (mk_args None None None (pp_dscp pk) 0) (e_now e)) as Hu.
  destruct (mark_tcp_seen (ks_conn st) (pp_key pk) false (tcp_flags_new (pp_tcp pk)) (tcp_flags_finrst (pp_tcp pk)) no_args (e_now e)) as [ts1 c1].
  destruct (mark_tcp_seen (ks_conn st) (pp_key pk) false (tcp_flags_new (pp_tcp pk)) (tcp_flags_finrst (pp_tcp pk))
                          (mk_args None None None (pp_dscp pk) 0) (e_now e)) as [ts2 c2].
  destruct (mark_udp_seen (ks_conn st) (pp_key pk) false (mk_args None None None (pp_dscp pk) 0) (e_now e)) as [us cu].
  cbn [snd] in Ht1, Ht2, Hu.
  split_all; cbn [h_st ks_conn];
    repeat match goal with H : (_, _) = (_, _) |- _ => inversion H; subst; clear H end;
    cbn [h_st ks_conn];
    auto with oa; try solve_oa.
Qed.

Lemma wan_egress_only_at : forall P e st ret pk,
  only_at (pp_key pk) (ks_conn st) (ks_conn (h_st (wan_egress P e st (ret, Some pk)))).
Proof.
  intros. unfold wan_egress, wan_egress_tcp, wan_egress_udp, wan_tail, ret_act.
  pose proof (mark_tcp_seen_only_at (ks_conn st) (pp_key pk) false false (tcp_flags_finrst (pp_tcp pk)) no_args (e_now e)) as Ht1.
  pose proof (mark_udp_seen_only_at (ks_conn st) (pp_key pk) false no_args (e_now e)) as Hu.
  destruct (mark_tcp_seen (ks_conn st) (pp_key pk) false false (tcp_flags_finrst (pp_tcp pk)) no_args (e_now e)) as [ts1 c1].
  destruct (mark_udp_seen (ks_conn st) (pp_key pk) false no_args (e_now e)) as [us cu].
  cbn [snd] in Ht1, Hu.
  split_all; cbn [h_st ks_conn]; auto with oa; try solve_oa;
    try match goal with
        | H : mark_tcp_seen (ks_conn st) (pp_key pk) ?w ?n ?f ?a ?now = (_, ?c) |- only_at _ _ ?c =>
            let H' := fresh in
            pose proof (mark_tcp_seen_only_at (ks_conn st) (pp_key pk) w n f a now) as H'; rewrite H in H'; exact H'
        end.
Qed.

(* ---------- the decision stored for a TCP flow ---------- *)
Definition dec_of (m : list (fkey * cstate)) (k : fkey) : option (N * N * N) :=
  match tab_get m k with
  | Some s => if cs_has s =? 0 then None else Some (cs_out s, cs_mark s, cs_must s)
  | None => None
  end.
Definition unexpired (st : kstate) (k : fkey) (now : N) : Prop :=
  exists s, tab_get (ks_conn st) k = Some s /\ tcp_conn_state_expired s now = false.

(* this packet neither restarts flow k (pure SYN in either direction) nor finds its entry expired *)
Definition quiet (P : param) (st : kstate) (s : step) (k : fkey) : Prop :=
  let r := parse_transport (s_eth s) (s_proto s) (s_pull_fail s) (s_lin s) (s_frame s) in
  match s_hook s with
  | HLanIngress | HWanEgress =>
      match parse_packet r with
      | (ret, Some pk) =>
          if (ret =? 0)%Z && fkey_eqb (pp_key pk) k
          then tcp_flags_new (pp_tcp pk) = false /\ unexpired st k (e_now (s_env s))
          else True
      | _ => True
      end
  | _ =>
      if (fst r =? 0)%Z && (c_l4proto (snd r) =? IPPROTO_TCP) && fkey_eqb (rev_key (fst (get_tuples (snd r)))) k
      then tcp_flags_new (c_tcp (snd r)) = false /\ unexpired st k (e_now (s_env s))
      else True
  end.

Lemma dec_of_only_at : forall k0 m m' k, only_at k0 m m' -> fkey_eqb k0 k = false -> dec_of m' k = dec_of m k.
Proof. intros k0 m m' k H Hk. unfold dec_of. rewrite (H k Hk). reflexivity. Qed.

Lemma mark_tcp_seen_keeps : forall m k w fr now s d,
  tab_get m k = Some s -> tcp_conn_state_expired s now = false -> dec_of m k = Some d ->
  dec_of (snd (mark_tcp_seen m k w false fr no_args now)) k = Some d.
Proof.
  intros m k w fr now s d Hg Hexp Hd. unfold dec_of in *. rewrite Hg in Hd.
  unfold mark_tcp_seen. rewrite Hg, Hexp. cbn [snd]. rewrite tab_get_set_same.
  unfold apply_routing, no_args, a_rt.
  destruct (gt (sub64 now (cs_last s)) TCP_CONN_STATE_UPDATE_INTERVAL_NS); destruct fr; cbn [set_last set_state cs_has cs_out cs_mark cs_must]; exact Hd.
Qed.

Lemma get_tuples_proto : forall c, k_proto (fst (get_tuples c)) = c_l4proto c.
Proof. intro c. reflexivity. Qed.
Lemma parse_packet_key_proto : forall r ret pk, parse_packet r = (ret, Some pk) -> k_proto (pp_key pk) = pp_l4 pk /\ ret = fst r.
Proof.
  intros [ret0 c] ret pk. unfold parse_packet.
  destruct (ret0 <? 0)%Z; [discriminate|]. destruct (c_l4proto c =? IPPROTO_ICMPV6); [discriminate|].
  pose proof (get_tuples_proto c) as Hp. destruct (get_tuples c) as [k0 d0]. cbn [fst] in Hp.
  intro H. inversion H. subst. cbn [pp_key pp_l4 fst]. auto.
Qed.

Lemma forward_none : forall P e st ret,
  ks_conn (h_st (lan_ingress P e st (ret, None))) = ks_conn st /\ ks_conn (h_st (wan_egress P e st (ret, None))) = ks_conn st.
Proof.
  intros. unfold lan_ingress, wan_egress, ret_act. split.
  - destruct (ret <? 0)%Z; reflexivity.
  - destruct (negb (e_ingress_if e =? 0)); [reflexivity|]. destruct (ret <? 0)%Z; reflexivity.
Qed.
Lemma forward_nonzero : forall P e st ret pk, (ret =? 0)%Z = false ->
  ks_conn (h_st (lan_ingress P e st (ret, Some pk))) = ks_conn st /\ ks_conn (h_st (wan_egress P e st (ret, Some pk))) = ks_conn st.
Proof.
  intros P e st ret pk H. unfold lan_ingress, wan_egress, ret_act. rewrite H. cbn [negb]. split.
  - destruct (ret <? 0)%Z; reflexivity.
  - destruct (negb (e_ingress_if e =? 0)); [reflexivity|]. destruct (ret <? 0)%Z; reflexivity.
Qed.

Lemma lan_tcp_conn : forall P e st pk, pp_l4 pk = IPPROTO_TCP -> tcp_flags_new (pp_tcp pk) = false ->
  ks_conn (h_st (lan_ingress P e st (0%Z, Some pk))) =
  snd (mark_tcp_seen (ks_conn st) (pp_key pk) false false (tcp_flags_finrst (pp_tcp pk)) no_args (e_now e)).
Proof.
  intros P e st pk Hl Hn. pose proof (lan_tcp_established_proof P e st pk Hl Hn) as H. cbv zeta in H.
  destruct H as [_ H].
  destruct (fst (mark_tcp_seen (ks_conn st) (pp_key pk) false false (tcp_flags_finrst (pp_tcp pk)) no_args (e_now e))) as [s|].
  - destruct (cs_has s =? 0); [destruct H as (_ & _ & ->); reflexivity|].
    destruct (cs_out s =? OUTBOUND_DIRECT); [destruct H as (_ & _ & ->); reflexivity|].
    destruct (cs_out s =? OUTBOUND_BLOCK); [destruct H as (_ & ->); reflexivity|].
    destruct (negb (wan_outbound_is_alive e (cs_out s) IPPROTO_TCP (k_dport (pp_key pk)))); [destruct H as (_ & ->); reflexivity|].
    destruct H as (_ & _ & _ & H & _). exact H.
  - destruct H as (_ & _ & ->). reflexivity.
Qed.
Lemma wan_tcp_conn : forall P e st pk, pp_l4 pk = IPPROTO_TCP -> tcp_flags_new (pp_tcp pk) = false ->
  ks_conn (h_st (wan_egress P e st (0%Z, Some pk))) = ks_conn st \/
  ks_conn (h_st (wan_egress P e st (0%Z, Some pk))) =
  snd (mark_tcp_seen (ks_conn st) (pp_key pk) false false (tcp_flags_finrst (pp_tcp pk)) no_args (e_now e)).
Proof.
  intros P e st pk Hl Hn. destruct (e_ingress_if e =? 0) eqn:Hif.
  - right. apply N.eqb_eq in Hif. pose proof (wan_tcp_established_proof P e st pk Hif Hl Hn) as H. cbv zeta in H.
    destruct H as [_ H].
    destruct (fst (mark_tcp_seen (ks_conn st) (pp_key pk) false false (tcp_flags_finrst (pp_tcp pk)) no_args (e_now e))) as [s|].
    + destruct (cs_has s =? 0); [destruct H as (_ & ->); reflexivity|].
      destruct ((cs_out s =? OUTBOUND_DIRECT) && (cs_mark s =? 0)); [destruct H as (_ & ->); reflexivity|].
      destruct (cs_out s =? OUTBOUND_BLOCK); [destruct H as (_ & ->); reflexivity|].
      destruct (negb (wan_outbound_is_alive e (cs_out s) IPPROTO_TCP (k_dport (pp_key pk)))); [destruct H as (_ & ->); reflexivity|].
      destruct H as (_ & _ & _ & H). exact H.
    + destruct H as (_ & ->). reflexivity.
  - left. unfold wan_egress. rewrite Hif. reflexivity.
Qed.

(* one packet, any hook, any flow, any rule program: the decision stored for flow k survives *)
Lemma step_keeps_decision : forall P st s k d,
  k_proto k = IPPROTO_TCP -> quiet P st s k -> dec_of (ks_conn st) k = Some d ->
  dec_of (ks_conn (h_st (run_hook P st s))) k = Some d.
Proof.
  intros P st s k d Hk Hq Hd. unfold quiet in Hq. unfold run_hook. cbv zeta in Hq.
  set (r := parse_transport (s_eth s) (s_proto s) (s_pull_fail s) (s_lin s) (s_frame s)) in *.
  destruct (s_hook s).
  - (* LAN ingress *)
    destruct (parse_packet r) as [ret [pk|]] eqn:Hp.
    2: { rewrite (proj1 (forward_none P (s_env s) st ret)). exact Hd. }
    destruct (ret =? 0)%Z eqn:Hr.
    2: { rewrite (proj1 (forward_nonzero P (s_env s) st ret pk Hr)). exact Hd. }
    apply Z.eqb_eq in Hr. subst ret. cbn [andb Z.eqb] in Hq.
    destruct (fkey_eqb (pp_key pk) k) eqn:Ek.
    + apply fkey_eqb_eq in Ek. destruct Hq as [Hn (s0 & Hg & Hexp)].
      destruct (parse_packet_key_proto _ _ _ Hp) as [Hkp _]. rewrite Ek, Hk in Hkp.
      rewrite lan_tcp_conn by (auto; symmetry; exact Hkp). rewrite Ek.
      eapply mark_tcp_seen_keeps; eassumption.
    + rewrite (dec_of_only_at _ _ _ _ (lan_ingress_only_at P (s_env s) st 0%Z pk) Ek). exact Hd.
  - (* WAN egress *)
    destruct (parse_packet r) as [ret [pk|]] eqn:Hp.
    2: { rewrite (proj2 (forward_none P (s_env s) st ret)). exact Hd. }
    destruct (ret =? 0)%Z eqn:Hr.
    2: { rewrite (proj2 (forward_nonzero P (s_env s) st ret pk Hr)). exact Hd. }
    apply Z.eqb_eq in Hr. subst ret. cbn [andb Z.eqb] in Hq.
    destruct (fkey_eqb (pp_key pk) k) eqn:Ek.
    + apply fkey_eqb_eq in Ek. destruct Hq as [Hn (s0 & Hg & Hexp)].
      destruct (parse_packet_key_proto _ _ _ Hp) as [Hkp _]. rewrite Ek, Hk in Hkp.
      destruct (wan_tcp_conn P (s_env s) st pk (eq_sym Hkp) Hn) as [-> | ->]; [exact Hd|].
      rewrite Ek. eapply mark_tcp_seen_keeps; eassumption.
    + rewrite (dec_of_only_at _ _ _ _ (wan_egress_only_at P (s_env s) st 0%Z pk) Ek). exact Hd.
  - (* WAN ingress *)
    destruct r as [ret c]. cbn [fst snd] in Hq. unfold reverse_hook, ret_act.
    destruct (ret =? 0)%Z eqn:Hr; cbn [negb andb] in *; [| destruct (ret <? 0)%Z; exact Hd].
    cbn [andb]. destruct (c_l4proto c =? IPPROTO_TCP) eqn:Hl.
    + cbn [andb] in Hq.
      pose proof (mark_tcp_seen_only_at (ks_conn st) (rev_key (fst (get_tuples c))) true (tcp_flags_new (c_tcp c))
                                        (tcp_flags_finrst (c_tcp c)) no_args (e_now (s_env s))) as Hoa.
      destruct (fkey_eqb (rev_key (fst (get_tuples c))) k) eqn:Ek.
      * apply fkey_eqb_eq in Ek. destruct Hq as [Hn (s0 & Hg & Hexp)]. rewrite Hn, Ek.
        pose proof (mark_tcp_seen_keeps (ks_conn st) k true (tcp_flags_finrst (c_tcp c)) (e_now (s_env s)) s0 d Hg Hexp Hd) as Hk2.
        destruct (mark_tcp_seen (ks_conn st) k true false (tcp_flags_finrst (c_tcp c)) no_args (e_now (s_env s))). exact Hk2.
      * destruct (mark_tcp_seen (ks_conn st) (rev_key (fst (get_tuples c))) true (tcp_flags_new (c_tcp c))
                                (tcp_flags_finrst (c_tcp c)) no_args (e_now (s_env s))) as [x conn1].
        cbn [snd] in Hoa. cbn [h_st ks_conn]. rewrite (dec_of_only_at _ _ _ _ Hoa Ek). exact Hd.
    + destruct (c_l4proto c =? IPPROTO_UDP) eqn:Hu; [| exact Hd].
      destruct ((u_sport (c_udp c) =? 53) || (u_dport (c_udp c) =? 53)); [exact Hd|].
      pose proof (mark_udp_seen_only_at (ks_conn st) (rev_key (fst (get_tuples c))) true no_args (e_now (s_env s))) as Hoa.
      destruct (mark_udp_seen (ks_conn st) (rev_key (fst (get_tuples c))) true no_args (e_now (s_env s))) as [x conn1].
      cbn [snd] in Hoa. cbn [h_st ks_conn].
      assert (fkey_eqb (rev_key (fst (get_tuples c))) k = false) as Ek.
      { destruct (fkey_eqb (rev_key (fst (get_tuples c))) k) eqn:E; [| reflexivity].
        apply fkey_eqb_eq in E. rewrite <- E in Hk. unfold get_tuples, rev_key in Hk. cbn [k_proto fst] in Hk.
        apply N.eqb_eq in Hu. rewrite Hu in Hk. discriminate Hk. }
      rewrite (dec_of_only_at _ _ _ _ Hoa Ek). exact Hd.
  - (* LAN egress *)
    destruct r as [ret c]. cbn [fst snd] in Hq. unfold reverse_hook, ret_act.
    destruct (ret =? 0)%Z eqn:Hr; cbn [negb andb] in *; [| destruct (ret <? 0)%Z; exact Hd].
    destruct ((e_ingress_if (s_env s) =? 0) && (c_l4proto c =? IPPROTO_ICMPV6) && (c_icmp_type c =? NDP_REDIRECT)); [exact Hd|].
    destruct (c_l4proto c =? IPPROTO_TCP) eqn:Hl.
    + cbn [andb] in Hq.
      pose proof (mark_tcp_seen_only_at (ks_conn st) (rev_key (fst (get_tuples c))) true (tcp_flags_new (c_tcp c))
                                        (tcp_flags_finrst (c_tcp c)) no_args (e_now (s_env s))) as Hoa.
      destruct (fkey_eqb (rev_key (fst (get_tuples c))) k) eqn:Ek.
      * apply fkey_eqb_eq in Ek. destruct Hq as [Hn (s0 & Hg & Hexp)]. rewrite Hn, Ek.
        pose proof (mark_tcp_seen_keeps (ks_conn st) k true (tcp_flags_finrst (c_tcp c)) (e_now (s_env s)) s0 d Hg Hexp Hd) as Hk2.
        destruct (mark_tcp_seen (ks_conn st) k true false (tcp_flags_finrst (c_tcp c)) no_args (e_now (s_env s))). exact Hk2.
      * destruct (mark_tcp_seen (ks_conn st) (rev_key (fst (get_tuples c))) true (tcp_flags_new (c_tcp c))
                                (tcp_flags_finrst (c_tcp c)) no_args (e_now (s_env s))) as [x conn1].
        cbn [snd] in Hoa. cbn [h_st ks_conn]. rewrite (dec_of_only_at _ _ _ _ Hoa Ek). exact Hd.
    + destruct (c_l4proto c =? IPPROTO_UDP) eqn:Hu; [| exact Hd].
      destruct ((u_sport (c_udp c) =? 53) || (u_dport (c_udp c) =? 53)); [exact Hd|].
      pose proof (mark_udp_seen_only_at (ks_conn st) (rev_key (fst (get_tuples c))) true no_args (e_now (s_env s))) as Hoa.
      destruct (mark_udp_seen (ks_conn st) (rev_key (fst (get_tuples c))) true no_args (e_now (s_env s))) as [x conn1].
      cbn [snd] in Hoa. cbn [h_st ks_conn].
      assert (fkey_eqb (rev_key (fst (get_tuples c))) k = false) as Ek.
      { destruct (fkey_eqb (rev_key (fst (get_tuples c))) k) eqn:E; [| reflexivity].
        apply fkey_eqb_eq in E. rewrite <- E in Hk. unfold get_tuples, rev_key in Hk. cbn [k_proto fst] in Hk.
        apply N.eqb_eq in Hu. rewrite Hu in Hk. discriminate Hk. }
      rewrite (dec_of_only_at _ _ _ _ Hoa Ek). exact Hd.
Qed.

(* ---------- sequences ---------- *)
Fixpoint run_steps (P : param) (st : kstate) (steps : list step) : kstate :=
  match steps with [] => st | s :: r => run_steps P (h_st (run_hook P st s)) r end.
Fixpoint quiet_all (P : param) (st : kstate) (steps : list step) (k : fkey) : Prop :=
  match steps with [] => True | s :: r => quiet P st s k /\ quiet_all P (h_st (run_hook P st s)) r k end.

Lemma sticky_sequence_proof : forall P steps st k d,
  k_proto k = IPPROTO_TCP -> dec_of (ks_conn st) k = Some d -> quiet_all P st steps k ->
  dec_of (ks_conn (run_steps P st steps)) k = Some d.
Proof.
  intros P steps. induction steps as [| s r IH]; intros st k d Hk Hd Hq; cbn [run_steps]; [exact Hd|].
  destruct Hq as [Hq1 Hq2]. apply IH; [exact Hk | | exact Hq2].
  apply step_keeps_decision; assumption.
Qed.

(* what the stored decision means for the next packet of the flow at either forward hook *)
Definition lan_follows (P : param) (e : env) (pk : ppkt) (d : N * N * N) (h : hres) : Prop :=
  let '(o, m, mu) := d in
  h_query h = None /\
  (if o =? OUTBOUND_DIRECT then h_act h = TC_ACT_OK /\ h_mark h = Some m
   else if o =? OUTBOUND_BLOCK then h_act h = TC_ACT_SHOT
   else if negb (wan_outbound_is_alive e o IPPROTO_TCP (k_dport (pp_key pk))) then h_act h = TC_ACT_SHOT
   else h_act h = TC_ACT_REDIRECT /\ h_cb h = Some (TPROXY_MARK, pp_listener pk) /\
        exists dscp, tab_get (ks_hand (h_st h)) (pp_key pk) = Some (mk_he (e_now e) (mk_rr m mu (pp_hsource pk) o 0 0 dscp))).
Definition wan_follows (e : env) (pk : ppkt) (d : N * N * N) (h : hres) : Prop :=
  let '(o, m, mu) := d in
  h_query h = None /\
  (if (o =? OUTBOUND_DIRECT) && (m =? 0) then h_act h = TC_ACT_OK
   else if o =? OUTBOUND_BLOCK then h_act h = TC_ACT_SHOT
   else if negb (wan_outbound_is_alive e o IPPROTO_TCP (k_dport (pp_key pk))) then h_act h = TC_ACT_SHOT
   else h_act h = TC_ACT_REDIRECT /\ h_cb h = Some (TPROXY_MARK, 0)).

Lemma tracked_entry : forall m k w fr now s d,
  tab_get m k = Some s -> tcp_conn_state_expired s now = false -> dec_of m k = Some d ->
  exists s', fst (mark_tcp_seen m k w false fr no_args now) = Some s' /\ cs_has s' =? 0 = false /\
             (cs_out s', cs_mark s', cs_must s') = d.
Proof.
  intros m k w fr now s d Hg Hexp Hd.
  destruct (tcp_tracking_persists_proof m k w fr now s Hg Hexp) as (s' & Hf & Hh & Ho & Hm & Hmu & _).
  exists s'. split; [exact Hf|]. unfold dec_of in Hd. rewrite Hg in Hd.
  destruct (cs_has s =? 0) eqn:E; [discriminate|]. inversion Hd. subst d.
  rewrite Hh, Ho, Hm, Hmu. auto.
Qed.

Lemma lan_follows_proof : forall P e st pk d,
  pp_l4 pk = IPPROTO_TCP -> tcp_flags_new (pp_tcp pk) = false ->
  dec_of (ks_conn st) (pp_key pk) = Some d -> unexpired st (pp_key pk) (e_now e) ->
  lan_follows P e pk d (lan_ingress P e st (0%Z, Some pk)).
Proof.
  intros P e st pk d Hl Hn Hd (s & Hg & Hexp).
  destruct (tracked_entry _ _ false (tcp_flags_finrst (pp_tcp pk)) _ _ _ Hg Hexp Hd) as (s' & Hf & Hh & Hdd).
  pose proof (lan_tcp_established_proof P e st pk Hl Hn) as H. cbv zeta in H. rewrite Hf, Hh in H.
  destruct H as [Hq H]. subst d. unfold lan_follows. split; [exact Hq|].
  destruct (cs_out s' =? OUTBOUND_DIRECT); [tauto|].
  destruct (cs_out s' =? OUTBOUND_BLOCK); [tauto|].
  destruct (negb (wan_outbound_is_alive e (cs_out s') IPPROTO_TCP (k_dport (pp_key pk)))); [tauto|].
  destruct H as (Ha & Hc & _ & _ & Hh2). repeat split; try assumption. eexists. exact Hh2.
Qed.

Lemma wan_follows_proof : forall P e st pk d,
  e_ingress_if e = 0 -> pp_l4 pk = IPPROTO_TCP -> tcp_flags_new (pp_tcp pk) = false ->
  dec_of (ks_conn st) (pp_key pk) = Some d -> unexpired st (pp_key pk) (e_now e) ->
  wan_follows e pk d (wan_egress P e st (0%Z, Some pk)).
Proof.
  intros P e st pk d Hif Hl Hn Hd (s & Hg & Hexp).
  destruct (tracked_entry _ _ false (tcp_flags_finrst (pp_tcp pk)) _ _ _ Hg Hexp Hd) as (s' & Hf & Hh & Hdd).
  pose proof (wan_tcp_established_proof P e st pk Hif Hl Hn) as H. cbv zeta in H. rewrite Hf, Hh in H.
  destruct H as [Hq H]. subst d. unfold wan_follows. split; [exact Hq|].
  destruct ((cs_out s' =? OUTBOUND_DIRECT) && (cs_mark s' =? 0)); [tauto|].
  destruct (cs_out s' =? OUTBOUND_BLOCK); [tauto|].
  destruct (negb (wan_outbound_is_alive e (cs_out s') IPPROTO_TCP (k_dport (pp_key pk)))); [tauto|].
  tauto.
Qed.

(* the decision taken for the first packet (pure SYN) of a connection at LAN ingress is the one stored *)
Lemma lan_syn_stores_proof : forall P e st pk,
  pp_l4 pk = IPPROTO_TCP -> tcp_flags_new (pp_tcp pk) = true ->
  (0 <= e_route e (rquery_of e pk false 0))%Z ->
  dec_of (ks_conn (h_st (lan_ingress P e st (0%Z, Some pk)))) (pp_key pk) = Some (unpack (e_route e (rquery_of e pk false 0))).
Proof.
  intros P e st pk Hl Hn Hw. unfold lan_ingress. cbn [Z.eqb negb]. rewrite Hl, Hn. cbn [N.eqb IPPROTO_TCP IPPROTO_UDP Pos.eqb negb andb].
  unfold mark_tcp_seen at 1.
  assert (Hsyn : t_syn (pp_tcp pk) && negb (t_ack (pp_tcp pk)) = true) by exact Hn. rewrite Hsyn. cbn [negb].
  assert (Hlt : (e_route e (rquery_of e pk false 0) <? 0)%Z = false) by (apply Z.ltb_ge; exact Hw). 
  destruct (tab_get (ks_conn st) (pp_key pk)) as [s0|]; cbn [new_state a_rt];
    rewrite Hlt; destruct (unpack (e_route e (rquery_of e pk false 0))) as [[o m] mu];
    unfold redirect_lan, ret_act;
    repeat match goal with |- context [if ?b then _ else _] => destruct b end;
    cbn [h_st ks_conn]; unfold dec_of; rewrite tab_get_set_same; reflexivity.
Qed.

(* ---------- no result depends on the parse path ---------- *)
Lemma path_independent_proof : forall P st hk e eth proto pf lin pf' lin' f,
  run_hook P st (mk_step hk e eth proto pf lin f) = run_hook P st (mk_step hk e eth proto pf' lin' f).
Proof.
  intros. unfold run_hook. cbn [s_hook s_env s_eth s_proto s_pull_fail s_lin s_frame].
  rewrite !parse_transport_eq_proof. reflexivity.
Qed.
