(* C14 — a group contains exactly the nodes its filters select, each with its annotation.
   Spec: the property in its own terms.

   A node has a name and a subscription tag (byte strings, arbitrary content; n_id is an opaque
   identity carried along so that nodes with equal names stay distinguishable - nothing below reads it).
   A group definition is a list of filter lines with one annotation each, and a policy.
   A filter line is a conjunction of functions; a function names its input (name / subtag), may be
   negated, and lists alternatives (parameters: exact value, keyword = substring, regex).
   Regular expressions (regexp2) and duration syntax (time.ParseDuration) are oracles: everything is
   stated for arbitrary [re_ok], [re_match], [dur]. *)
From Coq Require Import List String Ascii ZArith Bool Sorted.
Import ListNotations.
Open Scope string_scope.

Record param := mkParam { p_key : string; p_val : string }.
Record func := mkFunc { f_name : string; f_not : bool; f_params : list param }.
Definition line := list func.
Definition annotation := list param.
Record node := mkNode { n_id : N; n_name : string; n_tag : string }.

(* ---- keyword = substring ---- *)
Definition is_substring (kw s : string) : Prop := exists pre post, s = pre ++ kw ++ post.

Fixpoint prefixb (p s : string) : bool :=
  match p, s with
  | EmptyString, _ => true
  | String a p', String b s' => Ascii.eqb a b && prefixb p' s'
  | _, _ => false
  end.

Fixpoint containsb (s kw : string) : bool :=
  prefixb kw s || match s with EmptyString => false | String _ s' => containsb s' kw end.

(* ---- integers of fixed(i): optional sign, one or more decimal digits, 64-bit signed range ---- *)
Definition digit_of (c : ascii) : option Z :=
  let n := nat_of_ascii c in
  if (Nat.leb 48 n && Nat.leb n 57)%bool then Some (Z.of_nat (n - 48)) else None.

Fixpoint digits_value (acc : Z) (s : string) : option Z :=
  match s with
  | EmptyString => Some acc
  | String c s' => match digit_of c with
                   | Some d => digits_value (acc * 10 + d) s'
                   | None => None
                   end
  end.

Definition int64_min : Z := (- 2 ^ 63)%Z.
Definition int64_max : Z := (2 ^ 63 - 1)%Z.

Definition parse_int (s : string) : option Z :=
  let '(neg, body) :=
    match s with
    | String "-" r => (true, r)
    | String "+" r => (false, r)
    | _ => (false, s)
    end in
  match body with
  | EmptyString => None
  | _ => match digits_value 0 body with
         | Some v => let z := if neg then (- v)%Z else v in
                     if (Z.leb int64_min z && Z.leb z int64_max)%bool then Some z else None
         | None => None
         end
  end.

Inductive policy_kind := PRandom | PFixed | PMinAvg10 | PMinMovingAvg | PMinLast.

Definition policy_of_name (s : string) : option policy_kind :=
  if s =? "random" then Some PRandom
  else if s =? "fixed" then Some PFixed
  else if s =? "min_avg10" then Some PMinAvg10
  else if s =? "min_moving_avg" then Some PMinMovingAvg
  else if s =? "min" then Some PMinLast
  else None.

(* config.FunctionListOrString is `any`: a bare word, one function, a list of functions, or
   something else (which no configuration text produces) *)
Inductive policy_raw :=
| PRString (s : string)
| PRFunc (f : func)
| PRFuncs (fs : list func)
| PROther.

Definition policy_functions (r : policy_raw) : option (list func) :=
  match r with
  | PRString s => Some [mkFunc s false []]
  | PRFunc f => Some [f]
  | PRFuncs fs => Some fs
  | PROther => None
  end.

(* A policy value is a list of functions; it is valid iff it is exactly one function whose name is a
   known policy, and for fixed: not negated, exactly one unkeyed parameter that is an integer.  The
   index is 0 for the other policies. *)
Definition spec_policy (fs : list func) : option (policy_kind * Z) :=
  match fs with
  | [f] =>
      match policy_of_name (f_name f) with
      | Some PFixed =>
          if f_not f then None
          else match f_params f with
               | [p] => if p_key p =? "" then
                          match parse_int (p_val p) with Some i => Some (PFixed, i) | None => None end
                        else None
               | _ => None
               end
      | Some k => Some (k, 0%Z)
      | None => None
      end
  | _ => None
  end.

Definition spec_policy_raw (r : policy_raw) : option (policy_kind * Z) :=
  match policy_functions r with Some fs => spec_policy fs | None => None end.

(* fixed(i) designates the i-th member of the group (0-based), if there is one *)
Fixpoint nth_Z {A : Type} (g : list A) (i : Z) : option A :=
  match g with
  | [] => None
  | a :: r => if Z.eqb i 0 then Some a else nth_Z r (i - 1)
  end.

Definition fixed_choice {A : Type} (g : list A) (i : Z) : option A :=
  if Z.leb 0 i then nth_Z g i else None.

Inductive input := InName | InSubtag.

Definition input_of (s : string) : option input :=
  if s =? "name" then Some InName else if s =? "subtag" then Some InSubtag else None.

Definition subject (i : input) (n : node) : string :=
  match i with InName => n_name n | InSubtag => n_tag n end.

Inductive cond := CExact (v : string) | CKeyword (v : string) | CRegex (pat : string).

Section Oracles.
  Variable re_ok : string -> bool.                (* the pattern compiles *)
  Variable re_match : string -> string -> bool.   (* pattern, subject *)
  Variable dur : string -> option Z.              (* duration syntax -> nanoseconds *)

  (* what a parameter means for an input; None = invalid (unknown key, keyword on subtag, bad regex) *)
  Definition cond_of (i : input) (p : param) : option cond :=
    if p_key p =? "" then Some (CExact (p_val p))
    else if p_key p =? "regex" then (if re_ok (p_val p) then Some (CRegex (p_val p)) else None)
    else if p_key p =? "keyword" then
           match i with InName => Some (CKeyword (p_val p)) | InSubtag => None end
    else None.

  Definition cond_holds (c : cond) (s : string) : bool :=
    match c with
    | CExact v => s =? v
    | CKeyword v => containsb s v
    | CRegex pat => re_match pat s
    end.

  (* ---- validity of a definition ---- *)
  Definition param_valid (i : input) (p : param) : bool :=
    match cond_of i p with Some _ => true | None => false end.

  Definition func_valid (f : func) : bool :=
    match input_of (f_name f) with
    | Some i => forallb (param_valid i) (f_params f)
    | None => false
    end.

  Definition line_valid (l : line) : bool := forallb func_valid l.

  Definition anno_param_valid (p : param) : bool :=
    (p_key p =? "add_latency") && match dur (p_val p) with Some _ => true | None => false end.

  Definition anno_valid (a : annotation) : bool := forallb anno_param_valid a.

  Definition def_valid (lines : list line) (annos : list annotation) : bool :=
    Nat.eqb (List.length lines) (List.length annos) && forallb line_valid lines && forallb anno_valid annos.

  (* ---- meaning ----
     The meaning of a VALID definition is fixed below.  For invalid fragments the spec does not pick a
     meaning: it is parameterised by an arbitrary READING - [rd_param] decides what an invalid
     parameter matches, [rd_func] whether a function on an unknown input holds, [rd_anno] what offset
     an invalid annotation denotes.  An answer without error is acceptable only if it is the group
     under EVERY reading, i.e. no invalid fragment had any influence on the selection. *)
  Section Reading.
    Variable rd_param : input -> node -> param -> bool.
    Variable rd_func : node -> func -> bool.
    Variable rd_anno : annotation -> Z.

    Definition param_matches (i : input) (n : node) (p : param) : bool :=
      match cond_of i p with Some c => cond_holds c (subject i n) | None => rd_param i n p end.

    (* a function holds iff (some alternative matches) differs from (negated) *)
    Definition func_holds (n : node) (f : func) : bool :=
      match input_of (f_name f) with
      | Some i => xorb (existsb (param_matches i n) (f_params f)) (f_not f)
      | None => rd_func n f
      end.

    Definition line_hits (n : node) (l : line) : bool := forallb (func_holds n) l.

    Definition member (lines : list line) (n : node) : bool :=
      match lines with [] => true | _ => existsb (line_hits n) lines end.

    (* latency offset of a valid annotation: the first non-zero add_latency setting (0 when none).
       NOTE the Go comment says "only the first setting is valid"; the code keeps overwriting while the
       value is still 0, so [add_latency: 0s, add_latency: 5ms] means 5ms.  The property text does not
       speak about repeated settings; this spec follows the code (see C14_anno_first_setting_refuted). *)
    Definition anno_settings (a : annotation) : list Z :=
      flat_map (fun p => match dur (p_val p) with Some z => [z] | None => [] end) a.

    Definition first_nonzero (zs : list Z) : Z :=
      match find (fun z => negb (Z.eqb z 0)) zs with Some z => z | None => 0%Z end.

    Definition anno_value (a : annotation) : Z :=
      if anno_valid a then first_nonzero (anno_settings a) else rd_anno a.

    (* annotation of the first line the node satisfies *)
    Fixpoint first_hit (n : node) (lines : list line) (annos : list annotation) : option annotation :=
      match lines, annos with
      | l :: lines', a :: annos' => if line_hits n l then Some a else first_hit n lines' annos'
      | _, _ => None
      end.

    Definition node_offset (n : node) (lines : list line) (annos : list annotation) : Z :=
      match first_hit n lines annos with Some a => anno_value a | None => 0%Z end.

    (* the group: members in pool order, each pool position at most once, with its offset *)
    Definition spec_group (pool : list node) (lines : list line) (annos : list annotation) : list (node * Z) :=
      map (fun n => (n, node_offset n lines annos)) (filter (member lines) pool).

    (* ---- the same, declaratively ---- *)
    Definition func_holds_P (n : node) (f : func) : Prop :=
      match input_of (f_name f) with
      | Some i => (exists p, In p (f_params f) /\ param_matches i n p = true) <-> f_not f = false
      | None => rd_func n f = true
      end.

    Definition satisfies (n : node) (l : line) : Prop := forall f, In f l -> func_holds_P n f.

    (* g is the group of a definition with at least one filter line:
       - its nodes are the pool positions idxs, strictly increasing (pool order, each position at most
         once), and a position is listed iff its node satisfies some line;
       - every member carries the offset of the annotation of the first line it satisfies. *)
    Definition is_group (pool : list node) (lines : list line) (annos : list annotation) (g : list (node * Z)) : Prop :=
      (exists idxs : list nat,
          StronglySorted lt idxs
          /\ map fst g = map (fun i => nth i pool (mkNode 0 "" "")) idxs
          /\ forall i, In i idxs <-> (i < List.length pool /\ exists l, In l lines /\ satisfies (nth i pool (mkNode 0 "" "")) l))
      /\ (forall n z, In (n, z) g ->
                      exists j l a, nth_error lines j = Some l /\ nth_error annos j = Some a
                                    /\ satisfies n l
                                    /\ (forall j' l', j' < j -> nth_error lines j' = Some l' -> ~ satisfies n l')
                                    /\ z = anno_value a).
  End Reading.

  (* what an implementation may answer *)
  Inductive outcome := Members (l : list (node * Z)) | ConfigError.

  (* valid definition: exactly the group (readings are irrelevant then, C14_valid_reading_irrelevant).
     invalid definition: a configuration error, or the group provided it is the same under every
     reading of the invalid fragments. *)
  Definition spec_allows (pool : list node) (lines : list line) (annos : list annotation) (o : outcome) : Prop :=
    match o with
    | Members l => forall rp rf ra, l = spec_group rp rf ra pool lines annos
    | ConfigError => def_valid lines annos = false
    end.

  (* executable necessary condition used on observed answers: the two extreme readings *)
  Definition rd_lo_p : input -> node -> param -> bool := fun _ _ _ => false.
  Definition rd_lo_f : node -> func -> bool := fun _ _ => false.
  Definition rd_lo_a : annotation -> Z := fun _ => 0%Z.
  Definition rd_hi_p : input -> node -> param -> bool := fun _ _ _ => true.
  Definition rd_hi_f : node -> func -> bool := fun _ _ => true.
  Definition rd_hi_a : annotation -> Z := fun _ => 1%Z.
End Oracles.

(* ------------------------------------------------------------------------------------------ *)
(* The node pool.  The configuration delivers, per subscription tag ("" = the node{} section),   *)
(* a list of links.  The pool is the multiset of (tag, link) OCCURRENCES: a link listed under   *)
(* two tags, or twice under one tag, is two nodes.  [tagged] lists the tags in the (unspecified *)
(* - Go map) iteration order; everything holds for every order.  [link_name] is an oracle: the  *)
(* node name a link parses to, None when the link is rejected (such links are skipped).         *)
(* ------------------------------------------------------------------------------------------ *)
Definition tagged := list (string * list string).

Section Links.
  Variable link_name : string -> option string.

  Definition occurrences (m : tagged) : list (string * string) :=
    flat_map (fun e => map (fun l => (fst e, l)) (snd e)) m.

  Definition usable (o : string * string) : bool :=
    match link_name (snd o) with Some _ => true | None => false end.

  Definition names_of (links : list string) : list string :=
    flat_map (fun l => match link_name l with Some nm => [nm] | None => [] end) links.

  (* names delivered under tag t, in the order listed *)
  Definition names_under (t : string) (m : tagged) : list string :=
    flat_map (fun e => if fst e =? t then names_of (snd e) else []) m.

  (* exactly one pool node per usable occurrence: the count is preserved and, tag by tag, the
     pool shows the names delivered under that tag, in order (so nothing is dropped, merged,
     re-tagged or invented) *)
  Definition pool_faithful (m : tagged) (pool : list node) : Prop :=
    List.length pool = List.length (filter usable (occurrences m))
    /\ forall t, map n_name (filter (fun n => n_tag n =? t) pool) = names_under t m.

  Definition list_string_eqb (a b : list string) : bool :=
    Nat.eqb (List.length a) (List.length b) && forallb (fun p => fst p =? snd p) (combine a b).

  (* executable form over the tags that occur (in m or in the pool) *)
  Definition pool_faithful_b (m : tagged) (pool : list node) : bool :=
    Nat.eqb (List.length pool) (List.length (filter usable (occurrences m)))
    && forallb (fun t => list_string_eqb (map n_name (filter (fun n => n_tag n =? t) pool)) (names_under t m))
               (map fst m ++ map n_tag pool).
End Links.

(* ------------------------------------------------------------------------------------------ *)
(* Several groups in one configuration.  A group section is a list of items (filter lines with   *)
(* their optional annotation, policy settings; other keys are outside this property).  Each     *)
(* declared group means what ITS OWN items say: its filter lines in order, annotation j         *)
(* attached to line j, the last policy setting; nothing of any other group.                     *)
(* ------------------------------------------------------------------------------------------ *)
Inductive group_item := IFilter (l : line) (a : annotation) | IPolicy (r : policy_raw).

Record group_decl := mkGroup {
  g_name : string; g_filter : list line; g_anno : list annotation; g_policy : option policy_raw }.

Definition filters_of (items : list group_item) : list line :=
  flat_map (fun it => match it with IFilter l _ => [l] | IPolicy _ => [] end) items.
Definition annos_of (items : list group_item) : list annotation :=
  flat_map (fun it => match it with IFilter _ a => [a] | IPolicy _ => [] end) items.
Definition policy_of (items : list group_item) : option policy_raw :=
  fold_left (fun acc it => match it with IPolicy r => Some r | IFilter _ _ => acc end) items None.

Definition spec_group_decl (s : string * list group_item) : group_decl :=
  mkGroup (fst s) (filters_of (snd s)) (annos_of (snd s)) (policy_of (snd s)).
