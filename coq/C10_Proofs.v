(* C10 — proofs of the statements of C10_Props.v about the model of C10_Model.v. *)
From Coq Require Import List NArith Bool Lia.
From Dae Require Import C10_Spec C10_Model.
Import ListNotations.
Open Scope N_scope.

(* ------------------------------------------------------------------ *)
(* 1. big OR toolkit                                                   *)
(* ------------------------------------------------------------------ *)

Definition bigor (l : list N) : N := fold_right N.lor 0 l.

Lemma bigor_nil : bigor [] = 0.
Proof. reflexivity. Qed.

Lemma bigor_cons : forall a l, bigor (a :: l) = N.lor a (bigor l).
Proof. reflexivity. Qed.

Lemma fold_left_lor :
  forall (A : Type) (f : A -> N) (l : list A) (a : N),
    fold_left (fun acc x => N.lor acc (f x)) l a = N.lor a (bigor (map f l)).
Proof.
  intros A f l. induction l as [|x l IH]; intros a.
  - cbn [fold_left map]. rewrite bigor_nil. symmetry. apply N.lor_0_r.
  - cbn [fold_left map]. rewrite IH. rewrite bigor_cons. symmetry. apply N.lor_assoc.
Qed.

Lemma merge_owners_bigor : forall os, merge_owners os = bigor (map snd os).
Proof.
  intros os. unfold merge_owners.
  rewrite (fold_left_lor (N * N) snd os 0). apply N.lor_0_l.
Qed.

Lemma fold_right_lor_bigor :
  forall (A : Type) (f : A -> N) (l : list A),
    fold_right (fun o acc => N.lor (f o) acc) 0 l = bigor (map f l).
Proof.
  intros A f l. induction l as [|x l IH].
  - reflexivity.
  - cbn [fold_right map]. rewrite IH. rewrite bigor_cons. reflexivity.
Qed.

Lemma bigor_testbit :
  forall l i, N.testbit (bigor l) i = existsb (fun x => N.testbit x i) l.
Proof.
  intros l i. induction l as [|x l IH].
  - rewrite bigor_nil. cbn [existsb]. apply N.bits_0.
  - rewrite bigor_cons. rewrite N.lor_spec. rewrite IH. reflexivity.
Qed.

Lemma bigor_eq_0 : forall l, bigor l = 0 -> forall x, In x l -> x = 0.
Proof.
  intros l. induction l as [|a l IH]; intros H0 x Hin.
  - destruct Hin.
  - rewrite bigor_cons in H0. apply N.lor_eq_0_iff in H0. destruct H0 as [Ha Hl].
    destruct Hin as [Hx|Hx].
    + subst x. exact Ha.
    + apply IH; assumption.
Qed.

Lemma bigor_ext_members :
  forall l1 l2,
    (forall x, x <> 0 -> (In x l1 <-> In x l2)) -> bigor l1 = bigor l2.
Proof.
  intros l1 l2 Hmem. apply N.bits_inj. intros i.
  rewrite !bigor_testbit. apply eq_true_iff_eq.
  rewrite !existsb_exists.
  split; intros [x [Hin Hbit]]; exists x; split; try exact Hbit;
    apply Hmem; try exact Hin; intros Hx; subst x; rewrite N.bits_0 in Hbit; discriminate.
Qed.

Lemma existsb_eqb_In : forall k l, existsb (N.eqb k) l = true <-> In k l.
Proof.
  intros k l. rewrite existsb_exists. split.
  - intros [x [Hin Heq]]. apply N.eqb_eq in Heq. subst x. exact Hin.
  - intros Hin. exists k. split; [exact Hin | apply N.eqb_refl].
Qed.

Lemma existsb_eqb_notIn : forall k l, existsb (N.eqb k) l = false <-> ~ In k l.
Proof.
  intros k l. split.
  - intros H Hin. apply existsb_eqb_In in Hin. rewrite Hin in H. discriminate.
  - intros H. destruct (existsb (N.eqb k) l) eqn:E; [|reflexivity].
    exfalso. apply H. apply existsb_eqb_In. exact E.
Qed.

(* ------------------------------------------------------------------ *)
(* 2. live / table                                                     *)
(* ------------------------------------------------------------------ *)

Lemma live_snoc :
  forall h o s o', live (h ++ [(o, s)]) o' = if o =? o' then s else live h o'.
Proof.
  intros h o s o'. unfold live. rewrite rev_app_distr.
  cbn [rev app find fst snd]. destruct (o =? o'); reflexivity.
Qed.

Lemma live_not_in : forall h o, ~ In o (map fst h) -> live h o = empty_snapshot.
Proof.
  intros h o Hnin. unfold live.
  match goal with
  | |- context [find ?f ?l] => destruct (find f l) as [x|] eqn:Hf; [|reflexivity]
  end.
  exfalso. apply find_some in Hf. destruct Hf as [Hin Heq].
  apply N.eqb_eq in Heq. apply Hnin. rewrite <- Heq.
  apply in_map. apply in_rev. exact Hin.
Qed.

Lemma contributes_empty : forall ip, contributes empty_snapshot ip = 0.
Proof. reflexivity. Qed.

Lemma table_bigor :
  forall h ip, table h ip = bigor (map (fun o => contributes (live h o) ip) (map fst h)).
Proof.
  intros h ip. unfold table.
  apply (fold_right_lor_bigor N (fun o => contributes (live h o) ip)).
Qed.

(* ------------------------------------------------------------------ *)
(* 3. reformulation of the invariant                                   *)
(* ------------------------------------------------------------------ *)

Definition owners_at (x : option ipstate) : list (N * N) :=
  match x with Some st => st_owners st | None => [] end.

Definition mkst (L : list (N * N)) : option ipstate :=
  match L with
  | [] => None
  | _ => Some {| st_owners := L; st_merged := merge_owners L |}
  end.

Definition ips_spec (h : list op) (k : N) (L : list (N * N)) : Prop :=
  NoDup (map fst L) /\
  forall o b, In (o, b) L <-> (b <> 0 /\ contributes (live h o) k = b).

Definition ips_ok (h : list op) (t : tracker) : Prop :=
  forall k, t_ips t k = mkst (owners_at (t_ips t k)) /\ ips_spec h k (owners_at (t_ips t k)).

Definition owners_ok (h : list op) (t : tracker) : Prop :=
  forall o,
    match t_owners t o with
    | None => forall ip, contributes (live h o) ip = 0
    | Some s' => s_bitmap s' = s_bitmap (live h o) /\ s_bitmap s' <> 0 /\ s_ips s' <> [] /\
                 NoDup (s_ips s') /\
                 forall ip, In ip (s_ips s') <-> In ip (s_ips (live h o))
    end.

Lemma owners_at_mkst : forall L, owners_at (mkst L) = L.
Proof. intros L. destruct L as [|p L]; reflexivity. Qed.

Lemma consistent_ips_ok : forall h t, tracker_consistent h t -> ips_ok h t.
Proof.
  intros h t [_ Hips] k. specialize (Hips k).
  destruct (t_ips t k) as [st|].
  - destruct st as [os m]. cbn [st_owners st_merged owners_at] in *.
    destruct Hips as [Hne [Hnd [Hm Hiff]]].
    split.
    + destruct os as [|p os]; [exfalso; apply Hne; reflexivity|].
      cbn [mkst]. rewrite Hm. reflexivity.
    + split; assumption.
  - cbn [owners_at mkst]. split; [reflexivity|].
    split; [constructor|].
    intros o b. split.
    + intros Hin. destruct Hin.
    + intros [Hb Hc]. rewrite Hips in Hc. exfalso. apply Hb. symmetry. exact Hc.
Qed.

Lemma ips_ok_consistent :
  forall h t, owners_ok h t -> ips_ok h t -> tracker_consistent h t.
Proof.
  intros h t Hown Hips. split; [exact Hown|].
  intros k. destruct (Hips k) as [Hmk [Hnd Hiff]].
  destruct (t_ips t k) as [st|] eqn:Ek.
  - cbn [owners_at] in *.
    destruct (st_owners st) as [|p os] eqn:Eos; [discriminate Hmk|].
    cbn [mkst] in Hmk. injection Hmk as Hst.
    split; [discriminate|]. split; [exact Hnd|]. split; [|exact Hiff].
    rewrite Hst. reflexivity.
  - cbn [owners_at] in *. intros o.
    destruct (N.eq_dec (contributes (live h o) k) 0) as [Hz|Hnz]; [exact Hz|].
    exfalso. apply (proj2 (Hiff o (contributes (live h o) k))). split; [exact Hnz|reflexivity].
Qed.

(* the cached OR is the table value *)
Lemma ips_spec_table : forall h k L, ips_spec h k L -> table h k = merge_owners L.
Proof.
  intros h k L [_ Hiff]. rewrite table_bigor, merge_owners_bigor.
  apply bigor_ext_members. intros x Hx. rewrite !in_map_iff. split.
  - intros [o [Hc Hin]]. exists (o, x). split; [reflexivity|].
    apply Hiff. split; assumption.
  - intros [[o b] [Hsnd Hin]]. cbn [snd] in Hsnd. subst b.
    apply Hiff in Hin. destruct Hin as [_ Hc].
    exists o. split; [exact Hc|].
    destruct (in_dec N.eq_dec o (map fst h)) as [Hi|Hni]; [exact Hi|].
    exfalso. apply Hx. rewrite <- Hc. rewrite (live_not_in h o Hni). apply contributes_empty.
Qed.

Lemma ips_spec_merge_nonzero :
  forall h k L, ips_spec h k L -> L <> [] -> merge_owners L <> 0.
Proof.
  intros h k L [_ Hiff] Hne Hz.
  destruct L as [|[o b] L]; [apply Hne; reflexivity|].
  assert (Hin : In (o, b) ((o, b) :: L)) by (left; reflexivity).
  apply Hiff in Hin. destruct Hin as [Hb _]. apply Hb.
  rewrite merge_owners_bigor in Hz.
  apply (bigor_eq_0 _ Hz). cbn [map snd]. left. reflexivity.
Qed.

Lemma mkst_table_entry :
  forall h k L, ips_spec h k L -> option_map st_merged (mkst L) = table_entry h k.
Proof.
  intros h k L Hspec. unfold table_entry.
  rewrite (ips_spec_table h k L Hspec).
  destruct L as [|p L].
  - reflexivity.
  - assert (Hnz : merge_owners (p :: L) <> 0)
      by (apply (ips_spec_merge_nonzero h k); [exact Hspec|discriminate]).
    apply N.eqb_neq in Hnz. cbv zeta. rewrite Hnz. reflexivity.
Qed.

Lemma link_table_entry :
  forall h t k, tracker_consistent h t -> option_map st_merged (t_ips t k) = table_entry h k.
Proof.
  intros h t k Hc. destruct (consistent_ips_ok h t Hc k) as [Hmk Hspec].
  rewrite Hmk. apply mkst_table_entry. exact Hspec.
Qed.

(* ------------------------------------------------------------------ *)
(* 4. pointwise view of applyOwnerSnapshotLocked                       *)
(* ------------------------------------------------------------------ *)

Lemma remove_owner_cons :
  forall o p os,
    remove_owner o (p :: os) = if fst p =? o then remove_owner o os else p :: remove_owner o os.
Proof.
  intros o p os. unfold remove_owner. cbn [filter]. destruct (fst p =? o); reflexivity.
Qed.

Lemma remove_owner_in :
  forall o o' b os, In (o', b) (remove_owner o os) <-> (o' <> o /\ In (o', b) os).
Proof.
  intros o o' b os. unfold remove_owner. rewrite filter_In. cbn [fst].
  rewrite negb_true_iff. rewrite N.eqb_neq. tauto.
Qed.

Lemma remove_owner_idem : forall o os, remove_owner o (remove_owner o os) = remove_owner o os.
Proof.
  intros o os. induction os as [|p os IH].
  - reflexivity.
  - rewrite remove_owner_cons. destruct (fst p =? o) eqn:E.
    + exact IH.
    + rewrite remove_owner_cons. rewrite E. rewrite IH. reflexivity.
Qed.

Lemma remove_owner_notin :
  forall o os, ~ In o (map fst os) -> remove_owner o os = os.
Proof.
  intros o os. induction os as [|p os IH]; intros Hnin.
  - reflexivity.
  - rewrite remove_owner_cons. cbn [map In] in Hnin.
    destruct (fst p =? o) eqn:E.
    + apply N.eqb_eq in E. exfalso. apply Hnin. left. exact E.
    + rewrite IH; [reflexivity|]. intros Hin. apply Hnin. right. exact Hin.
Qed.

Lemma remove_owner_fst_notin : forall o os, ~ In o (map fst (remove_owner o os)).
Proof.
  intros o os Hin. apply in_map_iff in Hin. destruct Hin as [[o' b] [Hfst Hin]].
  cbn [fst] in Hfst. subst o'. apply remove_owner_in in Hin. destruct Hin as [Hne _].
  apply Hne. reflexivity.
Qed.

Lemma remove_owner_nodup :
  forall o os, NoDup (map fst os) -> NoDup (map fst (remove_owner o os)).
Proof.
  intros o os. induction os as [|p os IH]; intros Hnd.
  - constructor.
  - rewrite remove_owner_cons. cbn [map] in Hnd. inversion Hnd as [|x l Hnin Hnd']. subst x l.
    destruct (fst p =? o).
    + apply IH. exact Hnd'.
    + cbn [map]. constructor; [|apply IH; exact Hnd'].
      intros Hin. apply Hnin. apply in_map_iff in Hin. destruct Hin as [[o' b] [Hfst Hin]].
      apply remove_owner_in in Hin. destruct Hin as [_ Hin].
      rewrite <- Hfst. apply (in_map fst _ _ Hin).
Qed.

Definition dropped (o : N) (x : option ipstate) : option ipstate :=
  mkst (remove_owner o (owners_at x)).

Lemma drop_old_ip_at :
  forall o ips a k,
    drop_old_ip o ips a k = if k =? a then dropped o (ips k) else ips k.
Proof.
  intros o ips a k. unfold drop_old_ip.
  destruct (ips a) as [st|] eqn:E.
  - assert (Hupd : forall os : list (N * N),
               match os with
               | [] => upd ips a None
               | _ => upd ips a (Some {| st_owners := os; st_merged := merge_owners os |})
               end = upd ips a (mkst os)).
    { intros os. destruct os; reflexivity. }
    cbv zeta. rewrite Hupd. unfold upd.
    destruct (k =? a) eqn:K; [|reflexivity].
    apply N.eqb_eq in K. subst k. rewrite E. reflexivity.
  - destruct (k =? a) eqn:K; [|reflexivity].
    apply N.eqb_eq in K. subst k. rewrite E. reflexivity.
Qed.

Lemma dropped_idem : forall o x, dropped o (dropped o x) = dropped o x.
Proof.
  intros o x. unfold dropped. rewrite owners_at_mkst. rewrite remove_owner_idem. reflexivity.
Qed.

Lemma fold_drop_at :
  forall o l ips k,
    fold_left (drop_old_ip o) l ips k =
    if existsb (N.eqb k) l then dropped o (ips k) else ips k.
Proof.
  intros o l. induction l as [|a l IH]; intros ips k.
  - reflexivity.
  - cbn [fold_left existsb]. rewrite IH. rewrite drop_old_ip_at.
    destruct (k =? a); destruct (existsb (N.eqb k) l); cbn [orb]; try reflexivity.
    apply dropped_idem.
Qed.

Definition added (o b : N) (x : option ipstate) : option ipstate :=
  Some {| st_owners := set_owner o b (owners_at x);
          st_merged := merge_owners (set_owner o b (owners_at x)) |}.

Lemma add_new_ip_at :
  forall o b ips a k,
    add_new_ip o b ips a k = if k =? a then added o b (ips k) else ips k.
Proof.
  intros o b ips a k. unfold add_new_ip, upd. cbv zeta.
  destruct (k =? a) eqn:K; [|reflexivity].
  apply N.eqb_eq in K. subst k. reflexivity.
Qed.

Lemma set_owner_idem :
  forall o b os, set_owner o b (set_owner o b os) = set_owner o b os.
Proof.
  intros o b os. unfold set_owner at 1 3. f_equal.
  unfold set_owner. rewrite remove_owner_cons. cbn [fst]. rewrite N.eqb_refl.
  apply remove_owner_idem.
Qed.

Lemma added_idem : forall o b x, added o b (added o b x) = added o b x.
Proof.
  intros o b x. unfold added. cbn [owners_at st_owners]. rewrite set_owner_idem. reflexivity.
Qed.

Lemma fold_add_at :
  forall o b l ips k,
    fold_left (add_new_ip o b) l ips k =
    if existsb (N.eqb k) l then added o b (ips k) else ips k.
Proof.
  intros o b l. induction l as [|a l IH]; intros ips k.
  - reflexivity.
  - cbn [fold_left existsb]. rewrite IH. rewrite add_new_ip_at.
    destruct (k =? a); destruct (existsb (N.eqb k) l); cbn [orb]; try reflexivity.
    apply added_idem.
Qed.

(* the two phases, named *)
Definition drop_phase (t : tracker) (owner : N) : tracker :=
  match t_owners t owner with
  | Some old =>
      {| t_owners := upd (t_owners t) owner None;
         t_ips := fold_left (drop_old_ip owner) (s_ips old) (t_ips t) |}
  | None => t
  end.

Lemma apply_owner_snapshot_eq :
  forall t owner s,
    apply_owner_snapshot t owner s =
    match s_ips s with
    | [] => drop_phase t owner
    | _ =>
        if is_zero_bitmap (s_bitmap s) then drop_phase t owner
        else {| t_owners := upd (t_owners (drop_phase t owner)) owner
                                (Some {| s_bitmap := s_bitmap s; s_ips := nodup N.eq_dec (s_ips s) |});
                t_ips := fold_left (add_new_ip owner (s_bitmap s)) (s_ips s)
                                   (t_ips (drop_phase t owner)) |}
    end.
Proof. reflexivity. Qed.

Definition old_ips (t : tracker) (o : N) : list N :=
  match t_owners t o with Some old => s_ips old | None => [] end.

Lemma old_contrib_zero :
  forall h t o k,
    tracker_consistent h t -> ~ In k (old_ips t o) -> contributes (live h o) k = 0.
Proof.
  intros h t o k [Hown _] Hnin. specialize (Hown o). unfold old_ips in Hnin.
  destruct (t_owners t o) as [old|].
  - destruct Hown as [_ [_ [_ [_ Hiff]]]].
    unfold contributes.
    destruct (existsb (N.eqb k) (s_ips (live h o))) eqn:E; [|reflexivity].
    exfalso. apply Hnin. apply Hiff. apply existsb_eqb_In. exact E.
  - apply Hown.
Qed.

Lemma contrib_zero_notin :
  forall h k L o, ips_spec h k L -> contributes (live h o) k = 0 -> ~ In o (map fst L).
Proof.
  intros h k L o [_ Hiff] Hz Hin. apply in_map_iff in Hin.
  destruct Hin as [[o' b] [Hfst Hin]]. cbn [fst] in Hfst. subst o'.
  apply Hiff in Hin. destruct Hin as [Hb Hc]. apply Hb. rewrite <- Hc. exact Hz.
Qed.

Lemma drop_phase_ips :
  forall h t o k,
    tracker_consistent h t ->
    t_ips (drop_phase t o) k = mkst (remove_owner o (owners_at (t_ips t k))).
Proof.
  intros h t o k Hc.
  destruct (consistent_ips_ok h t Hc k) as [Hmk Hspec].
  assert (Hnoop : ~ In k (old_ips t o) ->
                  t_ips t k = mkst (remove_owner o (owners_at (t_ips t k)))).
  { intros Hnin. rewrite remove_owner_notin; [exact Hmk|].
    apply (contrib_zero_notin h k); [exact Hspec|].
    apply (old_contrib_zero h t); assumption. }
  unfold drop_phase. unfold old_ips in Hnoop.
  destruct (t_owners t o) as [old|].
  - cbn [t_ips]. rewrite fold_drop_at.
    destruct (existsb (N.eqb k) (s_ips old)) eqn:E.
    + reflexivity.
    + apply Hnoop. apply existsb_eqb_notIn. exact E.
  - apply Hnoop. intros Hin. destruct Hin.
Qed.

Lemma drop_phase_owners :
  forall t o o', t_owners (drop_phase t o) o' = if o' =? o then None else t_owners t o'.
Proof.
  intros t o o'. unfold drop_phase.
  destruct (t_owners t o) as [old|] eqn:E.
  - reflexivity.
  - destruct (o' =? o) eqn:K; [|reflexivity].
    apply N.eqb_eq in K. subst o'. exact E.
Qed.

Definition contrib_new (s : snapshot) (k : N) : bool :=
  negb (match s_ips s with [] => true | _ => false end)
  && negb (is_zero_bitmap (s_bitmap s))
  && existsb (N.eqb k) (s_ips s).

Definition new_owners (t : tracker) (o : N) (s : snapshot) (k : N) : list (N * N) :=
  let base := remove_owner o (owners_at (t_ips t k)) in
  if contrib_new s k then (o, s_bitmap s) :: base else base.

Lemma apply_ips_at :
  forall h t o s k,
    tracker_consistent h t ->
    t_ips (apply_owner_snapshot t o s) k = mkst (new_owners t o s k).
Proof.
  intros h t o s k Hc. rewrite apply_owner_snapshot_eq.
  unfold new_owners, contrib_new. cbv zeta.
  destruct (s_ips s) as [|i l] eqn:Eips.
  - cbn [negb andb]. apply (drop_phase_ips h). exact Hc.
  - destruct (is_zero_bitmap (s_bitmap s)) eqn:Ez.
    + cbn [negb andb]. apply (drop_phase_ips h). exact Hc.
    + cbn [negb andb t_ips]. rewrite fold_add_at.
      rewrite (drop_phase_ips h t o k Hc).
      destruct (existsb (N.eqb k) (i :: l)).
      * unfold added. rewrite owners_at_mkst.
        unfold set_owner. rewrite remove_owner_idem. reflexivity.
      * reflexivity.
Qed.

(* ------------------------------------------------------------------ *)
(* 5. the invariant is preserved by one operation                      *)
(* ------------------------------------------------------------------ *)

Lemma contrib_new_true :
  forall s k, contrib_new s k = true ->
              s_bitmap s <> 0 /\ existsb (N.eqb k) (s_ips s) = true.
Proof.
  intros s k H. unfold contrib_new in H.
  apply andb_true_iff in H. destruct H as [H He].
  apply andb_true_iff in H. destruct H as [_ Hz].
  apply negb_true_iff in Hz. unfold is_zero_bitmap in Hz. apply N.eqb_neq in Hz.
  split; assumption.
Qed.

Lemma contrib_new_false :
  forall s k, contrib_new s k = false -> contributes s k = 0.
Proof.
  intros s k H. unfold contrib_new in H. unfold contributes.
  destruct (existsb (N.eqb k) (s_ips s)) eqn:E; [|reflexivity].
  destruct (s_ips s) as [|i l]; [discriminate E|].
  cbn [negb andb] in H. rewrite andb_true_r in H.
  apply negb_false_iff in H. unfold is_zero_bitmap in H. apply N.eqb_eq in H. exact H.
Qed.

Lemma new_owners_spec :
  forall h t o s k,
    tracker_consistent h t ->
    ips_spec (h ++ [(o, s)]) k (new_owners t o s k).
Proof.
  intros h t o s k Hc.
  destruct (consistent_ips_ok h t Hc k) as [_ [Hnd Hiff]].
  set (L := owners_at (t_ips t k)) in *.
  unfold new_owners. fold L. cbv zeta.
  assert (Hother : forall o' b, o =? o' = false ->
            (In (o', b) (remove_owner o L) <->
             (b <> 0 /\ contributes (live h o') k = b))).
  { intros o' b Hne. rewrite remove_owner_in. rewrite Hiff.
    apply N.eqb_neq in Hne. split.
    - intros [_ H]. exact H.
    - intros H. split; [|exact H]. intros Heq. apply Hne. symmetry. exact Heq. }
  assert (Hnobase : forall b, ~ In (o, b) (remove_owner o L)).
  { intros b Hin. apply remove_owner_in in Hin. destruct Hin as [Hne _]. apply Hne. reflexivity. }
  destruct (contrib_new s k) eqn:Ecn.
  - destruct (contrib_new_true s k Ecn) as [Hsb Hex].
    split.
    + cbn [map fst]. constructor.
      * apply remove_owner_fst_notin.
      * apply remove_owner_nodup. exact Hnd.
    + intros o' b. rewrite live_snoc. destruct (o =? o') eqn:Eo.
      * apply N.eqb_eq in Eo. subst o'. unfold contributes. rewrite Hex. split.
        -- intros [Heq|Hin].
           ++ injection Heq as Hb. subst b. split; [exact Hsb|reflexivity].
           ++ exfalso. apply (Hnobase b). exact Hin.
        -- intros [_ Hb]. left. rewrite Hb. reflexivity.
      * rewrite <- (Hother o' b Eo). split.
        -- intros [Heq|Hin]; [|exact Hin].
           injection Heq as Ho _. apply N.eqb_neq in Eo. exfalso. apply Eo. exact Ho.
        -- intros Hin. right. exact Hin.
  - split.
    + apply remove_owner_nodup. exact Hnd.
    + intros o' b. rewrite live_snoc. destruct (o =? o') eqn:Eo.
      * apply N.eqb_eq in Eo. subst o'. split.
        -- intros Hin. exfalso. apply (Hnobase b). exact Hin.
        -- intros [Hb Hcb]. rewrite (contrib_new_false s k Ecn) in Hcb.
           exfalso. apply Hb. symmetry. exact Hcb.
      * rewrite <- (Hother o' b Eo). tauto.
Qed.

Lemma apply_owners_at :
  forall t o s o',
    t_owners (apply_owner_snapshot t o s) o' =
    if o' =? o
    then (if negb (match s_ips s with [] => true | _ => false end)
             && negb (is_zero_bitmap (s_bitmap s))
          then Some {| s_bitmap := s_bitmap s; s_ips := nodup N.eq_dec (s_ips s) |}
          else None)
    else t_owners t o'.
Proof.
  intros t o s o'. rewrite apply_owner_snapshot_eq.
  destruct (s_ips s) as [|i l].
  - cbn [negb andb]. apply drop_phase_owners.
  - destruct (is_zero_bitmap (s_bitmap s)).
    + cbn [negb andb]. apply drop_phase_owners.
    + cbn [negb andb t_owners]. unfold upd. rewrite drop_phase_owners.
      destruct (o' =? o); reflexivity.
Qed.

Lemma owners_step :
  forall h t o s,
    tracker_consistent h t ->
    owners_ok (h ++ [(o, s)]) (apply_owner_snapshot t o s).
Proof.
  intros h t o s [Hown _] o'. rewrite apply_owners_at. rewrite live_snoc.
  destruct (o' =? o) eqn:Eo.
  - apply N.eqb_eq in Eo. subst o'. rewrite N.eqb_refl.
    destruct (s_ips s) as [|i l] eqn:Eips.
    + cbn [negb andb]. intros ip. unfold contributes. rewrite Eips. reflexivity.
    + destruct (is_zero_bitmap (s_bitmap s)) eqn:Ez.
      * cbn [negb andb]. intros ip. unfold contributes.
        unfold is_zero_bitmap in Ez. apply N.eqb_eq in Ez. rewrite Ez.
        destruct (existsb (N.eqb ip) (s_ips s)); reflexivity.
      * cbn [negb andb C10_Spec.s_bitmap C10_Spec.s_ips].
        unfold is_zero_bitmap in Ez. apply N.eqb_neq in Ez.
        split; [reflexivity|]. split; [exact Ez|]. split.
        -- intros Hnil. assert (Hin : In i (nodup N.eq_dec (i :: l))).
           { apply nodup_In. left. reflexivity. }
           rewrite Hnil in Hin. destruct Hin.
        -- split; [apply NoDup_nodup|]. intros ip. rewrite <- Eips. apply nodup_In.
  - assert (Eo' : o =? o' = false).
    { apply N.eqb_neq. apply N.eqb_neq in Eo. intros H. apply Eo. symmetry. exact H. }
    rewrite Eo'. apply Hown.
Qed.

Lemma consistent_step :
  forall h t o s,
    tracker_consistent h t ->
    tracker_consistent (h ++ [(o, s)]) (apply_owner_snapshot t o s).
Proof.
  intros h t o s Hc. apply ips_ok_consistent.
  - apply owners_step. exact Hc.
  - intros k. rewrite (apply_ips_at h t o s k Hc). rewrite owners_at_mkst.
    split; [reflexivity|]. apply new_owners_spec. exact Hc.
Qed.

(* ------------------------------------------------------------------ *)
(* 6. the batches                                                      *)
(* ------------------------------------------------------------------ *)

Definition isnil {A} (l : list A) : bool := match l with [] => true | _ => false end.

Lemma desired_fold :
  forall owner L a p,
    fold_left (fun (bp : N * bool) (ob : N * N) =>
                 if fst ob =? owner then bp else (N.lor (fst bp) (snd ob), true)) L (a, p) =
    (N.lor a (bigor (map snd (remove_owner owner L))),
     p || negb (isnil (remove_owner owner L))).
Proof.
  intros owner L. induction L as [|ob L IH]; intros a p.
  - cbn [fold_left remove_owner filter map isnil negb]. rewrite bigor_nil.
    rewrite N.lor_0_r. rewrite orb_false_r. reflexivity.
  - cbn [fold_left]. rewrite remove_owner_cons. destruct (fst ob =? owner).
    + apply IH.
    + cbn [fst]. rewrite IH. cbn [map isnil negb]. rewrite bigor_cons.
      rewrite N.lor_assoc. rewrite orb_true_l. rewrite orb_true_r. reflexivity.
Qed.

Lemma desired_eq :
  forall t k o s,
    desired t k o s =
    (merge_owners (new_owners t o s k), negb (isnil (new_owners t o s k))).
Proof.
  intros t k o s. unfold desired. cbv zeta.
  assert (Hbp :
    match t_ips t k with
    | Some st =>
        fold_left (fun (bp : N * bool) (ob : N * N) =>
                     if fst ob =? o then bp else (N.lor (fst bp) (snd ob), true))
                  (st_owners st) (0, false)
    | None => (0, false)
    end =
    (bigor (map snd (remove_owner o (owners_at (t_ips t k)))),
     negb (isnil (remove_owner o (owners_at (t_ips t k)))))).
  { destruct (t_ips t k) as [st|].
    - cbn [owners_at]. rewrite desired_fold. rewrite N.lor_0_l. reflexivity.
    - reflexivity. }
  rewrite Hbp. unfold new_owners. cbv zeta. fold (contrib_new s k).
  destruct (contrib_new s k).
  - cbn [fst isnil negb]. rewrite !merge_owners_bigor. cbn [map snd]. rewrite bigor_cons.
    rewrite N.lor_comm. reflexivity.
  - rewrite merge_owners_bigor. reflexivity.
Qed.

Definition sync_step (t : tracker) (owner : N) (s : snapshot) (acc : batches) (key : N) : batches :=
  let '(d, present) := desired t key owner s in
  match t_ips t key with
  | None =>
      if present then {| b_updates := (key, d) :: b_updates acc; b_deletes := b_deletes acc |} else acc
  | Some cur =>
      if negb present then {| b_updates := b_updates acc; b_deletes := key :: b_deletes acc |}
      else if negb (st_merged cur =? d)
           then {| b_updates := (key, d) :: b_updates acc; b_deletes := b_deletes acc |}
           else acc
  end.

Lemma sync_owner_eq :
  forall t o s,
    sync_owner t o s =
    (fold_left (sync_step t o s) (nodup N.eq_dec (old_ips t o ++ s_ips s))
               {| b_updates := []; b_deletes := [] |},
     apply_owner_snapshot t o s).
Proof. reflexivity. Qed.

(* old and new table value at a key, read off the index *)
Definition e_old (t : tracker) (k : N) : option N := option_map st_merged (t_ips t k).
Definition e_new (t : tracker) (o : N) (s : snapshot) (k : N) : option N :=
  option_map st_merged (mkst (new_owners t o s k)).

Lemma sync_step_cases :
  forall t o s acc k,
    (sync_step t o s acc k = acc /\ e_old t k = e_new t o s k) \/
    (exists d, sync_step t o s acc k =
               {| b_updates := (k, d) :: b_updates acc; b_deletes := b_deletes acc |} /\
               e_new t o s k = Some d /\ e_old t k <> e_new t o s k) \/
    (sync_step t o s acc k =
     {| b_updates := b_updates acc; b_deletes := k :: b_deletes acc |} /\
     e_new t o s k = None /\ e_old t k <> e_new t o s k).
Proof.
  intros t o s acc k. unfold sync_step, e_old, e_new. rewrite desired_eq.
  destruct (new_owners t o s k) as [|p L'].
  - cbn [isnil negb mkst option_map]. destruct (t_ips t k) as [cur|].
    + right. right. cbn [option_map]. split; [reflexivity|]. split; [reflexivity|discriminate].
    + left. split; reflexivity.
  - cbn [isnil negb mkst option_map st_merged]. destruct (t_ips t k) as [cur|].
    + cbn [option_map]. destruct (st_merged cur =? merge_owners (p :: L')) eqn:E.
      * left. cbn [negb]. apply N.eqb_eq in E. rewrite E. split; reflexivity.
      * right. left. cbn [negb]. exists (merge_owners (p :: L')).
        split; [reflexivity|]. split; [reflexivity|].
        intros H. injection H as H. apply N.eqb_neq in E. apply E. exact H.
    + right. left. exists (merge_owners (p :: L')).
      split; [reflexivity|]. split; [reflexivity|]. cbn [option_map]. discriminate.
Qed.

Lemma sync_fold_mono :
  forall t o s l acc,
    (forall x, In x (b_updates acc) -> In x (b_updates (fold_left (sync_step t o s) l acc))) /\
    (forall x, In x (b_deletes acc) -> In x (b_deletes (fold_left (sync_step t o s) l acc))).
Proof.
  intros t o s l. induction l as [|a l IH]; intros acc.
  - split; intros x Hx; exact Hx.
  - cbn [fold_left]. destruct (IH (sync_step t o s acc a)) as [IHu IHd].
    destruct (sync_step_cases t o s acc a) as [[Hs _]|[[d [Hs _]]|[Hs _]]]; rewrite Hs in *;
      cbn [b_updates b_deletes] in *.
    + split; assumption.
    + split; intros x Hx; [apply IHu; right; exact Hx | apply IHd; exact Hx].
    + split; intros x Hx; [apply IHu; exact Hx | apply IHd; right; exact Hx].
Qed.

Lemma sync_fold_sound :
  forall t o s l acc,
    (forall k d, In (k, d) (b_updates (fold_left (sync_step t o s) l acc)) ->
                 In (k, d) (b_updates acc) \/
                 (In k l /\ e_new t o s k = Some d /\ e_old t k <> e_new t o s k)) /\
    (forall k, In k (b_deletes (fold_left (sync_step t o s) l acc)) ->
               In k (b_deletes acc) \/
               (In k l /\ e_new t o s k = None /\ e_old t k <> e_new t o s k)).
Proof.
  intros t o s l. induction l as [|a l IH]; intros acc.
  - split; intros; left; assumption.
  - cbn [fold_left]. destruct (IH (sync_step t o s acc a)) as [IHu IHd].
    destruct (sync_step_cases t o s acc a) as [[Hs He]|[[d0 [Hs [Hn He]]]|[Hs [Hn He]]]];
      rewrite Hs in *; cbn [b_updates b_deletes] in *.
    + split.
      * intros k d Hin. destruct (IHu k d Hin) as [H|[H1 H2]]; [left; exact H|].
        right. split; [right; exact H1|exact H2].
      * intros k Hin. destruct (IHd k Hin) as [H|[H1 H2]]; [left; exact H|].
        right. split; [right; exact H1|exact H2].
    + split.
      * intros k d Hin. destruct (IHu k d Hin) as [[H|H]|[H1 H2]].
        -- injection H as Hk Hd. subst k d. right. split; [left; reflexivity|]. split; assumption.
        -- left. exact H.
        -- right. split; [right; exact H1|exact H2].
      * intros k Hin. destruct (IHd k Hin) as [H|[H1 H2]]; [left; exact H|].
        right. split; [right; exact H1|exact H2].
    + split.
      * intros k d Hin. destruct (IHu k d Hin) as [H|[H1 H2]]; [left; exact H|].
        right. split; [right; exact H1|exact H2].
      * intros k Hin. destruct (IHd k Hin) as [[H|H]|[H1 H2]].
        -- subst k. right. split; [left; reflexivity|]. split; assumption.
        -- left. exact H.
        -- right. split; [right; exact H1|exact H2].
Qed.

Lemma sync_fold_complete :
  forall t o s l acc k,
    In k l -> e_old t k <> e_new t o s k ->
    In k (map fst (b_updates (fold_left (sync_step t o s) l acc))) \/
    In k (b_deletes (fold_left (sync_step t o s) l acc)).
Proof.
  intros t o s l. induction l as [|a l IH]; intros acc k Hin Hne.
  - destruct Hin.
  - cbn [fold_left]. destruct Hin as [Ha|Hin]; [|apply IH; assumption].
    subst a. destruct (sync_fold_mono t o s l (sync_step t o s acc k)) as [Mu Md].
    destruct (sync_step_cases t o s acc k) as [[_ He]|[[d [Hs _]]|[Hs _]]].
    + exfalso. apply Hne. exact He.
    + left. apply in_map_iff. exists (k, d). split; [reflexivity|].
      apply Mu. rewrite Hs. left. reflexivity.
    + right. apply Md. rewrite Hs. left. reflexivity.
Qed.

(* apply_batches, pointwise *)
Lemma fold_updates_at :
  forall (f : N -> option N) us m k,
    (forall k d, In (k, d) us -> f k = Some d) ->
    fold_left (fun (m : kmap) (kv : N * N) => upd m (fst kv) (Some (snd kv))) us m k =
    if existsb (fun kv => k =? fst kv) us then f k else m k.
Proof.
  intros f us. induction us as [|[k0 d0] us IH]; intros m k Hf.
  - reflexivity.
  - cbn [fold_left existsb fst snd]. rewrite IH.
    + unfold upd. destruct (k =? k0) eqn:E.
      * cbn [orb]. apply N.eqb_eq in E. subst k0.
        rewrite (Hf k d0 (or_introl eq_refl)).
        destruct (existsb (fun kv => k =? fst kv) us); reflexivity.
      * cbn [orb]. reflexivity.
    + intros k' d' Hin. apply Hf. right. exact Hin.
Qed.

Lemma fold_deletes_at :
  forall ds (m : kmap) k,
    fold_left (fun (m : kmap) (k : N) => upd m k None) ds m k =
    if existsb (N.eqb k) ds then None else m k.
Proof.
  intros ds. induction ds as [|a ds IH]; intros m k.
  - reflexivity.
  - cbn [fold_left existsb]. rewrite IH. unfold upd.
    destruct (k =? a); destruct (existsb (N.eqb k) ds); reflexivity.
Qed.

Lemma existsb_fst_In :
  forall k (us : list (N * N)), existsb (fun kv => k =? fst kv) us = true <-> In k (map fst us).
Proof.
  intros k us. rewrite existsb_exists. rewrite in_map_iff. split.
  - intros [x [Hin He]]. apply N.eqb_eq in He. exists x. split; [symmetry; exact He|exact Hin].
  - intros [x [He Hin]]. exists x. split; [exact Hin|]. apply N.eqb_eq. symmetry. exact He.
Qed.

(* ------------------------------------------------------------------ *)
(* 7. one operation: shadow map and minimality                         *)
(* ------------------------------------------------------------------ *)

Lemma option_N_eq_dec : forall a b : option N, {a = b} + {a <> b}.
Proof. decide equality. apply N.eq_dec. Qed.

Lemma e_old_table : forall h t k, tracker_consistent h t -> e_old t k = table_entry h k.
Proof. intros h t k Hc. unfold e_old. apply link_table_entry. exact Hc. Qed.

Lemma e_new_table :
  forall h t o s k,
    tracker_consistent h t -> e_new t o s k = table_entry (h ++ [(o, s)]) k.
Proof.
  intros h t o s k Hc. unfold e_new.
  rewrite <- (apply_ips_at h t o s k Hc).
  apply link_table_entry. apply consistent_step. exact Hc.
Qed.

Lemma unaffected_same :
  forall h t o s k,
    tracker_consistent h t ->
    ~ In k (nodup N.eq_dec (old_ips t o ++ s_ips s)) ->
    e_old t k = e_new t o s k.
Proof.
  intros h t o s k Hc Hnin.
  assert (Hnin' : ~ In k (old_ips t o) /\ ~ In k (s_ips s)).
  { split; intros H; apply Hnin; apply nodup_In; apply in_or_app; [left|right]; exact H. }
  destruct Hnin' as [Hno Hns].
  destruct (consistent_ips_ok h t Hc k) as [Hmk Hspec].
  unfold e_old, e_new, new_owners. cbv zeta.
  assert (Hcn : contrib_new s k = false).
  { unfold contrib_new. apply existsb_eqb_notIn in Hns. rewrite Hns. apply andb_false_r. }
  rewrite Hcn. rewrite remove_owner_notin.
  - rewrite <- Hmk. reflexivity.
  - apply (contrib_zero_notin h k); [exact Hspec|].
    apply (old_contrib_zero h t); assumption.
Qed.

Lemma step_main :
  forall h t (m : kmap) o s,
    tracker_consistent h t ->
    (forall k, m k = table_entry h k) ->
    (forall k, apply_batches m (fst (sync_owner t o s)) k = table_entry (h ++ [(o, s)]) k) /\
    (forall k, In k (map fst (b_updates (fst (sync_owner t o s)))) \/
               In k (b_deletes (fst (sync_owner t o s))) ->
               table_entry (h ++ [(o, s)]) k <> table_entry h k).
Proof.
  intros h t m o s Hc Hm. rewrite sync_owner_eq. cbn [fst].
  set (aff := nodup N.eq_dec (old_ips t o ++ s_ips s)).
  set (b := fold_left (sync_step t o s) aff {| b_updates := []; b_deletes := [] |}).
  destruct (sync_fold_sound t o s aff {| b_updates := []; b_deletes := [] |}) as [Su Sd].
  fold b in Su, Sd. cbn [b_updates b_deletes] in Su, Sd.
  assert (Su' : forall k d, In (k, d) (b_updates b) ->
                            e_new t o s k = Some d /\ e_old t k <> e_new t o s k).
  { intros k d Hin. destruct (Su k d Hin) as [[]|[_ H]]. exact H. }
  assert (Sd' : forall k, In k (b_deletes b) ->
                          e_new t o s k = None /\ e_old t k <> e_new t o s k).
  { intros k Hin. destruct (Sd k Hin) as [[]|[_ H]]. exact H. }
  split.
  - intros k. unfold apply_batches. cbv zeta. rewrite fold_deletes_at.
    rewrite (fold_updates_at (e_new t o s)); [|intros k' d' Hin; apply (Su' k' d' Hin)].
    rewrite <- (e_new_table h t o s k Hc).
    destruct (existsb (N.eqb k) (b_deletes b)) eqn:Ed.
    + apply existsb_eqb_In in Ed. destruct (Sd' k Ed) as [Hn _]. symmetry. exact Hn.
    + destruct (existsb (fun kv => k =? fst kv) (b_updates b)) eqn:Eu; [reflexivity|].
      rewrite Hm. rewrite <- (e_old_table h t k Hc).
      destruct (in_dec N.eq_dec k aff) as [Hin|Hnin].
      * destruct (option_N_eq_dec (e_old t k) (e_new t o s k)) as [He|Hne]; [exact He|].
        exfalso.
        destruct (sync_fold_complete t o s aff {| b_updates := []; b_deletes := [] |} k Hin Hne)
          as [Hu|Hd]; fold b in Hu || fold b in Hd.
        -- apply existsb_fst_In in Hu. rewrite Hu in Eu. discriminate.
        -- apply existsb_eqb_In in Hd. rewrite Hd in Ed. discriminate.
      * apply (unaffected_same h); assumption.
  - intros k Hk. rewrite <- (e_new_table h t o s k Hc). rewrite <- (e_old_table h t k Hc).
    intros Heq. destruct Hk as [Hu|Hd].
    + apply in_map_iff in Hu. destruct Hu as [[k' d] [Hfst Hin]]. cbn [fst] in Hfst. subst k'.
      destruct (Su' k d Hin) as [_ Hne]. apply Hne. symmetry. exact Heq.
    + destruct (Sd' k Hd) as [_ Hne]. apply Hne. symmetry. exact Heq.
Qed.

(* ------------------------------------------------------------------ *)
(* 8. whole histories                                                  *)
(* ------------------------------------------------------------------ *)

Lemma run_snoc : forall h o, run (h ++ [o]) = step (run h) o.
Proof. intros h o. unfold run. rewrite fold_left_app. reflexivity. Qed.

Lemma step_eq :
  forall st o,
    step st o = (apply_owner_snapshot (fst st) (fst o) (snd o),
                 apply_batches (snd st) (fst (sync_owner (fst st) (fst o) (snd o)))).
Proof. intros st o. unfold step. rewrite sync_owner_eq. reflexivity. Qed.

Lemma new_tracker_consistent : tracker_consistent [] new_tracker.
Proof.
  split.
  - intros o. cbn [new_tracker t_owners]. intros ip. reflexivity.
  - intros ip. cbn [new_tracker t_ips]. intros o. reflexivity.
Qed.

Lemma run_inv :
  forall h, tracker_consistent h (fst (run h)) /\ forall k, snd (run h) k = table_entry h k.
Proof.
  intros h. induction h as [|[o s] h IH] using rev_ind.
  - split; [exact new_tracker_consistent|]. intros k. reflexivity.
  - destruct IH as [Hc Hm]. rewrite run_snoc. rewrite step_eq. cbn [fst snd]. split.
    + apply consistent_step. exact Hc.
    + apply (proj1 (step_main h (fst (run h)) (snd (run h)) o s Hc Hm)).
Qed.

(* ------------------------------------------------------------------ *)
(* 9. the statements of C10_Props.v                                    *)
(* ------------------------------------------------------------------ *)

Lemma C10_mirror_proof :
  forall (h : list op) (ip : N), snd (run h) ip = table_entry h ip.
Proof. intros h ip. apply (proj2 (run_inv h)). Qed.

Lemma C10_internal_consistent_proof :
  forall (h : list op), tracker_consistent h (fst (run h)).
Proof. intros h. apply (proj1 (run_inv h)). Qed.

Lemma C10_minimal_batches_proof :
  forall (h : list op) (o : op) (ip : N),
    let b := fst (sync_owner (fst (run h)) (fst o) (snd o)) in
    (In ip (map fst (b_updates b)) \/ In ip (b_deletes b)) ->
    table_entry (h ++ [o]) ip <> table_entry h ip.
Proof.
  intros h [o s] ip. cbn [fst snd]. cbv zeta.
  destruct (run_inv h) as [Hc Hm].
  apply (proj2 (step_main h (fst (run h)) (snd (run h)) o s Hc Hm)).
Qed.

Lemma C10_nonvacuous_proof :
  let h := [ (1, {| s_bitmap := 5; s_ips := [10; 11] |});
             (2, {| s_bitmap := 2; s_ips := [11; 12] |});
             (1, {| s_bitmap := 8; s_ips := [11] |});
             (2, empty_snapshot) ] in
  map (snd (run h)) [10; 11; 12] = [None; Some 8; None]
  /\ map (snd (run (firstn 2 h))) [10; 11; 12] = [Some 5; Some 7; Some 2].
Proof. vm_compute. split; reflexivity. Qed.
