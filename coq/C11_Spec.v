(* C11 — domain patterns match exactly the names their kind describes.
   Spec: the property in its own terms.  Strings are byte lists (a byte is an N below 256).
   Nothing here knows of tries, sentinels ('^', '$'), reversed strings, bit lists or automata. *)
From Coq Require Import List NArith Bool.
Import ListNotations.
Open Scope N_scope.

Definition str := list N.

Inductive kind := KFull | KSuffix | KKeyword | KRegex.

Fixpoint str_eqb (a b : str) : bool :=
  match a, b with
  | [], [] => true
  | x :: a', y :: b' => (x =? y) && str_eqb a' b'
  | _, _ => false
  end.

Fixpoint is_prefix (p w : str) : bool :=
  match p, w with
  | [], _ => true
  | x :: p', y :: w' => (x =? y) && is_prefix p' w'
  | _ :: _, [] => false
  end.

(* name = anything ++ suf *)
Fixpoint ends_with (name suf : str) : bool :=
  str_eqb name suf || match name with [] => false | _ :: t => ends_with t suf end.

(* name = anything ++ p ++ anything *)
Fixpoint contains (name p : str) : bool :=
  is_prefix p name || match name with [] => false | _ :: t => contains t p end.

(* ---- alphabets ---- *)
Definition in_range (lo hi c : N) : bool := (lo <=? c) && (c <=? hi).
Definition is_lower (c : N) : bool := in_range 97 122 c.
Definition is_upper (c : N) : bool := in_range 65 90 c.
Definition is_digit (c : N) : bool := in_range 48 57 c.
Definition ch_dot : N := 46.   (* '.' *)
Definition ch_dash : N := 45.  (* '-' *)
Definition ch_us : N := 95.    (* '_' *)

(* the alphabet of a (lower-cased) host name and therefore of a pattern that can describe one *)
Definition pat_char (c : N) : bool :=
  is_lower c || is_digit c || (c =? ch_dash) || (c =? ch_us) || (c =? ch_dot).
(* the alphabet of a queried name: the same, in any letter case *)
Definition name_char (c : N) : bool := pat_char c || is_upper c.

Definition pat_ok (p : str) : bool := forallb pat_char p.
Definition name_ok (n : str) : bool := forallb name_char n.

(* ---- the name a query is about: letter case and one trailing dot do not matter ---- *)
Definition lower_byte (c : N) : N := if is_upper c then c + 32 else c.
Definition strip_dot (s : str) : str :=
  match rev s with
  | c :: r => if c =? ch_dot then rev r else s
  | [] => s
  end.
Definition normalize (raw : str) : str := map lower_byte (strip_dot raw).

Section Spec.
  (* Go regexp is an oracle: [rx_ok p] = p compiles, [rx p n] = p matches n. *)
  Variable rx_ok : str -> bool.
  Variable rx : str -> str -> bool.

  (* what one pattern of a kind matches; [name] is already normalised.
     A full/suffix/keyword pattern with a byte outside the alphabet describes nothing: it is skipped. *)
  Definition pat_matches (k : kind) (pat name : str) : bool :=
    match k with
    | KFull => str_eqb name pat && pat_ok pat
    | KSuffix =>
        match pat with
        | c :: _ => if c =? ch_dot then ends_with name pat                       (* proper sub-names only *)
                    else str_eqb name pat || ends_with name (ch_dot :: pat)
        | [] => str_eqb name pat || ends_with name (ch_dot :: pat)
        end && pat_ok pat
    | KKeyword => contains name pat && pat_ok pat
    | KRegex => rx pat name
    end.

  (* a pattern set: the bit index it is attached to, its kind, its patterns *)
  Definition pset := (N * kind * list str)%type.
  Definition ps_idx (s : pset) : N := fst (fst s).
  Definition ps_kind (s : pset) : kind := snd (fst s).
  Definition ps_pats (s : pset) : list str := snd s.

  Definition set_matches (s : pset) (name : str) : bool :=
    existsb (fun p => pat_matches (ps_kind s) p name) (ps_pats s).

  (* bit i of the answer for the raw name: some set attached to i has a matching pattern *)
  Definition bit (sets : list pset) (raw : str) (i : N) : bool :=
    existsb (fun s => (ps_idx s =? i) && set_matches s (normalize raw)) sets.

  (* the only way a collection of sets may be refused: a regular expression that does not compile *)
  Definition sets_ok (sets : list pset) : bool :=
    forallb (fun s => match ps_kind s with KRegex => forallb rx_ok (ps_pats s) | _ => true end) sets.

  Definition answer (sets : list pset) (raw : str) (idxs : list N) : option (list N) :=
    if sets_ok sets then Some (filter (bit sets raw) idxs) else None.
End Spec.
