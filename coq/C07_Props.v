(* C07 — property theorems only.  Each is closed by `exact` of a lemma of C07_Proofs.v. *)
From Coq Require Import List NArith Bool String.
From Dae Require Import C07_Spec C07_Model C07_Proofs C07_ProofsSplit C07_ProofsRouter C07_ProofsFwd C07_ProofsLookup C07_ProofsInit.
From Dae.gen Require C07_FwdKey C07_InitProg.
From Dae.gen Require Import C07_Consts.
Import ListNotations.
Open Scope N_scope.

(* RE-ASKS ARE BOUNDED.  For every compiled dns section whatsoever (any rule arrays, also ones that bounce between
   upstreams for ever), every family of upstream answers, every question and first upstream: dialSend asks at most
   MaxDnsLookupDepth upstreams, its own depth check — not the recursion fuel of the model — stops it (the result does
   not depend on the fuel once it exceeds the depth bound), and it refuses with "too deep" exactly when the response
   rules sent the question on MaxDnsLookupDepth times in a row. *)
Theorem C07_reask_bounded :
  forall (d : dns) (bm : list N) (q : question) (a : answers) (s : src) (fuel : nat),
    (N.to_nat MaxDnsLookupDepth < fuel)%nat ->
    (List.length (snd (dial_send fuel d bm q a 0 s)) <= N.to_nat MaxDnsLookupDepth)%nat /\
    fst (dial_send fuel d bm q a 0 s) <> Err E_FUEL /\
    (fst (dial_send fuel d bm q a 0 s) = Err E_TOO_DEEP <-> bounces d bm q a (N.to_nat MaxDnsLookupDepth) 0 s = true) /\
    dial_send fuel d bm q a 0 s = dial_send (S (N.to_nat MaxDnsLookupDepth)) d bm q a 0 s.
Proof. exact C07_reask_bounded_proof. Qed.
Print Assumptions C07_reask_bounded.

(* The interface to C11 (domain matching), spelled out: for every domain set the builder registered — array index i,
   key, patterns — bit i of the bitmap the domain matcher returned for the question name is readable
   (`bitmap[i/32]` exists) and says whether one of the patterns holds for the normalised name. *)
Definition C07_domain_oracle_agrees (b : builder) (bm : list N) (q : question) : Prop :=
  forall ds, In ds (b_domsets b) ->
    bm_read bm (ds_index ds)
    = Some (existsb (fun s => domain_holds (ds_key ds) s (norm_name (q_name q)) (q_regex_hits q)) (ds_domains ds)).

(* A well-formed dns section (any number of upstream tags up to the limit, rules, &&-conditions, key groups, values,
   negations, any targets and fallbacks) is never refused by dns.New. *)
Theorem C07_config_accepted :
  forall cfg : config, wf_config cfg = true ->
    exists rq rp, build_matcher Request (cf_upstreams cfg) (cf_request cfg) = Ok rq /\
                  build_matcher Response (cf_upstreams cfg) (cf_response cfg) = Ok rp /\
                  dns_new cfg = Ok {| d_ups := cf_upstreams cfg; d_req := rq; d_resp := rp |}.
Proof. exact dns_new_total. Qed.
Print Assumptions C07_config_accepted.

(* REQUEST ROUTING = FIRST MATCH.  For every well-formed dns section and every question (any name — any case, with or
   without trailing dot, the root name "." (only a regex can match it), also a message without name — and any qtype), the code path
   RulesBuilder.Apply + addQName/addQType + addFallback + Build -> RequestMatcher.Match -> Dns.RequestSelect
   returns exactly the verdict of the first matching request rule (or of the fallback). *)
Theorem C07_request_first_match :
  forall (cfg : config) (d : dns) (bm : list N) (q : question),
    wf_config cfg = true -> dns_new cfg = Ok d ->
    (q_name q = ""%string -> q_regex_hits q = []) ->       (* a message without question name has no regex hits *)
    (q_name q <> ""%string -> C07_domain_oracle_agrees (d_req d) bm q) ->
    exists v, request_route cfg q = Some v /\ request_select d bm q = Ok v.
Proof. exact request_select_refines. Qed.
Print Assumptions C07_request_first_match.

(* RESPONSE ROUTING = FIRST MATCH.  Same for answers: any mix of A / AAAA / other records, any answering upstream
   (a configured one or the as-is server), conditions on name, type, answering upstream and answer addresses. *)
Theorem C07_response_first_match :
  forall (cfg : config) (d : dns) (bm : list N) (q : question) (ans : list rr) (from : src),
    wf_config cfg = true -> dns_new cfg = Ok d -> q_name q <> ""%string ->
    C07_domain_oracle_agrees (d_resp d) bm q ->
    exists v, response_route cfg q ans from = Some v /\ response_select d bm q ans from = Ok v.
Proof. exact response_select_refines. Qed.
Print Assumptions C07_response_first_match.

(* REJECT IGNORES THE CACHE.  For every cache state: a question whose first matching request rule says reject is
   answered with the empty answer, no upstream is asked, no entry of its family (name, qtype; any scope) is left, and
   every other entry stays. *)
Theorem C07_reject_ignores_cache :
  forall (cfg : config) (d : dns) (bmq bmr : list N) (c : cache) (q : question) (a : answers) (fuel : nat),
    wf_config cfg = true -> dns_new cfg = Ok d ->
    (q_name q = ""%string -> q_regex_hits q = []) ->
    (q_name q <> ""%string -> C07_domain_oracle_agrees (d_req d) bmq q) ->
    request_route cfg q = Some QReject ->
    handle fuel d bmq bmr c q a = (Ok [], [], cache_remove_family c q) /\
    (forall scope, cache_lookup (cache_remove_family c q) q scope = None) /\
    (forall e, In e (cache_remove_family c q) <-> In e c /\ same_family q e = false).
Proof. exact C07_reject_ignores_cache_proof. Qed.
Print Assumptions C07_reject_ignores_cache.

(* THE CONTROLLER FOLLOWS THE RULES.  For every well-formed section, cache state, question and family of upstream
   answers, HandleWithResponseWriter_/dialSend (with any recursion fuel above the depth bound) produce exactly the
   spec's outcome, the same upstream queries in the same order and the same cache: accepted / emptied / asked again
   per first matching response rule, at most MaxDnsLookupDepth queries, "too deep" otherwise. *)
Theorem C07_answer_refines :
  forall (cfg : config) (d : dns) (bmq bmr : list N) (c : cache) (q : question) (a : answers) (fuel : nat),
    wf_config cfg = true -> dns_new cfg = Ok d -> q_name q <> ""%string ->
    C07_domain_oracle_agrees (d_req d) bmq q -> C07_domain_oracle_agrees (d_resp d) bmr q ->
    (N.to_nat MaxDnsLookupDepth < fuel)%nat ->
    handle fuel d bmq bmr c q a
    = (let '(o, l, c') := answer_question (N.to_nat MaxDnsLookupDepth) cfg c q a in (res_of_outcome o, l, c')).
Proof. exact handle_refines. Qed.
Print Assumptions C07_answer_refines.

(* ACCEPT / EMPTY / RE-ASK, one step of the spec: what happens to an upstream answer is decided by the first matching
   response rule alone. *)
Theorem C07_accept_reject_reask :
  forall (cfg : config) (q : question) (a : answers) (n k : nat) (s : src) (ans : list rr),
    a s k = UAnswer ans ->
    match response_route cfg q ans s with
    | Some PAccept => chase cfg q a (S n) k s = (Replied ans, [s])
    | Some PReject => chase cfg q a (S n) k s = (Replied [], [s])
    | Some (PUp j) => chase cfg q a (S n) k s
                      = (fst (chase cfg q a n (S k) (SUp j)), s :: snd (chase cfg q a n (S k) (SUp j)))
    | None => chase cfg q a (S n) k s = (RouteError, [s])
    end.
Proof. exact C07_accept_reject_reask_proof. Qed.
Print Assumptions C07_accept_reject_reask.

(* Non-vacuity: a section with two upstreams, key groups, negation, all four functions and response rules that bounce
   is well formed; three questions are decided by rule 1, rule 2 (reject) and the fallback; a bouncing answer family is
   refused after exactly three queries; another is accepted at the second upstream; an AAAA answer is emptied; the
   section compiles to 6 + 5 match-sets and a rejected question clears its cached family. *)
Example C07_nonvacuous :
  wf_config ex_cfg = true /\
  request_route ex_cfg (ex_q 1) = Some (QUp 1) /\
  request_route ex_cfg (ex_q 28) = Some QReject /\
  request_route ex_cfg {| q_name := "x.net"; q_type := 1; q_regex_hits := [] |} = Some QAsIs /\
  chase ex_cfg (ex_q 1) ex_answers 3 0 (SUp 1) = (TooDeep, [SUp 1; SUp 0; SUp 1]) /\
  chase ex_cfg (ex_q 1) (fun s k => UAnswer [RA 0x08080808]) 3 0 (SUp 0) = (Replied [RA 0x08080808], [SUp 0; SUp 1]) /\
  chase ex_cfg (ex_q 1) (fun s k => UAnswer [RAAAA (2 ^ 127)]) 3 0 SAsIs = (Replied [], [SAsIs]) /\
  (exists d, dns_new ex_cfg = Ok d /\ List.length (b_rules (d_req d)) = 6%nat /\ List.length (b_rules (d_resp d)) = 5%nat /\
     handle 10 d (repeat 0 32) (repeat 0 32)
            [{| ce_name := "www.example.com"; ce_type := 28; ce_scope := 1; ce_answer := [RAAAA 1] |}] (ex_q 28) ex_answers
     = (Ok [], [], [])).
Proof. exact C07_nonvacuous_proof. Qed.

(* ================================================================================================ *)
(* The written request list with internal selectors: request_rule_split.go and daedns.Router          *)
(* ================================================================================================ *)

(* THE SPLIT IS A PARTITION BY SHAPE, AND A MIXED RULE IS AN ERROR.  For every written request list: SplitRequestRules
   fails (configuration error) exactly when some rule mixes internal selector kinds or an internal selector with any
   other function; otherwise its four lists are the rules of shape dns / sub / node / subnode, each in the written order. *)
Theorem C07_split_partition :
  forall rs : list rrule,
    split_request_rules rs =
    if existsb (fun r => shape_eqb (shape_of r) ShMixed) rs then Err E_MIXED
    else Ok {| sp_dns := filter (fun r => shape_eqb (shape_of r) ShDns) rs;
               sp_sub := filter (fun r => shape_eqb (shape_of r) (ShInt ISub)) rs;
               sp_node := filter (fun r => shape_eqb (shape_of r) (ShInt INode)) rs;
               sp_subnode := filter (fun r => shape_eqb (shape_of r) (ShInt ISubNode)) rs |}.
Proof. exact C07_split_partition_proof. Qed.
Print Assumptions C07_split_partition.

(* NEVER A SILENT DROP: when the split succeeds every written rule is in exactly one of the four lists. *)
Theorem C07_split_nothing_dropped :
  forall (rs : list rrule) (sp : split), split_request_rules rs = Ok sp ->
    (forall r, In r rs <-> In r (sp_dns sp) \/ In r (sp_sub sp) \/ In r (sp_node sp) \/ In r (sp_subnode sp)) /\
    (List.length rs = List.length (sp_dns sp) + List.length (sp_sub sp) + List.length (sp_node sp) + List.length (sp_subnode sp))%nat.
Proof. exact C07_split_nothing_dropped_proof. Qed.
Print Assumptions C07_split_nothing_dropped.

(* THE SPLIT PRESERVES FIRST MATCH FOR ORDINARY QUESTIONS: reading the written list top to bottom, with internal
   selectors never holding for an ordinary question, gives the same target as the first match over the dns-shaped
   rules alone (for every list, question and answer context). *)
Theorem C07_split_preserves_first_match :
  forall (ups : list string) (fb : string) (x : ctx) (rs : list rrule),
    first_target_raw ups rs fb x
    = first_target ups (map to_rule (filter (fun r => shape_eqb (shape_of r) ShDns) rs)) fb x.
Proof. exact C07_split_preserves_first_match_proof. Qed.
Print Assumptions C07_split_preserves_first_match.

(* A well-formed written section (internal rules included) is accepted by dns.New, and an ordinary question is decided
   by RequestSelect exactly as by the first matching rule of the written list. *)
Theorem C07_rconfig_accepted :
  forall rc : rconfig, wf_rconfig rc = true -> exists d, dns_new_raw rc = Ok d.
Proof. exact C07_rconfig_accepted_proof. Qed.
Print Assumptions C07_rconfig_accepted.

Theorem C07_request_first_match_raw :
  forall (rc : rconfig) (d : dns) (bm : list N) (q : question),
    wf_rconfig rc = true -> dns_new_raw rc = Ok d ->
    (q_name q = ""%string -> q_regex_hits q = []) ->
    (q_name q <> ""%string -> C07_domain_oracle_agrees (d_req d) bm q) ->
    exists v, request_route_raw rc q = Some v /\ request_select d bm q = Ok v.
Proof. exact C07_request_first_match_raw_proof. Qed.
Print Assumptions C07_request_first_match_raw.

(* daedns.Router: a well-formed written section always yields a router (nil exactly when no request rule is written). *)
Theorem C07_router_total :
  forall rc : rconfig, wf_rconfig rc = true -> exists o, router_new rc = Ok o /\ (o = None <-> rc_request rc = []).
Proof. exact C07_router_total_proof. Qed.
Print Assumptions C07_router_total.

(* INTERNAL SELECTORS = FIRST MATCH.  For every subject (subscription or node, any tag / name / link), the upstream
   MatchNodeUpstream / MatchSubscriptionUpstream name is that of the first rule of the right kind, in written order,
   whose selectors all hold — for a node of a subscription a subnode rule before any node rule; and the name is a
   defined upstream tag. *)
Theorem C07_router_selectors :
  forall (rc : rconfig) (r : router) (m : meta),
    wf_rconfig rc = true -> router_new rc = Ok (Some r) ->
    match_node_upstream r m = node_upstream (rc_request rc) m /\
    match_subscription_upstream r m = subscription_upstream (rc_request rc) m /\
    named_ok (rc_upstreams rc) (node_upstream (rc_request rc) m) /\
    named_ok (rc_upstreams rc) (subscription_upstream (rc_request rc) m).
Proof. exact C07_router_selectors_proof. Qed.
Print Assumptions C07_router_selectors.

(* WHO RESOLVES A HOST FOR DAE ITSELF.  The wrapped dialer asks: the named upstream if an internal rule named one;
   else, for the subject's own (control) host, the bootstrap resolver; else the upstream of the first matching general
   request rule, asis/reject meaning the base resolver. *)
Theorem C07_router_lookup_plan :
  forall (rc : rconfig) (r : router) (named : option string) (control host : string) (bm : list N) (q : question),
    wf_rconfig rc = true -> router_new rc = Ok (Some r) -> named_ok (rc_upstreams rc) named ->
    C07_domain_oracle_agrees (ro_req r) bm q ->
    dialer_plan r named control host bm q = Ok (lookup_plan rc named control host q).
Proof. exact C07_router_lookup_plan_proof. Qed.
Print Assumptions C07_router_lookup_plan.

(* ================================================================================================ *)
(* From the chosen upstream to the forwarder that carries the question (dnsForwarderKey)              *)
(* ================================================================================================ *)

(* THE KEY SEPARATES UPSTREAMS.  The forwarder-cache key, made of exactly the components newDnsForwarderKey puts into
   it (coq/gen/C07_FwdKey.v, read off the source on every run), is equal for two upstreams only if they agree in
   scheme, host name, port and path — whatever the dial arguments. *)
Theorem C07_forwarder_key_injective :
  forall (u1 u2 : uid) (d1 d2 : dialarg), fwd_key u1 d1 = fwd_key u2 d2 -> uid_same u1 u2 = true.
Proof. intros u1 u2 d1 d2. exact (C07_forwarder_key_injective_proof u1 d1 u2 d2). Qed.
Print Assumptions C07_forwarder_key_injective.

(* A key that keeps only the scheme (or drops only the path) next to the dial argument does NOT: two different
   resolvers behind the same address and port collide. *)
Theorem C07_scheme_only_key_refuted :
  exists u1 u2 d, fwd_key_of [1] C07_FwdKey.FwdKeyDialFields u1 d = fwd_key_of [1] C07_FwdKey.FwdKeyDialFields u2 d
                  /\ uid_same u1 u2 = false.
Proof. exact C07_scheme_only_key_refuted_proof. Qed.
Print Assumptions C07_scheme_only_key_refuted.
Theorem C07_pathless_key_refuted :
  exists u1 u2 d, fwd_key_of [1; 2; 3] C07_FwdKey.FwdKeyDialFields u1 d = fwd_key_of [1; 2; 3] C07_FwdKey.FwdKeyDialFields u2 d
                  /\ uid_same u1 u2 = false.
Proof. exact C07_pathless_key_refuted_proof. Qed.
Print Assumptions C07_pathless_key_refuted.

(* THE QUESTION LEAVES THROUGH A FORWARDER MADE FOR THE CHOSEN UPSTREAM.  For every history of upstream queries
   (successive questions, re-asks, any upstreams and dial arguments, failures that retire UDP forwarders), starting
   from the empty forwarder cache: the forwarder getOrCreateDnsForwarder hands out for the k-th query was created for
   an upstream with the scheme, host, port and path of the upstream chosen for that query. *)
Theorem C07_forwarder_for_chosen_upstream :
  forall h : list fstep,
    Forall2 (fun b s => uid_same b (fs_u s) = true) (fst (run_forward [] h)) h /\
    carried_ok (map fs_u h) (fst (run_forward [] h)) = true.
Proof. exact C07_forwarder_for_chosen_upstream_proof. Qed.
Print Assumptions C07_forwarder_for_chosen_upstream.

(* ================================================================================================ *)
(* Router.LookupIPAddr: one question per address family, each routed on its own                       *)
(* ================================================================================================ *)

(* EACH QUESTION IS ROUTED.  For every well-formed written section, router, subject (named upstream or none), host
   and requested family (tcp/udp = A then AAAA, tcp4/udp4 = A, tcp6/udp6 = AAAA): the upstream selectUpstream yields
   for the question (host, t) is the first-match decision for exactly that name and THAT query type (named upstream
   first; asis/reject = no question sent), and the whole lookup sends exactly those questions, in order, falling back
   to the bootstrap / base resolver only when no question was sent. *)
Theorem C07_router_each_question_routed :
  forall (rc : rconfig) (r : router) (named : option string) (control host : string) (ver : N) (bm : list N) (q : question),
    wf_rconfig rc = true -> router_new rc = Ok (Some r) -> named_ok (rc_upstreams rc) named ->
    C07_domain_oracle_agrees (ro_req r) bm q ->
    (forall t, select_upstream r (match named with Some n => n | None => ""%string end) bm (with_type q t)
               = Ok (question_plan rc named host (with_type q t))) /\
    dialer_lookup r named control host ver bm q = lookup_spec rc named control host ver q.
Proof. exact C07_router_each_question_routed_proof. Qed.
Print Assumptions C07_router_each_question_routed.

(* Reusing the upstream found for the A question for the AAAA question is refuted by `qtype(aaaa) -> dns6`. *)
Theorem C07_reuse_first_family_refuted :
  wf_rconfig reuse_rc = true /\
  question_plan reuse_rc None "node.example.org" (with_type reuse_q 1) = PlanUp 0 /\
  question_plan reuse_rc None "node.example.org" (with_type reuse_q 28) = PlanUp 1 /\
  lookup_spec reuse_rc None "" "node.example.org" 0 reuse_q = ([(1, 0); (28, 1)], 0) /\
  lookup_spec reuse_rc None "" "node.example.org" 0 reuse_q <> (map (fun t => (t, 0)) (families 0), 0).
Proof. exact C07_reuse_first_family_refuted_proof. Qed.
Print Assumptions C07_reuse_first_family_refuted.

(* ================================================================================================ *)
(* Concurrent lazy initialisation of an upstream (UpstreamResolver.GetUpstream)                       *)
(* ================================================================================================ *)

(* EVERY CALLER GETS A REGISTERED UPSTREAM.  For any number of concurrent callers of GetUpstream and every
   interleaving of their atomic steps (the slow path as read off the source: coq/gen/C07_InitProg.v): whatever a caller
   gets back — its own build, or the published one on the fast path — is never nil and has been registered in
   upstream2Index by the finish callback, so Dns.ResponseSelect recognises an answer from it as coming from the tag the
   request router chose and `upstream(tag)` response rules see it. *)
Theorem C07_every_caller_gets_registered_upstream :
  forall (sched : list nat) (i : nat) (v : option nat),
    t_done (g_thr (irun (iinit C07_InitProg.GetUpstreamProg) sched) i) = Some v ->
    exists w, v = Some w /\ In w (g_regd (irun (iinit C07_InitProg.GetUpstreamProg) sched)).
Proof. exact C07_every_caller_gets_registered_upstream_proof. Qed.
Print Assumptions C07_every_caller_gets_registered_upstream.

(* "Publish with compare-and-swap, only the publisher runs the callback, the loser returns its own build" is refuted:
   two callers, the one that loses the race gets an upstream nobody registered. *)
Theorem C07_loser_returns_own_refuted :
  exists sched i w, t_done (g_thr (irun (iinit loser_returns_own) sched) i) = Some (Some w)
                    /\ ~ In w (g_regd (irun (iinit loser_returns_own) sched)).
Proof. exact C07_loser_returns_own_refuted_proof. Qed.
Print Assumptions C07_loser_returns_own_refuted.
