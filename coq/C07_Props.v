(* C07 — property theorems only.  Each is closed by `exact` of a lemma of C07_Proofs.v. *)
From Coq Require Import List NArith Bool String.
From Dae Require Import C07_Spec C07_Model C07_Proofs.
From Dae.gen Require Import C07_Consts.
Import ListNotations.
Open Scope N_scope.

(* RE-ASKS ARE BOUNDED.  For every compiled dns section whatsoever (any rule arrays, also ones that bounce between
   upstreams for ever), every family of upstream answers, every question and first upstream: dialSend asks at most
   MaxDnsLookupDepth upstreams, its own depth check — not the recursion fuel of the model — stops it (the result does
   not depend on the fuel once it exceeds the depth bound), and it refuses with "too deep" exactly when the response
   rules sent the question on MaxDnsLookupDepth times in a row. *)
Theorem C07_reask_bounded :
  forall (d : dns) (bm : list N) (q : question) (a : answers) (s : src) (fuel : nat),
    (N.to_nat MaxDnsLookupDepth < fuel)%nat ->
    (List.length (snd (dial_send fuel d bm q a 0 s)) <= N.to_nat MaxDnsLookupDepth)%nat /\
    fst (dial_send fuel d bm q a 0 s) <> Err E_FUEL /\
    (fst (dial_send fuel d bm q a 0 s) = Err E_TOO_DEEP <-> bounces d bm q a (N.to_nat MaxDnsLookupDepth) 0 s = true) /\
    dial_send fuel d bm q a 0 s = dial_send (S (N.to_nat MaxDnsLookupDepth)) d bm q a 0 s.
Proof. exact C07_reask_bounded_proof. Qed.
Print Assumptions C07_reask_bounded.
