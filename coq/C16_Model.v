(* C16 — code-shaped executable model of
     component/outbound/dialer/connectivity_check.go  markUnavailableInternal / markAvailable /
         markAvailableTraffic / ReportUnavailable* / ReportAvailableTraffic / check (result handling)
     component/outbound/dialer/dialer.go   NotifyHealthCheckResult / markUnavailableFromProxyFailure /
         ReloadHealthSnapshot / RestoreHealthSnapshot / MarkAliveForReloadFallback
     component/outbound/dialer/sticky_cache.go  recordProxyFailure / recordProxySuccess / reload suppression
     component/outbound/dialer/alive_dialer_set.go  NotifyLatencyChange / calcMinLatency (membership, best, callbacks)
     component/outbound/dialer_group.go  NewDialerGroup / CaptureReloadSelectionFallback / EnsureReloadSelectionFloor
     control/control_plane.go  InheritDialerHealthFrom;  control/connectivity.go  outboundConnectivityMapKey
   Same data layout: 8 collection slots with the two TCP-DNS slots aliased to the TCP collections, separate
   failCount / trafficFailCount arrays of 8, a global per-address failure tracker, suppression counter and
   quiesce window, alive sets as dense entry lists with swap-remove.  Constants come from gen/C16_Consts.v.
   No proofs in this file. *)
From Coq Require Import List NArith ZArith Bool.
From Dae Require Import C16_Spec.
From Dae.gen Require Import C16_Consts.
Import ListNotations.
Open Scope N_scope.

Definition upd {A} (f : N -> A) (k : N) (v : A) : N -> A := fun x => if x =? k then v else f x.

(* ---------------- dialer ---------------- *)
Record mdialer := { md_alive : N -> bool;      (* keyed by canonical collection index *)
                    md_fail : N -> N;          (* failCount[8] *)
                    md_traffic : N -> N }.     (* trafficFailCount[8] *)
Definition fresh_dialer : mdialer := {| md_alive := fun _ => true; md_fail := fun _ => 0; md_traffic := fun _ => 0 |}.
Definition d_alive (x : mdialer) (d : dom) : bool := md_alive x (canon (index_of d)).

(* ---------------- alive set ---------------- *)
Definition HOUR : Z := 3600000000000%Z.
Record aset := { as_entries : list (N * Z); as_best : option N; as_best_lat : Z }.
Definition empty_set : aset := {| as_entries := []; as_best := None; as_best_lat := HOUR |}.

Definition optN_eqb (a b : option N) : bool :=
  match a, b with Some x, Some y => x =? y | None, None => true | _, _ => false end.
Definition is_member (d : N) (l : list (N * Z)) : bool := existsb (fun e => fst e =? d) l.

Fixpoint find_idx (d : N) (l : list (N * Z)) : option nat :=
  match l with
  | [] => None
  | e :: r => if fst e =? d then Some O else match find_idx d r with Some i => Some (S i) | None => None end
  end.
Fixpoint set_nth {A} (i : nat) (v : A) (l : list A) : list A :=
  match l, i with
  | [], _ => []
  | _ :: r, O => v :: r
  | x :: r, S j => x :: set_nth j v r
  end.
(* swap with the last element, pop *)
Definition swap_remove (d : N) (l : list (N * Z)) : list (N * Z) :=
  match find_idx d l with
  | None => l
  | Some i => if Nat.ltb i (length l - 1) then removelast (set_nth i (last l (0, 0%Z)) l) else removelast l
  end.
Definition set_lat (d : N) (v : Z) (l : list (N * Z)) : list (N * Z) :=
  map (fun e => if fst e =? d then (fst e, v) else e) l.

Definition switch_ok (tol cand cur : Z) : bool :=
  (cand <=? cur)%Z && ((cur <? tol)%Z || (cand <=? cur - tol)%Z).

(* the scan of calcMinLatency / GetMinLatency: an entry is taken when none is chosen yet or it is strictly better *)
Definition scan_step (acc : Z * option N) (e : N * Z) : Z * option N :=
  if match snd acc with None => true | Some _ => false end || (snd e <? fst acc)%Z then (snd e, Some (fst e)) else acc.

Definition calc_min (tol : Z) (a : aset) : aset :=
  let '(ml, md) := fold_left scan_step
                             (as_entries a) (HOUR, None) in
  match as_best a with
  | None => {| as_entries := as_entries a; as_best := md; as_best_lat := ml |}
  | Some _ =>
      match md with
      | Some _ => if switch_ok tol ml (as_best_lat a)
                  then {| as_entries := as_entries a; as_best := md; as_best_lat := ml |} else a
      | None => a
      end
  end.

(* NotifyLatencyChange(dialer, alive); lat = Some raw iff the set's policy is a latency policy and the dialer
   has a latency for it.  Returns the aliveChangeCallback values fired, in order. *)
Definition notify (minp : bool) (tol off : Z) (a : aset) (d : N) (alive : bool) (lat : option Z) : aset * list bool :=
  let has := minp && match lat with Some _ => true | None => false end in
  (* first half: membership *)
  let '(a1, cb1) :=
    if alive then
      if is_member d (as_entries a) then (a, [])
      else ({| as_entries := as_entries a ++ [(d, 0%Z)]; as_best := as_best a; as_best_lat := as_best_lat a |}, [])
    else
      if is_member d (as_entries a) then
        let removed_best := minp && negb has && optN_eqb (as_best a) (Some d) in
        let a' := {| as_entries := swap_remove d (as_entries a); as_best := as_best a; as_best_lat := as_best_lat a |} in
        if removed_best then
          let a'' := calc_min tol {| as_entries := as_entries a'; as_best := None; as_best_lat := HOUR |} in
          (a'', match as_best a'' with None => [false] | Some _ => [] end)
        else (a', [])
      else (a, []) in
  (* second half: latency / best *)
  match (if has then lat else None) with
  | Some raw =>
      let bak_best := as_best a1 in
      let bak_lat := as_best_lat a1 in
      let sorting := (raw + off)%Z in
      let ents := if is_member d (as_entries a1) then set_lat d sorting (as_entries a1) else as_entries a1 in
      let a2 :=
        if alive && (optN_eqb bak_best None || switch_ok tol sorting bak_lat)
        then {| as_entries := ents; as_best := Some d; as_best_lat := sorting |}
        else if optN_eqb bak_best (Some d) then
          let a3 := {| as_entries := ents; as_best := bak_best; as_best_lat := sorting |} in
          if negb alive || (bak_lat <? sorting)%Z then
            calc_min tol (if alive then a3 else {| as_entries := ents; as_best := None; as_best_lat := sorting |})
          else a3
        else {| as_entries := ents; as_best := bak_best; as_best_lat := bak_lat |} in
      let cb2 :=
        if optN_eqb (as_best a2) bak_best then []
        else match as_best a2, bak_best with
             | Some _, None => [true]
             | Some _, Some _ => []
             | None, _ => [false]
             end in
      (a2, cb1 ++ cb2)
  | None =>
      if alive && minp && optN_eqb (as_best a1) None
      then ({| as_entries := as_entries a1; as_best := Some d; as_best_lat := as_best_lat a1 |}, cb1 ++ [true])
      else (a1, cb1)
  end.

(* ---------------- whole state ---------------- *)
Record mstate := { m_d : N -> mdialer;
                   m_tracker : N -> N;            (* globalProxyIpHealthTracker.failures[addr].count, 0 = absent *)
                   m_supp : N; m_window : bool;   (* reloadProxyFailureSuppression, now < ...SuppressUntil *)
                   m_sets : N -> dom -> aset;     (* group index -> type -> alive set *)
                   m_bits : N -> dom -> bool;     (* last value written for (group, type) *)
                   m_tlog : tlog;                 (* alive-transition callbacks of the current step *)
                   m_blog : list (N * dom * bool) (* connectivity writes of the current step *) }.

Definition set_dialer (m : mstate) (n : N) (x : mdialer) : mstate :=
  {| m_d := upd (m_d m) n x; m_tracker := m_tracker m; m_supp := m_supp m; m_window := m_window m;
     m_sets := m_sets m; m_bits := m_bits m; m_tlog := m_tlog m; m_blog := m_blog m |}.
Definition set_tracker (m : mstate) (a c : N) : mstate :=
  {| m_d := m_d m; m_tracker := upd (m_tracker m) a c; m_supp := m_supp m; m_window := m_window m;
     m_sets := m_sets m; m_bits := m_bits m; m_tlog := m_tlog m; m_blog := m_blog m |}.
Definition log_transition (m : mstate) (n : N) (d : dom) (alive : bool) : mstate :=
  {| m_d := m_d m; m_tracker := m_tracker m; m_supp := m_supp m; m_window := m_window m;
     m_sets := m_sets m; m_bits := m_bits m; m_tlog := m_tlog m ++ [(n, d, alive)]; m_blog := m_blog m |}.
Definition set_supp (m : mstate) (c : N) (w : bool) : mstate :=
  {| m_d := m_d m; m_tracker := m_tracker m; m_supp := c; m_window := w;
     m_sets := m_sets m; m_bits := m_bits m; m_tlog := m_tlog m; m_blog := m_blog m |}.

Definition lookup_lat (l : latmap) (n g : N) (d : dom) : option Z :=
  match find (fun e => match e with (n', g', d', _) => (n' =? n) && (g' =? g) && dom_eqb d' d end) l with
  | Some (_, _, _, v) => v
  | None => None
  end.
Definition offset_of (g : group) (n : N) : Z :=
  match find (fun m => fst m =? n) (g_members g) with Some m => snd m | None => 0%Z end.
Definition is_min (g : group) : bool := match g_policy g with PMin => true | _ => false end.

(* one group's set for type d is told about node n; writes of the group's connectivity slot are recorded *)
Definition inform_group (cfg : config) (m : mstate) (gi : N) (g : group) (n : N) (d : dom) (alive : bool) (l : latmap) : mstate :=
  if keeps_sets g && is_member n (g_members g) then
    let '(a', cbs) := notify (is_min g) (c_tol cfg) (offset_of g n) (m_sets m gi d) n alive (lookup_lat l n gi d) in
    {| m_d := m_d m; m_tracker := m_tracker m; m_supp := m_supp m; m_window := m_window m;
       m_sets := fun gi' d' => if (gi' =? gi) && dom_eqb d' d then a' else m_sets m gi' d';
       m_bits := match rev cbs with
                 | [] => m_bits m
                 | v :: _ => fun gi' d' => if (gi' =? gi) && dom_eqb d' d then v else m_bits m gi' d'
                 end;
       m_tlog := m_tlog m; m_blog := m_blog m ++ map (fun v => (gi, d, v)) cbs |}
  else m.

Fixpoint inform_groups (cfg : config) (m : mstate) (gi : N) (gs : list group) (n : N) (d : dom) (alive : bool) (l : latmap) : mstate :=
  match gs with
  | [] => m
  | g :: r => inform_groups cfg (inform_group cfg m gi g n d alive l) (gi + 1) r n d alive l
  end.
(* informDialerGroupUpdate *)
Definition inform (cfg : config) (m : mstate) (n : N) (d : dom) (alive : bool) (l : latmap) : mstate :=
  inform_groups cfg m 0 (c_groups cfg) n d alive l.

Definition threshold (d : dom) (isTraffic : bool) : N :=
  if is_udp d then (if isTraffic then thr_udp_traffic else thr_udp_probe)
  else (if isTraffic then thr_tcp_traffic else thr_default).

Definition m_suppressed (m : mstate) : bool := (0 <? m_supp m) || m_window m.

(* ReportUnavailableForced = markUnavailableInternal(typ, true, true) + informDialerGroupUpdate *)
Definition mark_forced (cfg : config) (m : mstate) (n : N) (d : dom) (l : latmap) : mstate :=
  let idx := index_of d in
  let thr := threshold d true in
  let x := m_d m n in
  let was := md_alive x (canon idx) in
  let x' := {| md_alive := upd (md_alive x) (canon idx) false; md_fail := upd (md_fail x) idx thr;
               md_traffic := upd (md_traffic x) idx thr |} in
  let m1 := set_dialer m n x' in
  let m2 := if was then log_transition m1 n d false else m1 in
  inform cfg m2 n d false l.

(* markUnavailableFromProxyFailure (health part) *)
Definition escalate (cfg : config) (m : mstate) (n : N) (l : latmap) : mstate :=
  fold_left (fun m d => mark_forced cfg m n d l) escalation_order m.

(* NotifyHealthCheckResult(typ, false, false) (health part): recordProxyFailure and promotion *)
Definition notify_failure (cfg : config) (m : mstate) (n : N) (l : latmap) : mstate :=
  let a := c_addr cfg n in
  if a =? 0 then m
  else if m_suppressed m then m
  else let c := m_tracker m a + 1 in
       if max_consecutive_failures <=? c then escalate cfg (set_tracker m a 0) n l
       else set_tracker m a c.

(* markUnavailableInternal(typ, false, isTraffic) + informDialerGroupUpdate *)
Definition mark_unavail (cfg : config) (m : mstate) (n : N) (d : dom) (isTraffic : bool) (l : latmap) : mstate :=
  if m_suppressed m then m else
  let idx := index_of d in
  let thr := threshold d isTraffic in
  let x := m_d m n in
  let cur := md_alive x (canon idx) in
  let '(x1, alive) :=
    if isTraffic then
      let c := md_traffic x idx + 1 in
      ({| md_alive := md_alive x; md_fail := md_fail x; md_traffic := upd (md_traffic x) idx c |},
       if c <? thr then cur else false)
    else
      let c := md_fail x idx + 1 in
      ({| md_alive := md_alive x; md_fail := upd (md_fail x) idx c; md_traffic := md_traffic x |},
       if c <? thr then cur else false) in
  let x2 := {| md_alive := upd (md_alive x1) (canon idx) alive; md_fail := md_fail x1; md_traffic := md_traffic x1 |} in
  let m1 := set_dialer m n x2 in
  let m2 := if xorb cur alive then log_transition m1 n d alive else m1 in
  let m3 := if cur && negb alive then notify_failure cfg m2 n l else m2 in
  inform cfg m3 n d alive l.

(* markAvailable / markAvailableTraffic + informDialerGroupUpdate (latency bookkeeping is in the oracle l) *)
Definition mark_avail (cfg : config) (m : mstate) (n : N) (d : dom) (l : latmap) : mstate :=
  let idx := index_of d in
  let x := m_d m n in
  let was := md_alive x (canon idx) in
  let x' := {| md_alive := upd (md_alive x) (canon idx) true; md_fail := upd (md_fail x) idx 0;
               md_traffic := upd (md_traffic x) idx 0 |} in
  let m1 := set_dialer m n x' in
  let a := c_addr cfg n in
  let m2 := if a =? 0 then m1 else set_tracker m1 a 0 in
  let m3 := if was then m2 else log_transition m2 n d true in
  inform cfg m3 n d true l.

(* ReportAvailableTraffic *)
Definition traffic_ok (cfg : config) (m : mstate) (n : N) (d : dom) (l : latmap) : mstate :=
  let idx := index_of d in
  let x := m_d m n in
  let x' := if md_traffic x idx =? 0 then x
            else {| md_alive := md_alive x; md_fail := md_fail x; md_traffic := upd (md_traffic x) idx 0 |} in
  let m1 := set_dialer m n x' in
  if is_data d && negb (md_alive x' (canon idx)) then mark_avail cfg m1 n d l else m1.

(* ---------------- reload ---------------- *)
Definition dom_of_idx (i : N) : dom :=
  if i =? IdxDnsTcp4 then Tcp4 else if i =? IdxDnsTcp6 then Tcp6
  else if i =? IdxDnsUdp4 then DnsUdp4 else if i =? IdxDnsUdp6 then DnsUdp6
  else if i =? IdxTcp4 then Tcp4 else if i =? IdxTcp6 then Tcp6
  else if i =? IdxUdp4 then DataUdp4 else DataUdp6.
Definition all_idx : list N := [0; 1; 2; 3; 4; 5; 6; 7].

(* RestoreHealthSnapshot(old.ReloadHealthSnapshot()) on node n of the new generation m *)
Definition restore (cfg : config) (old : mdialer) (m : mstate) (n : N) (l : latmap) : mstate :=
  (* first loop: state *)
  let '(x', ups) :=
    fold_left (fun acc i =>
                 let x := fst acc in
                 let was := md_alive x (canon i) in
                 let al := md_alive old (canon i) in
                 ({| md_alive := upd (md_alive x) (canon i) al; md_fail := upd (md_fail x) i 0;
                     md_traffic := upd (md_traffic x) i 0 |}, snd acc ++ [(i, was, al)]))
              all_idx (m_d m n, []) in
  let m1 := set_dialer m n x' in
  (* second loop: groups, then transition callback *)
  fold_left (fun m u => match u with (i, was, al) =>
                          let m' := inform cfg m n (dom_of_idx i) al l in
                          if xorb was al then log_transition m' n (dom_of_idx i) al else m'
                        end) ups m1.

(* MarkAliveForReloadFallback *)
Definition mark_alive_fallback (cfg : config) (m : mstate) (n : N) (d : dom) (l : latmap) : mstate :=
  let idx := index_of d in
  let x := m_d m n in
  let was := md_alive x (canon idx) in
  let x' := {| md_alive := upd (md_alive x) (canon idx) true; md_fail := upd (md_fail x) idx 0;
               md_traffic := upd (md_traffic x) idx 0 |} in
  let m1 := inform cfg (set_dialer m n x') n d true l in
  if was then m1 else log_transition m1 n d true.

(* selection on a group as CaptureReloadSelectionFallback uses it (strict = false, nothing excluded) *)
Definition get_min (a : aset) : option N :=
  match as_best a with
  | Some d => Some d
  | None => snd (fold_left scan_step (as_entries a) (HOUR, None))
  end.
(* random policy: determined only when the set has at most one entry *)
Definition get_rand (a : aset) : option N := match as_entries a with [] => None | e :: _ => Some (fst e) end.
Definition sel_chain (d : dom) : list dom :=
  match d with DataUdp4 => [DataUdp4; DnsUdp4; Tcp4] | DataUdp6 => [DataUdp6; DnsUdp6; Tcp6] | _ => [d] end.
Definition other_ver (d : dom) : dom :=
  match d with Tcp4 => Tcp6 | Tcp6 => Tcp4 | DnsUdp4 => DnsUdp6 | DnsUdp6 => DnsUdp4 | DataUdp4 => DataUdp6 | DataUdp6 => DataUdp4 end.
Fixpoint first_some {A} (l : list (option A)) : option A :=
  match l with [] => None | Some x :: _ => Some x | None :: r => first_some r end.
Definition select1 (m : mstate) (gi : N) (g : group) (d : dom) : option N :=
  match g_policy g with
  | PFixed => match g_members g with [] => None | e :: _ => Some (fst e) end
  | PMin => first_some (map (fun d' => get_min (m_sets m gi d')) (sel_chain d))
  | PRandom => first_some (map (fun d' => get_rand (m_sets m gi d')) (sel_chain d))
  end.
Definition select_fallback (m : mstate) (gi : N) (g : group) (d : dom) : option N :=
  match g_members g with
  | [] => None
  | _ => match select1 m gi g d with Some x => Some x | None => select1 m gi g (other_ver d) end
  end.

(* EnsureReloadSelectionFloor *)
Definition ensure_floor (cfg : config) (m : mstate) (gi : N) (g : group) (fb : dom -> option N) (l : latmap) : mstate :=
  if keeps_sets g then
    fold_left (fun m d =>
                 if negb (Nat.eqb (length (as_entries (m_sets m gi d))) 0) then m
                 else match (match fb d with Some c => Some c | None => match g_members g with [] => None | e :: _ => Some (fst e) end end) with
                      | Some c => mark_alive_fallback cfg m c d l
                      | None => m
                      end) standard_order m
  else m.

(* NewDialerGroup on fresh dialers: sets are filled through NotifyLatencyChange, then the init callbacks *)
Definition new_group (cfg : config) (m : mstate) (gi : N) (g : group) : mstate :=
  let m1 := if keeps_sets g then
              fold_left (fun m d => fold_left (fun m e => inform_group cfg m gi g (fst e) d (d_alive (m_d m (fst e)) d) []) (g_members g) m)
                        standard_order m
            else m in
  {| m_d := m_d m1; m_tracker := m_tracker m1; m_supp := m_supp m1; m_window := m_window m1; m_sets := m_sets m1;
     m_bits := fun gi' d' => if gi' =? gi then true else m_bits m1 gi' d';
     m_tlog := m_tlog m1; m_blog := m_blog m1 ++ map (fun d => (gi, d, true)) standard_order |}.

Fixpoint new_groups (cfg : config) (m : mstate) (gi : N) (gs : list group) : mstate :=
  match gs with [] => m | g :: r => new_groups cfg (new_group cfg m gi g) (gi + 1) r end.

Definition m_fresh_generation (cfg : config) (m : mstate) : mstate :=
  new_groups cfg {| m_d := fun _ => fresh_dialer; m_tracker := m_tracker m; m_supp := m_supp m; m_window := m_window m;
                    m_sets := fun _ _ => empty_set; m_bits := fun _ _ => true; m_tlog := m_tlog m; m_blog := m_blog m |}
             0 (c_groups cfg).

(* InheritDialerHealthFrom: per group: capture fallback, restore members, floor *)
Fixpoint inherit (cfg : config) (old : N -> mdialer) (m : mstate) (gi : N) (gs : list group) (l : latmap) : mstate :=
  match gs with
  | [] => m
  | g :: r =>
      let fb := fun d => select_fallback m gi g d in
      let fbv := map (fun d => (d, fb d)) all_doms in   (* captured before the restores *)
      let fb' := fun d => match find (fun p => dom_eqb (fst p) d) fbv with Some p => snd p | None => None end in
      let m1 := fold_left (fun m e => restore cfg (old (fst e)) m (fst e) l) (g_members g) m in
      inherit cfg old (ensure_floor cfg m1 gi g fb' l) (gi + 1) r l
  end.

Definition m_reload (cfg : config) (m : mstate) (l : latmap) : mstate :=
  inherit cfg (m_d m) (m_fresh_generation cfg m) 0 (c_groups cfg) l.

(* ---------------- step ---------------- *)
Definition clear_logs (m : mstate) : mstate :=
  {| m_d := m_d m; m_tracker := m_tracker m; m_supp := m_supp m; m_window := m_window m;
     m_sets := m_sets m; m_bits := m_bits m; m_tlog := []; m_blog := [] |}.

Definition m_step (cfg : config) (m0 : mstate) (e : ev) : mstate :=
  let m := clear_logs m0 in
  match e with
  | EFail n d KForced _ l => mark_forced cfg m n d l            (* no error filter on the forced path *)
  | EFail n d k ign l => if ign then m else mark_unavail cfg m n d (is_traffic k) l
  | EProbeOk n d l => mark_avail cfg m n d l
  | EProbeSkip _ _ => m
  | ETrafficOk n d l => traffic_ok cfg m n d l
  | ESuppBegin => set_supp m (m_supp m + 1) (m_window m)
  | ESuppEnd => if m_supp m =? 0 then m else set_supp m (m_supp m - 1) (if m_supp m =? 1 then true else m_window m)
  | EQuiesce => set_supp m (m_supp m) false
  | EResetGlobal => {| m_d := m_d m; m_tracker := fun _ => 0; m_supp := m_supp m; m_window := m_window m;
                       m_sets := m_sets m; m_bits := m_bits m; m_tlog := m_tlog m; m_blog := m_blog m |}
  | EReload l => m_reload cfg m l
  end.

Definition m_init (cfg : config) : mstate :=
  m_fresh_generation cfg {| m_d := fun _ => fresh_dialer; m_tracker := fun _ => 0; m_supp := 0; m_window := false;
                            m_sets := fun _ _ => empty_set; m_bits := fun _ _ => true; m_tlog := []; m_blog := [] |}.

Definition m_run (cfg : config) (h : list ev) : mstate := fold_left (m_step cfg) h (m_init cfg).

Definition model_alive (cfg : config) (h : list ev) (n : N) (d : dom) : bool := d_alive (m_d (m_run cfg h) n) d.

(* outboundConnectivityMapKey *)
Definition conn_key (outbound : N) (d : dom) : N :=
  let domain_idx := match d with Tcp4 | Tcp6 => conn_dom_tcp | DnsUdp4 | DnsUdp6 => conn_dom_dnsudp | _ => conn_dom_dataudp end in
  let ip_idx := match d with Tcp6 | DnsUdp6 | DataUdp6 => 1 | _ => 0 end in
  outbound * (conn_slots_per_domain * conn_domains) + domain_idx * conn_slots_per_domain + ip_idx.

(* ---- Dialer.check: the attempt loop (for i := 0; i < maxAttempts; i++) and the verdict after it --------- *)
Inductive attempt_result := RSuccess | RError | RCanceled | RNothing.   (* (true,nil) | (false,err) | (false,context.Canceled) | (false,nil) *)
(* what CheckFunc returns in attempt i (0-based): a cancelled context makes the dial return context.Canceled *)
Definition run_attempt (a1 a2 : attempt) (c : cancel_at) (i : nat) : attempt_result :=
  let cancelled := match c, i with
                   | CBefore1, _ => true
                   | CBetween, S _ => true
                   | CDuring2, S _ => true
                   | _, _ => false
                   end in
  if cancelled then RCanceled
  else match (match i with O => a1 | _ => a2 end) with AOk => RSuccess | AErr => RError | ASkip => RNothing end.
(* the loop keeps the last (ok, err); it breaks on success, on context.Canceled and on (false, nil); an actual error retries *)
Fixpoint probe_loop (a1 a2 : attempt) (c : cancel_at) (i fuel : nat) (last : attempt_result) : attempt_result :=
  match fuel with
  | O => last
  | S f => let r := run_attempt a1 a2 c i in
           match r with
           | RError => probe_loop a1 a2 c (S i) f r
           | _ => r
           end
  end.
Definition model_probe_verdict (a1 a2 : attempt) (c : cancel_at) : verdict :=
  match probe_loop a1 a2 c 0 (N.to_nat probe_max_attempts) RNothing with
  | RSuccess => VSuccess      (* markAvailable *)
  | RError => VFailure        (* err != nil && !errors.Is(err, context.Canceled): markUnavailable *)
  | RCanceled => VIgnore      (* nothing *)
  | RNothing => VSkip         (* (false, nil): preserve state *)
  end.
Definition probe_event (a1 a2 : attempt) (c : cancel_at) (n : N) (d : dom) (l : latmap) : ev :=
  verdict_event (model_probe_verdict a1 a2 c) n d l.
