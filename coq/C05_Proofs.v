(* C05 - lemmas. *)
From Coq Require Import List NArith Bool Lia.
From Dae Require Import C05_Spec C05_Model.
From Dae.gen Require Import C05_Extracted.
Import ListNotations.
Open Scope N_scope.

(* ------------------------------------------------------------------ basics *)
Lemma take_drop : forall n (l : list N), take n l ++ drop n l = l.
Proof. intros. unfold take, drop. destruct (len l <=? n); [apply app_nil_r|apply firstn_skipn]. Qed.

Lemma unread_set_dl : forall s d, unread (set_dl s d) = unread s.
Proof. reflexivity. Qed.
Lemma unread_close : forall s, unread (close_sock s) = unread s.
Proof. reflexivity. Qed.

Lemma prefix_refl : forall l, prefix_of l l.
Proof. intros. exists []. now rewrite app_nil_r. Qed.
Lemma prefix_app : forall a b, prefix_of a (a ++ b).
Proof. intros. now exists b. Qed.

Lemma sock_read_conserve : forall now n s r s' t,
  sock_read now n s = (r, s', t) -> r_data r ++ unread s' = unread s.
Proof.
  intros now n s r s' t H. unfold sock_read in H.
  destruct (k_closed s); [inversion H; subst; reflexivity|].
  destruct (expired (k_dl s) now); [inversion H; subst; reflexivity|].
  destruct (k_in s) as [|c rest] eqn:Ein.
  - destruct (k_eof s).
    + destruct (expired (k_dl s) (N.max now n0)); inversion H; subst; reflexivity.
    + destruct (k_dl s); inversion H; subst; reflexivity.
  - destruct (expired (k_dl s) (N.max now (c_at c))); [inversion H; subst; reflexivity|].
    inversion H; subst; clear H. unfold unread. cbn [k_in r_data]. rewrite Ein. cbn [map concat].
    destruct (drop n (c_data c)) eqn:Ed.
    + rewrite <- (take_drop n (c_data c)) at 2. rewrite Ed, app_nil_r. reflexivity.
    + cbn [map concat c_data]. rewrite <- Ed. rewrite app_assoc, take_drop. reflexivity.
Qed.

Lemma conn_read_conserve : forall c n s now r c' s' t,
  conn_read c n s now = (r, c', s', t) ->
  r_data r ++ pending c' ++ unread s' = pending c ++ unread s.
Proof.
  induction c as [|buf c IH|pre c IH|buf derr c IH]; intros n s now r c' s' t H; cbn [conn_read] in H.
  - destruct (sock_read now n s) as [[r0 s0] t0] eqn:E. inversion H; subst. cbn [pending app].
    eapply sock_read_conserve; eauto.
  - destruct buf as [|b buf].
    + destruct (bufio_size <=? n).
      * destruct (conn_read c n s now) as [[[r0 c0] s0] t0] eqn:E. inversion H; subst.
        cbn [pending app]. eapply IH; eauto.
      * destruct (conn_read c bufio_size s now) as [[[r0 c0] s0] t0] eqn:E.
        apply IH in E. destruct (r_data r0) as [|x d] eqn:Ed.
        -- inversion H; subst. cbn [pending app r_data]. exact E.
        -- inversion H; subst. cbn [pending r_data app]. rewrite <- E.
           rewrite !app_assoc. rewrite take_drop. reflexivity.
    + inversion H; subst. cbn [pending r_data]. rewrite !app_assoc. rewrite take_drop. reflexivity.
  - destruct pre as [|b pre].
    + destruct (conn_read c n s now) as [[[r0 c0] s0] t0] eqn:E. inversion H; subst.
      cbn [pending app]. eapply IH; eauto.
    + destruct (n <=? len (b :: pre)).
      * inversion H; subst. cbn [pending r_data]. rewrite !app_assoc. rewrite take_drop. reflexivity.
      * destruct (conn_read c (n - len (b :: pre)) s now) as [[[r0 c0] s0] t0] eqn:E.
        apply IH in E. inversion H; subst. cbn [pending r_data app]. repeat rewrite <- app_assoc. cbn [app].
        rewrite E. reflexivity.
  - destruct derr as [e|].
    + inversion H; subst. cbn [pending r_data]. rewrite !app_assoc. rewrite take_drop. reflexivity.
    + destruct buf as [|b buf].
      * destruct (conn_read c n s now) as [[[r0 c0] s0] t0] eqn:E. inversion H; subst.
        cbn [pending app]. eapply IH; eauto.
      * inversion H; subst. cbn [pending r_data]. rewrite !app_assoc. rewrite take_drop. reflexivity.
Qed.

(* ------------------------------------------------------------------ end of stream means nothing is left *)
Fixpoint no_eof_err (c : conn) : Prop :=
  match c with
  | CSock => True
  | CBufio _ c' => no_eof_err c'
  | CPrefixed _ c' => no_eof_err c'
  | CSniffer _ e c' => e <> Some EEof /\ no_eof_err c'
  end.

Lemma sock_read_eof : forall now n s r s' t,
  sock_read now n s = (r, s', t) -> r_err r = Some EEof -> unread s' = [].
Proof.
  intros now n s r s' t H He. unfold sock_read in H.
  destruct (k_closed s); [inversion H; subst; discriminate|].
  destruct (expired (k_dl s) now); [inversion H; subst; discriminate|].
  destruct (k_in s) as [|c rest] eqn:Ein.
  - destruct (k_eof s).
    + destruct (expired (k_dl s) (N.max now n0)); inversion H; subst; try discriminate.
      unfold unread. now rewrite Ein.
    + destruct (k_dl s); inversion H; subst; discriminate.
  - destruct (expired (k_dl s) (N.max now (c_at c))); inversion H; subst; discriminate.
Qed.

Lemma conn_read_eof : forall c n s now r c' s' t,
  conn_read c n s now = (r, c', s', t) -> r_err r = Some EEof -> no_eof_err c ->
  pending c' = [] /\ unread s' = [].
Proof.
  induction c as [|buf c IH|pre c IH|buf derr c IH]; intros n s now r c' s' t H He Hn; cbn [conn_read] in H.
  - destruct (sock_read now n s) as [[r0 s0] t0] eqn:E. inversion H; subst. split; [reflexivity|].
    eapply sock_read_eof; eauto.
  - cbn in Hn. destruct buf as [|b buf].
    + destruct (bufio_size <=? n).
      * destruct (conn_read c n s now) as [[[r0 c0] s0] t0] eqn:E. inversion H; subst.
        cbn [pending app]. eapply IH; eauto.
      * destruct (conn_read c bufio_size s now) as [[[r0 c0] s0] t0] eqn:E.
        destruct (r_data r0) as [|x d] eqn:Ed.
        -- inversion H; subst. cbn [pending app]. cbn [r_err] in He. eapply IH; eauto.
        -- inversion H; subst. discriminate.
    + inversion H; subst. discriminate.
  - cbn in Hn. destruct pre as [|b pre].
    + destruct (conn_read c n s now) as [[[r0 c0] s0] t0] eqn:E. inversion H; subst.
      cbn [pending app]. eapply IH; eauto.
    + destruct (n <=? len (b :: pre)).
      * inversion H; subst. discriminate.
      * destruct (conn_read c (n - len (b :: pre)) s now) as [[[r0 c0] s0] t0] eqn:E.
        inversion H; subst. cbn [pending app]. cbn [r_err] in He. eapply IH; eauto.
  - cbn in Hn. destruct Hn as [Hd Hn]. destruct derr as [e|].
    + inversion H; subst. cbn [r_err] in He. congruence.
    + destruct buf as [|b buf].
      * destruct (conn_read c n s now) as [[[r0 c0] s0] t0] eqn:E. inversion H; subst.
        cbn [pending app]. eapply IH; eauto.
      * inversion H; subst. discriminate.
Qed.

(* ------------------------------------------------------------------ one direction: invariant *)
Definition dir_inv (strm : list N) (d : dirst) (s : sock) : Prop :=
  match d_phase d with
  | PStart => d_out d ++ pending (d_stack d) ++ unread s = strm /\ no_eof_err (d_stack d)
  | PLoop via => d_out d ++ pending via ++ unread s = strm /\ no_eof_err via
  | PDone None => d_out d = strm
  | PDone (Some _) => prefix_of (d_out d) strm
  end.

Lemma conn_read_no_eof_err : forall c n s now r c' s' t,
  conn_read c n s now = (r, c', s', t) -> no_eof_err c -> no_eof_err c'.
Proof.
  induction c as [|buf c IH|pre c IH|buf derr c IH]; intros n s now r c' s' t H Hn; cbn [conn_read] in H.
  - destruct (sock_read now n s) as [[r0 s0] t0]. inversion H; subst. exact I.
  - cbn in Hn. destruct buf as [|b buf].
    + destruct (bufio_size <=? n).
      * destruct (conn_read c n s now) as [[[r0 c0] s0] t0] eqn:E. inversion H; subst. cbn. eapply IH; eauto.
      * destruct (conn_read c bufio_size s now) as [[[r0 c0] s0] t0] eqn:E.
        destruct (r_data r0); inversion H; subst; cbn; eapply IH; eauto.
    + inversion H; subst. exact Hn.
  - cbn in Hn. destruct pre as [|b pre].
    + destruct (conn_read c n s now) as [[[r0 c0] s0] t0] eqn:E. inversion H; subst. cbn. eapply IH; eauto.
    + destruct (n <=? len (b :: pre)).
      * inversion H; subst. exact Hn.
      * destruct (conn_read c (n - len (b :: pre)) s now) as [[[r0 c0] s0] t0] eqn:E.
        inversion H; subst. cbn. eapply IH; eauto.
  - cbn in Hn. destruct Hn as [Hd Hn]. destruct derr as [e|].
    + inversion H; subst. cbn. split; assumption.
    + destruct buf as [|b buf].
      * destruct (conn_read c n s now) as [[[r0 c0] s0] t0] eqn:E. inversion H; subst. cbn.
        split; [discriminate|]. eapply IH; eauto.
      * inversion H; subst. cbn. split; [discriminate|assumption].
Qed.

Lemma take_segments_spec : forall c segs c1,
  take_segments c = (segs, c1) ->
  segs ++ pending c1 = pending c /\ pending (continuation c1) = pending c1 /\
  (no_eof_err c -> no_eof_err c1 /\ no_eof_err (continuation c1)).
Proof.
  intros c segs c1 H. destruct c; cbn in H; inversion H; subst; cbn [pending continuation app no_eof_err];
    (split; [try reflexivity; try (now rewrite app_nil_r)|split; [reflexivity|tauto]]).
Qed.

Definition top_empty (c : conn) : Prop :=
  match c with CBufio (_ :: _) _ => False | CPrefixed (_ :: _) _ => False | _ => True end.

Lemma take_segments_top_empty : forall c segs c1, take_segments c = (segs, c1) -> segs <> [] -> top_empty c1.
Proof. intros c segs c1 H Hne. destruct c; cbn in H; inversion H; subst; cbn; auto. Qed.

Lemma conn_read_top_empty : forall c s now r c' s' t,
  conn_read c c05_relay_buf s now = (r, c', s', t) -> top_empty c -> top_empty c'.
Proof.
  intros c s now r c' s' t H Ht. destruct c as [|buf c|pre c|buf derr c]; cbn [conn_read] in H.
  - destruct (sock_read now c05_relay_buf s) as [[r0 s0] t0]. inversion H; subst. exact I.
  - destruct buf; [|contradiction]. change (bufio_size <=? c05_relay_buf) with true in H. cbv iota in H.
    destruct (conn_read c c05_relay_buf s now) as [[[r0 c0] s0] t0]. inversion H; subst. exact I.
  - destruct pre; [|contradiction].
    destruct (conn_read c c05_relay_buf s now) as [[[r0 c0] s0] t0]. inversion H; subst. exact I.
  - destruct derr.
    + inversion H; subst. exact I.
    + destruct buf.
      * destruct (conn_read c c05_relay_buf s now) as [[[r0 c0] s0] t0]. inversion H; subst. exact I.
      * inversion H; subst. exact I.
Qed.

Lemma continuation_pending : forall c, top_empty c -> pending (continuation c) = pending c.
Proof. intros c H. destruct c as [|[|] ?|[|] ?|]; cbn in *; auto; contradiction. Qed.

Lemma is_err_eof : forall e, (if is_err (Some e) then Some e else None) = None -> e = EEof.
Proof. intros e. destruct e; cbn; congruence. Qed.

Lemma dir_step_inv : forall strm pend d s now d' s' t,
  dir_step pend d s now = (d', s', t) -> dir_inv strm d s -> dir_inv strm d' s'.
Proof.
  intros strm pend d s now d' s' t H Hi. unfold dir_step in H. unfold dir_inv in Hi.
  destruct (d_phase d) as [|via|e] eqn:Ph.
  - destruct Hi as [Hi Hn].
    destruct (take_segments (d_stack d)) as [segs c1] eqn:Ets.
    pose proof Ets as Ets0.
    apply take_segments_spec in Ets. destruct Ets as [Hs [Hc Hne]]. specialize (Hne Hn). destruct Hne as [Hn1 Hnc].
    destruct segs as [|x segs].
    + injection H as <- <- <-. unfold dir_inv. cbn [d_phase d_out]. split; assumption.
    + destruct (pend && data_pending s now).
      * destruct (conn_read c1 c05_relay_buf s now) as [[[r c2] s2] t2] eqn:E.
        pose proof (conn_read_conserve _ _ _ _ _ _ _ _ E) as Hcons.
        pose proof (conn_read_no_eof_err _ _ _ _ _ _ _ _ E Hn1) as Hn2.
        destruct (r_err r) as [e|] eqn:Ee.
        -- injection H as <- <- <-. unfold dir_inv. cbn [d_phase d_out].
           assert (Hpre : prefix_of (d_out d ++ (x :: segs) ++ r_data r) strm).
           { exists (pending c2 ++ unread s2). rewrite <- Hi, <- Hs. repeat rewrite <- app_assoc. cbn [app].
             rewrite <- Hcons. repeat rewrite <- app_assoc. reflexivity. }
           destruct e; cbv beta iota; try exact Hpre.
           destruct (conn_read_eof _ _ _ _ _ _ _ _ E Ee Hn1) as [Hp Hu].
           rewrite <- Hi, <- Hs. repeat rewrite <- app_assoc. cbn [app].
           rewrite <- Hcons, Hp, Hu. cbn [app]. now rewrite !app_nil_r.
        -- injection H as <- <- <-. unfold dir_inv. cbn [d_phase d_out]. split.
           ++ assert (pending (continuation c2) = pending c2) as ->.
              { apply continuation_pending. eapply conn_read_top_empty; eauto.
                eapply take_segments_top_empty; eauto. discriminate. }
              rewrite <- Hi, <- Hs. repeat rewrite <- app_assoc. cbn [app].
              rewrite <- Hcons. repeat rewrite <- app_assoc. reflexivity.
           ++ destruct c2; cbn in *; tauto.
      * injection H as <- <- <-. unfold dir_inv. cbn [d_phase d_out]. split; [|assumption].
        rewrite Hc, <- Hi, <- Hs. repeat rewrite <- app_assoc. reflexivity.
  - destruct Hi as [Hi Hn].
    destruct (conn_read via c05_relay_buf s now) as [[[r via2] s2] t2] eqn:E.
    pose proof (conn_read_conserve _ _ _ _ _ _ _ _ E) as Hcons.
    pose proof (conn_read_no_eof_err _ _ _ _ _ _ _ _ E Hn) as Hn2.
    destruct (r_err r) as [e|] eqn:Ee.
    + injection H as <- <- <-. unfold dir_inv. cbn [d_phase d_out].
      assert (Hpre : prefix_of (d_out d ++ r_data r) strm).
      { exists (pending via2 ++ unread s2). rewrite <- Hi, <- Hcons. repeat rewrite <- app_assoc. reflexivity. }
      destruct e; cbv beta iota; try exact Hpre.
      destruct (conn_read_eof _ _ _ _ _ _ _ _ E Ee Hn) as [Hp Hu].
      rewrite <- Hi, <- Hcons, Hp, Hu. cbn [app]. now rewrite !app_nil_r.
    + injection H as <- <- <-. unfold dir_inv. cbn [d_phase d_out]. split; [|assumption].
      rewrite <- Hi, <- Hcons. repeat rewrite <- app_assoc. reflexivity.
  - injection H as <- <- <-. unfold dir_inv. rewrite Ph. exact Hi.
Qed.

(* the invariant only looks at phase, stack, output and the unread bytes *)
Lemma dir_inv_ext : forall strm d d' s s',
  d_phase d' = d_phase d -> d_stack d' = d_stack d -> d_out d' = d_out d -> unread s' = unread s ->
  dir_inv strm d s -> dir_inv strm d' s'.
Proof. intros strm d d' s s' H1 H2 H3 H4. unfold dir_inv. rewrite H1, H2, H3, H4. auto. Qed.

Definition relay_inv (su sd : list N) (y : relay) : Prop :=
  dir_inv su (y_l2r y) (y_L y) /\ dir_inv sd (y_r2l y) (y_R y).

Arguments dir_inv : simpl never.

Lemma finish_inv : forall su sd grace (lf : bool) d y t,
  d = (if lf then y_l2r y else y_r2l y) ->
  relay_inv su sd y -> relay_inv su sd (finish grace lf d y t).
Proof.
  intros su sd grace lf d y t Hd [HL HR]. unfold finish, relay_inv.
  destruct lf; subst d.
  - destruct (d_phase (y_l2r y)) as [|?|[?|]] eqn:Ph; cbn; split;
      (eapply dir_inv_ext; [| | | |eassumption]; first [reflexivity | cbn; congruence]).
  - destruct (has_close_write (d_stack (y_l2r y)));
      destruct (d_phase (y_r2l y)) as [|?|[?|]] eqn:Ph; cbn; split;
      (eapply dir_inv_ext; [| | | |eassumption]; first [reflexivity | cbn; congruence]).
Qed.

Lemma advance_inv : forall su sd grace pend left y,
  relay_inv su sd y -> relay_inv su sd (advance grace pend left y).
Proof.
  intros su sd grace pend left y [HL HR]. unfold advance. destruct left.
  - destruct (dir_step pend (y_l2r y) (y_L y) (y_now y)) as [[d' s'] t] eqn:E.
    pose proof (dir_step_inv _ _ _ _ _ _ _ _ E HL) as HL'.
    destruct (running d').
    + split; assumption.
    + apply finish_inv; [reflexivity|]. split; assumption.
  - destruct (dir_step false (y_r2l y) (y_R y) (y_now y)) as [[d' s'] t] eqn:E.
    pose proof (dir_step_inv _ _ _ _ _ _ _ _ E HR) as HR'.
    destruct (running d').
    + split; assumption.
    + apply finish_inv; [reflexivity|]. split; assumption.
Qed.

Lemma simulate_inv : forall su sd fuel grace pend prio y,
  relay_inv su sd y -> relay_inv su sd (fst (simulate fuel grace pend prio y)).
Proof.
  induction fuel as [|f IH]; intros grace pend prio y Hy; cbn [simulate].
  - exact Hy.
  - destruct (negb (running (y_l2r y)) && negb (running (y_r2l y))); [exact Hy|].
    destruct ((negb (running (y_l2r y)) || step_blocks pend (y_l2r y) (y_L y) (y_now y))
              && (negb (running (y_r2l y)) || step_blocks false (y_r2l y) (y_R y) (y_now y))); [exact Hy|].
    apply IH. apply advance_inv. exact Hy.
Qed.

(* what the invariant gives at any moment *)
Lemma dir_inv_prefix : forall strm d s, dir_inv strm d s -> prefix_of (d_out d) strm.
Proof.
  intros strm d s H. unfold dir_inv in H. destruct (d_phase d) as [|via|[e|]].
  - destruct H as [H _]. eexists; eauto.
  - destruct H as [H _]. eexists; eauto.
  - exact H.
  - subst. apply prefix_refl.
Qed.

Lemma dir_inv_complete : forall strm d s, dir_inv strm d s -> shut_clean d = true -> d_out d = strm.
Proof.
  intros strm d s H Hs. unfold shut_clean in Hs. unfold dir_inv in H.
  destruct (d_phase d) as [|via|[e|]]; try discriminate. exact H.
Qed.

(* ------------------------------------------------------------------ relay over ANY wrapper stack *)
Lemma run_relay_intact : forall grace pend prio stack L R start,
  no_eof_err stack ->
  let y := fst (run_relay grace pend prio stack L R start) in
  prefix_of (d_out (y_l2r y)) (pending stack ++ unread L) /\
  prefix_of (d_out (y_r2l y)) (unread R) /\
  (shut_clean (y_l2r y) = true -> d_out (y_l2r y) = pending stack ++ unread L) /\
  (shut_clean (y_r2l y) = true -> d_out (y_r2l y) = unread R).
Proof.
  intros grace pend prio stack L R start Hn y.
  assert (Hy : relay_inv (pending stack ++ unread L) (unread R) y).
  { unfold y, run_relay. apply simulate_inv. split; unfold dir_inv; cbn; auto. }
  destruct Hy as [HL HR].
  repeat split.
  - eapply dir_inv_prefix; eauto.
  - eapply dir_inv_prefix; eauto.
  - intros. eapply dir_inv_complete; eauto.
  - intros. eapply dir_inv_complete; eauto.
Qed.

(* ------------------------------------------------------------------ prologue conserves the bytes *)
Lemma peek_conserve : forall fuel n buf c s now ok buf' c' s' t,
  peek fuel n buf c s now = (ok, buf', c', s', t) ->
  buf' ++ pending c' ++ unread s' = buf ++ pending c ++ unread s.
Proof.
  induction fuel as [|f IH]; intros n buf c s now ok buf' c' s' t H; cbn [peek] in H.
  - destruct (n <=? len buf); [inversion H; subst; reflexivity|].
    destruct (bufio_size <=? len buf); inversion H; subst; reflexivity.
  - destruct (n <=? len buf); [inversion H; subst; reflexivity|].
    destruct (bufio_size <=? len buf); [inversion H; subst; reflexivity|].
    destruct (conn_read c (bufio_size - len buf) s now) as [[[r c2] s2] t2] eqn:E.
    apply conn_read_conserve in E.
    destruct (r_err r).
    + inversion H; subst. rewrite <- E. now rewrite <- !app_assoc.
    + apply IH in H. rewrite H, <- E. now rewrite <- !app_assoc.
Qed.

Lemma peek_no_eof_err : forall fuel n buf c s now ok buf' c' s' t,
  peek fuel n buf c s now = (ok, buf', c', s', t) -> no_eof_err c -> no_eof_err c'.
Proof.
  induction fuel as [|f IH]; intros n buf c s now ok buf' c' s' t H Hn; cbn [peek] in H.
  - destruct (n <=? len buf); [inversion H; subst; assumption|].
    destruct (bufio_size <=? len buf); inversion H; subst; assumption.
  - destruct (n <=? len buf); [inversion H; subst; assumption|].
    destruct (bufio_size <=? len buf); [inversion H; subst; assumption|].
    destruct (conn_read c (bufio_size - len buf) s now) as [[[r c2] s2] t2] eqn:E.
    apply conn_read_no_eof_err in E; [|assumption].
    destruct (r_err r).
    + inversion H; subst. assumption.
    + eapply IH; eauto.
Qed.

Lemma dns_stage_f_conserve : forall fuel orc c s now oc s' t,
  dns_stage_f fuel orc c s now = (oc, s', t) -> no_eof_err c ->
  match oc with
  | Some c' => pending c' ++ unread s' = pending c ++ unread s /\ no_eof_err c'
  | None => True
  end.
Proof.
  intros fuel orc c s now oc s' t H Hn. unfold dns_stage_f in H.
  destruct (peek fuel 2 [] c (set_dl s (Some (now + c05_dns_first_timeout_ms))) now) as [[[[ok buf] c1] s2] t2] eqn:E1.
  pose proof (peek_conserve _ _ _ _ _ _ _ _ _ _ _ E1) as H1. cbn [app] in H1. rewrite unread_set_dl in H1.
  pose proof (peek_no_eof_err _ _ _ _ _ _ _ _ _ _ _ E1 Hn) as Hn1.
  destruct (negb ok); [inversion H; subst; cbn [pending]; rewrite unread_set_dl; split; [rewrite <- app_assoc; exact H1|exact Hn1]|].
  destruct (be16 buf <? 12); [inversion H; subst; cbn [pending]; rewrite unread_set_dl; split; [rewrite <- app_assoc; exact H1|exact Hn1]|].
  destruct (peek fuel (2 + be16 buf) buf c1 s2 t2) as [[[[ok2 buf2] c3] s3] t3] eqn:E2.
  pose proof (peek_conserve _ _ _ _ _ _ _ _ _ _ _ E2) as H2.
  pose proof (peek_no_eof_err _ _ _ _ _ _ _ _ _ _ _ E2 Hn1) as Hn3.
  destruct (negb ok2); [inversion H; subst; cbn [pending]; rewrite unread_set_dl; split; [rewrite <- app_assoc; congruence|exact Hn3]|].
  destruct orc.
  - inversion H; subst; cbn [pending]; rewrite unread_set_dl; split; [rewrite <- app_assoc; congruence|exact Hn3].
  - inversion H; subst. exact I.
  - inversion H; subst; cbn [pending]; rewrite unread_set_dl; split; [rewrite <- app_assoc; congruence|exact Hn3].
Qed.

Lemma dns_stage_conserve : forall orc c s now oc s' t,
  dns_stage orc c s now = (oc, s', t) -> no_eof_err c ->
  match oc with
  | Some c' => pending c' ++ unread s' = pending c ++ unread s /\ no_eof_err c'
  | None => True
  end.
Proof. intros orc c s now oc s' t. unfold dns_stage. apply dns_stage_f_conserve. Qed.

Lemma prefetch_conserve : forall wait c s now c' pre ready s' t,
  prefetch_stage wait c s now = (c', pre, ready, s', t) -> no_eof_err c ->
  pending c' ++ unread s' = pending c ++ unread s /\ no_eof_err c'.
Proof.
  intros wait c s now c' pre ready s' t H Hn. unfold prefetch_stage in H.
  destruct (conn_read c c05_prefetch_bytes (set_dl s (Some (now + wait))) now) as [[[r c2] s2] t2] eqn:E.
  pose proof (conn_read_no_eof_err _ _ _ _ _ _ _ _ E Hn) as Hn2.
  apply conn_read_conserve in E. rewrite unread_set_dl in E.
  destruct (r_data r) as [|x d] eqn:Ed; inversion H; subst; rewrite unread_set_dl.
  - split; [exact E|exact Hn2].
  - cbn [pending]. split; [rewrite <- app_assoc; exact E|exact Hn2].
Qed.

Lemma sniff_rounds_conserve : forall answers dl buf c s now buf' derr c' s' t spin,
  sniff_rounds answers dl buf c s now = (buf', derr, c', s', t, spin) -> no_eof_err c ->
  buf' ++ pending c' ++ unread s' = buf ++ pending c ++ unread s /\ no_eof_err c' /\ derr <> Some EEof.
Proof.
  induction answers as [|[more room] rest IH]; intros dl buf c s now buf' derr c' s' t spin H Hn; cbn [sniff_rounds] in H.
  - inversion H; subst. repeat split; auto. discriminate.
  - destruct (conn_read c (N.max room sniff_min_read) (set_dl s (Some dl)) now) as [[[r c2] s2] t2] eqn:E.
    pose proof (conn_read_no_eof_err _ _ _ _ _ _ _ _ E Hn) as Hn2.
    apply conn_read_conserve in E. rewrite unread_set_dl in E.
    assert (Hc : (buf ++ r_data r) ++ pending c2 ++ unread (set_dl s2 None) = buf ++ pending c ++ unread s).
    { rewrite unread_set_dl, <- E. now rewrite <- !app_assoc. }
    destruct (r_err r) as [e|].
    + destruct e.
      * destruct (nonempty (buf ++ r_data r) && more); inversion H; subst; repeat split; auto; discriminate.
      * inversion H; subst; repeat split; auto; discriminate.
      * inversion H; subst; repeat split; auto; discriminate.
      * inversion H; subst; repeat split; auto; discriminate.
    + destruct more.
      * apply IH in H; [|assumption]. destruct H as [H1 [H2 H3]]. repeat split; auto. now rewrite H1.
      * inversion H; subst; repeat split; auto; discriminate.
Qed.

Lemma sniff_stage_conserve : forall answers dl c s now buf' derr c' s' t spin,
  sniff_stage answers dl c s now = (buf', derr, c', s', t, spin) -> no_eof_err c ->
  buf' ++ pending c' ++ unread s' = pending c ++ unread s /\ no_eof_err c' /\ derr <> Some EEof.
Proof. intros answers dl c s now buf' derr c' s' t spin H Hn. unfold sniff_stage in H.
  apply sniff_rounds_conserve in H; [|assumption]. exact H. Qed.

Lemma norm_unread : forall l, concat (map c_data (norm_chunks l)) = concat (map c_data l).
Proof.
  induction l as [|c r IH]; [reflexivity|]. cbn [norm_chunks].
  destruct (c_data c) eqn:E; cbn [map concat]; rewrite E; cbn; now rewrite IH.
Qed.

Lemma unread_mk_sock : forall sd, unread (mk_sock sd) = stream sd.
Proof. intros. unfold unread, mk_sock, stream. cbn [k_in]. apply norm_unread. Qed.

Lemma prologue_conserve : forall p s0 now0,
  match ps_conn (prologue p s0 now0) with
  | Some st => pending st ++ unread (ps_sock (prologue p s0 now0)) = unread s0 /\ no_eof_err st
  | None => True
  end.
Proof.
  intros p s0 now0. unfold prologue.
  destruct (p_port53 p).
  - destruct (dns_stage (p_dns p) CSock s0 now0) as [[oc s1] t1] eqn:Ed.
    pose proof (dns_stage_conserve _ _ _ _ _ _ _ Ed I) as Hd.
    destruct oc as [c1|]; [|exact I]. destruct Hd as [Hd Hn1]. cbn [pending app] in Hd.
    destruct (negb (p_try_sniff p)); [cbn; split; assumption|].
    destruct (prefetch_stage (p_sniff_ms p) c1 s1 t1) as [[[[c2 pre] ready] s2] t2] eqn:Ep.
    pose proof (prefetch_conserve _ _ _ _ _ _ _ _ _ Ep Hn1) as [Hp Hn2].
    destruct (negb ready); [cbn; split; [congruence|assumption]|].
    destruct (negb (is_likely_http_or_tls pre)); [cbn; split; [congruence|assumption]|].
    destruct (sniff_stage (p_answers p) (t2 + p_sniff_ms p) c2 s2 t2) as [[[[[buf derr] c3] s3] t3] spin] eqn:Es.
    pose proof (sniff_stage_conserve _ _ _ _ _ _ _ _ _ _ _ Es Hn2) as [Hs [Hn3 Hde]].
    cbn. split; [|split; assumption]. rewrite <- app_assoc. congruence.
  - cbn [pending app].
    destruct (negb (p_try_sniff p)); [cbn; split; auto|].
    destruct (prefetch_stage (p_sniff_ms p) CSock s0 now0) as [[[[c2 pre] ready] s2] t2] eqn:Ep.
    pose proof (prefetch_conserve _ _ _ _ _ _ _ _ _ Ep I) as [Hp Hn2]. cbn [pending app] in Hp.
    destruct (negb ready); [cbn; split; [congruence|assumption]|].
    destruct (negb (is_likely_http_or_tls pre)); [cbn; split; [congruence|assumption]|].
    destruct (sniff_stage (p_answers p) (t2 + p_sniff_ms p) c2 s2 t2) as [[[[[buf derr] c3] s3] t3] spin] eqn:Es.
    pose proof (sniff_stage_conserve _ _ _ _ _ _ _ _ _ _ _ Es Hn2) as [Hs [Hn3 Hde]].
    cbn. split; [|split; assumption]. rewrite <- app_assoc. congruence.
Qed.

(* ------------------------------------------------------------------ whole connection *)
Definition bytes_intact_stmt (p : pcase) (grace : N) (pend prio : bool) (client server : side) : Prop :=
  let o := connection p grace pend prio client server in
  prefix_of (o_up o) (stream client) /\ prefix_of (o_down o) (stream server) /\
  (o_up_shut o = true -> o_up o = stream client) /\
  (o_down_shut o = true -> o_down o = stream server).

Lemma bytes_intact_proof : forall p grace pend prio client server,
  bytes_intact_stmt p grace pend prio client server.
Proof.
  intros p grace pend prio client server. unfold bytes_intact_stmt, connection.
  pose proof (prologue_conserve p (mk_sock client) 0) as Hp.
  destruct (ps_conn (prologue p (mk_sock client) 0)) as [st|] eqn:Ec.
  - destruct Hp as [Hp Hn].
    destruct (run_relay grace pend prio st (ps_sock (prologue p (mk_sock client) 0)) (mk_sock server) (ps_now (prologue p (mk_sock client) 0))) as [y alive] eqn:Er.
    pose proof (run_relay_intact grace pend prio st (ps_sock (prologue p (mk_sock client) 0)) (mk_sock server) (ps_now (prologue p (mk_sock client) 0)) Hn) as Hr.
    rewrite Er in Hr. cbn [fst] in Hr. rewrite Hp, !unread_mk_sock in Hr. cbn. exact Hr.
  - cbn. split; [exists (stream client); reflexivity|]. split; [exists (stream server); reflexivity|].
    split; discriminate.
Qed.

(* ------------------------------------------------------------------ read deadlines *)
Lemma sock_read_dl : forall now n s r s' t, sock_read now n s = (r, s', t) -> k_dl s' = k_dl s.
Proof.
  intros now n s r s' t H. unfold sock_read in H.
  destruct (k_closed s); [inversion H; subst; reflexivity|].
  destruct (expired (k_dl s) now); [inversion H; subst; reflexivity|].
  destruct (k_in s) as [|c rest].
  - destruct (k_eof s).
    + destruct (expired (k_dl s) (N.max now n0)); inversion H; subst; reflexivity.
    + destruct (k_dl s) eqn:Ek; inversion H; subst; congruence.
  - destruct (expired (k_dl s) (N.max now (c_at c))); inversion H; subst; reflexivity.
Qed.

Lemma conn_read_dl : forall c n s now r c' s' t, conn_read c n s now = (r, c', s', t) -> k_dl s' = k_dl s.
Proof.
  induction c as [|buf c IH|pre c IH|buf derr c IH]; intros n s now r c' s' t H; cbn [conn_read] in H.
  - destruct (sock_read now n s) as [[r0 s0] t0] eqn:E. inversion H; subst. eapply sock_read_dl; eauto.
  - destruct buf as [|b buf].
    + destruct (bufio_size <=? n).
      * destruct (conn_read c n s now) as [[[r0 c0] s0] t0] eqn:E. inversion H; subst. eapply IH; eauto.
      * destruct (conn_read c bufio_size s now) as [[[r0 c0] s0] t0] eqn:E.
        destruct (r_data r0); inversion H; subst; eapply IH; eauto.
    + inversion H; subst. reflexivity.
  - destruct pre as [|b pre].
    + destruct (conn_read c n s now) as [[[r0 c0] s0] t0] eqn:E. inversion H; subst. eapply IH; eauto.
    + destruct (n <=? len (b :: pre)).
      * inversion H; subst. reflexivity.
      * destruct (conn_read c (n - len (b :: pre)) s now) as [[[r0 c0] s0] t0] eqn:E.
        inversion H; subst. eapply IH; eauto.
  - destruct derr as [e|].
    + inversion H; subst. reflexivity.
    + destruct buf as [|b buf].
      * destruct (conn_read c n s now) as [[[r0 c0] s0] t0] eqn:E. inversion H; subst. eapply IH; eauto.
      * inversion H; subst. reflexivity.
Qed.

Lemma sniff_rounds_dl : forall answers dl buf c s now buf' derr c' s' t spin,
  sniff_rounds answers dl buf c s now = (buf', derr, c', s', t, spin) -> k_dl s = None -> k_dl s' = None.
Proof.
  induction answers as [|[more room] rest IH]; intros dl buf c s now buf' derr c' s' t spin H Hd; cbn [sniff_rounds] in H.
  - inversion H; subst. exact Hd.
  - destruct (conn_read c (N.max room sniff_min_read) (set_dl s (Some dl)) now) as [[[r c2] s2] t2] eqn:E.
    destruct (r_err r) as [e|].
    + destruct e; [destruct (nonempty (buf ++ r_data r) && more)| | |]; inversion H; subst; reflexivity.
    + destruct more.
      * eapply IH; eauto.
      * inversion H; subst. reflexivity.
Qed.

Lemma peek_dl : forall fuel n buf c s now ok buf' c' s' t,
  peek fuel n buf c s now = (ok, buf', c', s', t) -> k_dl s' = k_dl s.
Proof.
  induction fuel as [|f IH]; intros n buf c s now ok buf' c' s' t H; cbn [peek] in H.
  - destruct (n <=? len buf); [inversion H; subst; reflexivity|].
    destruct (bufio_size <=? len buf); inversion H; subst; reflexivity.
  - destruct (n <=? len buf); [inversion H; subst; reflexivity|].
    destruct (bufio_size <=? len buf); [inversion H; subst; reflexivity|].
    destruct (conn_read c (bufio_size - len buf) s now) as [[[r c2] s2] t2] eqn:E.
    apply conn_read_dl in E.
    destruct (r_err r).
    + inversion H; subst. exact E.
    + apply IH in H. congruence.
Qed.

Lemma dns_stage_f_dl : forall fuel orc c s now c' s' t,
  dns_stage_f fuel orc c s now = (Some c', s', t) -> k_dl s' = None.
Proof.
  intros fuel orc c s now c' s' t H. unfold dns_stage_f in H.
  destruct (peek fuel 2 [] c (set_dl s (Some (now + c05_dns_first_timeout_ms))) now) as [[[[ok buf] c1] s2] t2].
  destruct (negb ok); [inversion H; subst; reflexivity|].
  destruct (be16 buf <? 12); [inversion H; subst; reflexivity|].
  destruct (peek fuel (2 + be16 buf) buf c1 s2 t2) as [[[[ok2 buf2] c3] s3] t3].
  destruct (negb ok2); [inversion H; subst; reflexivity|].
  destruct orc; inversion H; subst; reflexivity.
Qed.

Lemma dns_stage_dl : forall orc c s now c' s' t,
  dns_stage orc c s now = (Some c', s', t) -> k_dl s' = None.
Proof. intros orc c s now c' s' t. unfold dns_stage. apply dns_stage_f_dl. Qed.

Lemma prefetch_dl : forall wait c s now c' pre ready s' t,
  prefetch_stage wait c s now = (c', pre, ready, s', t) -> k_dl s' = None.
Proof.
  intros wait c s now c' pre ready s' t H. unfold prefetch_stage in H.
  destruct (conn_read c c05_prefetch_bytes (set_dl s (Some (now + wait))) now) as [[[r c3] s3] t3].
  destruct (r_data r); inversion H; subst; reflexivity.
Qed.

(* no read deadline of the protocol detection is armed when the relay starts - every path of the prologue *)
Lemma no_stale_deadline_proof : forall p s0 now0,
  k_dl s0 = None ->
  match ps_conn (prologue p s0 now0) with
  | Some _ => k_dl (ps_sock (prologue p s0 now0)) = None
  | None => True
  end.
Proof.
  intros p s0 now0 Hd. unfold prologue.
  assert (Hrest : forall c1 s1 t1 rd, k_dl s1 = None ->
    match ps_conn (if negb (p_try_sniff p) then mkPS (Some c1) s1 t1 rd false false false else
      let '(c2, pre, ready, s2, t2) := prefetch_stage (p_sniff_ms p) c1 s1 t1 in
      if negb ready then mkPS (Some c2) s2 t2 rd true false false else
      if negb (is_likely_http_or_tls pre) then mkPS (Some c2) s2 t2 rd true false false else
      let '(buf, derr, c3, s3, t3, spin) := sniff_stage (p_answers p) (t2 + p_sniff_ms p) c2 s2 t2 in
      mkPS (Some (CSniffer buf derr c3)) s3 t3 rd true true spin) with
    | Some _ => k_dl (ps_sock (if negb (p_try_sniff p) then mkPS (Some c1) s1 t1 rd false false false else
      let '(c2, pre, ready, s2, t2) := prefetch_stage (p_sniff_ms p) c1 s1 t1 in
      if negb ready then mkPS (Some c2) s2 t2 rd true false false else
      if negb (is_likely_http_or_tls pre) then mkPS (Some c2) s2 t2 rd true false false else
      let '(buf, derr, c3, s3, t3, spin) := sniff_stage (p_answers p) (t2 + p_sniff_ms p) c2 s2 t2 in
      mkPS (Some (CSniffer buf derr c3)) s3 t3 rd true true spin)) = None
    | None => True end).
  { intros c1 s1 t1 rd Hd1.
    destruct (negb (p_try_sniff p)); [exact Hd1|].
    destruct (prefetch_stage (p_sniff_ms p) c1 s1 t1) as [[[[c2 pre] ready] s2] t2] eqn:Ep.
    pose proof (prefetch_dl _ _ _ _ _ _ _ _ _ Ep) as Hd2.
    destruct (negb ready); [exact Hd2|].
    destruct (negb (is_likely_http_or_tls pre)); [exact Hd2|].
    destruct (sniff_stage (p_answers p) (t2 + p_sniff_ms p) c2 s2 t2) as [[[[[buf derr] c3] s3] t3] spin] eqn:Es.
    cbn. unfold sniff_stage in Es. eapply sniff_rounds_dl; eauto. }
  destruct (p_port53 p).
  - destruct (dns_stage (p_dns p) CSock s0 now0) as [[oc s1] t1] eqn:Ed.
    destruct oc as [c1|]; [|exact I].
    apply Hrest. eapply dns_stage_dl; eauto.
  - apply Hrest. exact Hd.
Qed.

(* ------------------------------------------------------------------ examples (former refutation witnesses) *)
Definition w_ssh : list N := [83;83;72;45;50;46;48;45;79;112;101;110;83;83;72;13;10].
Definition w_client53 : side := mkSide [mkChunk 0 w_ssh; mkChunk 7000 [1;2;3]] (Some 8000).
Definition w_server : side := mkSide [mkChunk 110 [65;66;67]] (Some 9010).
Definition w_p53 : pcase := mkP 53 1000 false 2 false DnsErr [].

(* SSH banner to port 53, more data 7 s later: relayed in full (was cut at 5 s before 5fcc1e4) *)
Lemma port53_fallback_example :
  let o := connection w_p53 c05_half_close_ms false true w_client53 w_server in
  o_start o = 5000 /\ o_dl_at_start o = None /\ o_up o = w_ssh ++ [1;2;3] /\ o_up_shut o = true
  /\ o_down o = [65;66;67] /\ o_down_shut o = true /\ o_err o = false.
Proof. vm_compute. repeat split. Qed.

(* a first frame that parses as a DNS response is relayed too (was dropped before 512bb6f) *)
Definition w_dns_response : list N := [0;12; 18;52;128;0;0;0;0;0;0;0;0;0; 104;105].
Lemma dns_response_example :
  let o := connection (mkP 53 1000 false 2 false DnsResponse []) 10000 false true
                      (mkSide [mkChunk 0 w_dns_response] (Some 100)) (mkSide [] (Some 50)) in
  o_up o = w_dns_response /\ o_up_shut o = true /\ o_down_shut o = true /\ o_err o = false.
Proof. vm_compute. repeat split. Qed.

Definition w_tls_part : list N := [22;3;1;2;0;1;0].
Definition w_client_tls : side := mkSide [mkChunk 0 w_tls_part; mkChunk 1500 [9;9;9]] (Some 3000).
Definition w_psniff : pcase := mkP 443 1000 false 2 false DnsErr [(true, 4096)].

(* partial TLS record, the rest later than the sniff window: relayed in full (was cut before 9ef4b71) *)
Lemma sniff_timeout_harmless_example :
  let o := connection w_psniff c05_half_close_ms false true w_client_tls w_server in
  o_start o = 1000 /\ o_dl_at_start o = None /\ o_up o = w_tls_part ++ [9;9;9] /\ o_up_shut o = true /\ o_err o = false.
Proof. vm_compute. repeat split. Qed.

Lemma sniff_rounds_no_timeout : forall answers dl buf c s now buf' derr c' s' t spin,
  sniff_rounds answers dl buf c s now = (buf', derr, c', s', t, spin) ->
  derr <> Some ETimeout /\ derr <> Some EEof.
Proof.
  induction answers as [|[more room] rest IH]; intros dl buf c s now buf' derr c' s' t spin H; cbn [sniff_rounds] in H.
  - inversion H; subst. split; discriminate.
  - destruct (conn_read c (N.max room sniff_min_read) (set_dl s (Some dl)) now) as [[[r c2] s2] t2] eqn:E.
    destruct (r_err r) as [e|].
    + destruct e; [destruct (nonempty (buf ++ r_data r) && more)| | |]; inversion H; subst; split; discriminate.
    + destruct more.
      * eapply IH; eauto.
      * inversion H; subst. split; discriminate.
Qed.

(* server half-close through the sniffer wrapper reaches the client (was lost before b8da220) *)
Definition w_http : list N := [71;69;84;32;47;32;72;84;84;80;47;49;46;48;13;10;13;10].
Lemma wrapped_half_close_example :
  let o := connection (mkP 443 1000 false 2 false DnsErr [(false, 4096)]) c05_half_close_ms false true
                      (mkSide [mkChunk 0 w_http] None) (mkSide [mkChunk 110 [65;66;67]] (Some 210)) in
  o_down o = [65;66;67] /\ o_down_shut o = true /\ o_cw_down o = (1, 210, 3) /\ o_end o = 10210 /\ o_err o = true.
Proof. vm_compute. repeat split. Qed.

Lemma half_close_plain_example :
  let client := mkSide [mkChunk 0 [1;2;3]; mkChunk 300 [4;5]] (Some 400) in
  let server := mkSide [mkChunk 110 [7;8]; mkChunk 9010 [9]] (Some 9510) in
  let o := connection (mkP 22 1000 false 2 false DnsErr []) c05_half_close_ms false true client server in
  o_up o = [1;2;3;4;5] /\ o_down o = [7;8;9] /\ o_up_shut o = true /\ o_down_shut o = true
  /\ o_cw_up o = (1, 400, 5) /\ o_cw_down o = (1, 9510, 3) /\ o_err o = false.
Proof. vm_compute. repeat split. Qed.

Lemma grace_example :
  let client := mkSide [mkChunk 0 [1]] (Some 400) in
  let server := mkSide [mkChunk 10390 [7]; mkChunk 10410 [8]] None in
  let o := connection (mkP 22 1000 false 2 false DnsErr []) c05_half_close_ms false true client server in
  o_down o = [7] /\ o_end o = 10400 /\ o_err o = true /\ o_up_shut o = true.
Proof. vm_compute. repeat split. Qed.

(* ------------------------------------------------------------------ the grace period is counted from the EOF *)
(* a socket read that reports end of stream completes at the instant the end of stream is seen *)
Lemma sock_read_eof_time : forall now n s r s' t,
  sock_read now n s = (r, s', t) -> r_err r = Some EEof ->
  exists e, k_eof s = Some e /\ t = N.max now e.
Proof.
  intros now n s r s' t H He. unfold sock_read in H.
  destruct (k_closed s); [inversion H; subst; discriminate|].
  destruct (expired (k_dl s) now); [inversion H; subst; discriminate|].
  destruct (k_in s) as [|c rest].
  - destruct (k_eof s) as [e|].
    + destruct (expired (k_dl s) (N.max now e)); inversion H; subst; try discriminate.
      exists e. split; reflexivity.
    + destruct (k_dl s); inversion H; subst; discriminate.
  - destruct (expired (k_dl s) (N.max now (c_at c))); inversion H; subst; discriminate.
Qed.

(* relayCore.run: when a direction's step ends cleanly (PDone None) at time t - the time of THAT read, i.e. of
   that direction's end of stream - the deadline armed on the socket it writes to is t + grace, and the relay's
   clock is t; it does not depend on when the relay started or on the other direction *)
Lemma grace_from_eof_left : forall grace pend y d' s' t,
  dir_step pend (y_l2r y) (y_L y) (y_now y) = (d', s', t) -> d_phase d' = PDone None ->
  k_dl (y_R (advance grace pend true y)) = Some (t + grace) /\ y_now (advance grace pend true y) = t
  /\ k_closed (y_R (advance grace pend true y)) = k_closed (y_R y) /\ y_L (advance grace pend true y) = s'.
Proof.
  intros grace pend y d' s' t H Hp. unfold advance. rewrite H.
  unfold running. rewrite Hp. unfold finish. cbn [d_phase]. rewrite Hp. cbn. repeat split.
Qed.

Lemma grace_from_eof_right : forall grace pend y d' s' t,
  dir_step false (y_r2l y) (y_R y) (y_now y) = (d', s', t) -> d_phase d' = PDone None ->
  k_dl (y_L (advance grace pend false y)) = Some (t + grace) /\ y_now (advance grace pend false y) = t
  /\ k_closed (y_L (advance grace pend false y)) = k_closed (y_L y) /\ y_R (advance grace pend false y) = s'.
Proof.
  intros grace pend y d' s' t H Hp. unfold advance. rewrite H.
  unfold running. rewrite Hp. unfold finish. cbn [d_phase]. rewrite Hp.
  destruct (has_close_write (d_stack (y_l2r y))); cbn; repeat split.
Qed.
