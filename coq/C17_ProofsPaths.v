(* C17 — the merger reads only .dae files lexically inside the entry directory. *)
From Coq Require Import List NArith Bool Lia.
From Dae Require Import C17_Spec C17_Model C17_Paths C17_ProofsMerge.
Import ListNotations.
Open Scope N_scope.

(* readEntry answers with sections only when every check passed *)
Lemma fs_of_file : forall os entry_dir f ss,
    fs_of os entry_dir f = FFile ss ->
    has_suffix dae_suffix f = true /\ inside entry_dir (comps f) = true /\
    exists mode text, os (clean (comps f)) = OFile mode text /\ N.land mode 31 = 0 /\ parse text = POk ss.
Proof.
  intros os entry_dir f ss H. unfold fs_of in H.
  destruct (has_suffix dae_suffix f) eqn:Es; [|discriminate].
  destruct (inside entry_dir (comps f)) eqn:Ei; [|discriminate].
  simpl in H.
  destruct (os (clean (comps f))) as [| |mode text] eqn:Eo; try discriminate.
  destruct (N.land mode 31 =? 0) eqn:Em; [|discriminate].
  destruct (parse text) as [ss'| | |] eqn:Ep; try discriminate.
  inversion H; subst ss'.
  split; [reflexivity|]. split; [reflexivity|].
  exists mode, text. split; [reflexivity|]. split; [apply N.eqb_eq; exact Em | exact Ep].
Qed.

Lemma only_dae_in_dir_os : forall os entry_dir fuel expand entry m vis,
  dfs_merge fuel (fs_of os entry_dir) expand [] entry = Ok (m, vis) ->
  forall f, In f vis ->
    has_suffix dae_suffix f = true /\ inside entry_dir (comps f) = true /\
    exists mode text ss, os (clean (comps f)) = OFile mode text /\ N.land mode 31 = 0 /\ parse text = POk ss.
Proof.
  intros os entry_dir fuel expand entry m vis H f Hf.
  destruct (only_usable_files _ _ _ _ _ _ _ H f Hf) as [[]|[ss Hss]].
  destruct (fs_of_file _ _ _ _ Hss) as (Hs & Hi & mode & text & Ho & Hm & Hp).
  split; [exact Hs|]. split; [exact Hi|].
  exists mode, text, ss. split; [exact Ho|]. split; [exact Hm | exact Hp].
Qed.

Lemma strip_prefix_app : forall d f r, strip_prefix d f = Some r -> f = d ++ r.
Proof.
  induction d as [|x d IH]; intros f r H; simpl in H.
  - inversion H. reflexivity.
  - destruct f as [|y f]; [discriminate|].
    destruct (str_eqb x y) eqn:E; [|discriminate].
    apply str_eqb_eq in E. subst y. simpl. f_equal. apply IH. exact H.
Qed.

Lemma inside_is_below : forall d f, inside d f = true -> exists below, dir_of (clean f) = clean d ++ below.
Proof.
  intros d f H. unfold inside in H.
  destruct (strip_prefix (clean d) (dir_of (clean f))) as [r|] eqn:E; [|discriminate].
  exists r. apply strip_prefix_app. exact E.
Qed.

Lemma outside_never_read : forall os entry_dir fuel expand entry m vis f,
  dfs_merge fuel (fs_of os entry_dir) expand [] entry = Ok (m, vis) ->
  (forall below, dir_of (clean (comps f)) <> clean entry_dir ++ below) -> ~ In f vis.
Proof.
  intros os entry_dir fuel expand entry m vis f H Hout Hin.
  destruct (only_dae_in_dir_os _ _ _ _ _ _ _ H f Hin) as (_ & Hi & _).
  destruct (inside_is_below _ _ Hi) as (below & Hb).
  exact (Hout below Hb).
Qed.
