(* C06 — lemmas about the asynchronous fallback model (C06_Async.v). *)
From Coq Require Import List NArith Bool Arith Lia ZifyBool ZifyN ZifyNat.
From Dae Require Import C06_Spec C06_Model C06_Async C06_Session C06_Statements.
Import ListNotations.
Open Scope N_scope.

Lemma async_loop_same :
  forall script st r st' pend rest,
    async_sniff_loop script st = (r, st', pend, rest) ->
    r <> TimedOut -> pend = None /\ sniff_tcp_loop script st = (r, st', rest).
Proof.
  induction script as [|e script IH]; intros st r st' pend rest Hrun Hr.
  - cbn in Hrun. inversion Hrun; subst. congruence.
  - cbn [async_sniff_loop] in Hrun. cbn [sniff_tcp_loop].
    destruct (rd_status e).
    1,2:
      (destruct ((length (s_buf st ++ rd_data e) =? 0)%nat);
       [ inversion Hrun; subst; auto
       | destruct (sniff_group_tcp (s_buf st ++ rd_data e) (zeros (blen (s_buf st) + rd_window e - blen (s_buf st ++ rd_data e))));
         try (inversion Hrun; subst; auto; fail);
         eapply IH; eauto ]).
    + inversion Hrun; subst. congruence.
    + inversion Hrun; subst. auto.
Qed.

Lemma C06_async_same_without_timeout_proof : C06_async_same_without_timeout_stmt.
Proof.
  unfold C06_async_same_without_timeout_stmt. intros script. unfold async_sniff, sniff_tcp.
  destruct (async_sniff_loop script new_stream) as [[[r st] pend] rest] eqn:Hrun.
  intros Hr. exact (async_loop_same _ _ _ _ _ _ Hrun Hr).
Qed.

Definition async_witness : list rd :=
  [ {| rd_window := 4096; rd_data := [22; 3; 1; 0; 100; 1; 0]; rd_status := RsOk |};
    {| rd_window := 4089; rd_data := []; rd_status := RsTimeout |};
    {| rd_window := 32768; rd_data := [1; 2]; rd_status := RsOk |};
    {| rd_window := 32768; rd_data := [3]; rd_status := RsOk |};
    {| rd_window := 32768; rd_data := []; rd_status := RsEof |} ].

Lemma C06_async_replay_exact_refuted_proof : C06_async_replay_exact_refuted_stmt.
Proof.
  exists async_witness, 1, 32768, DrainFirst. vm_compute. split; discriminate.
Qed.

Lemma C06_async_usable_after_timeout_refuted_proof : C06_async_usable_after_timeout_refuted_stmt.
Proof.
  exists async_witness, 32768, DrainFirst. vm_compute. repeat split; try discriminate.
Qed.

Lemma async_loop_pending :
  forall script st r st' i rest,
    async_sniff_loop script st = (r, st', Some i, rest) -> i = blen (s_buf st').
Proof.
  induction script as [|e script IH]; intros st r st' i rest Hrun.
  - cbn in Hrun. inversion Hrun; subst. reflexivity.
  - cbn [async_sniff_loop] in Hrun.
    destruct (rd_status e).
    1,2:
      (destruct ((length (s_buf st ++ rd_data e) =? 0)%nat);
       [ inversion Hrun
       | destruct (sniff_group_tcp (s_buf st ++ rd_data e) (zeros (blen (s_buf st) + rd_window e - blen (s_buf st ++ rd_data e))));
         try (inversion Hrun; fail);
         eapply IH; eauto ]).
    + inversion Hrun; subst. reflexivity.
    + inversion Hrun.
Qed.

Lemma firstn_blen : forall l : bytes, firstn (N.to_nat (blen l)) l = l.
Proof. intros l. unfold blen. rewrite Nat2N.id. apply firstn_all. Qed.

Lemma C06_async_replay_exact_partial_proof : C06_async_replay_exact_partial_stmt.
Proof.
  unfold C06_async_replay_exact_partial_stmt. intros script drain p. unfold async_sniff.
  destruct (async_sniff_loop script new_stream) as [[[r st] pend] rest] eqn:Hrun.
  intros Hd Hfirst.
  destruct pend as [i|].
  - apply async_loop_pending in Hrun. subst i.
    unfold async_relay. destruct rest as [|e rest'].
    + cbn [take_first]. rewrite firstn_blen.
      destruct drain; [congruence|]. unfold relay_prefix_copy. cbn. rewrite !app_nil_r. reflexivity.
    + cbn [take_first]. rewrite firstn_blen.
      destruct drain; [congruence|]. unfold relay_prefix_copy. cbn [s_buf relay_conn].
      rewrite Hfirst. destruct (relay_conn rest') as [b s]. cbn. rewrite app_assoc. reflexivity.
  - unfold async_relay. destruct drain; [congruence|].
    unfold relay_prefix_copy. destruct (relay_conn rest). reflexivity.
Qed.
