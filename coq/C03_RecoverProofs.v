(* C03 — dae's recovery of the per-flow record is repeatable. *)
From Coq Require Import List NArith ZArith Bool Lia.
From Dae Require Import C03_Spec C03_Model.
From Dae.gen Require Import C03_Consts.
Import ListNotations.
Open Scope N_scope.

Lemma go_recover_fst : forall st k now, fst (go_recover st k now) = go_retrieve st k now.
Proof.
  intros st k now. unfold go_recover, go_retrieve, go_retrieve_rec, frec_of_rr.
  destruct (tab_get (ks_conn st) k) as [s|]; [destruct (cs_has s =? 0)|]; try reflexivity;
    destruct (tab_get (ks_hand st) k) as [h|]; try reflexivity;
    destruct (routing_handoff_expired now (he_last h)); reflexivity.
Qed.

Lemma go_recover_some_unchanged : forall st k now r st', go_recover st k now = (Some r, st') -> st' = st.
Proof.
  intros st k now r st'. unfold go_recover.
  destruct (tab_get (ks_conn st) k) as [s|]; [destruct (cs_has s =? 0)|];
    try (intro H; inversion H; reflexivity);
    destruct (tab_get (ks_hand st) k) as [h|]; try discriminate;
    destruct (routing_handoff_expired now (he_last h)); try discriminate; intro H; inversion H; reflexivity.
Qed.

Lemma recover_repeatable_proof : forall st k now r n,
  fst (go_recover st k now) = Some r ->
  recover_many go_recover st (repeat k n) now = (repeat (Some r) n, st).
Proof.
  intros st k now r n H. induction n as [| n IH]; cbn [repeat recover_many]; [reflexivity|].
  destruct (go_recover st k now) as [x st1] eqn:E. cbn [fst] in H. subst x.
  rewrite (go_recover_some_unchanged _ _ _ _ _ E) in *. rewrite IH. reflexivity.
Qed.

(* after a redirect whose record the control plane can recover, any number of recoveries of that tuple - the
   packet's own and those of further in-flight packets of the flow - return that record and leave the maps alone *)
Lemma redirect_recover_repeatable_proof : forall h k now p l r n,
  observe h k now = ToDae p l r ->
  recover_many go_recover (h_st h) (repeat k n) now = (repeat (Some r) n, h_st h).
Proof.
  intros h k now p l r n H. apply recover_repeatable_proof. rewrite go_recover_fst.
  unfold observe in H. destruct (h_act h =? TC_ACT_SHOT); [discriminate|].
  destruct (h_act h =? TC_ACT_REDIRECT); [| discriminate].
  destruct (h_cb h) as [[a b]|]; [| discriminate].
  destruct (go_retrieve (h_st h) k now) as [r0|]; [| discriminate]. inversion H. reflexivity.
Qed.

(* a recovery that consumed the handoff record would lose it for the second in-flight datagram *)
Lemma consuming_not_repeatable_proof :
  exists st k now r,
    fst (go_recover_consuming st k now) = Some r /\
    fst (recover_many go_recover_consuming st [k; k] now) = [Some r; None].
Proof.
  exists (mk_ks [] [(mk_fkey 1 2 40000 53 17, mk_he 1000 (mk_rr 66 0 7 2 9 4321 10))]),
         (mk_fkey 1 2 40000 53 17), 1000, (mk_frec (mk_dec 2 66 0) 10 7 9 4321).
  vm_compute. split; reflexivity.
Qed.

Lemma consuming_recover_refuted_proof :
  ~ (forall st k now r, fst (go_recover_consuming st k now) = Some r ->
                        fst (recover_many go_recover_consuming st [k; k] now) = [Some r; Some r]).
Proof.
  intro H. destruct consuming_not_repeatable_proof as (st & k & now & r & H1 & H2).
  specialize (H st k now r H1). rewrite H2 in H. discriminate H.
Qed.
