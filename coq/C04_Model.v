(* C04 — code-shaped executable model of component/routing/optimizer.go (no proofs here).
     AliasOptimizer, DatReaderOptimizer (+ loadGeoSite / loadGeoIp), MergeAndSortRulesOptimizer,
     DeduplicateParamsOptimizer, Param.String / Function.String as used by merge and dedup,
     and the three pipelines (control_plane.go; component/dns/dns.go = component/daedns/router.go).
   Loops -> structural recursion, sort.SliceStable -> stable insertion sort with the same comparator,
   the map[string]struct{} of deduplicateParams -> list of strings, goroutines of DatReaderOptimizer ->
   a per-rule result that is combined (any worker panic kills the process, else any error is returned). *)
From Coq Require Import List String Ascii Bool NArith.
From Dae Require Import C04_Spec.
From Dae.gen Require Import C04_Extracted.
Import ListNotations.
Open Scope string_scope.

(* ---------- small string library (Go: strings.Contains/HasSuffix/SplitN/Cut/ToLower/EqualFold on ASCII) ---------- *)
Fixpoint contains_char (c : ascii) (s : string) : bool :=
  match s with
  | EmptyString => false
  | String a r => Ascii.eqb a c || contains_char c r
  end.

(* SplitN(s, sep, 2) / Cut: text before the first c, and the rest after it if c occurs *)
Fixpoint cut_char (c : ascii) (s : string) : string * option string :=
  match s with
  | EmptyString => (EmptyString, None)
  | String a r =>
      if Ascii.eqb a c then (EmptyString, Some r)
      else let '(b, rest) := cut_char c r in (String a b, rest)
  end.

Definition has_suffix (suf s : string) : bool :=
  let n := String.length s in
  let m := String.length suf in
  Nat.leb m n && (substring (n - m) m s =? suf).

Definition lower_ascii (a : ascii) : ascii :=
  let n := N_of_ascii a in
  if (N.leb 65 n && N.leb n 90)%N then ascii_of_N (n + 32) else a.
Fixpoint to_lower (s : string) : string :=
  match s with EmptyString => EmptyString | String a r => String (lower_ascii a) (to_lower r) end.
Definition equal_fold (a b : string) : bool := to_lower a =? to_lower b.

Fixpoint join (sep : string) (l : list string) : string :=
  match l with
  | [] => ""
  | [x] => x
  | x :: t => x ++ sep ++ join sep t
  end.

(* ---------- Param.String(compact=true, quoteVal=false), Function.String(true,false,omitEmpty=true) ---------- *)
Definition param_print (p : param) : string :=
  if p_key p =? "" then p_val p else p_key p ++ param_print_separator_src ++ p_val p.

Definition out_print (o : func) : string :=
  (if f_not o then "!" else "") ++ f_name o ++
  match f_params o with
  | [] => ""
  | ps => "(" ++ join "," (map param_print (firstn function_print_limit_src ps)
                          ++ (if Nat.ltb function_print_limit_src (List.length ps) then [function_print_ellipsis_src] else [])) ++ ")"
  end.

(* ---------- AliasOptimizer (the two switch tables are extracted from the source: gen/C04_Extracted.v) ---------- *)
Fixpoint assoc {A} (k : string) (l : list (string * A)) : option A :=
  match l with
  | [] => None
  | (k', v) :: t => if k' =? k then Some v else assoc k t
  end.

Definition alias_param (fname : string) (p : param) : param :=
  if fname =? alias_key_function_src then
    {| p_key := match assoc (p_key p) alias_domain_keys_src with Some k => k | None => p_key p end;
       p_val := p_val p |}
  else p.

Definition alias_func (f : func) : func :=
  let name := match assoc (f_name f) alias_fnames_src with Some n => n | None => f_name f end in
  {| f_name := name; f_not := f_not f; f_params := map (alias_param name) (f_params f) |}.

Definition alias_rule (r : rule) : rule := {| r_funcs := map alias_func (r_funcs r); r_out := r_out r |}.
Definition alias_opt (rules : list rule) : list rule := map alias_rule rules.

(* ---------- geodata files as data (written by the harness as protobuf, read by pkg/geodata) ---------- *)
Record gs_domain := { d_type : N; d_value : string; d_attrs : list string }.
Record gs_entry := { gs_code : string; gs_domains : list gs_domain }.
(* the textual form of a CIDR (netip.PrefixFrom(ip, bits).String()) is supplied with the data *)
Record gi_entry := { gi_code : string; gi_inverse : bool; gi_cidrs : list string }.
Record geodb := { db_sites : list (string * list gs_entry); db_ips : list (string * list gi_entry) }.

Definition dat_filename (filename : string) : string :=
  if has_suffix ".dat" filename then filename else filename ++ ".dat".

Definition domain_param (d : gs_domain) : list param :=
  match d_type d with
  | 3%N => [{| p_key := "full"; p_val := d_value d |}]
  | 2%N => [{| p_key := "suffix"; p_val := d_value d |}]
  | 0%N => [{| p_key := "keyword"; p_val := d_value d |}]
  | 1%N => [{| p_key := "regex"; p_val := d_value d |}]
  | _ => []
  end.

(* loadGeoSite: None = error *)
Definition load_geosite (db : geodb) (filename code : string) : option (list param) :=
  match assoc (dat_filename filename) (db_sites db) with
  | None => None
  | Some entries =>
      let '(code', attr_o) := cut_char "@" code in
      let attr := match attr_o with Some a => a | None => "" end in
      match find (fun e => equal_fold (gs_code e) code') entries with
      | None => None
      | Some e =>
          Some (flat_map (fun d =>
                            if (attr =? "") || existsb (fun a => equal_fold a attr) (d_attrs d)
                            then domain_param d else [])
                         (gs_domains e))
      end
  end.

Definition load_geoip (db : geodb) (filename code : string) : option (list param) :=
  match assoc (dat_filename filename) (db_ips db) with
  | None => None
  | Some entries =>
      match find (fun e => equal_fold (gi_code e) code) entries with
      | None => None
      | Some e => if gi_inverse e then None
                  else Some (map (fun c => {| p_key := ""; p_val := c |}) (gi_cidrs e))
      end
  end.

(* ---------- DatReaderOptimizer ---------- *)
Inductive xres (A : Type) := XOk (a : A) | XErr | XCrash.
Arguments XOk {A} a. Arguments XErr {A}. Arguments XCrash {A}.

Definition of_load {A} (o : option A) : xres A := match o with Some a => XOk a | None => XErr end.

Definition expand_param (db : geodb) (fname : string) (p : param) : xres (list param) :=
  if p_key p =? "geosite" then of_load (load_geosite db "geosite" (p_val p))
  else if p_key p =? "geoip" then of_load (load_geoip db "geoip" (p_val p))
  else if p_key p =? "ext" then
    match cut_char ":" (p_val p) with
    | (_, None) => XErr      (* since /repo 2540ec6: len(fields) != 2 is a load error (it was a panic in the goroutine) *)
    | (file, Some code) =>
        if (fname =? "domain") || (fname =? "qname") then of_load (load_geosite db file code)
        else if fname =? "ip" then of_load (load_geoip db file code)
        else XErr
    end
  else XOk [p].

Fixpoint dat_params (db : geodb) (fname : string) (ps : list param) (acc : list param) : xres (list param) :=
  match ps with
  | [] => XOk acc
  | p :: t => match expand_param db fname p with
              | XOk l => dat_params db fname t (acc ++ l)
              | XErr => XErr
              | XCrash => XCrash
              end
  end.

Fixpoint dat_funcs (db : geodb) (fs : list func) : xres (list func) :=
  match fs with
  | [] => XOk []
  | f :: t => match dat_params db (f_name f) (f_params f) [] with
              | XOk ps => match dat_funcs db t with
                          | XOk t' => XOk ({| f_name := f_name f; f_not := f_not f; f_params := ps |} :: t')
                          | XErr => XErr
                          | XCrash => XCrash
                          end
              | XErr => XErr       (* the worker returns at the first load error of its rule *)
              | XCrash => XCrash
              end
  end.

Definition dat_rule (db : geodb) (r : rule) : xres rule :=
  match dat_funcs db (r_funcs r) with
  | XOk fs => XOk {| r_funcs := fs; r_out := r_out r |}
  | XErr => XErr
  | XCrash => XCrash
  end.

(* every rule has its own goroutine: a panic in any of them would end the process (XCrash: no producer is left
   in the model since 2540ec6; the check still runs such inputs in child processes); otherwise any error wins *)
Fixpoint dat_combine (l : list (xres rule)) : xres (list rule) :=
  match l with
  | [] => XOk []
  | x :: t =>
      match x, dat_combine t with
      | XCrash, _ => XCrash
      | _, XCrash => XCrash
      | XErr, _ => XErr
      | _, XErr => XErr
      | XOk r, XOk rs => XOk (r :: rs)
      end
  end.

Definition dat_opt (db : geodb) (rules : list rule) : xres (list rule) :=
  dat_combine (map (dat_rule db) rules).

(* ---------- MergeAndSortRulesOptimizer ---------- *)
(* sort.SliceStable(less): x (earlier in the slice) is placed before the first y that is not less than x *)
Fixpoint insert_by {A} (less : A -> A -> bool) (x : A) (l : list A) : list A :=
  match l with
  | [] => [x]
  | y :: t => if less y x then y :: insert_by less x t else x :: y :: t
  end.
Definition stable_sort {A} (less : A -> A -> bool) (l : list A) : list A :=
  fold_right (insert_by less) [] l.

Definition less_fname (a b : func) : bool := String.ltb (f_name a) (f_name b).

Definition less_ip (a b : param) : bool :=
  let va := contains_char ":" (p_val a) in   (* true: "6" *)
  let vb := contains_char ":" (p_val b) in
  if Bool.eqb va vb then String.ltb (p_val a) (p_val b) else negb va && vb.

Definition less_kv (a b : param) : bool :=
  if p_key a =? p_key b then String.ltb (p_val a) (p_val b) else String.ltb (p_key a) (p_key b).

Definition sort_funcs (r : rule) : rule :=
  {| r_funcs := stable_sort less_fname (r_funcs r); r_out := r_out r |}.

Definition sort_params_func (f : func) : func :=
  {| f_name := f_name f; f_not := f_not f;
     f_params := if existsb (String.eqb (f_name f)) ip_sorted_functions_src
                 then stable_sort less_ip (f_params f) else stable_sort less_kv (f_params f) |}.
Definition sort_params (r : rule) : rule :=
  {| r_funcs := map sort_params_func (r_funcs r); r_out := r_out r |}.

(* since /repo ec2de34 only positive single-condition neighbours merge *)
Definition mergeable (m r : rule) : bool :=
  match r_funcs m, r_funcs r with
  | [fm], [fr] => (f_name fm =? f_name fr) && (negb (f_not fm) && negb (f_not fr))
                  && (out_print (r_out r) =? out_print (r_out m))
  | _, _ => false
  end.

Definition merge_into (m r : rule) : rule :=
  match r_funcs m, r_funcs r with
  | [fm], [fr] => {| r_funcs := [{| f_name := f_name fm; f_not := f_not fm; f_params := f_params fm ++ f_params fr |}];
                     r_out := r_out m |}
  | _, _ => m
  end.

Fixpoint merge_loop (m : rule) (rs : list rule) : list rule :=
  match rs with
  | [] => [m]
  | r :: t => if mergeable m r then merge_loop (merge_into m r) t else m :: merge_loop r t
  end.

Definition merge_rules (rules : list rule) : list rule :=
  match rules with [] => [] | m :: t => merge_loop m t end.

Definition merge_sort_opt (rules : list rule) : list rule :=
  map sort_params (merge_rules (map sort_funcs rules)).

(* ---------- DeduplicateParamsOptimizer ---------- *)
Fixpoint dedup_aux (seen : list string) (l : list param) : list param :=
  match l with
  | [] => []
  | p :: t => let s := param_print p in
              if existsb (String.eqb s) seen then dedup_aux seen t else p :: dedup_aux (s :: seen) t
  end.
Definition dedup_func (f : func) : func :=
  {| f_name := f_name f; f_not := f_not f; f_params := dedup_aux [] (f_params f) |}.
Definition dedup_rule (r : rule) : rule := {| r_funcs := map dedup_func (r_funcs r); r_out := r_out r |}.
Definition dedup_opt (rules : list rule) : list rule := map dedup_rule rules.

(* ---------- the pipelines, and every intermediate stage (the harness observes each) ----------
   The composition of each pipeline is read from the call sites (gen/C04_Extracted.v):
   control/control_plane.go, component/dns/dns.go (request, response), component/daedns/router.go. *)
Definition xmap {A B} (f : A -> B) (x : xres A) : xres B :=
  match x with XOk a => XOk (f a) | XErr => XErr | XCrash => XCrash end.
Definition xbind {A B} (x : xres A) (f : A -> xres B) : xres B :=
  match x with XOk a => f a | XErr => XErr | XCrash => XCrash end.

Definition run_optimizer (db : geodb) (name : string) (rules : list rule) : xres (list rule) :=
  if name =? "AliasOptimizer" then XOk (alias_opt rules)
  else if name =? "DatReaderOptimizer" then dat_opt db rules
  else if name =? "MergeAndSortRulesOptimizer" then XOk (merge_sort_opt rules)
  else if name =? "DeduplicateParamsOptimizer" then XOk (dedup_opt rules)
  else XErr.

(* ApplyRulesOptimizers: results after 1, 2, ... optimizers *)
Fixpoint run_stages (db : geodb) (names : list string) (cur : xres (list rule)) : list (xres (list rule)) :=
  match names with
  | [] => []
  | n :: t => let nxt := xbind cur (run_optimizer db n) in nxt :: run_stages db t nxt
  end.
Definition run_pipeline (db : geodb) (names : list string) (rules : list rule) : xres (list rule) :=
  fold_left (fun cur n => xbind cur (run_optimizer db n)) names (XOk rules).

Definition traffic_stages (db : geodb) (rules : list rule) := run_stages db traffic_pipeline_src (XOk rules).
Definition traffic_pipeline (db : geodb) (rules : list rule) := run_pipeline db traffic_pipeline_src rules.
Definition dns_stages (db : geodb) (rules : list rule) := run_stages db dns_request_pipeline_src (XOk rules).
Definition dns_pipeline (db : geodb) (rules : list rule) := run_pipeline db dns_request_pipeline_src rules.
Definition dns_response_pipeline (db : geodb) (rules : list rule) := run_pipeline db dns_response_pipeline_src rules.
Definition daedns_pipeline (db : geodb) (rules : list rule) := run_pipeline db daedns_request_pipeline_src rules.

(* ---------- lowering of the (optimised) AST to match sets, and the matcher scan ----------
   component/routing/matcher_builder.go (RulesBuilder.Apply, groupParamValuesByKey) and the scan loop shared by
   control/routing_matcher_userspace.go, component/dns/request_routing.go, response_routing.go.
   One match set per (condition, key) group; a parser that splits a group further (port, qtype, pname: one set
   per value chained by OR) or folds it (ip: one LPM set) is not distinguished here. *)
Inductive ms_out := MOr | MAnd | MFinal (o : func).
Record matchset := { m_fname : string; m_key : string; m_vals : list string; m_not : bool; m_out : ms_out }.

Fixpoint group_add (k v : string) (gs : list (string * list string)) : list (string * list string) :=
  match gs with
  | [] => [(k, [v])]
  | (k', vs) :: t => if k' =? k then (k', (vs ++ [v])%list) :: t else (k', vs) :: group_add k v t
  end.
Definition group_params (ps : list param) : list (string * list string) :=
  fold_left (fun gs p => group_add (p_key p) (p_val p) gs) ps [].

Fixpoint lower_groups (f : func) (last_func : bool) (out : func) (gs : list (string * list string)) : list matchset :=
  match gs with
  | [] => []
  | (k, vs) :: t =>
      let o := match t with [] => if last_func then MFinal out else MAnd | _ => MOr end in
      {| m_fname := f_name f; m_key := k; m_vals := vs; m_not := f_not f; m_out := o |} :: lower_groups f last_func out t
  end.
(* RulesBuilder.Apply: since /repo dd2eef7 a condition whose value list is empty (len(keyOrder) == 0) is a build
   error ("condition ... has no values"); None = that error.  A rule without any condition yields no match set
   (the grammar never produces one). *)
Fixpoint lower_funcs (fs : list func) (out : func) : option (list matchset) :=
  match fs with
  | [] => Some []
  | f :: t =>
      match group_params (f_params f) with
      | [] => None
      | gs => match lower_funcs t out with
              | Some l => Some (lower_groups f (match t with [] => true | _ => false end) out gs ++ l)%list
              | None => None
              end
      end
  end.
Fixpoint lower (rules : list rule) : option (list matchset) :=
  match rules with
  | [] => Some []
  | r :: t => match lower_funcs (r_funcs r) (r_out r) with
              | None => None
              | Some a => match lower t with Some b => Some (a ++ b)%list | None => None end
              end
  end.

(* what the compiled program does with a packet *)
Inductive compiled (D : Type) := CBuildError | CNoHit | CDecision (d : option D * bool).
Arguments CBuildError {D}. Arguments CNoHit {D}. Arguments CDecision {D} d.

Section Scan.
  Variable packet : Type.
  Variable D : Type.
  Variable atom_sem : string -> string -> string -> packet -> bool.
  Variable out_sem : func -> option D.

  Definition ms_eval (pk : packet) (m : matchset) : bool :=
    existsb (fun v => atom_sem (m_fname m) (m_key m) v pk) (m_vals m).

  (* goodSubrule / badRule / must are the three loop variables of Match.
     Result: None = "no match set hit" (error); Some (None, must) = the fallback match set hit. *)
  Fixpoint scan (ms : list matchset) (pk : packet) (good bad must : bool) : option (option D * bool) :=
    match ms with
    | [] => if bad then None else Some (None, must)   (* the fallback match set comes last; it is a rule tail too *)
    | m :: t =>
        let good := if bad || good then good else ms_eval pk m in
        match m_out m with
        | MOr => scan t pk good bad must
        | MAnd => scan t pk false (bad || Bool.eqb good (m_not m)) must
        | MFinal o =>
            if negb (bad || Bool.eqb good (m_not m)) then
              match out_sem o with
              | Some d => Some (Some d, must)
              | None => scan t pk false false true
              end
            else scan t pk false false must
        end
    end.

  Definition compiled_decision (rules : list rule) (pk : packet) : compiled D :=
    match lower rules with
    | None => CBuildError
    | Some ms => match scan ms pk false false false with
                 | None => CNoHit
                 | Some d => CDecision d
                 end
    end.
End Scan.
