(* C06 — proofs about the control-side UDP sniff session model (C06_Session.v). *)
From Coq Require Import List NArith Bool Arith Lia ZifyBool ZifyN ZifyNat.
From Dae.gen Require Import C06_Extracted.
From Dae Require Import C06_Spec C06_Session C06_Statements.
Import ListNotations.
Open Scope N_scope.

(* ------------------------------------------------------------------ *)
(* 1. the janitor can drop withheld datagrams                          *)

Lemma C06_udp_session_never_withholds_refuted_proof : C06_udp_session_never_withholds_refuted_stmt.
Proof.
  exists [EvPacket 0 [1] SrNeedMore false; EvPacket 6000 [2] (SrFound [97]) false].
  vm_compute. split; [reflexivity|]. split; intro H; discriminate H.
Qed.

(* ------------------------------------------------------------------ *)
(* 2. replay is exact when nothing was dropped                         *)

Lemma supp_soft0 : suppression_ttl failed_soft_ms 0 = 15000.
Proof. vm_compute. reflexivity. Qed.
Lemma supp_decrypt0 : suppression_ttl failed_decrypt_ms 0 = 30000.
Proof. vm_compute. reflexivity. Qed.

Definition SInv (t : N) (fe : option fentry) (s : sess) : Prop :=
  (ss_fail s = 1 -> ss_held s = [])
  /\ (ss_held s <> [] -> ss_fail s < 2 -> ss_bypass_until s <= t)
  /\ (2 <= ss_fail s -> exists e, fe = Some e /\ ss_expire s + 250 <= fe_expire e).

Definition Inv (t : N) (st : cstate) : Prop :=
  match cs_sess st with Some s => SInv t (cs_failed st) s | None => True end
  /\ (forall e, cs_failed st = Some e -> t < fe_expire e -> pending st = []).

Lemma pending_some : forall s fe,
  pending {| cs_sess := Some s; cs_failed := fe |} = if ss_fail s <? 2 then ss_held s else [].
Proof. reflexivity. Qed.
Lemma pending_none : forall fe, pending {| cs_sess := None; cs_failed := fe |} = [].
Proof. reflexivity. Qed.

(* the janitor: either keeps the session untouched, or removes it; if it dropped nothing, nothing
   was pending in the removed session *)
Lemma janitor_cases : forall os now ran s0 d,
  janitor os now ran = (s0, d) ->
  (s0 = os /\ d = [] /\
   (forall x, os = Some x -> ss_expire x + 250 <=? now = false))
  \/ (exists x, os = Some x /\ s0 = None /\ d = (if ss_fail x <? 2 then ss_held x else [])).
Proof.
  intros os now ran s0 d H. unfold janitor in H. destruct os as [x|].
  - unfold sess_janitor_ms in H.
    destruct ((ss_expire x + 250 <=? now) || (ss_expire x <=? now) && ran) eqn:E.
    + right. exists x. inversion H; subst. unfold undecided, sess_decrypt_fail_threshold. auto.
    + left. inversion H; subst. split; [reflexivity|]. split; [reflexivity|].
      intros y Hy. inversion Hy; subst. apply orb_false_iff in E. tauto.
  - inversion H; subst. left. split; [reflexivity|]. split; [reflexivity|]. intros x Hx. discriminate Hx.
Qed.

Lemma is_failed_true : forall fe now fe',
  is_failed fe now = (true, fe') -> fe' = fe /\ exists e, fe = Some e /\ now < fe_expire e.
Proof.
  intros fe now fe' H. unfold is_failed in H. destruct fe as [e|]; [|discriminate H].
  destruct (now <? fe_expire e) eqn:E; [|discriminate H].
  inversion H; subst. split; [reflexivity|]. exists e. split; [reflexivity|lia].
Qed.

Lemma is_failed_false : forall fe now fe',
  is_failed fe now = (false, fe') -> fe' = None /\ (forall e, fe = Some e -> fe_expire e <= now).
Proof.
  intros fe now fe' H. unfold is_failed in H. destruct fe as [e|].
  - destruct (now <? fe_expire e) eqn:E; [discriminate H|].
    inversion H; subst. split; [reflexivity|]. intros e0 He0. inversion He0; subst. lia.
  - inversion H; subst. split; [reflexivity|]. intros e He. discriminate He.
Qed.

(* the not-failed part of `step`, on a session known to be undecided *)
Definition live_step (sess0 : option sess) (now : N) (data : bytes) (r : sres) : sout * cstate :=
  let s := match sess0 with Some s => s | None => new_sess end in
  let exp := now + sess_ttl_ms in
  let s := {| ss_held := ss_held s; ss_streak := ss_streak s; ss_bypass_until := ss_bypass_until s;
              ss_fail := ss_fail s; ss_expire := exp |} in
  if now <? ss_bypass_until s then
    (OForward [data] [], {| cs_sess := Some s; cs_failed := mark_failed None failed_soft_ms now |})
  else
    let held' := ss_held s ++ [data] in
    let keep h f := {| ss_held := h; ss_streak := ss_streak s; ss_bypass_until := ss_bypass_until s;
                       ss_fail := f; ss_expire := exp |} in
    match r with
    | SrNotApp =>
        let f := ss_fail s + 1 in
        if sess_decrypt_fail_threshold <=? f
        then (OForward [data] [],
              {| cs_sess := Some (keep held' f); cs_failed := mark_failed None failed_decrypt_ms now |})
        else let '(o, s') := verdict s held' f now [] exp in
             (o, {| cs_sess := Some s'; cs_failed := None |})
    | SrNeedMore => (OHeld, {| cs_sess := Some (keep held' 0); cs_failed := None |})
    | SrOther => let '(o, s') := verdict s held' 0 now [] exp in
                 (o, {| cs_sess := Some s'; cs_failed := None |})
    | SrFound d => let '(o, s') := verdict s held' (ss_fail s) now d exp in
                   (o, {| cs_sess := Some s'; cs_failed := None |})
    end.

Lemma step_unfold : forall st now data r ran,
  step st (EvPacket now data r ran) =
  let '(sess0, dropped) := janitor (cs_sess st) now ran in
  let '(failed, fe) := is_failed (cs_failed st) now in
  if failed then (OForward [data] [], dropped, {| cs_sess := sess0; cs_failed := fe |})
  else let '(o, st') := live_step sess0 now data r in (o, dropped, st').
Proof.
  intros st now data r ran. unfold step.
  destruct (janitor (cs_sess st) now ran) as [sess0 dropped].
  destruct (is_failed (cs_failed st) now) as [failed fe] eqn:F.
  destruct failed; [reflexivity|].
  apply is_failed_false in F. destruct F as [F _]. subst fe.
  unfold live_step.
  set (s := match sess0 with Some s => s | None => new_sess end).
  cbn [ss_held ss_streak ss_bypass_until ss_fail ss_expire].
  destruct (now <? ss_bypass_until s); [reflexivity|].
  destruct r.
  - destruct (verdict _ _ _ _ _ _) as [o s']. reflexivity.
  - reflexivity.
  - destruct (sess_decrypt_fail_threshold <=? ss_fail s + 1); [reflexivity|].
    destruct (verdict _ _ _ _ _ _) as [o s']. reflexivity.
  - destruct (verdict _ _ _ _ _ _) as [o s']. reflexivity.
Qed.

(* the session handed to live_step: undecided, J1 and J2 hold at `now` *)
Definition LiveOk (now : N) (os : option sess) : Prop :=
  match os with
  | Some s => ss_fail s < 2 /\ (ss_fail s = 1 -> ss_held s = [])
              /\ (ss_held s <> [] -> ss_bypass_until s <= now)
  | None => True
  end.

Definition opending (os : option sess) : list bytes :=
  match os with Some s => if ss_fail s <? 2 then ss_held s else [] | None => [] end.

Lemma live_step_ok : forall os now data r o st',
  LiveOk now os ->
  live_step os now data r = (o, st') ->
  Inv now st' /\ out_payloads o ++ pending st' = opending os ++ [data].
Proof.
  intros os now data r o st' HL H.
  assert (HS : exists s, (match os with Some s => s | None => new_sess end) = s
                 /\ ss_fail s < 2 /\ (ss_fail s = 1 -> ss_held s = [])
                 /\ (ss_held s <> [] -> ss_bypass_until s <= now)
                 /\ opending os = (if ss_fail s <? 2 then ss_held s else [])).
  { destruct os as [s|]; cbn [LiveOk] in HL.
    - exists s. cbn [opending]. tauto.
    - exists new_sess. unfold new_sess. cbn [opending ss_fail ss_held ss_bypass_until].
      split; [reflexivity|]. split; [lia|]. split; [intro; lia|].
      split; [intro K; contradiction K; reflexivity|reflexivity]. }
  destruct HS as [s [Es [Hf [H1 [H2 Hp]]]]].
  unfold live_step in H. rewrite Es in H. rewrite Hp. clear Es Hp HL os.
  destruct s as [held streak byp fail expi].
  cbn [ss_held ss_streak ss_bypass_until ss_fail ss_expire] in *.
  assert (Hfl : (fail <? 2) = true) by lia. rewrite Hfl.
  unfold sess_ttl_ms, sess_decrypt_fail_threshold in H.
  destruct (now <? byp) eqn:Eb.
  - (* bypass window *)
    inversion H; subst; clear H.
    assert (held = []).
    { destruct held as [|a l]; [reflexivity|]. assert (byp <= now) by (apply H2; discriminate). lia. }
    subst held. unfold mark_failed. rewrite supp_soft0.
    split.
    + unfold Inv, SInv. cbn [cs_sess cs_failed ss_held ss_fail ss_bypass_until ss_expire].
      split.
      * split; [auto|]. split; [intro K; contradiction K; reflexivity|]. intro; lia.
      * intros e _ _. rewrite pending_some. cbn [ss_fail ss_held]. rewrite Hfl. reflexivity.
    + rewrite pending_some. cbn [ss_fail ss_held out_payloads]. rewrite Hfl. reflexivity.
  - destruct r as [dm| | |].
    + (* SrFound *)
      unfold verdict in H. cbn [ss_streak ss_bypass_until] in H.
      destruct (if (length dm =? 0)%nat
                then if sess_nosni_threshold <=? streak + 1 then (0, now + sess_nosni_bypass_ms) else (streak + 1, byp)
                else (0, 0)) as [st1 by1].
      inversion H; subst; clear H.
      split.
      * unfold Inv, SInv. cbn [cs_sess cs_failed ss_held ss_fail ss_bypass_until ss_expire].
        split.
        -- split; [auto|]. split; [intro K; contradiction K; reflexivity|]. intro; lia.
        -- intros e He. discriminate He.
      * rewrite pending_some. cbn [ss_fail ss_held out_payloads]. rewrite Hfl. rewrite app_nil_r. reflexivity.
    + (* SrNeedMore *)
      inversion H; subst; clear H.
      split.
      * unfold Inv, SInv. cbn [cs_sess cs_failed ss_held ss_fail ss_bypass_until ss_expire].
        split.
        -- split; [intro; lia|]. split; [intros; lia|]. intro; lia.
        -- intros e He. discriminate He.
      * rewrite pending_some. cbn [ss_fail ss_held out_payloads]. reflexivity.
    + (* SrNotApp *)
      destruct (2 <=? fail + 1) eqn:Et.
      * inversion H; subst; clear H.
        assert (fail = 1) by lia. subst fail. rewrite (H1 eq_refl).
        unfold mark_failed. rewrite supp_decrypt0.
        split.
        -- unfold Inv, SInv. cbn [cs_sess cs_failed ss_held ss_fail ss_bypass_until ss_expire].
           split.
           ++ split; [intro; lia|]. split; [intros; lia|].
              intros _. eexists. split; [reflexivity|]. cbn [fe_expire]. lia.
           ++ intros e _ _. rewrite pending_some. cbn [ss_fail ss_held]. reflexivity.
        -- rewrite pending_some. cbn [ss_fail ss_held out_payloads]. reflexivity.
      * unfold verdict in H. cbn [ss_streak ss_bypass_until length Nat.eqb] in H.
        destruct (if sess_nosni_threshold <=? streak + 1 then (0, now + sess_nosni_bypass_ms) else (streak + 1, byp)) as [st1 by1].
        inversion H; subst; clear H.
        split.
        -- unfold Inv, SInv. cbn [cs_sess cs_failed ss_held ss_fail ss_bypass_until ss_expire].
           split.
           ++ split; [auto|]. split; [intro K; contradiction K; reflexivity|]. intro; lia.
           ++ intros e He. discriminate He.
        -- rewrite pending_some. cbn [ss_fail ss_held out_payloads].
           destruct (fail + 1 <? 2); rewrite app_nil_r; reflexivity.
    + (* SrOther *)
      unfold verdict in H. cbn [ss_streak ss_bypass_until length Nat.eqb] in H.
      destruct (if sess_nosni_threshold <=? streak + 1 then (0, now + sess_nosni_bypass_ms) else (streak + 1, byp)) as [st1 by1].
      inversion H; subst; clear H.
      split.
      * unfold Inv, SInv. cbn [cs_sess cs_failed ss_held ss_fail ss_bypass_until ss_expire].
        split.
        -- split; [auto|]. split; [intro K; contradiction K; reflexivity|]. intro; lia.
        -- intros e He. discriminate He.
      * rewrite pending_some. cbn [ss_fail ss_held out_payloads]. rewrite app_nil_r. reflexivity.
Qed.

Lemma pending_opending : forall st, pending st = opending (cs_sess st).
Proof. intros [os fe]. reflexivity. Qed.

Lemma step_inv : forall t st now data r ran o d st',
  Inv t st -> t <= now ->
  step st (EvPacket now data r ran) = (o, d, st') ->
  Inv now st' /\ (d = [] -> out_payloads o ++ pending st' = pending st ++ [data]).
Proof.
  intros t st now data r ran o d st' HI Ht H.
  rewrite step_unfold in H.
  destruct (janitor (cs_sess st) now ran) as [sess0 dropped] eqn:J.
  destruct (is_failed (cs_failed st) now) as [failed fe] eqn:F.
  apply janitor_cases in J.
  destruct st as [os ofe]. cbn [cs_sess cs_failed] in *.
  destruct HI as [HS HP]. cbn [cs_sess cs_failed] in *.
  destruct failed.
  - (* suppressed by the failed-DCID cache *)
    apply is_failed_true in F. destruct F as [-> [e [-> He]]].
    inversion H; subst; clear H.
    assert (Hpe : pending {| cs_sess := os; cs_failed := Some e |} = []).
    { apply (HP e eq_refl). lia. }
    destruct J as [[-> [-> Hx]] | [x [-> [-> Hd]]]].
    + split.
      * unfold Inv. cbn [cs_sess cs_failed]. split.
        -- destruct os as [s|]; [|exact I].
           destruct HS as [S1 [S2 S3]]. split; [exact S1|]. split; [|exact S3].
           intros A B. specialize (S2 A B). lia.
        -- intros e0 _ _. exact Hpe.
      * intros _. rewrite Hpe. reflexivity.
    + split.
      * unfold Inv. cbn [cs_sess cs_failed]. split; [exact I|]. intros; apply pending_none.
      * intros _. rewrite Hpe. rewrite pending_none. reflexivity.
  - apply is_failed_false in F. destruct F as [-> Hexp].
    destruct (live_step sess0 now data r) as [o1 st1] eqn:L.
    inversion H; subst; clear H.
    assert (HL : LiveOk now sess0 /\ (d = [] -> opending sess0 = opending os)).
    { destruct J as [[-> [-> Hx]] | [x [-> [-> Hd]]]].
      - split; [|reflexivity].
        destruct os as [s|]; [|exact I]. cbn [LiveOk].
        destruct HS as [S1 [S2 S3]].
        assert (Hf : ss_fail s < 2).
        { destruct (ss_fail s <? 2) eqn:E; [lia|].
          destruct S3 as [e [-> Hle]]; [lia|].
          specialize (Hexp e eq_refl). specialize (Hx s eq_refl). lia. }
        split; [exact Hf|]. split; [exact S1|].
        intro A. specialize (S2 A Hf). lia.
      - split; [exact I|]. intro Hd0. cbn [opending]. rewrite <- Hd. rewrite Hd0. reflexivity. }
    destruct HL as [HL Hop].
    destruct (live_step_ok _ _ _ _ _ _ HL L) as [I1 E1].
    split; [exact I1|].
    intro Hd. rewrite E1. rewrite pending_opending. cbn [cs_sess]. rewrite (Hop Hd). reflexivity.
Qed.

Lemma run_from_inv : forall h t st outs fwd dropped st',
  Inv t st -> monotone_from t h = true ->
  run_from st h = (outs, fwd, dropped, st') ->
  dropped = [] -> fwd ++ pending st' = pending st ++ map ev_data h.
Proof.
  induction h as [|e h IH]; intros t st outs fwd dropped st' HI HM HR HD.
  - cbn in HR. inversion HR; subst. cbn. rewrite app_nil_r. reflexivity.
  - cbn [run_from] in HR.
    destruct (step st e) as [[o d] st1] eqn:S.
    destruct (run_from st1 h) as [[[os fwd1] dr] st2] eqn:R.
    revert HD. inversion HR; subst; clear HR. intro HD.
    apply app_eq_nil in HD. destruct HD as [Hd Hdr].
    cbn [monotone_from] in HM. apply andb_true_iff in HM. destruct HM as [M1 M2].
    destruct e as [now data r ran]. cbn [ev_time ev_data map] in *.
    assert (Ht : t <= now) by lia.
    destruct (step_inv _ _ _ _ _ _ _ _ _ HI Ht S) as [I1 E1].
    specialize (IH now st1 os fwd1 dr st' I1 M2 R Hdr).
    rewrite <- app_assoc. rewrite IH. rewrite app_assoc. rewrite (E1 Hd).
    rewrite <- app_assoc. reflexivity.
Qed.

Lemma C06_udp_session_replay_exact_proof : C06_udp_session_replay_exact_stmt.
Proof.
  unfold C06_udp_session_replay_exact_stmt. intros h HM.
  unfold run_session.
  destruct (run_from init_cstate h) as [[[outs fwd] dropped] st] eqn:R.
  intro HD.
  assert (HI : Inv 0 init_cstate).
  { unfold Inv, init_cstate. cbn [cs_sess cs_failed]. split; [exact I|]. intros e He. discriminate He. }
  rewrite (run_from_inv h 0 init_cstate outs fwd dropped st HI HM R HD).
  reflexivity.
Qed.

Print Assumptions C06_udp_session_never_withholds_refuted_proof.
Print Assumptions C06_udp_session_replay_exact_proof.
