(* Link C01 + C02 + C10 + C11 — the datapath end to end.

   For a well-formed routing program, the eBPF routing function, run over the match-set array and LPM tries that
   buildRoutingKernspace installs for the program (C02) and over the address-to-bitmap table that the DNS cache
   tracker maintains (C10), with cache entries that carry the bitmaps of the real domain matcher (C11), answers
   dns_adjust of the FIRST-MATCHING-RULE decision of the program as written (C01).  Every interface hypothesis
   between the four developments is discharged; what remains is listed at the end. *)
From Coq Require Import List Arith NArith Bool String Lia.
From Dae Require Import C11_Spec C11_Model C11_Louds C11_Proofs C11_Layer3 C11_Props.
From Dae Require Import Link_DomainAdapter.
From Dae Require Import C01_Spec C01_Model C01_Proofs C01_Props C02_Spec C02_Model C02_Props C10_Cache C10_CacheProps.
From Dae Require Import Link_C01_C11 Link_C02_C10 Link_C02_C10_C11 Link_C01_C02.
Import ListNotations.
Open Scope N_scope.

(* what C01_scan_lower says about the matcher BuildUserspace returns *)
Lemma match_sets_of_lowered : forall p b dm pk,
  lower_program p = Ok b -> model_route p dm pk = Ok (decide p pk) ->
  match_sets {| mt_sets := b_rules b; mt_tries := b_tries b |} dm (args_of_packet pk) = Ok (decide p pk).
Proof.
  intros p b dm pk Hl Hr. unfold model_route in Hr. rewrite Hl in Hr. unfold build_userspace in Hr.
  destruct (last (map m_type (b_rules b)) 255 =? C01_Consts.MatchType_Fallback); [exact Hr | discriminate].
Qed.

(* a packet without a domain meets C01's oracle hypothesis whatever the matcher is *)
Lemma c01_oracle_no_domain : forall p dm pk, p_domain pk = ""%string -> C01_domain_oracle_agrees p dm pk.
Proof.
  intros p dm pk He b _ i key vals _. rewrite He. cbn [String.eqb].
  symmetry. apply not_true_is_false. intro H. apply existsb_exists in H as [s [_ H]].
  unfold C01_Spec.domain_holds in H. cbn in H. discriminate H.
Qed.

(* C02's probe_ok contains C01's wf_packet, hence C11's alphabet premise *)
Lemma probe_name_ok : forall pk wan, probe_ok pk wan = true -> name_ok (bytes (p_domain pk)) = true.
Proof.
  intros pk wan H. rewrite <- c01_alphabet_name_ok. unfold probe_ok in H. apply andb_true_iff in H as [H _].
  unfold wf_packet in H. repeat (apply andb_true_iff in H as [H _]). exact H.
Qed.

(* 1. THE DESTINATION IS KNOWN TO THE CACHE under the packet's domain *)
Theorem Link_kernel_end_to_end :
  forall (p : program) (b : builder) (prev : kmaps) (alloc : N) (km : kmaps)
         (rx_ok : str -> bool) (rx : str -> str -> bool) (m : C11_Model.matcher ptrie)
         (h : list cache_op) (pk : packet) (wan : bool),
    wf_program p = true -> lower_program p = Ok b ->
    (* the real domain matcher, built from the program's domain sets *)
    kw_nonempty (c01_sets p) = true -> sets_size_ok (c01_sets p) -> sets_ok rx_ok (c01_sets p) = true ->
    c11_build rx_ok (c01_sets p) = Some m -> c01_idx_ok p = true ->
    (* the packet: C02's quantifier (value ranges, raw domain over the host-name alphabet, a LAN probe carries no
       process name); a domain in any letter case / with a trailing dot, but not the root name *)
    probe_ok pk wan = true ->
    p_domain pk <> ""%string -> p_domain pk <> "."%string ->
    c01_regex_oracles_agree p rx pk ->
    (* the DNS cache history: some live entry lists the destination, and every live entry that lists it carries
       the matcher's bitmap of the packet's domain (the kernel sees the OR over those entries) *)
    (exists o e, cache_live h o = Some e /\ lists e (p_dst pk) = true) ->
    (forall o e, cache_live h o = Some e -> lists e (p_dst pk) = true ->
                 e_bitmap e = of_words (c01_dm rx m (p_domain pk))) ->
    (* the generation is installed *)
    install prev (b_rules b) (b_tries b) alloc = Ok km ->
    kernel_decides_table prev (b_rules b) (b_tries b) alloc (tracker_domain_map h) pk wan
    = Ok (Some (dns_adjust (p_dport pk) (decide p pk))).
Proof.
  intros p b prev alloc km rx_ok rx m h pk wan Hwf Hl Hk Hs Ho Hb Hidx Hprobe Hne Hz Hrx Hex Hall Hinst.
  pose proof (probe_name_ok pk wan Hprobe) as Hn.
  pose proof (Link_lowered_msets_in_range p b Hwf Hl) as Hms.
  pose proof (Link_C02_C12.tries_ok_wf_prefix _ (Link_C01_C12.Link_lowered_tries_ok p b Hwf Hl)) as Htr.
  rewrite (Link_kernel_tracker_real_matcher prev (b_rules b) (b_tries b) alloc rx m h pk wan km Hms Htr Hprobe Hne Hex Hall Hinst).
  pose proof (C01_scan_lower p pk (c01_dm rx m) Hwf
                (c01_oracle_discharged p pk rx_ok rx m Hk Hs Ho Hb Hidx Hn Hz Hrx)) as Hr.
  now rewrite (match_sets_of_lowered p b _ pk Hl Hr).
Qed.
Print Assumptions Link_kernel_end_to_end.

(* 2. THE DESTINATION IS LISTED BY NO LIVE CACHE ENTRY (no DNS answer seen for it, or expired): the table has no
   entry and the kernel decides as the program does for the same packet WITHOUT a domain — whatever domain the
   userspace side may know from sniffing.  No premise on the domain matcher at all. *)
Theorem Link_kernel_end_to_end_unlisted :
  forall (p : program) (b : builder) (prev : kmaps) (alloc : N) (km : kmaps)
         (h : list cache_op) (pk : packet) (wan : bool),
    wf_program p = true -> lower_program p = Ok b ->
    probe_ok pk wan = true ->
    (forall o e, cache_live h o = Some e -> lists e (p_dst pk) = false) ->
    install prev (b_rules b) (b_tries b) alloc = Ok km ->
    kernel_decides_table prev (b_rules b) (b_tries b) alloc (tracker_domain_map h) pk wan
    = Ok (Some (dns_adjust (p_dport pk) (decide p (with_domain pk "")))).
Proof.
  intros p b prev alloc km h pk wan Hwf Hl Hprobe Hno Hinst.
  pose proof (Link_lowered_msets_in_range p b Hwf Hl) as Hms.
  pose proof (Link_C02_C12.tries_ok_wf_prefix _ (Link_C01_C12.Link_lowered_tries_ok p b Hwf Hl)) as Htr.
  destruct (Link_C02_C10_unlisted prev (b_rules b) (b_tries b) alloc h pk wan km Hms Htr Hprobe Hno Hinst) as [_ H].
  rewrite H. clear H.
  pose proof (C01_scan_lower p (with_domain pk "") (fun _ => []) Hwf
                (c01_oracle_no_domain p _ (with_domain pk "") eq_refl)) as Hr.
  pose proof (match_sets_of_lowered p b _ _ Hl Hr) as Hm.
  rewrite match_sets_is_bm in Hm. cbn [args_of_packet with_domain a_domain p_domain String.eqb] in Hm.
  unfold match_sets_bm in *. cbn [mt_sets mt_tries] in *.
  destruct (b_rules b) as [|m0 ms]; [discriminate Hm|].
  change (match_loop (b_tries b) (args_of_packet (with_domain pk "")) None (m0 :: ms) 0 false false false = Ok (decide p (with_domain pk ""))) in Hm.
  rewrite match_loop_domain_irrelevant in Hm. now rewrite Hm.
Qed.
Print Assumptions Link_kernel_end_to_end_unlisted.

(* 1'. The same with the two size premises merged: "at most MaxMatchSetLen match-sets" gives both that
   buildRoutingKernspace succeeds (Link_install_total) and that every domain set is below bit 1024. *)
Theorem Link_kernel_end_to_end_sized :
  forall (p : program) (b : builder) (prev : kmaps) (alloc : N)
         (rx_ok : str -> bool) (rx : str -> str -> bool) (m : C11_Model.matcher ptrie)
         (h : list cache_op) (pk : packet) (wan : bool),
    wf_program p = true -> lower_program p = Ok b ->
    (List.length (b_rules b) <= 1024)%nat ->
    kw_nonempty (c01_sets p) = true -> sets_size_ok (c01_sets p) -> sets_ok rx_ok (c01_sets p) = true ->
    c11_build rx_ok (c01_sets p) = Some m ->
    probe_ok pk wan = true ->
    p_domain pk <> ""%string -> p_domain pk <> "."%string ->
    c01_regex_oracles_agree p rx pk ->
    (exists o e, cache_live h o = Some e /\ lists e (p_dst pk) = true) ->
    (forall o e, cache_live h o = Some e -> lists e (p_dst pk) = true ->
                 e_bitmap e = of_words (c01_dm rx m (p_domain pk))) ->
    kernel_decides_table prev (b_rules b) (b_tries b) alloc (tracker_domain_map h) pk wan
    = Ok (Some (dns_adjust (p_dport pk) (decide p pk))).
Proof.
  intros p b prev alloc rx_ok rx m h pk wan Hwf Hl Hsz Hk Hs Ho Hb Hprobe Hne Hz Hrx Hex Hall.
  destruct (Link_install_total p b prev alloc Hwf Hl Hsz) as [km Hinst].
  assert (Hidx : c01_idx_ok p = true).
  { apply (c01_idx_ok_of_rule_count p b Hl). unfold c11_nbits. lia. }
  exact (Link_kernel_end_to_end p b prev alloc km rx_ok rx m h pk wan Hwf Hl Hk Hs Ho Hb Hidx Hprobe Hne Hz Hrx Hex Hall Hinst).
Qed.
Print Assumptions Link_kernel_end_to_end_sized.

(* Non-vacuity: rule `domain(suffix: b.c) -> proxy`, fallback direct; the packet carries the raw name "A.b.C.", the cache holds
   it -> ::2 with the real matcher's bitmap and another name -> ::3 with an empty bitmap.  The premises hold (the two cache premises in the
   computable form of Link_C02_C10_own_domain_checked), the kernel routes a.b.c/::2 to proxy as `decide` says, and a
   packet to the unlisted ::4 to the fallback. *)
Definition e2e_pk (dst : N) : packet :=
  {| p_src := 1; p_dst := dst; p_sport := 1000; p_dport := 443; p_l4 := TCP; p_ipver := V6;
     p_domain := "A.b.C."; p_regex_hits := []; p_pname := repeat 0 16; p_mac := 0; p_dscp := 0 |}.

Example Link_kernel_end_to_end_nonvacuous :
  let p := lk_prog 2 DSuffix "b.c" in
  wf_program p = true /\ probe_ok (e2e_pk 2) false = true /\
  name_ok (bytes "A.b.C.") = true /\ normalise "A.b.C." = "a.b.c"%string /\
  decide p (e2e_pk 2) = (2, 0, false) /\ decide p (with_domain (e2e_pk 4) "") = (0, 0, false) /\
  exists b, lower_program p = Ok b /\
    (exists km, install empty_kmaps (b_rules b) (b_tries b) 0 = Ok km) /\
    exists m, c11_build lk_rx_ok (c01_sets p) = Some m /\
      let h := [ CInsert 7 {| e_bitmap := of_words (c01_dm lk_rx m "A.b.C."); e_answers := [(false, 2)] |};
                 CInsert 8 {| e_bitmap := 0; e_answers := [(false, 3)] |} ] in
      negb (Nat.eqb (List.length (live_listing h 2)) 0)
        && forallb (N.eqb (of_words (c01_dm lk_rx m "A.b.C."))) (live_listing h 2) = true /\
      Nat.eqb (List.length (live_listing h 4)) 0 = true /\
      kernel_decides_table empty_kmaps (b_rules b) (b_tries b) 0 (tracker_domain_map h) (e2e_pk 2) false
      = Ok (Some (2, 0, false)) /\
      kernel_decides_table empty_kmaps (b_rules b) (b_tries b) 0 (tracker_domain_map h) (e2e_pk 4) false
      = Ok (Some (0, 0, false)).
Proof.
  cbv zeta. split; [vm_compute; reflexivity|]. split; [vm_compute; reflexivity|]. split; [vm_compute; reflexivity|].
  split; [vm_compute; reflexivity|]. split; [vm_compute; reflexivity|]. split; [vm_compute; reflexivity|].
  eexists. split; [vm_compute; reflexivity|].
  split; [eexists; vm_compute; reflexivity|].
  apply with_build. vm_compute. repeat split; reflexivity.
Qed.

(* DISCHARGED (all interface hypotheses between C01, C02, C10, C11):
     - C02's wf_mset / wf_prefix premises on the match-set array and tries: theorems about C01's builder
       (Link_C01_C02.Link_lowered_msets_in_range, Link_C01_C12.Link_lowered_tries_ok);
     - C02's dom_entry premise: from C10_cache_mirror (Link_C02_C10);
     - C02's bitmap_ok premise: c11_bitmap_ok;
     - C01's domain oracle premise: from C11_matcher_packed_partial (Link_C01_C11).
   REMAINING: C11's side conditions (kw_nonempty, sets_size_ok, sets_ok; name_ok is part of probe_ok now);
     c01_idx_ok (<= 1024 match-sets); the domain is not the root name "."; one regexp engine behind both oracles;
     probe_ok (C02's quantifier);
     install succeeds (C02_install_total: within the 1024 limits); and the ONE genuinely open interface:
     "every live cache entry listing the destination carries the matcher's bitmap of the packet's domain" —
     C10's cache entries have no name, and no property models that the DNS controller stores
     MatchDomainBitmap(qname) in the entry it caches, nor that the cache is fresh for the packet's domain.
     When names with different bitmaps share the address the kernel sees the OR (Link_C02_C10_or); when no live
     entry lists it the kernel routes as if the packet had no domain (theorem 2). *)
