(* C13 — the overflow list of UdpTaskQueue as a Go slice (contents, capacity) with the capacity shrink of
   popOverflowTask (control/udp_task_pool.go), and the proof that the shrink does not change what is queued:
   this justifies the plain-list view of the overflow (q_over, head/tail) used by C13_Model.v for arbitrarily
   long backlogs.  Extracted from the source (gen/C13_Consts.v): the shrink condition's divisor, the threshold
   (UdpTaskQueueLength) and whether the shrink copies the remaining tasks (overflow_shrink_keeps: the new slice
   is made with length len(q.overflow) before copy, or filled by append). *)
From Coq Require Import List Arith Bool Lia.
Import ListNotations.

Definition oslice := (list nat * nat)%type.     (* contents (oldest first), capacity *)

(* one popOverflowTask on a non-empty overflow list: the task taken and the slice left *)
Definition ov_pop (keeps : bool) (ql dv : nat) (o : oslice) : option (nat * oslice) :=
  match fst o with
  | [] => None
  | t :: r =>
      let cap' := pred (snd o) in                      (* q.overflow = q.overflow[1:] *)
      match r with
      | [] => Some (t, ([], if ql * 2 <? cap' then ql / 4 else cap'))
      | _ =>
          if (length r <? cap' / dv) && (ql <? cap')
          then Some (t, if keeps then (r, length r) else ([], 2 * length r))   (* shrink *)
          else Some (t, (r, cap'))
      end
  end.

Fixpoint ov_drain (fuel : nat) (keeps : bool) (ql dv : nat) (o : oslice) : list nat :=
  match fuel with
  | 0 => []
  | S f => match ov_pop keeps ql dv o with
           | Some (t, o') => t :: ov_drain f keeps ql dv o'
           | None => []
           end
  end.

(* a shrink (or any pop) leaves exactly the tail, in order, whatever the capacity *)
Lemma ov_pop_preserves ql dv t r cap :
  exists cap', ov_pop true ql dv (t :: r, cap) = Some (t, (r, cap')).
Proof.
  unfold ov_pop. cbn [fst snd]. destruct r as [|x r'].
  - eexists; reflexivity.
  - destruct ((length (x :: r') <? pred cap / dv) && (ql <? pred cap)); eexists; reflexivity.
Qed.

Lemma C13_overflow_shrink_preserves_proof :
  forall ql dv (contents : list nat) (cap n : nat),
    ov_drain n true ql dv (contents, cap) = firstn n contents.
Proof.
  intros ql dv contents cap n. revert contents cap.
  induction n as [|n IH]; intros contents cap; [reflexivity|].
  destruct contents as [|t r]; [reflexivity|].
  cbn [ov_drain firstn]. destruct (ov_pop_preserves ql dv t r cap) as (cap' & E). rewrite E. f_equal. apply IH.
Qed.

(* draining a backlog executes exactly what was queued, in order *)
Lemma C13_overflow_backlog_exactly_once_proof :
  forall ql dv (contents : list nat) (cap : nat),
    ov_drain (length contents) true ql dv (contents, cap) = contents.
Proof. intros. rewrite C13_overflow_shrink_preserves_proof. apply firstn_all. Qed.

(* copy into a zero-length slice: the shrink drops every task still waiting *)
Lemma C13_overflow_copy_into_empty_refuted_proof :
  exists ql dv contents cap,
    ov_drain (length contents) false ql dv (contents, cap) <> contents
    /\ length (ov_drain (length contents) false ql dv (contents, cap)) = 1.
Proof. exists 128, 4, (seq 0 60), 400. split; [vm_compute; discriminate|vm_compute; reflexivity]. Qed.
