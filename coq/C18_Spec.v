(* C18 — the dial target follows dial_mode: IPs by default, names only when allowed.
   Spec: the property in its own terms — a decision table over
     (dial mode, built-in outbound?, class of the sniffed value, what is known about the name)
   and the endpoint (host, port) the target string must denote.  "Denotes" is Go's own address grammar
   (net.SplitHostPort, modelled in C18_GoStrings.v): that is what every node dialer applies to the string.
   The classification of a string as an IP literal is the library's (netip.ParseAddr); the spec is
   parametric in it (`is_ip`). *)
From Coq Require Import List NArith ZArith Bool.
From Dae Require Import C18_GoStrings.
From Dae.gen Require Import C18_Consts.
Import ListNotations.
Open Scope N_scope.

Inductive dial_mode := ModeIp | ModeDomain | ModeDomainPlus | ModeDomainCao.

(* Built-in outbounds (direct, block, must_rules, the control-plane and logical markers) are the 8-bit
   indices outside the user-defined range [OutboundUserDefinedMin, OutboundUserDefinedMax]. *)
Definition builtin_outbound (outbound : N) : bool :=
  (outbound <? outbound_user_defined_min) || (outbound_user_defined_max <? outbound).

(* What the control plane knows about the sniffed name when it decides:
   resolved  — dae itself resolved this name for the destination's address family and the original TTL
               of that answer has not run out;
   verified  — outcome of dae's own verification of the name: Some true = verified to exist,
               Some false = verified not to exist (still remembered), None = never verified. *)
Record knowledge := { k_resolved : bool; k_verified : option bool }.

Definition genuine (k : knowledge) : bool :=
  k_resolved k || match k_verified k with Some true => true | _ => false end.

(* Classes of a sniffed value. *)
Inductive sniff_class :=
| CEmpty                          (* nothing sniffed *)
| CIpLit (a : str)                (* an IP literal, bare or in brackets; a = the literal itself *)
| CHostPort (h p : str)           (* already carries a port *)
| CName (h : str).                (* anything else: a host name (one pair of enclosing brackets removed) *)

(* An IP literal whose own text contains a bracket: only possible with a bracket inside an IPv6 zone
   identifier (netip.ParseAddr accepts any non-empty zone). *)
Definition literal_clean (c : sniff_class) : bool :=
  match c with CIpLit a => no_brackets a | _ => true end.

Section WithIp.
  Variable is_ip : str -> bool.

  Definition classify (s : str) : sniff_class :=
    match s with
    | [] => CEmpty
    | _ =>
        let u := unbracket s in
        if is_ip u then CIpLit u
        else match split_host_port u with
             | Some (h, p) => CHostPort h p
             | None => CName u
             end
    end.

  (* a value that is really an address, with or without a port: never treated as a name to verify *)
  Definition ip_like (c : sniff_class) : bool :=
    match c with
    | CIpLit _ => true
    | CHostPort h _ => is_ip h
    | _ => false
    end.

  (* the name is used as dial target *)
  Definition spec_use_name (m : dial_mode) (reserved : bool) (c : sniff_class) (k : knowledge) : bool :=
    match c with
    | CEmpty => false
    | _ =>
        if reserved then false
        else match m with
             | ModeIp => false
             | ModeDomain => negb (ip_like c) && genuine k
             | ModeDomainPlus => true
             | ModeDomainCao => true
             end
    end.

  (* the flow is routed again with the name *)
  Definition spec_reroute (m : dial_mode) (reserved : bool) (c : sniff_class) (k : knowledge) : bool :=
    match m with
    | ModeDomainCao => spec_use_name m reserved c k
    | ModeDomain => spec_use_name m reserved c k
    | _ => false
    end.

  (* chooseProxyDialer: a flow that is routed again (or arrives marked "route in the control plane") gets
     the outbound the routing rules name for it; the dial target is then decided for THAT outbound *)
  Definition spec_final_outbound (m : dial_mode) (reserved : bool) (outbound route_to : N)
             (c : sniff_class) (k : knowledge) : N :=
    if spec_reroute m reserved c k || (outbound =? outbound_control_plane_routing) then route_to else outbound.

  (* the endpoint the target must denote: (host, port) *)
  Definition spec_endpoint (m : dial_mode) (reserved : bool) (dst_ip : str) (dst_port : N)
             (c : sniff_class) (k : knowledge) : str * str :=
    if spec_use_name m reserved c k then
      match c with
      | CIpLit a => (a, itoa dst_port)
      | CHostPort h p => (h, p)
      | CName h => (h, itoa dst_port)
      | CEmpty => (dst_ip, itoa dst_port)
      end
    else (dst_ip, itoa dst_port).

  (* The statement promises a well-formed target for the original address, for IP literals and for
     values that carry a port.  For any other sniffed value the target is the name as sniffed; if that
     "name" itself contains a bracket nothing is promised about the syntax of the result. *)
  Definition endpoint_constrained (m : dial_mode) (reserved : bool) (c : sniff_class) (k : knowledge) : bool :=
    if spec_use_name m reserved c k then
      match c with
      | CName h => no_brackets h
      | _ => true
      end
    else true.

  (* ---- from the raw sniffed value to the name the control plane works with -------------------------
     lt = the sniffed value, blanks trimmed and lower-cased.  The name is the sniffed host without port
     and without brackets:
       a value that carries a port            -> its host           (name:port, v4:port, [v6]:port)
       a bracketed IP literal                 -> the literal        ([v6])
       a bare IP literal                      -> itself
       anything else without a bracket        -> itself minus one trailing dot   (host names, empty)
     None = no promise (brackets that do not enclose a clean IP literal; a colon in something that is not
     an IP literal; a literal ending in a dot, which only a dotted zone identifier can produce). *)
  Definition spec_sniffed_host (lt : str) : option str :=
    match split_host_port lt with
    | Some (h, _) => if negb (contains c_colon h) || is_ip h then Some h else None
    | None =>
        if has_prefix1 c_lbr lt && has_suffix1 c_rbr lt then
          let a := drop_first_last lt in
          if is_ip a && no_brackets a then Some a else None
        else if negb (no_brackets lt) then None
        else if is_ip lt then (if has_suffix1 c_dot lt then None else Some lt)
        else if contains c_colon lt then None
        else Some (trim_suffix_dot lt)
    end.

  Definition denotes (target : str) (e : str * str) : bool :=
    match split_host_port target with
    | Some (h, p) => str_eqb h (fst e) && str_eqb p (snd e)
    | None => false
    end.
End WithIp.

(* Destination as the kernel reports it: textual address (netip.Addr.String) and family. *)
Record dest := { d_is4 : bool; d_ip : str; d_port : N }.

(* netip.Addr.String never yields brackets; an IPv4 text has no colon *)
Definition dest_wf (d : dest) : bool :=
  no_brackets (d_ip d) && (negb (d_is4 d) || negb (contains c_colon (d_ip d))).

(* ---- DNS names: equal up to ASCII case and one trailing dot --------------------------------------
   A question name as it arrives on the wire ("wWw.ExAmPlE.") and a sniffed name ("www.example") denote
   the same host.  The key under which "dae resolved (name, type)" is remembered and looked up is the
   name in that normal form plus the record type. *)
Definition name_norm (n : str) : str := ascii_lower (trim_suffix_dot n).
Definition same_name (a b : str) : bool := str_eqb (name_norm a) (name_norm b).
Definition spec_key (n : str) (qtype : N) : str := name_norm n ++ [c_dot] ++ itoa qtype.
Definition qtype_a : N := 1.      (* RFC 1035 *)
Definition qtype_aaaa : N := 28.  (* RFC 3596 *)

(* ---- what is known about a name, in terms of what happened before ----------------------------
   EvResolved key e   : dae resolved the (name, family) behind `key`; the answer's original TTL ends at e
   EvVerified n t b   : dae's own verification of name n finished at time t; b = the name exists *)
Inductive event :=
| EvResolved (key : str) (expires : Z)
| EvVerified (name : str) (at_time : Z) (found : bool).

Open Scope Z_scope.

Definition resolved_now (evs : list event) (key : str) (now : Z) : bool :=
  existsb (fun e => match e with
                    | EvResolved k x => str_eqb k key && (now <? x)
                    | _ => false
                    end) evs.

(* a positive verification is remembered for good, a negative one for `ttl` *)
Definition verified_now (ttl : Z) (evs : list event) (name : str) (now : Z) : option bool :=
  if existsb (fun e => match e with EvVerified n _ true => str_eqb n name | _ => false end) evs then Some true
  else if existsb (fun e => match e with
                            | EvVerified n t false => str_eqb n name && (now <? t + ttl)
                            | _ => false
                            end) evs then Some false
  else None.

Definition knowledge_now (ttl : Z) (evs : list event) (key name : str) (now : Z) : knowledge :=
  {| k_resolved := match key with [] => false | _ => resolved_now evs key now end;
     k_verified := verified_now ttl evs name now |}.
