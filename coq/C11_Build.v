(* C11 — model of the concurrency structure of AhocorasickSlimtrie.Build and of the index loops of
   MatchDomainBitmap.  No proofs in this file.

   Build starts one worker per non-empty set; a worker builds its structure (automaton or trie) privately and
   then PUBLISHES: it stores the structure into its own slot ac[idx] / trie[idx] and appends idx to the shared
   list validAcIndexes / validTrieIndexes, which MatchDomainBitmap later ranges over.
   The publication is one atomic step when the append happens under the mutex ([Locked]); without the mutex
   ([Racy]) an append is two steps — read the slice header (length), later write slot [length] and store the
   header with length+1 — and other workers may run in between. *)
From Coq Require Import List NArith Bool.
Import ListNotations.
Open Scope N_scope.

Inductive disc := Locked | Racy.

(* what the source says about one write of a worker to a field of the shared receiver *)
Inductive wop := WAppend | WIndex | WStore.
Definition shape := list (wop * bool).            (* operation, a mutex is held *)
(* the lock discipline of a shape: every append to a shared slice (and every plain store) is under the mutex;
   stores into the worker's own indexed slot need no lock *)
Definition shape_disc (sh : shape) : disc :=
  if forallb (fun w => match fst w with WIndex => true | _ => snd w end) sh then Locked else Racy.

(* a schedule is a list of choices: start the j-th worker that has not started, or let the j-th worker that
   has read the header finish its append *)
Inductive choice := Start (j : nat) | Finish (j : nat).

Record bstate := {
  b_valid : list N;            (* valid*Indexes *)
  b_todo : list N;             (* workers (by bit index) that have not published yet *)
  b_mid : list (N * nat)       (* racy workers between header read and write: (index, length read) *)
}.

Fixpoint take_nth {A} (j : nat) (l : list A) : option (A * list A) :=
  match l, j with
  | [], _ => None
  | x :: r, O => Some (x, r)
  | x :: r, S j' => match take_nth j' r with
                    | Some (y, r') => Some (y, x :: r')
                    | None => None
                    end
  end.

Definition bstep (d : disc) (s : bstate) (c : choice) : bstate :=
  match c with
  | Start j =>
      match take_nth j (b_todo s) with
      | None => s
      | Some (i, rest) =>
          match d with
          | Locked => {| b_valid := b_valid s ++ [i]; b_todo := rest; b_mid := b_mid s |}
          | Racy => {| b_valid := b_valid s; b_todo := rest; b_mid := b_mid s ++ [(i, length (b_valid s))] |}
          end
      end
  | Finish j =>
      match take_nth j (b_mid s) with
      | None => s
      | Some ((i, len), rest) =>
          {| b_valid := firstn len (b_valid s) ++ [i]; b_todo := b_todo s; b_mid := rest |}
      end
  end.

Definition brun (d : disc) (idxs : list N) (sched : list choice) : bstate :=
  fold_left (bstep d) sched {| b_valid := []; b_todo := idxs; b_mid := [] |}.

(* wg.Wait() returned: every worker has published *)
Definition bdone (s : bstate) : bool :=
  match b_todo s, b_mid s with [], [] => true | _, _ => false end.

(* MatchDomainBitmap: for _, i := range valid { if bit i already set {continue}; if has(i) { set bit i } } *)
Definition loop_bits (valid : list N) (has : N -> bool) : N :=
  fold_left (fun bm i => if N.testbit bm i then bm else if has i then N.setbit bm i else bm) valid 0.
