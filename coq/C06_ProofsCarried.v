(* C06 — proof of C06_only_carried_name_stmt: a name reported by the byte-slice extractor is a
   host_name entry (type byte 0, 16-bit length) lying wholly inside `data`. *)
From Dae.gen Require Import C06_Extracted.
From Dae Require Import C06_Spec C06_Model C06_Statements.
From Coq Require Import List NArith Bool Arith Lia ZifyBool ZifyN ZifyNat.
Import ListNotations.
Open Scope N_scope.

(* ------------------------------------------------------------------ sub *)
Lemma carried_sub_length (l : bytes) (i j : N) :
  i <= j -> j <= blen l -> length (sub l i j) = N.to_nat (j - i).
Proof.
  unfold sub, blen. intros. rewrite firstn_length, skipn_length. lia.
Qed.

Lemma carried_sub3 (l : bytes) (j : N) :
  j + 3 <= blen l ->
  sub l j (j + 3) = [nthb 0 (sub l j (j + 3)); nthb 1 (sub l j (j + 3)); nthb 2 (sub l j (j + 3))].
Proof.
  intros H.
  assert (L : length (sub l j (j + 3)) = 3%nat) by (rewrite carried_sub_length; lia).
  destruct (sub l j (j + 3)) as [|x [|y [|z [|w r]]]]; cbn [length] in L; try lia.
  reflexivity.
Qed.

Lemma carried_sub_app_l (d s : bytes) (i j : N) :
  j <= blen d -> sub (d ++ s) i j = sub d i j.
Proof.
  unfold sub, blen. intros H.
  rewrite skipn_app, firstn_app, skipn_length.
  replace (N.to_nat (j - i) - (length d - N.to_nat i))%nat with 0%nat by lia.
  rewrite firstn_O, app_nil_r. reflexivity.
Qed.

Lemma carried_skipn_skipn (A : Type) (y : nat) : forall (x : nat) (l : list A),
  skipn x (skipn y l) = skipn (y + x) l.
Proof.
  induction y as [|y IH]; intros x l; [reflexivity|].
  destruct l as [|a l]; [rewrite !skipn_nil; reflexivity|].
  cbn [skipn Nat.add]. apply IH.
Qed.

Lemma carried_sub_skipn (l : bytes) (k i j : N) :
  sub (skipn (N.to_nat k) l) i j = sub l (k + i) (k + j).
Proof.
  unfold sub. rewrite carried_skipn_skipn.
  replace (N.to_nat (k + j - (k + i))) with (N.to_nat (j - i)) by lia.
  replace (N.to_nat (k + i)) with (N.to_nat k + N.to_nat i)%nat by lia.
  reflexivity.
Qed.

(* ------------------------------------------------------------------ host_loop *)
Definition carried_entry (d : bytes) (lim : N) (n : bytes) : Prop :=
  exists j b1 b2, j + 3 + (b1 * 256 + b2) <= lim
                  /\ sub d j (j + 3) = [0; b1; b2]
                  /\ n = strip_dot (sub d (j + 3) (j + 3 + (b1 * 256 + b2))).

Lemma carried_host_loop (fuel : nat) : forall (l : bloc) (j inext : N),
  match host_loop bytes_ops fuel l j inext with
  | Ok l' => l' = l
  | Err (Found n) => carried_entry (b_data l) inext n
  | Err _ => True
  end.
Proof.
  induction fuel as [|f IH]; intros l j inext; cbn [host_loop]; [exact I|].
  destruct (j + 3 <=? inext) eqn:E1; [|reflexivity].
  cbn [op_range bytes_ops]. unfold b_range.
  destruct ((j <=? j + 3) && (j + 3 <=? blen (b_data l))) eqn:E2; [|exact I].
  cbv beta iota zeta.
  assert (H3 := carried_sub3 (b_data l) j ltac:(lia)).
  set (b := sub (b_data l) j (j + 3)) in *.
  destruct (negb (nthb 0 b =? tls_name_type_host)) eqn:E3; [apply IH|].
  destruct (inext <? j + 3 + (nthb 1 b * 256 + nthb 2 b)) eqn:E4; [exact I|].
  destruct ((j + 3 <=? j + 3 + (nthb 1 b * 256 + nthb 2 b))
            && (j + 3 + (nthb 1 b * 256 + nthb 2 b) <=? blen (b_data l))) eqn:E5; [|exact I].
  unfold trim_dot.
  exists j, (nthb 1 b), (nthb 2 b).
  unfold tls_name_type_host in E3.
  assert (H0 : nthb 0 b = 0) by lia.
  split; [lia|]. split; [|reflexivity].
  fold b. rewrite H3 at 1. rewrite H0. reflexivity.
Qed.

(* ------------------------------------------------------------------ find_loop *)
Lemma carried_find_loop (fuel0 fuel : nat) : forall (l : bloc) (i : N) (n : bytes),
  find_loop bytes_ops fuel0 fuel l i = Found n -> carried_entry (b_data l) (b_len l) n.
Proof.
  induction fuel as [|f IH]; intros l i n; cbn [find_loop]; [discriminate|].
  cbn [op_len op_range bytes_ops]. unfold b_range.
  destruct (b_len l <=? i + 4) eqn:E1; [discriminate|].
  destruct ((i <=? i + 4) && (i + 4 <=? blen (b_data l))) eqn:E2; [|discriminate].
  cbv beta iota zeta.
  set (b := sub (b_data l) i (i + 4)).
  destruct (b_len l <? i + 4 + (nthb 2 b * 256 + nthb 3 b)) eqn:E3; [discriminate|].
  destruct (u16 b =? tls_ext_server_name) eqn:E4; [|apply IH].
  destruct (nthb 2 b * 256 + nthb 3 b <? 2) eqn:E5; [discriminate|].
  destruct ((i + 4 <=? i + 6) && (i + 6 <=? blen (b_data l))) eqn:E6; [|discriminate].
  cbv beta iota zeta.
  destruct (nthb 2 b * 256 + nthb 3 b <? u16 (sub (b_data l) (i + 4) (i + 6)) + 2) eqn:E7; [discriminate|].
  pose proof (carried_host_loop fuel0 l (i + 6) (i + 4 + (nthb 2 b * 256 + nthb 3 b))) as HL.
  destruct (host_loop bytes_ops fuel0 l (i + 6) (i + 4 + (nthb 2 b * 256 + nthb 3 b))) as [l3|r].
  - subst l3. apply IH.
  - intros ->. destruct HL as (j' & b1 & b2 & A & B & C).
    exists j', b1, b2. split; [lia|]. split; assumption.
Qed.

(* ------------------------------------------------------------------ extract_sni *)
Lemma C06_only_carried_name_proof : C06_only_carried_name_stmt.
Proof.
  unfold C06_only_carried_name_stmt, extract_sni_bytes, extract_sni, find_sni_extension.
  intros data slack n.
  set (l := bloc_of data slack).
  cbn [op_len op_range op_at op_slice bytes_ops]. unfold b_range, b_at, b_slice.
  assert (Hd : b_data l = data ++ slack) by reflexivity.
  assert (Hl : b_len l = blen data) by reflexivity.
  assert (Hle : blen data <= blen (data ++ slack)) by (unfold blen; rewrite app_length; lia).
  repeat match goal with
         | |- (if ?c then _ else _) = Found _ -> _ => destruct c eqn:?; [|try discriminate]; try discriminate
         | |- match (if ?c then _ else _) with _ => _ end = Found _ -> _ =>
             destruct c eqn:?; cbv beta iota zeta; try discriminate
         end.
  intros H. apply carried_find_loop in H. cbn [b_data b_len] in H.
  match type of H with
  | carried_entry (skipn (N.to_nat (?bd + ?el - ?el)) _) _ _ =>
      set (EL := el) in *; set (BD := bd) in *
  end.
  clearbody BD EL.
  assert (K : BD + EL <= blen data).
  { match goal with
    | H1 : (b_len l <? BD + EL) = false |- _ => clear - H1 Hl; lia
    end. }
  change (b_data l) with (data ++ slack) in H.
  clear - K H.
  replace (BD + EL - EL) with BD in H by lia.
  destruct H as (j & b1 & b2 & A & B & C).
  rewrite carried_sub_skipn in B, C.
  rewrite carried_sub_app_l in B, C by lia.
  exists (BD + (j + 3)), b1, b2.
  split; [lia|]. split; [lia|]. split.
  - replace (BD + (j + 3) - 3) with (BD + j) by lia. exact B.
  - rewrite C. f_equal. f_equal. lia.
Qed.
