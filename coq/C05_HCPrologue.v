(* C05 - the handleConn prologue hands the relay a ready stack and a socket that, together with the bytes held
   by the wrappers, still carries exactly the client's arrival script (prologue_ready_stmt). *)
From Coq Require Import List NArith Bool Lia ZifyBool ZifyN ZifyNat.
From Dae Require Import C05_Spec C05_Model C05_Proofs C05_HCDefs.
From Dae.gen Require Import C05_Extracted.
Import ListNotations.
Open Scope N_scope.

(* ------------------------------------------------------------------ basics *)
Lemma sorted_from_weaken : forall l t t', sorted_from t l -> t' <= t -> sorted_from t' l.
Proof. intros [|c r] t t' H Hle; cbn [sorted_from] in *; [exact I|]. destruct H as [H1 H2]. split; [lia|exact H2]. Qed.

Lemma sorted_from_norm : forall l t, sorted_from t l -> sorted_from t (norm_chunks l).
Proof.
  induction l as [|c r IH]; intros t H; cbn [norm_chunks sorted_from] in *; [exact I|].
  destruct H as [H1 H2]. destruct (c_data c).
  - apply IH. eapply sorted_from_weaken; eauto.
  - cbn [sorted_from]. split; [exact H1|apply IH; exact H2].
Qed.

Lemma In_norm : forall l c, In c (norm_chunks l) -> In c l.
Proof.
  induction l as [|c0 r IH]; intros c H; cbn [norm_chunks] in H; [exact H|].
  destruct (c_data c0); [right; apply IH; exact H|].
  destruct H as [H|H]; [left; exact H|right; apply IH; exact H].
Qed.

Lemma norm_nonempty : forall l, data_nonempty (norm_chunks l).
Proof.
  induction l as [|c r IH]; cbn [norm_chunks]; [constructor|].
  destruct (c_data c) eqn:E; [exact IH|]. constructor; [rewrite E; discriminate|exact IH].
Qed.

Lemma wf_norm : forall l e, wf_chunks l e -> wf_chunks (norm_chunks l) e.
Proof.
  intros l e [H1 H2]. split; [apply sorted_from_norm; exact H1|].
  intros c Hc. apply H2. apply In_norm. exact Hc.
Qed.

Lemma deliverable_norm : forall start cut l e,
  deliverable start cut (norm_chunks l) = before_cut start cut (mkSide l e).
Proof.
  intros start cut l e. unfold deliverable, before_cut. cbn [s_chunks].
  induction l as [|c r IH]; [reflexivity|]. cbn [norm_chunks filter].
  change (olt (seen start (c_at c)) cut) with (seen_lt start cut c).
  destruct (c_data c) eqn:E.
  - destruct (seen_lt start cut c); [cbn [map concat]; rewrite E; cbn [app]|]; exact IH.
  - cbn [filter]. destruct (seen_lt start cut c); [cbn [map concat]; rewrite IH; reflexivity|exact IH].
Qed.

Lemma deliverable_cons_seen : forall start cut c l,
  c_at c <= start -> olt start cut = true ->
  deliverable start cut (c :: l) = c_data c ++ deliverable start cut l.
Proof.
  intros start cut c l Hle Ho. unfold deliverable. cbn [filter].
  assert (Hs : seen_lt start cut c = true).
  { unfold seen_lt, seen. rewrite N.max_l by lia. exact Ho. }
  rewrite Hs. reflexivity.
Qed.

Lemma len_take : forall n (l : list N), len (take n l) <= n.
Proof.
  intros n l. unfold take. destruct (len l <=? n) eqn:E; [lia|].
  unfold len. rewrite firstn_length. lia.
Qed.

Lemma prefetch_lt_min_read : c05_prefetch_bytes <? sniff_min_read = true.
Proof. reflexivity. Qed.

(* ------------------------------------------------------------------ the invariant *)
Definition Rel (l0 : list chunk) (e : option N) (acc : list N) (s : sock) (now : N) : Prop :=
  k_eof s = e /\ k_closed s = false /\ wf_chunks (k_in s) e /\ data_nonempty (k_in s) /\
  forall start cut, now <= start -> olt start cut = true ->
    deliverable start cut l0 = acc ++ deliverable start cut (k_in s).

Lemma Rel_mono : forall l0 e acc s now now', Rel l0 e acc s now -> now <= now' -> Rel l0 e acc s now'.
Proof.
  intros l0 e acc s now now' (H1 & H2 & H3 & H4 & H5) Hle. repeat split; try assumption; try apply H3.
  intros start cut Hs Ho. apply H5; [lia|exact Ho].
Qed.

Lemma Rel_acc : forall l0 e acc acc' s now, Rel l0 e acc s now -> acc = acc' -> Rel l0 e acc' s now.
Proof. intros. subst. assumption. Qed.

Lemma Rel_set_dl : forall l0 e acc s now d, Rel l0 e acc s now -> Rel l0 e acc (set_dl s d) now.
Proof. intros l0 e acc s now d H. exact H. Qed.

Lemma Rel_same : forall l0 e acc s now t, Rel l0 e acc s now -> now <= t -> Rel l0 e (acc ++ []) s t /\ now <= t.
Proof. intros. split; [|assumption]. rewrite app_nil_r. eapply Rel_mono; eauto. Qed.

Lemma sock_read_Rel : forall l0 e acc now n s r s' t,
  Rel l0 e acc s now -> sock_read now n s = (r, s', t) ->
  Rel l0 e (acc ++ r_data r) s' t /\ now <= t.
Proof.
  intros l0 e acc now n s r s' t HR H. pose proof HR as (He & Hc & Hwf & Hne & Heq).
  unfold sock_read in H. rewrite Hc in H.
  destruct (expired (k_dl s) now) eqn:Ex0.
  { injection H as <- <- <-. cbn [r_data]. apply Rel_same; [assumption|lia]. }
  destruct (k_in s) as [|c rest] eqn:Ein.
  - destruct (k_eof s) as [e0|].
    + destruct (expired (k_dl s) (N.max now e0)) eqn:Ex1; injection H as <- <- <-; cbn [r_data]; (apply Rel_same; [assumption|]).
      * unfold expired, dl_or in *. destruct (k_dl s); [lia|discriminate].
      * lia.
    + destruct (k_dl s) as [d|] eqn:Ed; injection H as <- <- <-; cbn [r_data]; (apply Rel_same; [assumption|]).
      * unfold expired in Ex0. lia.
      * lia.
  - destruct (expired (k_dl s) (N.max now (c_at c))) eqn:Ex1.
    { injection H as <- <- <-; cbn [r_data]. apply Rel_same; [assumption|].
      unfold expired, dl_or in *. destruct (k_dl s); [lia|discriminate]. }
    injection H as <- <- <-. cbn [r_data]. split; [|lia].
    destruct Hwf as [Hs Hin]. cbn [sorted_from] in Hs. destruct Hs as [Hs0 Hs1].
    inversion Hne as [|? ? Hc0 Hrest]; subst.
    unfold Rel. cbn [k_eof k_closed k_in].
    split; [reflexivity|]. split; [reflexivity|].
    destruct (drop n (c_data c)) as [|x b] eqn:Edrop.
    + split; [|split; [exact Hrest|]].
      * split; [eapply sorted_from_weaken; [exact Hs1|lia]|]. intros c1 Hc1. apply Hin. right. exact Hc1.
      * intros start cut Hst Ho. rewrite (Heq start cut) by (try lia; exact Ho).
        rewrite deliverable_cons_seen by (try lia; exact Ho).
        rewrite <- (take_drop n (c_data c)) at 1. rewrite Edrop, app_nil_r.
        rewrite app_assoc. reflexivity.
    + split; [|split].
      * split; [cbn [sorted_from c_at]; split; assumption|].
        intros c1 [Hc1|Hc1]; [subst c1; cbn [c_at]; apply (Hin c); left; reflexivity|apply Hin; right; exact Hc1].
      * constructor; [cbn [c_data]; discriminate|exact Hrest].
      * intros start cut Hst Ho. rewrite (Heq start cut) by (try lia; exact Ho).
        rewrite deliverable_cons_seen by (try lia; exact Ho).
        rewrite (deliverable_cons_seen start cut (mkChunk (c_at c) (x :: b))) by (cbn [c_at]; try lia; exact Ho).
        cbn [c_data]. rewrite <- Edrop.
        rewrite <- (take_drop n (c_data c)) at 1. repeat rewrite <- app_assoc. reflexivity.
Qed.

(* ------------------------------------------------------------------ reads through any wrapper stack *)
Lemma conn_read_Rel : forall l0 e c out n s now r c' s' t,
  Rel l0 e (out ++ pending c) s now -> conn_read c n s now = (r, c', s', t) ->
  Rel l0 e (out ++ r_data r ++ pending c') s' t /\ now <= t.
Proof.
  intros l0 e.
  induction c as [|buf c IH|pre c IH|buf derr c IH]; intros out n s now r c' s' t HR H; cbn [conn_read] in H.
  - destruct (sock_read now n s) as [[r0 s0] t0] eqn:E. injection H as <- <- <- <-.
    cbn [pending] in *. rewrite app_nil_r in *. eapply sock_read_Rel; eauto.
  - destruct buf as [|b buf].
    + cbn [pending app] in HR. destruct (bufio_size <=? n).
      * destruct (conn_read c n s now) as [[[r0 c0] s0] t0] eqn:E. injection H as <- <- <- <-.
        cbn [pending app]. eapply IH; eauto.
      * destruct (conn_read c bufio_size s now) as [[[r0 c0] s0] t0] eqn:E.
        destruct (IH _ _ _ _ _ _ _ _ HR E) as [HR' Hle].
        destruct (r_data r0) as [|x d] eqn:Ed.
        -- injection H as <- <- <- <-. cbn [pending app r_data] in *. split; assumption.
        -- injection H as <- <- <- <-. cbn [pending r_data]. split; [|assumption].
           eapply Rel_acc; [exact HR'|]. rewrite (app_assoc (take n (x :: d))), take_drop. reflexivity.
    + injection H as <- <- <- <-. cbn [pending r_data] in *. split; [|lia].
      eapply Rel_acc; [exact HR|]. rewrite (app_assoc (take n (b :: buf))), take_drop.
      reflexivity.
  - destruct pre as [|b pre].
    + cbn [pending app] in HR. destruct (conn_read c n s now) as [[[r0 c0] s0] t0] eqn:E. injection H as <- <- <- <-.
      cbn [pending app]. eapply IH; eauto.
    + destruct (n <=? len (b :: pre)).
      * injection H as <- <- <- <-. cbn [pending r_data] in *. split; [|lia].
        eapply Rel_acc; [exact HR|]. rewrite (app_assoc (take n (b :: pre))), take_drop.
        reflexivity.
      * destruct (conn_read c (n - len (b :: pre)) s now) as [[[r0 c0] s0] t0] eqn:E.
        cbn [pending] in HR. rewrite app_assoc in HR.
        destruct (IH _ _ _ _ _ _ _ _ HR E) as [HR' Hle].
        injection H as <- <- <- <-. cbn [pending r_data]. split; [|assumption].
        eapply Rel_acc; [exact HR'|]. cbn [app]. repeat rewrite <- app_assoc. reflexivity.
  - destruct derr as [er|].
    + injection H as <- <- <- <-. cbn [pending r_data] in *. split; [|lia].
      eapply Rel_acc; [exact HR|]. rewrite (app_assoc (take n buf)), take_drop. reflexivity.
    + destruct buf as [|b buf].
      * cbn [pending app] in HR. destruct (conn_read c n s now) as [[[r0 c0] s0] t0] eqn:E. injection H as <- <- <- <-.
        cbn [pending app]. eapply IH; eauto.
      * injection H as <- <- <- <-. cbn [pending r_data] in *. split; [|lia].
        eapply Rel_acc; [exact HR|]. rewrite (app_assoc (take n (b :: buf))), take_drop.
        reflexivity.
Qed.

(* ------------------------------------------------------------------ errors of a read with an armed deadline *)
Definition soft_err (e : option rerr) : Prop := e = None \/ e = Some EEof \/ e = Some ETimeout.

Lemma sock_read_err : forall now n s d r s' t,
  k_closed s = false -> k_dl s = Some d -> sock_read now n s = (r, s', t) -> soft_err (r_err r).
Proof.
  intros now n s d r s' t Hc Hd H. unfold sock_read in H. rewrite Hc, Hd in H. unfold soft_err.
  destruct (expired (Some d) now); [injection H as <- <- <-; cbn; auto|].
  destruct (k_in s) as [|c rest].
  - destruct (k_eof s) as [e0|].
    + destruct (expired (Some d) (N.max now e0)); injection H as <- <- <-; cbn; auto.
    + injection H as <- <- <-; cbn; auto.
  - destruct (expired (Some d) (N.max now (c_at c))); injection H as <- <- <-; cbn; auto.
Qed.

(* a read of more than the prefix through prefixedConn: the prefix is used up, the error is the socket's *)
Lemma prefixed_read : forall d n s now dl r c' s' t,
  len d < n -> k_closed s = false -> k_dl s = Some dl ->
  conn_read (CPrefixed d CSock) n s now = (r, c', s', t) ->
  c' = CPrefixed [] CSock /\ soft_err (r_err r).
Proof.
  intros d n s now dl r c' s' t Hlen Hc Hd H. cbn [conn_read] in H.
  destruct d as [|b d].
  - destruct (sock_read now n s) as [[r0 s0] t0] eqn:E. injection H as <- <- <- <-.
    split; [reflexivity|]. eapply sock_read_err; eauto.
  - assert (Hn : (n <=? len (b :: d)) = false) by lia. rewrite Hn in H.
    destruct (sock_read now (n - len (b :: d)) s) as [[r0 s0] t0] eqn:E. injection H as <- <- <- <-.
    split; [reflexivity|]. cbn [r_err]. eapply sock_read_err; eauto.
Qed.

Lemma sock_read_len : forall now n s r s' t, sock_read now n s = (r, s', t) -> len (r_data r) <= n.
Proof.
  intros now n s r s' t H. unfold sock_read in H.
  destruct (k_closed s); [injection H as <- <- <-; cbn; lia|].
  destruct (expired (k_dl s) now); [injection H as <- <- <-; cbn; lia|].
  destruct (k_in s) as [|c rest].
  - destruct (k_eof s) as [e0|].
    + destruct (expired (k_dl s) (N.max now e0)); injection H as <- <- <-; cbn; lia.
    + destruct (k_dl s); injection H as <- <- <-; cbn; lia.
  - destruct (expired (k_dl s) (N.max now (c_at c))); injection H as <- <- <-; cbn [r_data]; [cbn; lia|].
    apply len_take.
Qed.

(* ------------------------------------------------------------------ the stages *)
Lemma peek_Rel : forall l0 e fuel n buf c s now ok buf' c' s' t,
  Rel l0 e (buf ++ pending c) s now -> peek fuel n buf c s now = (ok, buf', c', s', t) ->
  Rel l0 e (buf' ++ pending c') s' t /\ now <= t /\ (c = CSock -> c' = CSock).
Proof.
  intros l0 e.
  induction fuel as [|f IH]; intros n buf c s now ok buf' c' s' t HR H; cbn [peek] in H.
  - destruct (n <=? len buf); [injection H as <- <- <- <- <-; (split; [exact HR|split; [lia|auto]])|].
    destruct (bufio_size <=? len buf); injection H as <- <- <- <- <-; (split; [exact HR|split; [lia|auto]]).
  - destruct (n <=? len buf); [injection H as <- <- <- <- <-; (split; [exact HR|split; [lia|auto]])|].
    destruct (bufio_size <=? len buf); [injection H as <- <- <- <- <-; (split; [exact HR|split; [lia|auto]])|].
    destruct (conn_read c (bufio_size - len buf) s now) as [[[r c2] s2] t2] eqn:E.
    destruct (conn_read_Rel _ _ _ _ _ _ _ _ _ _ _ HR E) as [HR' Hle].
    rewrite app_assoc in HR'.
    assert (Hshape : c = CSock -> c2 = CSock).
    { intros ->. cbn [conn_read] in E. destruct (sock_read now (bufio_size - len buf) s) as [[r0 s0] t0].
      injection E as <- <- <- <-. reflexivity. }
    destruct (r_err r).
    + injection H as <- <- <- <- <-. split; [exact HR'|split; [exact Hle|exact Hshape]].
    + destruct (IH _ _ _ _ _ _ _ _ _ _ HR' H) as (H1 & H2 & H3). split; [exact H1|split; [lia|auto]].
Qed.

Lemma dns_stage_f_Rel : forall l0 e fuel orc s now c' s' t,
  Rel l0 e [] s now -> dns_stage_f fuel orc CSock s now = (Some c', s', t) ->
  (exists b, c' = CBufio b CSock) /\ Rel l0 e (pending c') s' t /\ now <= t.
Proof.
  intros l0 e fuel orc s now c' s' t HR H. unfold dns_stage_f in H.
  destruct (peek fuel 2 [] CSock (set_dl s (Some (now + c05_dns_first_timeout_ms))) now) as [[[[ok buf] c1] s2] t2] eqn:E1.
  assert (HR0 : Rel l0 e ([] ++ pending CSock) (set_dl s (Some (now + c05_dns_first_timeout_ms))) now)
    by (apply Rel_set_dl; exact HR).
  destruct (peek_Rel _ _ _ _ _ _ _ _ _ _ _ _ _ HR0 E1) as (HR1 & Hle1 & Hs1). specialize (Hs1 eq_refl). subst c1.
  assert (Done1 : (exists b, CBufio buf CSock = CBufio b CSock) /\ Rel l0 e (pending (CBufio buf CSock)) (set_dl s2 None) t2 /\ now <= t2).
  { split; [eexists; reflexivity|]. split; [apply Rel_set_dl; exact HR1|exact Hle1]. }
  destruct (negb ok); [injection H as <- <- <-; exact Done1|].
  destruct (be16 buf <? 12); [injection H as <- <- <-; exact Done1|].
  destruct (peek fuel (2 + be16 buf) buf CSock s2 t2) as [[[[ok2 buf2] c3] s3] t3] eqn:E2.
  destruct (peek_Rel _ _ _ _ _ _ _ _ _ _ _ _ _ HR1 E2) as (HR2 & Hle2 & Hs2). specialize (Hs2 eq_refl). subst c3.
  assert (Done2 : (exists b, CBufio buf2 CSock = CBufio b CSock) /\ Rel l0 e (pending (CBufio buf2 CSock)) (set_dl s3 None) t3 /\ now <= t3).
  { split; [eexists; reflexivity|]. split; [apply Rel_set_dl; exact HR2|lia]. }
  destruct (negb ok2); [injection H as <- <- <-; exact Done2|].
  destruct orc; [injection H as <- <- <-; exact Done2|discriminate|injection H as <- <- <-; exact Done2].
Qed.

Lemma dns_stage_Rel : forall l0 e orc s now c' s' t,
  Rel l0 e [] s now -> dns_stage orc CSock s now = (Some c', s', t) ->
  (exists b, c' = CBufio b CSock) /\ Rel l0 e (pending c') s' t /\ now <= t.
Proof. intros l0 e orc s now c' s' t. unfold dns_stage. apply dns_stage_f_Rel. Qed.

(* prefetch on the bare socket *)
Lemma prefetch_Rel : forall l0 e wait s now c' pre ready s' t,
  Rel l0 e [] s now -> prefetch_stage wait CSock s now = (c', pre, ready, s', t) ->
  Rel l0 e (pending c') s' t /\ now <= t /\
  ((ready = false /\ c' = CSock) \/ (ready = true /\ c' = CPrefixed pre CSock /\ len pre <= c05_prefetch_bytes)).
Proof.
  intros l0 e wait s now c' pre ready s' t HR H. unfold prefetch_stage in H.
  destruct (conn_read CSock c05_prefetch_bytes (set_dl s (Some (now + wait))) now) as [[[r c2] s2] t2] eqn:E.
  assert (HR0 : Rel l0 e ([] ++ pending CSock) (set_dl s (Some (now + wait))) now) by (apply Rel_set_dl; exact HR).
  destruct (conn_read_Rel _ _ _ _ _ _ _ _ _ _ _ HR0 E) as [HR1 Hle]. cbn [app] in HR1.
  cbn [conn_read] in E.
  destruct (sock_read now c05_prefetch_bytes (set_dl s (Some (now + wait)))) as [[r0 s0] t0] eqn:Es.
  injection E as -> <- -> ->. apply sock_read_len in Es.
  destruct (r_data r) as [|x d] eqn:Ed; injection H as <- <- <- <- <-.
  - split; [apply Rel_set_dl; exact HR1|]. split; [exact Hle|]. left. split; reflexivity.
  - split; [apply Rel_set_dl; exact HR1|]. split; [exact Hle|]. right. split; [reflexivity|]. split; [reflexivity|exact Es].
Qed.

Lemma sniff_rounds_Rel : forall l0 e answers dl buf d s now buf' derr c' s' t spin,
  len d < sniff_min_read ->
  Rel l0 e (buf ++ pending (CPrefixed d CSock)) s now ->
  sniff_rounds answers dl buf (CPrefixed d CSock) s now = (buf', derr, c', s', t, spin) ->
  Rel l0 e (buf' ++ pending c') s' t /\ now <= t /\ derr = None /\
  (c' = CPrefixed [] CSock \/ (answers = [] /\ c' = CPrefixed d CSock)).
Proof.
  intros l0 e.
  induction answers as [|[more room] rest IH]; intros dl buf d s now buf' derr c' s' t spin Hlen HR H; cbn [sniff_rounds] in H.
  - injection H as <- <- <- <- <- <-. split; [exact HR|]. split; [lia|]. split; [reflexivity|]. right. split; reflexivity.
  - destruct (conn_read (CPrefixed d CSock) (N.max room sniff_min_read) (set_dl s (Some dl)) now) as [[[r c2] s2] t2] eqn:E.
    pose proof HR as (_ & Hcl & _).
    assert (Hlen' : len d < N.max room sniff_min_read) by lia.
    destruct (prefixed_read d _ (set_dl s (Some dl)) now dl _ _ _ _ Hlen' Hcl eq_refl E) as [Hc2 Herr]. subst c2.
    destruct (conn_read_Rel _ _ _ _ _ _ _ _ _ _ _ (Rel_set_dl _ _ _ _ _ (Some dl) HR) E) as [HR1 Hle].
    rewrite app_assoc in HR1. apply (Rel_set_dl _ _ _ _ _ None) in HR1.
    destruct Herr as [Herr|[Herr|Herr]]; rewrite Herr in H.
    + destruct more.
      * assert (Hl0 : len [] < sniff_min_read) by reflexivity.
        destruct (IH _ _ _ _ _ _ _ _ _ _ _ Hl0 HR1 H) as (H1 & H2 & H3 & H4).
        split; [exact H1|]. split; [lia|]. split; [exact H3|]. left. destruct H4 as [H4|[_ H4]]; exact H4.
      * injection H as <- <- <- <- <- <-. split; [exact HR1|]. split; [exact Hle|]. split; [reflexivity|]. left; reflexivity.
    + destruct (nonempty (buf ++ r_data r) && more); injection H as <- <- <- <- <- <-;
        (split; [eapply Rel_mono; [exact HR1|lia]|]; split; [lia|]; split; [reflexivity|]; left; reflexivity).
    + injection H as <- <- <- <- <- <-. split; [exact HR1|]. split; [exact Hle|]. split; [reflexivity|]. left; reflexivity.
Qed.

Lemma sniff_stage_Rel : forall l0 e answers dl d s now buf' derr c' s' t spin,
  len d < sniff_min_read ->
  Rel l0 e (pending (CPrefixed d CSock)) s now ->
  sniff_stage answers dl (CPrefixed d CSock) s now = (buf', derr, c', s', t, spin) ->
  Rel l0 e (buf' ++ pending c') s' t /\ now <= t /\ derr = None /\ c' = CPrefixed [] CSock.
Proof.
  intros l0 e answers dl d s now buf' derr c' s' t spin Hlen HR H. unfold sniff_stage in H.
  destruct (sniff_rounds_Rel l0 e _ dl [] d s now _ _ _ _ _ _ Hlen HR H) as (H1 & H2 & H3 & H4).
  split; [exact H1|]. split; [exact H2|]. split; [exact H3|]. destruct H4 as [H4|[H4 _]]; [exact H4|]. destruct answers; discriminate.
Qed.

(* ------------------------------------------------------------------ the prologue *)
Lemma port53_no_sniff : forall p, p_port53 p = true -> p_try_sniff p = false.
Proof.
  intros p H. unfold p_port53 in H. apply N.eqb_eq in H.
  unfold p_try_sniff, should_try_sniff. rewrite H.
  assert (Hex : existsb (N.eqb 53) c05_excluded_ports = true) by reflexivity.
  rewrite Hex. cbn [negb]. rewrite andb_false_r. reflexivity.
Qed.

Lemma prologue_Rel : forall l0 e p s0 now0,
  Rel l0 e [] s0 now0 ->
  match ps_conn (prologue p s0 now0) with
  | Some st => ready_stack st /\ Rel l0 e (pending st) (ps_sock (prologue p s0 now0)) (ps_now (prologue p s0 now0))
  | None => True
  end.
Proof.
  intros l0 e p s0 now0 HR. unfold prologue.
  destruct (p_port53 p) eqn:E53.
  - apply port53_no_sniff in E53. rewrite E53.
    destruct (dns_stage (p_dns p) CSock s0 now0) as [[oc s1] t1] eqn:Ed. cbv beta iota.
    destruct oc as [c1|]; [|exact I].
    destruct (dns_stage_Rel _ _ _ _ _ _ _ _ HR Ed) as ([b Hb] & HR1 & _).
    cbn [negb ps_conn ps_sock ps_now]. split; [|exact HR1].
    right; left. exists b. exact Hb.
  - cbv beta iota.
    destruct (negb (p_try_sniff p)).
    { cbn [ps_conn ps_sock ps_now pending]. split; [left; reflexivity|exact HR]. }
    destruct (prefetch_stage (p_sniff_ms p) CSock s0 now0) as [[[[c2 pre] ready] s2] t2] eqn:Ep.
    destruct (prefetch_Rel _ _ _ _ _ _ _ _ _ _ HR Ep) as (HR2 & Hle2 & Hsh).
    destruct Hsh as [[-> ->]|(-> & -> & Hlen)].
    { cbn [negb ps_conn ps_sock ps_now]. split; [left; reflexivity|exact HR2]. }
    cbn [negb].
    destruct (negb (is_likely_http_or_tls pre)).
    { cbn [ps_conn ps_sock ps_now]. split; [|exact HR2]. right; right; left. exists pre. reflexivity. }
    destruct (sniff_stage (p_answers p) (t2 + p_sniff_ms p) (CPrefixed pre CSock) s2 t2) as [[[[[buf derr] c3] s3] t3] spin] eqn:Es.
    assert (Hlt : len pre < sniff_min_read).
    { pose proof prefetch_lt_min_read as Hc. apply N.ltb_lt in Hc. lia. }
    destruct (sniff_stage_Rel _ _ _ _ _ _ _ _ _ _ _ _ _ Hlt HR2 Es) as (HR3 & _ & -> & ->).
    cbn [ps_conn ps_sock ps_now]. split; [|exact HR3].
    right; right; right. exists buf. reflexivity.
Qed.

Lemma before_cut_norm : forall start cut sd,
  before_cut start cut sd = deliverable start cut (norm_chunks (s_chunks sd)).
Proof. intros start cut [l e]. symmetry. apply deliverable_norm. Qed.

Lemma Rel_init : forall client, wf_side client ->
  Rel (norm_chunks (s_chunks client)) (s_eof client) [] (mk_sock client) 0.
Proof.
  intros client Hwf. unfold Rel, mk_sock. cbn [k_eof k_closed k_in].
  split; [reflexivity|]. split; [reflexivity|]. split; [apply wf_norm; exact Hwf|].
  split; [apply norm_nonempty|]. intros. reflexivity.
Qed.

Theorem prologue_ready : prologue_ready_stmt.
Proof.
  unfold prologue_ready_stmt. intros p client Hwf. cbv zeta.
  pose proof (prologue_Rel _ _ p _ _ (Rel_init client Hwf)) as HP.
  pose proof (no_stale_deadline_proof p (mk_sock client) 0 eq_refl) as HD.
  destruct (ps_conn (prologue p (mk_sock client) 0)) as [st|]; [|exact I].
  destruct HP as [Hready (He & Hc & Hw & Hn & Heq)].
  split; [exact Hready|]. split; [exact HD|]. split; [exact Hc|]. split; [exact He|].
  split; [exact Hw|]. split; [exact Hn|].
  intros cut Ho. rewrite before_cut_norm. apply Heq; [lia|exact Ho].
Qed.

Print Assumptions prologue_ready.
