(* C17 — configuration text becomes exactly the configuration it spells, or a clean error.
   The property in its own terms: what is written (a syntax tree that remembers the quoting style of every
   value), how it is spelled (show), what configuration it denotes (erase: the tree the rest of dae consumes),
   how included files combine (merge), and what building may answer (a value or an error - never a crash). *)
From Coq Require Import List NArith Bool.
Import ListNotations.
Open Scope N_scope.

Definition str := list N.                     (* a text: bytes *)

(* ------------------------------------------------------------------ characters *)
Definition in_range (lo hi c : N) : bool := (lo <=? c) && (c <=? hi).
Definition id_head (c : N) : bool := in_range 65 90 c || (c =? 95) || in_range 97 122 c.     (* A-Z _ a-z *)
Definition nonid_head (c : N) : bool :=                                                    (* * + - . / 0-9 \ ^ *)
  in_range 42 43 c || in_range 45 57 c || (c =? 92) || (c =? 94).
Definition intermediate (c : N) : bool := (c =? 33) || in_range 35 37 c || (c =? 61) || (c =? 64). (* ! # $ % = @ *)
Definition safe_char (c : N) : bool := id_head c || nonid_head c || intermediate c.

(* ------------------------------------------------------------------ what is written *)
Inductive quoting := QBare | QDouble | QSingle.
Record lit := Lit { lit_q : quoting; lit_text : str }.
Record sparam := SParam { sp_key : option str; sp_val : lit }.
Record sfunc := SFunc { sf_not : bool; sf_name : str; sf_params : list sparam }.
Inductive soutbound := OBare (name : str) | OFunc (f : sfunc).
Inductive svalue := VLits (ls : list lit) | VFuncs (fs : list sfunc).
Inductive sitem :=
| IRule (conds : list sfunc) (out : soutbound)          (* f(..) && !g(..) -> outbound *)
| IDecl (key : str) (v : svalue) (annot : list sparam)  (* key: value [annotation] ; annot = [] : none *)
| ILit (l : lit)                                        (* a value on its own *)
| ISection (name : str) (items : list sitem).           (* name { ... } *)
Definition ssection : Type := str * list sitem.
Definition sconfig := list ssection.

(* ------------------------------------------------------------------ well-formed spellings *)
Definition is_id (s : str) : bool :=
  match s with c :: r => id_head c && forallb safe_char r | [] => false end.
(* a bare value that does not start like a name; one beginning with the comment opener is a comment *)
Definition is_nonid (s : str) : bool :=
  match s with
  | c :: r => nonid_head c && forallb safe_char r
              && negb ((c =? 47) && match r with d :: _ => d =? 42 | [] => false end)
  | [] => false
  end.
(* inside quotes: every quote character of the same kind is preceded by a backslash, and the text does not
   end in a backslash (the backslashes are kept: dae does not unescape) *)
Fixpoint quote_ok (q : N) (prev_bs : bool) (t : str) : bool :=
  match t with
  | [] => negb prev_bs
  | c :: r => (if c =? q then prev_bs else true) && quote_ok q (if c =? q then false else c =? 92) r
  end.
Definition wf_lit (l : lit) : bool :=
  match lit_q l with
  | QBare => is_id (lit_text l) || is_nonid (lit_text l)
  | QDouble => quote_ok 34 false (lit_text l)
  | QSingle => quote_ok 39 false (lit_text l)
  end.
Definition wf_param (p : sparam) : bool :=
  (match sp_key p with Some k => is_id k | None => true end) && wf_lit (sp_val p).
Definition nonempty {A} (l : list A) : bool := match l with [] => false | _ => true end.
Definition wf_func (f : sfunc) : bool :=
  is_id (sf_name f) && nonempty (sf_params f) && forallb wf_param (sf_params f).
Definition wf_outbound (o : soutbound) : bool :=
  match o with OBare n => is_id n || is_nonid n | OFunc f => wf_func f end.
Definition wf_value (v : svalue) : bool :=
  match v with
  | VLits ls => nonempty ls && forallb wf_lit ls
  | VFuncs fs => nonempty fs && forallb wf_func fs
  end.
Fixpoint wf_item (i : sitem) : bool :=
  match i with
  | IRule conds out => nonempty conds && forallb wf_func conds && wf_outbound out
  | IDecl k v a => is_id k && wf_value v && forallb wf_param a
  | ILit l => wf_lit l
  | ISection n items => is_id n && forallb wf_item items
  end.
Definition wf_section (s : ssection) : bool := is_id (fst s) && forallb wf_item (snd s).
Definition wf_config (c : sconfig) : bool := forallb wf_section c.

(* ------------------------------------------------------------------ how it is spelled *)
Definition sp : str := [32].
Definition show_lit (l : lit) : str :=
  match lit_q l with
  | QBare => lit_text l
  | QDouble => 34 :: lit_text l ++ [34]
  | QSingle => 39 :: lit_text l ++ [39]
  end.
(* every token is followed by one space *)
Definition w (s : str) : str := s ++ sp.
Definition show_param (p : sparam) : str :=
  match sp_key p with
  | Some k => w k ++ w [58] ++ w (show_lit (sp_val p))
  | None => w (show_lit (sp_val p))
  end.
Fixpoint show_sep {A} (sep : str) (f : A -> str) (l : list A) : str :=
  match l with
  | [] => []
  | [x] => f x
  | x :: r => f x ++ w sep ++ show_sep sep f r
  end.
Definition show_func (f : sfunc) : str :=
  (if sf_not f then w [33] else []) ++ w (sf_name f) ++ w [40] ++ show_sep [44] show_param (sf_params f) ++ w [41].
Definition show_outbound (o : soutbound) : str :=
  match o with OBare n => w n | OFunc f => show_func f end.
Definition show_value (v : svalue) : str :=
  match v with
  | VLits ls => show_sep [44] (fun l => w (show_lit l)) ls
  | VFuncs fs => show_sep [38; 38] show_func fs
  end.
Definition show_annot (a : list sparam) : str :=
  match a with [] => [] | _ => w [91] ++ show_sep [44] show_param a ++ w [93] end.
Fixpoint show_item (i : sitem) : str :=
  match i with
  | IRule conds out => show_sep [38; 38] show_func conds ++ w [45; 62] ++ show_outbound out
  | IDecl k v a => w k ++ w [58] ++ show_value v ++ show_annot a
  | ILit l => w (show_lit l)
  | ISection n items => w n ++ w [123] ++ flat_map show_item items ++ w [125]
  end.
Definition show_section (s : ssection) : str :=
  w (fst s) ++ w [123] ++ flat_map show_item (snd s) ++ w [125].
Definition show (c : sconfig) : str := flat_map show_section c.

(* ------------------------------------------------------------------ what it denotes *)
(* the configuration tree handed to the rest of dae: quoting is forgotten, a list of values is one value
   joined by commas, a bare outbound is a function without parameters *)
Record kv := KV { kv_key : str; kv_val : str }.
Record gfunc := GFunc { gf_name : str; gf_not : bool; gf_params : list kv }.
Record gparam := GParam { gp_key : str; gp_val : str; gp_funcs : list gfunc; gp_annot : list kv }.
Inductive gitem :=
| GRule (conds : list gfunc) (out : gfunc)
| GParamI (p : gparam)
| GSection (name : str) (items : list gitem).
Definition gsection : Type := str * list gitem.

Definition erase_param (p : sparam) : kv :=
  KV (match sp_key p with Some k => k | None => [] end) (lit_text (sp_val p)).
Definition erase_func (f : sfunc) : gfunc := GFunc (sf_name f) (sf_not f) (map erase_param (sf_params f)).
Fixpoint join_comma (ls : list str) : str :=
  match ls with [] => [] | [x] => x | x :: r => x ++ 44 :: join_comma r end.
Fixpoint erase_item (i : sitem) : gitem :=
  match i with
  | IRule conds out =>
      GRule (map erase_func conds)
            (match out with OBare n => GFunc n false [] | OFunc f => erase_func f end)
  | IDecl k (VLits ls) a => GParamI (GParam k (join_comma (map lit_text ls)) [] (map erase_param a))
  | IDecl k (VFuncs fs) a => GParamI (GParam k [] (map erase_func fs) (map erase_param a))
  | ILit l => GParamI (GParam [] (lit_text l) [] [])
  | ISection n items => GSection n (map erase_item items)
  end.
Definition erase_section (s : ssection) : gsection := (fst s, map erase_item (snd s)).
Definition denote (c : sconfig) : list gsection := map erase_section c.

(* every answer of a configuration stage is a value or an error message; a crash is not an answer *)
Inductive answer (A : Type) := Value (a : A) | Rejected.
Arguments Value {A} _.
Arguments Rejected {A}.

(* ------------------------------------------------------------------ merging included files *)
(* Items of equally named sections are concatenated: the including file first, then every included file
   (itself merged the same way) in listed order. *)
Definition section_map := list (str * list gitem).     (* association list, first occurrence wins *)
Fixpoint str_eqb (a b : str) : bool :=
  match a, b with
  | [], [] => true
  | x :: a', y :: b' => (x =? y) && str_eqb a' b'
  | _, _ => false
  end.
Fixpoint sm_get (m : section_map) (n : str) : list gitem :=
  match m with [] => [] | (k, v) :: r => if str_eqb k n then v else sm_get r n end.
Fixpoint sm_has (m : section_map) (n : str) : bool :=
  match m with [] => false | (k, _) :: r => str_eqb k n || sm_has r n end.

(* an include tree, already resolved: a file's own sections and its children in listed order *)
Inductive inc_tree := IncNode (path : str) (own : list gsection) (children : list inc_tree).
Definition own_items (own : list gsection) (n : str) : list gitem :=
  flat_map (fun s => if str_eqb (fst s) n then snd s else []) own.
Fixpoint merged_items (t : inc_tree) (n : str) : list gitem :=
  match t with
  | IncNode _ own ch => own_items own n ++ flat_map (fun c => merged_items c n) ch
  end.
Fixpoint tree_paths (t : inc_tree) : list str :=
  match t with IncNode p _ ch => p :: flat_map tree_paths ch end.
Fixpoint tree_names (t : inc_tree) : list str :=
  match t with IncNode _ own ch => map fst own ++ flat_map tree_names ch end.

(* ------------------------------------------------------------------ capacity *)
(* a routing program of more match sets than the supported size is answered with an error *)
Definition capacity_answer (limit n_match_sets : N) (ok : bool) : Prop :=
  limit <? n_match_sets = true -> ok = false.
