(* C07 — lemmas about the forwarder cache (dnsForwarderKey / getOrCreateDnsForwarder). *)
From Coq Require Import List NArith Bool String Ascii Arith Lia ZifyBool ZifyN ZifyNat.
From Dae Require Import C07_Spec C07_Model.
From Dae.gen Require C07_FwdKey.
Import ListNotations.
Open Scope N_scope.

Lemma comp_eqb_eq a b : comp_eqb a b = true -> a = b.
Proof.
  destruct a, b; cbn; try discriminate; intros H; f_equal; [now apply String.eqb_eq|now apply N.eqb_eq].
Qed.
Lemma comps_eqb_eq : forall a b, comps_eqb a b = true -> a = b.
Proof.
  induction a as [|x a IH]; destruct b as [|y b]; cbn; try discriminate; [reflexivity|].
  intros H. apply andb_true_iff in H. destruct H as [H1 H2]. f_equal; [now apply comp_eqb_eq|now apply IH].
Qed.
Lemma fkey_eqb_eq a b : fkey_eqb a b = true -> a = b.
Proof.
  destruct a, b. unfold fkey_eqb. cbn [fst snd]. intros H. apply andb_true_iff in H. destruct H as [H1 H2].
  f_equal; now apply comps_eqb_eq.
Qed.

Lemma map_eq_in {A B} (f g : A -> B) : forall l, map f l = map g l -> forall x, In x l -> f x = g x.
Proof.
  induction l as [|y l IH]; intros H x Hin; [destruct Hin|]. cbn [map] in H. inversion H.
  destruct Hin as [->|Hin]; [assumption|now apply IH].
Qed.

(* a key that holds scheme, host, port and path of the upstream separates different upstreams *)
Lemma fwd_key_of_injective ufs dfs u1 d1 u2 d2 :
  (forall c, In c [1; 2; 3; 4] -> In c ufs) ->
  fwd_key_of ufs dfs u1 d1 = fwd_key_of ufs dfs u2 d2 -> uid_same u1 u2 = true.
Proof.
  intros Hall H. unfold fwd_key_of in H. inversion H as [[Hu Hd]]. clear H Hd.
  pose proof (map_eq_in _ _ _ Hu) as Hc.
  assert (H1 := Hc 1 (Hall 1 ltac:(cbn; tauto))). assert (H2 := Hc 2 (Hall 2 ltac:(cbn; tauto))).
  assert (H3 := Hc 3 (Hall 3 ltac:(cbn; tauto))). assert (H4 := Hc 4 (Hall 4 ltac:(cbn; tauto))).
  cbn in H1, H2, H3, H4. inversion H1. inversion H2. inversion H3. inversion H4.
  unfold uid_same. now rewrite H0, H5, H6, H7, !String.eqb_refl, N.eqb_refl.
Qed.

Lemma code_key_complete : forall c, In c [1; 2; 3; 4] -> In c C07_FwdKey.FwdKeyUpstreamFields.
Proof.
  assert (H : forallb (fun c => existsb (N.eqb c) C07_FwdKey.FwdKeyUpstreamFields) [1; 2; 3; 4] = true) by (vm_compute; reflexivity).
  rewrite forallb_forall in H. intros c Hc. specialize (H c Hc). apply existsb_exists in H. destruct H as [y [Hy E]].
  apply N.eqb_eq in E. now subst.
Qed.

Lemma C07_forwarder_key_injective_proof u1 d1 u2 d2 : fwd_key u1 d1 = fwd_key u2 d2 -> uid_same u1 u2 = true.
Proof. apply fwd_key_of_injective. exact code_key_complete. Qed.

Lemma C07_scheme_only_key_refuted_proof :
  exists u1 u2 d, fwd_key_of [1] C07_FwdKey.FwdKeyDialFields u1 d = fwd_key_of [1] C07_FwdKey.FwdKeyDialFields u2 d
                  /\ uid_same u1 u2 = false.
Proof.
  exists {| u_scheme := "https"; u_host := "9.9.9.9"; u_port := 443; u_path := "/profile-a" |},
         {| u_scheme := "https"; u_host := "9.9.9.9"; u_port := 443; u_path := "/profile-b" |},
         {| d_l4 := 1; d_ipv := 4; d_dialer := ""; d_outbound := ""; d_target := (0x09090909, 443); d_mark := 0; d_mptcp := false |}.
  split; reflexivity.
Qed.

Lemma C07_pathless_key_refuted_proof :
  exists u1 u2 d, fwd_key_of [1; 2; 3] C07_FwdKey.FwdKeyDialFields u1 d = fwd_key_of [1; 2; 3] C07_FwdKey.FwdKeyDialFields u2 d
                  /\ uid_same u1 u2 = false.
Proof.
  exists {| u_scheme := "https"; u_host := "9.9.9.9"; u_port := 443; u_path := "/profile-a" |},
         {| u_scheme := "https"; u_host := "9.9.9.9"; u_port := 443; u_path := "/profile-b" |},
         {| d_l4 := 1; d_ipv := 4; d_dialer := ""; d_outbound := ""; d_target := (0x09090909, 443); d_mark := 0; d_mptcp := false |}.
  split; reflexivity.
Qed.

(* every cached forwarder sits under the key of the upstream it was created for *)
Definition fc_inv (fc : fcache) : Prop := forall k b, In (k, b) fc -> exists d, k = fwd_key b d.

Lemma get_or_create_ok fc u d : fc_inv fc ->
  uid_same (fst (get_or_create fc u d)) u = true /\ fc_inv (snd (get_or_create fc u d)).
Proof.
  intros Hinv. unfold get_or_create. destruct (find _ fc) as [[k b]|] eqn:E; cbn [fst snd].
  - split; [|exact Hinv]. apply find_some in E. destruct E as [Hin Hk]. cbn [fst] in Hk. apply fkey_eqb_eq in Hk.
    destruct (Hinv k b Hin) as [d' Hd']. subst k. now apply (C07_forwarder_key_injective_proof b d' u d).
  - split.
    + unfold uid_same. now rewrite !String.eqb_refl, N.eqb_refl.
    + intros k b [E'|Hin]; [inversion E'; subst; now exists d|now apply Hinv].
Qed.

Lemma retire_inv fc k : fc_inv fc -> fc_inv (retire fc k).
Proof. intros H k' b Hin. unfold retire in Hin. apply filter_In in Hin. destruct Hin as [Hin _]. now apply H. Qed.

Lemma run_forward_ok : forall h fc, fc_inv fc ->
  Forall2 (fun b s => uid_same b (fs_u s) = true) (fst (run_forward fc h)) h /\ fc_inv (snd (run_forward fc h)).
Proof.
  induction h as [|s h IH]; intros fc Hinv; cbn [run_forward]; [split; [constructor|exact Hinv]|].
  destruct (get_or_create_ok fc (fs_u s) (fs_d s) Hinv) as [H1 H2].
  destruct (get_or_create fc (fs_u s) (fs_d s)) as [b fc1]. cbn [fst snd] in H1, H2.
  set (fc2 := if fs_fail s && (d_l4 (fs_d s) =? L4_UDP) then retire fc1 (fwd_key (fs_u s) (fs_d s)) else fc1).
  assert (Hinv2 : fc_inv fc2) by (unfold fc2; destruct (fs_fail s && (d_l4 (fs_d s) =? L4_UDP)); [now apply retire_inv|exact H2]).
  destruct (IH fc2 Hinv2) as [H3 H4]. destruct (run_forward fc2 h) as [bs fc3]. cbn [fst snd] in *.
  split; [constructor; assumption|exact H4].
Qed.

Lemma C07_forwarder_for_chosen_upstream_proof (h : list fstep) :
  Forall2 (fun b s => uid_same b (fs_u s) = true) (fst (run_forward [] h)) h /\
  carried_ok (map fs_u h) (fst (run_forward [] h)) = true.
Proof.
  assert (H0 : fc_inv []) by (intros k b []).
  destruct (run_forward_ok h [] H0) as [H _]. split; [exact H|].
  induction H as [|b s bs l Hb _ IH]; [reflexivity|]. cbn [map carried_ok].
  assert (Hs : uid_same (fs_u s) b = true).
  { unfold uid_same in *. repeat (apply andb_true_iff in Hb; destruct Hb as [Hb ?]).
    apply String.eqb_eq in Hb. apply String.eqb_eq in H. apply N.eqb_eq in H1. apply String.eqb_eq in H2.
    rewrite Hb, H, H1, H2. now rewrite !String.eqb_refl, N.eqb_refl. }
  now rewrite Hs, IH.
Qed.
