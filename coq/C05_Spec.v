(* C05 - TCP relay delivers both byte streams intact and honours half-close.
   Spec: the property in its own terms.  A side of a proxied connection is an arrival script: chunks of
   bytes with the (virtual) millisecond at which they reach dae's socket, and optionally the instant of
   the end of stream.  What the user relies on:
     - what the peer receives is a prefix of what was sent, the whole of it once the end of stream has
       been passed on (no loss, duplication or reordering, whatever the segmentation);
     - end of stream on one side is passed on as exactly one write-shutdown, after all its bytes, while
       the opposite direction keeps flowing for the grace period;
     - when the relay starts, no read deadline armed by dae's protocol detection is left on the client
       socket and no detection error is left in the reader (a healthy connection is never cut by them);
     - detection delays the connection by no more than the windows of the detection stages it ran. *)
From Coq Require Import List NArith Bool.
Import ListNotations.
Open Scope N_scope.

Record chunk := mkChunk { c_at : N; c_data : list N }.
Record side := mkSide { s_chunks : list chunk; s_eof : option N }.

Definition stream (s : side) : list N := concat (map c_data (s_chunks s)).

Fixpoint is_prefix (a b : list N) : bool :=
  match a, b with
  | [], _ => true
  | x :: a', y :: b' => (x =? y) && is_prefix a' b'
  | _ :: _, [] => false
  end.

Fixpoint list_eqb (a b : list N) : bool :=
  match a, b with
  | [], [] => true
  | x :: a', y :: b' => (x =? y) && list_eqb a' b'
  | _, _ => false
  end.

(* an arrival script is time-ordered and its end of stream is not earlier than its data *)
Fixpoint sorted_from (t : N) (l : list chunk) : Prop :=
  match l with [] => True | c :: r => t <= c_at c /\ sorted_from (c_at c) r end.
Definition wf_chunks (l : list chunk) (eof : option N) : Prop :=
  sorted_from 0 l /\ forall c, In c l -> match eof with Some e => c_at c <= e | None => True end.
Definition wf_side (s : side) : Prop := wf_chunks (s_chunks s) (s_eof s).

(* Prop form used by the theorems *)
Definition prefix_of (a b : list N) : Prop := exists r, b = a ++ r.

(* ---- executable expectation for a healthy connection (used for impl=spec and model=spec) ---- *)

Definition olt (a : N) (b : option N) : bool := match b with Some y => a <? y | None => true end.
Definition omin (a b : option N) : option N :=
  match a, b with Some x, Some y => Some (N.min x y) | Some x, None => Some x | None, y => y end.

(* the instant the relay can observe an arrival: not before it started *)
Definition seen (start t : N) : N := N.max start t.

(* end of stream of side s as the relay sees it *)
Definition eof_seen (start : N) (s : side) : option N := option_map (seen start) (s_eof s).

(* bytes of s that arrive strictly before the cut *)
Definition before_cut (start : N) (cut : option N) (s : side) : list N :=
  concat (map c_data (filter (fun c => olt (seen start (c_at c)) cut) (s_chunks s))).

Record expectation := mkExp {
  x_up : list N;          (* what the upstream must have received *)
  x_down : list N;        (* what the client must have received *)
  x_up_shut : bool;       (* the client's end of stream was passed on to the upstream *)
  x_down_shut : bool;
  x_alive : bool          (* nothing ended the connection: still relaying when all is quiet *)
}.

(* Direction "from s" may be cut only by the grace period that starts when the OTHER side's end of stream
   is seen first. *)
Definition cut_of (grace start : N) (own other : side) : option N :=
  match eof_seen start other with
  | Some eo => if olt eo (eof_seen start own) then Some (eo + grace) else None
  | None => None
  end.

Definition shut_of (start : N) (cut : option N) (own : side) : bool :=
  match eof_seen start own with Some e => olt e cut | None => false end.

Definition expect (grace start : N) (client server : side) : expectation :=
  let cutU := cut_of grace start client server in
  let cutD := cut_of grace start server client in
  let su := shut_of start cutU client in
  let sd := shut_of start cutD server in
  mkExp (before_cut start cutU client) (before_cut start cutD server) su sd
        (negb (su || sd) ).

(* Detection delay.  Reading of "dae's own protocol-detection deadlines delay a connection by no more than
   their detection window": every detection stage arms one deadline with its own window (DNS peek: the
   DNS-over-TCP first-read timeout; prefetch: the sniffing timeout; sniffer: the sniffing timeout again, counted
   from the end of the prefetch), and the relay starts no later than the SUM of the windows of the stages that
   actually ran on this connection.  (So a sniffed connection may wait up to twice the sniffing timeout.) *)
Definition allowed_delay (dns_window sniff_window : N) (ran_dns ran_prefetch ran_sniff : bool) : N :=
  (if ran_dns then dns_window else 0) + (if ran_prefetch then sniff_window else 0) + (if ran_sniff then sniff_window else 0).
