(* C10 — property theorems for CONCURRENT syncOwner calls (control/domain_routing_tracker.go).
   `sync_prog` is the instruction order extracted from the source on every run (gen/C10_SyncProg.v);
   the theorems below are stated about it and close only while it holds the mutex across Plan, Write and
   Apply (they are proved for C10_Conc_Model.code_prog and `exact` needs sync_prog to be that list). *)
From Coq Require Import List NArith Bool.
From Dae Require Import C10_Spec C10_Model C10_Conc_Model C10_Conc_Proofs.
From Dae.gen Require Import C10_SyncProg.
Import ListNotations.

(* For ANY number of goroutines, ANY lists of syncOwner calls they make and ANY interleaving of their
   steps (every schedule; a blocked Lock is a step that does nothing): the calls whose bookkeeping has
   been applied, in that order, form a sequential history h that, thread by thread, is exactly the
   prefix of what the thread had to do (nothing lost, duplicated or reordered within a thread), and
   whenever a sync has just completed or nothing is running (`settled`: the mutex is free, or its holder
   is at its Unlock) tracker and kernel map are those of the sequential run of h - so C10_mirror
   applies: the kernel table is the OR of the live owners' bitmaps at every address. *)
Theorem C10_mirror_concurrent :
  forall (todos : nat -> list op) (sched : list nat),
    let g := crun sync_prog (cinit todos) sched in
    let h := map snd (g_hist g) in
    (forall i, done_by (g_hist g) i ++ pending (g_threads g i) = todos i) /\
    (settled g ->
     (g_tracker g, g_kmap g) = run h /\ forall ip, g_kmap g ip = table_entry h ip).
Proof. exact C10_mirror_concurrent_proof. Qed.
Print Assumptions C10_mirror_concurrent.

(* Mutual exclusion as the invariant used above: a goroutine that does not hold the mutex is before its
   Lock or after its Unlock, never between Plan and Apply. *)
Theorem C10_concurrent_exclusion :
  forall (todos : nat -> list op) (sched : list nat) (j : nat),
    let g := crun sync_prog (cinit todos) sched in
    g_lock g <> Some j ->
    th_cur (g_threads g j) = None \/
    (exists o, th_cur (g_threads g j) = Some (o, sync_prog)) \/
    (exists o, th_cur (g_threads g j) = Some (o, [])).
Proof. exact C10_concurrent_exclusion_proof. Qed.
Print Assumptions C10_concurrent_exclusion.

(* The statement for a program that releases the mutex around the kernel write, and its refutation:
   owners 1 and 2 share address 10 (bitmaps 1 and 2); plan A, plan B, write A, write B, apply A,
   apply B, then both entries are re-synced.  Everything has finished, the kernel holds bitmap 2 for
   the address, the table of the (only possible, up to order) history is 3, and the tracker's merged
   value is 3 - which is why the re-syncs emitted no correction. *)
(* (Definition C10_mirror_concurrent_unlocked, in C10_Conc_Proofs.v:
     forall todos sched ip, let g := crun unlocked_write_prog (cinit todos) sched in
       settled g -> g_kmap g ip = table_entry (map snd (g_hist g)) ip.) *)
Theorem C10_mirror_concurrent_unlocked_refuted : ~ C10_mirror_concurrent_unlocked.
Proof. exact C10_mirror_concurrent_unlocked_refuted_neg. Qed.
Print Assumptions C10_mirror_concurrent_unlocked_refuted.

Example C10_concurrent_nonvacuous :
  (* the same two owners and the same adversarial schedule under the program of the source: the second
     goroutine's Lock steps do nothing while the first holds the mutex; the schedule is then completed *)
  let g := crun sync_prog (cinit unlocked_witness_todos)
                (unlocked_witness_sched ++ repeat 0%nat 16 ++ repeat 1%nat 16) in
  settled g /\ finished (g_threads g 0%nat) = true /\ finished (g_threads g 1%nat) = true /\
  length (g_hist g) = 4%nat /\ g_kmap g 10%N = Some 3%N /\ table_entry (map snd (g_hist g)) 10%N = Some 3%N.
Proof. vm_compute. repeat split; reflexivity. Qed.
