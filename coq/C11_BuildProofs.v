(* C11 — Build's publication under every interleaving; order-insensitivity of the lookup loops. *)
From Coq Require Import List NArith Bool Sorting.Permutation Lia.
From Dae Require Import C11_Build.
Import ListNotations.
Open Scope N_scope.

Lemma take_nth_perm : forall {A} j (l : list A) x r, take_nth j l = Some (x, r) -> Permutation l (x :: r).
Proof.
  intros A j. induction j as [|j IH]; intros [|y l] x r H; simpl in H; try discriminate.
  - inversion H; subst. apply Permutation_refl.
  - destruct (take_nth j l) as [[z r']|] eqn:E; [|discriminate]. inversion H; subst.
    apply IH in E. eapply Permutation_trans; [apply perm_skip, E | apply perm_swap].
Qed.

(* invariant of the locked discipline: nobody is ever between read and write, and published ++ pending is
   the set of workers *)
Lemma locked_inv : forall sched s idxs,
  b_mid s = [] -> Permutation (b_valid s ++ b_todo s) idxs ->
  let s' := fold_left (bstep Locked) sched s in
  b_mid s' = [] /\ Permutation (b_valid s' ++ b_todo s') idxs.
Proof.
  induction sched as [|c sched IH]; intros s idxs Hm Hp; [now split|]. cbn [fold_left]. apply IH.
  - destruct c as [j|j]; cbn [bstep].
    + destruct (take_nth j (b_todo s)) as [[i rest]|]; [exact Hm | exact Hm].
    + rewrite Hm. now destruct j.
  - destruct c as [j|j]; cbn [bstep].
    + destruct (take_nth j (b_todo s)) as [[i rest]|] eqn:E; [|exact Hp]. cbn [b_valid b_todo].
      apply take_nth_perm in E. rewrite <- app_assoc. cbn [app].
      eapply Permutation_trans; [|exact Hp]. apply Permutation_app_head. now apply Permutation_sym.
    + rewrite Hm. destruct j; exact Hp.
Qed.

Lemma locked_valid : forall idxs sched,
  bdone (brun Locked idxs sched) = true -> Permutation (b_valid (brun Locked idxs sched)) idxs.
Proof.
  intros idxs sched Hd. unfold brun in *.
  destruct (locked_inv sched (Build_bstate nil idxs nil) idxs eq_refl (Permutation_refl idxs)) as [Hm Hp].
  cbv zeta in *. set (s' := fold_left (bstep Locked) sched _) in *.
  unfold bdone in Hd. destruct (b_todo s'); [|discriminate]. now rewrite app_nil_r in Hp.
Qed.

(* the lookup loop sets bit i iff i is in the list and its structure matches *)
Lemma loop_bits_from : forall (valid : list N) (has : N -> bool) (bm i : N),
  N.testbit (fold_left (fun bm i => if N.testbit bm i then bm else if has i then N.setbit bm i else bm) valid bm) i
  = N.testbit bm i || existsb (fun j => (j =? i) && has j) valid.
Proof.
  induction valid as [|j valid IH]; intros has bm i; cbn [fold_left existsb]; [now rewrite orb_false_r|].
  rewrite IH. destruct (N.testbit bm j) eqn:Ej.
  - destruct (N.eqb_spec j i) as [->|Hne]; cbn [andb orb]; [rewrite Ej; reflexivity | reflexivity].
  - destruct (has j) eqn:Hj.
    + destruct (N.eqb_spec j i) as [->|Hne]; cbn [andb orb].
      * rewrite N.setbit_eq. now rewrite orb_true_r.
      * rewrite N.setbit_neq by exact Hne. reflexivity.
    + destruct (N.eqb_spec j i) as [->|Hne]; cbn [andb orb]; reflexivity.
Qed.

Lemma loop_bits_spec : forall valid has i,
  N.testbit (loop_bits valid has) i = existsb (fun j => (j =? i) && has j) valid.
Proof. intros. unfold loop_bits. rewrite loop_bits_from. reflexivity. Qed.

Lemma existsb_perm : forall {A} (f : A -> bool) l l', Permutation l l' -> existsb f l = existsb f l'.
Proof.
  intros A f l l' H. induction H as [|x l l' H IH|x y l|l l' l'' H1 IH1 H2 IH2]; cbn [existsb].
  - reflexivity.
  - now rewrite IH.
  - destruct (f x), (f y); reflexivity.
  - congruence.
Qed.

(* the answer does not depend on the order in which the workers published *)
Lemma loop_bits_perm : forall v v' has, Permutation v v' -> loop_bits v has = loop_bits v' has.
Proof.
  intros v v' has H. apply N.bits_inj. intro i. rewrite !loop_bits_spec. now apply existsb_perm.
Qed.

(* under the lock discipline, for every interleaving, bit i is set iff i is the index of a worker (a non-empty
   set) whose structure matches *)
Lemma build_locked_answer : forall idxs sched has i,
  bdone (brun Locked idxs sched) = true ->
  N.testbit (loop_bits (b_valid (brun Locked idxs sched)) has) i = existsb (fun j => (j =? i) && has j) idxs.
Proof.
  intros idxs sched has i Hd. rewrite loop_bits_spec. apply existsb_perm. now apply locked_valid.
Qed.

Lemma build_shape_answer : forall sh idxs sched has i,
  shape_disc sh = Locked -> bdone (brun (shape_disc sh) idxs sched) = true ->
  N.testbit (loop_bits (b_valid (brun (shape_disc sh) idxs sched)) has) i = existsb (fun j => (j =? i) && has j) idxs.
Proof. intros sh idxs sched has i Hs. rewrite Hs. apply build_locked_answer. Qed.

(* lost update: two workers read length 0, both write slot 0 *)
Lemma build_racy_refuted :
  exists idxs sched has i,
    bdone (brun Racy idxs sched) = true /\ In i idxs /\ has i = true
    /\ N.testbit (loop_bits (b_valid (brun Racy idxs sched)) has) i = false.
Proof.
  exists [1; 2], [Start 0; Start 0; Finish 0; Finish 0], (fun _ => true), 1.
  repeat split; try reflexivity. now left.
Qed.

Lemma build_nonvacuous :
  let idxs := [5; 0; 1023; 64] in
  let sched := [Start 2; Start 0; Finish 0; Start 1; Start 0] in
  bdone (brun Locked idxs sched) = true /\ b_valid (brun Locked idxs sched) = [1023; 5; 64; 0]
  /\ map (N.testbit (loop_bits (b_valid (brun Locked idxs sched)) (fun i => negb (i =? 64)))) [0; 5; 64; 1023; 7]
     = [true; true; false; true; false].
Proof. vm_compute. repeat split; reflexivity. Qed.
