(* C02 — the kernel routing program and the userspace matcher decide identically.
   The property in its own terms.  It is a relation between two deciders for the same packet:
     user   : what the control plane's own matcher answers (a decision, or no decision at all)
     kernel : the 64-bit word the datapath's routing function returns, as its callers read it
   and says that they are equal except for the one intended difference: a DNS query (destination port 53) that is
   not covered by a must rule is handed to the control plane for DNS routing. *)
From Coq Require Import List NArith Bool.
From Dae Require Import C01_Spec.
Import ListNotations.
Open Scope N_scope.

(* the reserved outbound id "let the control plane route this" (OUTBOUND_CONTROL_PLANE_ROUTING / consts.OutboundControlPlaneRouting) *)
Definition CONTROL_PLANE_ROUTING : N := 0xFD.

(* decision = (outbound id, fwmark, must) as in C01 *)
Definition dns_adjust (dport : N) (d : decision) : decision :=
  let '(o, mark, must) := d in
  if (dport =? 53) && negb must then (CONTROL_PLANE_ROUTING, mark, false) else (o, mark, must).

(* what the kernel has to answer for a packet, given the userspace matcher's answer for the same packet
   (None = the matcher produced no decision: the kernel must not produce one either) *)
Definition expected (dport : N) (user : option decision) : option decision :=
  match user with
  | Some d => Some (dns_adjust dport d)
  | None => None
  end.

(* the quantifier's side conditions on decisions: marks up to 32 bits, outbound ids one byte *)
Definition decision_ok (d : decision) : bool :=
  let '(o, mark, _) := d in (o <? 256) && (mark <? 2 ^ 32).

(* ring of LPM slots: the i-th trie of a generation whose allocation started at `alloc` lives in this slot *)
Definition ring_slot (ring alloc i : N) : N := (alloc + i) mod ring.
