(* C10 — lemmas about concurrent syncOwner calls (C10_Conc_Model.v). *)
From Coq Require Import List NArith Bool Arith Lia.
From Dae Require Import C10_Spec C10_Model C10_Proofs C10_Conc_Model.
Import ListNotations.

(* ------------------------------------------------------------------------------------------ *)
(* small facts                                                                                *)
(* ------------------------------------------------------------------------------------------ *)
Lemma set_thread_same ths i th : set_thread ths i th i = th.
Proof. unfold set_thread. rewrite Nat.eqb_refl. reflexivity. Qed.

Lemma set_thread_other ths i th j : j <> i -> set_thread ths i th j = ths j.
Proof. intros H. unfold set_thread. apply Nat.eqb_neq in H. rewrite H. reflexivity. Qed.

Lemma done_by_app h1 h2 j : done_by (h1 ++ h2) j = done_by h1 j ++ done_by h2 j.
Proof. unfold done_by. rewrite filter_app, map_app. reflexivity. Qed.

Lemma done_by_single_same i o : done_by [(i, o)] i = [o].
Proof. unfold done_by. cbn [filter fst]. rewrite Nat.eqb_refl. reflexivity. Qed.

Lemma done_by_single_other i o j : j <> i -> done_by [(i, o)] j = [].
Proof.
  intros H. unfold done_by. cbn [filter fst].
  destruct (Nat.eqb_spec i j) as [E|E]; [exfalso; apply H; symmetry; exact E|reflexivity].
Qed.

Lemma run_snoc (h : list op) (o : op) :
  run (h ++ [o]) = (apply_owner_snapshot (fst (run h)) (fst o) (snd o),
                    apply_batches (snd (run h)) (plan (fst (run h)) o)).
Proof.
  unfold run. rewrite fold_left_app. cbn [fold_left]. unfold step, plan, sync_owner. reflexivity.
Qed.

(* ------------------------------------------------------------------------------------------ *)
(* the invariant of the program that holds the mutex across Plan, Write and Apply             *)
(* ------------------------------------------------------------------------------------------ *)
Definition idle (th : thread) : Prop :=
  th_cur th = None \/ (exists o, th_cur th = Some (o, code_prog)) \/ (exists o, th_cur th = Some (o, [])).

Definition holder_ok (th : thread) (t : tracker) (m : kmap) (h : list op) : Prop :=
  exists o,
    (th_cur th = Some (o, [IPlan; IWrite; IApply; IUnlock]) /\ (t, m) = run h)
    \/ (th_cur th = Some (o, [IWrite; IApply; IUnlock]) /\ (t, m) = run h /\ th_plan th = plan t o)
    \/ (th_cur th = Some (o, [IApply; IUnlock])
        /\ (apply_owner_snapshot t (fst o) (snd o), m) = run (h ++ [o]))
    \/ (th_cur th = Some (o, [IUnlock]) /\ (t, m) = run h).

Definition cinv (todos : nat -> list op) (g : gstate) : Prop :=
  (forall j, g_lock g <> Some j -> idle (g_threads g j)) /\
  match g_lock g with
  | None => (g_tracker g, g_kmap g) = run (map snd (g_hist g))
  | Some i => holder_ok (g_threads g i) (g_tracker g) (g_kmap g) (map snd (g_hist g))
  end /\
  (forall j, done_by (g_hist g) j ++ pending (g_threads g j) = todos j).

Lemma cinit_inv todos : cinv todos (cinit todos).
Proof.
  split; [|split].
  - intros j _. left. reflexivity.
  - reflexivity.
  - intros j. reflexivity.
Qed.

(* the thread table after a step of thread i: everybody else is untouched *)
Lemma idle_update (ths : nat -> thread) (lock lock' : option nat) (i : nat) (th' : thread) :
  (forall j, lock <> Some j -> idle (ths j)) ->
  (forall j, j <> i -> lock' <> Some j -> lock <> Some j) ->
  (lock' <> Some i -> idle th') ->
  forall j, lock' <> Some j -> idle (set_thread ths i th' j).
Proof.
  intros Hold Hlk Hth j Hj. destruct (Nat.eq_dec j i) as [->|Hne].
  - rewrite set_thread_same. apply Hth. exact Hj.
  - rewrite set_thread_other by exact Hne. apply Hold. apply Hlk; assumption.
Qed.

Lemma done_update (todos : nat -> list op) (ths : nat -> thread) (h extra : list (nat * op)) (i : nat) (th' : thread) :
  (forall j, done_by h j ++ pending (ths j) = todos j) ->
  (forall j, j <> i -> done_by extra j = []) ->
  done_by (h ++ extra) i ++ pending th' = todos i ->
  forall j, done_by (h ++ extra) j ++ pending (set_thread ths i th' j) = todos j.
Proof.
  intros Hold Hex Hi j. destruct (Nat.eq_dec j i) as [->|Hne].
  - rewrite set_thread_same. exact Hi.
  - rewrite set_thread_other by exact Hne. rewrite done_by_app, (Hex j Hne), app_nil_r. apply Hold.
Qed.

Lemma done_update0 (todos : nat -> list op) (ths : nat -> thread) (h : list (nat * op)) (i : nat) (th' : thread) :
  (forall j, done_by h j ++ pending (ths j) = todos j) ->
  pending th' = pending (ths i) ->
  forall j, done_by h j ++ pending (set_thread ths i th' j) = todos j.
Proof.
  intros Hold Hi j. destruct (Nat.eq_dec j i) as [->|Hne].
  - rewrite set_thread_same, Hi. apply Hold.
  - rewrite set_thread_other by exact Hne. apply Hold.
Qed.

Lemma some_neq_inv (a b : nat) : Some a <> Some b -> a <> b.
Proof. intros H E. apply H. rewrite E. reflexivity. Qed.

(* a step of a thread that does not hold the mutex while somebody else does *)
Lemma cstep_inv_other todos g i k :
  g_lock g = Some k -> i <> k -> cinv todos g -> cinv todos (cstep code_prog g i).
Proof.
  intros Hl Hik [Hidle [Hst Hdone]]. rewrite Hl in Hst.
  assert (Hi : idle (g_threads g i)).
  { apply Hidle. rewrite Hl. intros E. inversion E. apply Hik. symmetry. assumption. }
  unfold cstep. destruct Hi as [Hc|[[o Hc]|[o Hc]]]; rewrite Hc.
  - destruct (th_todo (g_threads g i)) as [|o rest] eqn:Htodo.
    + split; [exact Hidle|split; [rewrite Hl; exact Hst|exact Hdone]].
    + unfold with_thread, cinv. cbn [g_lock g_threads g_tracker g_kmap g_hist]. rewrite Hl.
      split; [|split].
      * apply (idle_update _ (Some k) (Some k)); [rewrite <- Hl; exact Hidle|intros; assumption|].
        intros _. right. left. exists o. reflexivity.
      * rewrite set_thread_other by (intros E; apply Hik; symmetry; exact E). exact Hst.
      * apply done_update0; [exact Hdone|].
        unfold pending. rewrite Hc, Htodo. reflexivity.
  - cbn [code_prog]. rewrite Hl.
    split; [exact Hidle|split; [rewrite Hl; exact Hst|exact Hdone]].
  - unfold with_thread, cinv. cbn [g_lock g_threads g_tracker g_kmap g_hist]. rewrite Hl.
    split; [|split].
    + apply (idle_update _ (Some k) (Some k)); [rewrite <- Hl; exact Hidle|intros; assumption|].
      intros _. left. reflexivity.
    + rewrite set_thread_other by (intros E; apply Hik; symmetry; exact E). exact Hst.
    + apply done_update0; [exact Hdone|].
      unfold pending. rewrite Hc. reflexivity.
Qed.

(* a step while the mutex is free *)
Lemma cstep_inv_free todos g i :
  g_lock g = None -> cinv todos g -> cinv todos (cstep code_prog g i).
Proof.
  intros Hl [Hidle [Hst Hdone]]. rewrite Hl in Hst.
  assert (Hi : idle (g_threads g i)) by (apply Hidle; rewrite Hl; discriminate).
  unfold cstep. destruct Hi as [Hc|[[o Hc]|[o Hc]]]; rewrite Hc.
  - destruct (th_todo (g_threads g i)) as [|o rest] eqn:Htodo.
    + split; [exact Hidle|split; [rewrite Hl; exact Hst|exact Hdone]].
    + unfold with_thread, cinv. cbn [g_lock g_threads g_tracker g_kmap g_hist]. rewrite Hl.
      split; [|split].
      * apply (idle_update _ None None); [rewrite <- Hl; exact Hidle|intros; assumption|].
        intros _. right. left. exists o. reflexivity.
      * exact Hst.
      * apply done_update0; [exact Hdone|].
        unfold pending. rewrite Hc, Htodo. reflexivity.
  - cbn [code_prog]. rewrite Hl. unfold cinv. cbn [g_lock g_threads g_tracker g_kmap g_hist].
    split; [|split].
    + apply (idle_update _ None (Some i)); [rewrite <- Hl; exact Hidle|intros; discriminate|].
      intros H. exfalso. apply H. reflexivity.
    + rewrite set_thread_same. exists o. left. split; [reflexivity|exact Hst].
    + apply done_update0; [exact Hdone|].
      unfold pending. rewrite Hc. reflexivity.
  - unfold with_thread, cinv. cbn [g_lock g_threads g_tracker g_kmap g_hist]. rewrite Hl.
    split; [|split].
    + apply (idle_update _ None None); [rewrite <- Hl; exact Hidle|intros; assumption|].
      intros _. left. reflexivity.
    + exact Hst.
    + apply done_update0; [exact Hdone|].
      unfold pending. rewrite Hc. reflexivity.
Qed.

(* a step of the thread that holds the mutex *)
Lemma cstep_inv_holder todos g i :
  g_lock g = Some i -> cinv todos g -> cinv todos (cstep code_prog g i).
Proof.
  intros Hl [Hidle [Hst Hdone]]. rewrite Hl in Hst.
  assert (Hothers : forall lock', (forall j, j <> i -> lock' <> Some j -> g_lock g <> Some j)).
  { intros lock' j Hj _. rewrite Hl. intros E. inversion E. apply Hj. symmetry. assumption. }
  destruct Hst as [o [[Hc Hr]|[[Hc [Hr Hp]]|[[Hc Hr]|[Hc Hr]]]]]; unfold cstep; rewrite Hc.
  - (* Plan *)
    unfold with_thread, cinv. cbn [g_lock g_threads g_tracker g_kmap g_hist]. rewrite Hl.
    split; [|split].
    + apply (idle_update _ (g_lock g) (Some i)); [exact Hidle|apply Hothers|].
      intros H. exfalso. apply H. reflexivity.
    + rewrite set_thread_same. exists o. right. left. cbn [th_cur th_plan].
      split; [reflexivity|split; [exact Hr|reflexivity]].
    + apply done_update0; [exact Hdone|]. unfold pending. rewrite Hc. reflexivity.
  - (* Write *)
    unfold cinv. cbn [g_lock g_threads g_tracker g_kmap g_hist]. rewrite Hl.
    split; [|split].
    + apply (idle_update _ (g_lock g) (Some i)); [exact Hidle|apply Hothers|].
      intros H. exfalso. apply H. reflexivity.
    + rewrite set_thread_same. exists o. right. right. left. cbn [th_cur].
      split; [reflexivity|]. rewrite run_snoc, <- Hr. cbn [fst snd]. rewrite Hp. reflexivity.
    + apply done_update0; [exact Hdone|]. unfold pending. rewrite Hc. reflexivity.
  - (* Apply *)
    unfold cinv. cbn [g_lock g_threads g_tracker g_kmap g_hist]. rewrite Hl.
    split; [|split].
    + apply (idle_update _ (g_lock g) (Some i)); [exact Hidle|apply Hothers|].
      intros H. exfalso. apply H. reflexivity.
    + rewrite set_thread_same. exists o. right. right. right. cbn [th_cur].
      split; [reflexivity|]. rewrite map_app. cbn [map snd]. exact Hr.
    + apply done_update.
      * exact Hdone.
      * intros j Hj. apply done_by_single_other. exact Hj.
      * rewrite done_by_app, done_by_single_same, <- app_assoc.
        rewrite <- (Hdone i). unfold pending. rewrite Hc. reflexivity.
  - (* Unlock *)
    rewrite Hl, Nat.eqb_refl. unfold cinv. cbn [g_lock g_threads g_tracker g_kmap g_hist].
    split; [|split].
    + apply (idle_update _ (g_lock g) None); [exact Hidle|apply Hothers|].
      intros _. right. right. exists o. reflexivity.
    + exact Hr.
    + apply done_update0; [exact Hdone|]. unfold pending. rewrite Hc. reflexivity.
Qed.

Lemma cstep_inv todos g i : cinv todos g -> cinv todos (cstep code_prog g i).
Proof.
  intros H. destruct (g_lock g) as [k|] eqn:Hl.
  - destruct (Nat.eq_dec i k) as [->|Hne].
    + apply cstep_inv_holder; assumption.
    + apply (cstep_inv_other todos g i k); assumption.
  - apply cstep_inv_free; assumption.
Qed.

Lemma crun_inv todos sched : cinv todos (crun code_prog (cinit todos) sched).
Proof.
  unfold crun. generalize (cinit_inv todos). generalize (cinit todos).
  induction sched as [|i r IH]; intros g Hg; cbn [fold_left]; [exact Hg|].
  apply IH. apply cstep_inv. exact Hg.
Qed.

(* ------------------------------------------------------------------------------------------ *)
(* the property lemmas                                                                        *)
(* ------------------------------------------------------------------------------------------ *)
Lemma C10_mirror_concurrent_proof :
  forall (todos : nat -> list op) (sched : list nat),
    let g := crun code_prog (cinit todos) sched in
    let h := map snd (g_hist g) in
    (forall i, done_by (g_hist g) i ++ pending (g_threads g i) = todos i) /\
    (settled g ->
     (g_tracker g, g_kmap g) = run h /\ forall ip, g_kmap g ip = table_entry h ip).
Proof.
  intros todos sched g h. destruct (crun_inv todos sched) as [Hidle [Hst Hdone]]. fold g in Hidle, Hst, Hdone.
  split; [exact Hdone|].
  intros Hs. assert (Hr : (g_tracker g, g_kmap g) = run h).
  { unfold settled in Hs. destruct (g_lock g) as [k|]; [|exact Hst].
    destruct Hs as [o Hc]. destruct Hst as [o' [[Hc' _]|[[Hc' _]|[[Hc' _]|[_ Hr]]]]];
      try (rewrite Hc in Hc'; discriminate Hc'). exact Hr. }
  split; [exact Hr|].
  intros ip. replace (g_kmap g) with (snd (run h)) by (rewrite <- Hr; reflexivity).
  apply C10_mirror_proof.
Qed.

(* every thread that does not hold the mutex is outside its critical section, so "mutex free" means
   that no call is between its Plan and its Apply *)
Lemma C10_concurrent_exclusion_proof :
  forall (todos : nat -> list op) (sched : list nat) (j : nat),
    let g := crun code_prog (cinit todos) sched in
    g_lock g <> Some j ->
    th_cur (g_threads g j) = None \/
    (exists o, th_cur (g_threads g j) = Some (o, code_prog)) \/
    (exists o, th_cur (g_threads g j) = Some (o, [])).
Proof.
  intros todos sched j g H. destruct (crun_inv todos sched) as [Hidle _]. apply Hidle. exact H.
Qed.

(* The variant that releases the mutex around the kernel write: two owners sharing address 10,
   interleaving  plan A, plan B, write A, write B, apply A, apply B, then a re-sync of both. *)
Definition unlocked_witness_todos : nat -> list op :=
  fun i => match i with
           | 0%nat => [(1%N, {| s_bitmap := 1%N; s_ips := [10%N] |}); (1%N, {| s_bitmap := 1%N; s_ips := [10%N] |})]
           | 1%nat => [(2%N, {| s_bitmap := 2%N; s_ips := [10%N] |}); (2%N, {| s_bitmap := 2%N; s_ips := [10%N] |})]
           | _ => []
           end.

Definition unlocked_witness_sched : list nat :=
  [0; 0; 0; 0;  1; 1; 1; 1;  0;  1;  0; 0; 0; 0;  1; 1; 1; 1]%nat        (* the overlapping first calls *)
  ++ repeat 0%nat 9 ++ repeat 1%nat 9.                                   (* the re-syncs, one after the other *)

Definition merged_at (t : tracker) (ip : N) : option N :=
  match t_ips t ip with Some st => Some (st_merged st) | None => None end.

Lemma C10_mirror_concurrent_unlocked_refuted_proof :
  let g := crun unlocked_write_prog (cinit unlocked_witness_todos) unlocked_witness_sched in
  let h := map snd (g_hist g) in
  g_lock g = None /\ finished (g_threads g 0%nat) = true /\ finished (g_threads g 1%nat) = true /\
  length h = 4%nat /\
  g_kmap g 10%N = Some 2%N /\ table_entry h 10%N = Some 3%N /\ merged_at (g_tracker g) 10%N = Some 3%N.
Proof. vm_compute. repeat split; reflexivity. Qed.

Definition C10_mirror_concurrent_unlocked : Prop :=
  forall (todos : nat -> list op) (sched : list nat) (ip : N),
    let g := crun unlocked_write_prog (cinit todos) sched in
    settled g -> g_kmap g ip = table_entry (map snd (g_hist g)) ip.

Lemma C10_mirror_concurrent_unlocked_refuted_neg : ~ C10_mirror_concurrent_unlocked.
Proof.
  intros H. specialize (H unlocked_witness_todos unlocked_witness_sched 10%N).
  vm_compute in H. specialize (H I). discriminate H.
Qed.
