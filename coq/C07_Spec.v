(* C07 — DNS questions and answers are routed by the first matching DNS rule.
   The property in its own terms.  A dns section is a list of upstream tags and two rule lists (request,
   response) with a fallback each; a rule is an `&&`-list of conditions and a target name; a condition is a
   function (qname / qtype / ip / upstream), an optional `!` and a list of alternatives.
   Executable; no reference to match-sets, bitmaps, sentinels in index types or scan state. *)
From Coq Require Import List NArith Bool String Ascii.
Import ListNotations.
Open Scope N_scope.

(* ---------- names ---------- *)
Inductive dkind := DFull | DSuffix | DKeyword | DRegex.

Definition lower_ascii (c : ascii) : ascii :=
  let n := N_of_ascii c in if (65 <=? n) && (n <=? 90) then ascii_of_N (n + 32) else c.
Fixpoint lower_str (s : string) : string :=
  match s with EmptyString => EmptyString | String c r => String (lower_ascii c) (lower_str r) end.
(* one trailing dot is not part of the name *)
Fixpoint strip_dot (s : string) : string :=
  match s with
  | EmptyString => EmptyString
  | String c r => match r with
                  | EmptyString => if Ascii.eqb c "."%char then EmptyString else s
                  | _ => String c (strip_dot r)
                  end
  end.
(* a question name is compared without regard to case and to the trailing dot *)
Definition norm_name (s : string) : string := lower_str (strip_dot s).

Definition ends_with (d s : string) : bool :=
  let ld := String.length d in let ls := String.length s in
  Nat.leb ls ld && String.eqb (substring (ld - ls) ls d) s.
Definition contains (d k : string) : bool :=
  match index 0 k d with Some _ => true | None => false end.

(* d: normalised name; hits: the regex patterns (among those written in the rules) that match d (oracle: Go regexp on
   the lower-cased name without trailing dot; no hits are reported for a question without name).
   The root name "." normalises to "": no full / suffix / keyword pattern matches it, a regex (e.g. ".*") can. *)
Definition domain_holds (k : dkind) (s d : string) (hits : list string) : bool :=
  match k with
  | DFull => negb (String.eqb d "") && String.eqb d s
  | DSuffix => negb (String.eqb d "") &&
               (if prefix "." s then ends_with d s
                else String.eqb d s || ends_with d (String "."%char s))
  | DKeyword => negb (String.eqb d "") && contains d s
  | DRegex => existsb (String.eqb s) hits
  end.

(* ---------- questions, answers ---------- *)
Record question := { q_name : string; q_type : N; q_regex_hits : list string }.

(* one record of an answer section: an A record (32-bit address), an AAAA record (128-bit), anything else *)
Inductive rr := RA (a : N) | RAAAA (a : N) | ROther (code : N).

(* answer addresses, in 128-bit form (IPv4 as ::ffff:a.b.c.d) *)
Definition rr_ip (r : rr) : list N :=
  match r with RA a => [0xffff00000000 + a] | RAAAA a => [a] | ROther _ => [] end.
Definition answer_ips (ans : list rr) : list N := flat_map rr_ip ans.

(* who answered: the server the client addressed itself (as-is), or the i-th configured upstream *)
Inductive src := SAsIs | SUp (i : N).

Record prefix := { px_v4 : bool; px_addr : N; px_bits : N }.   (* addr in 128-bit form; bits in its own family *)
Definition px_covers (p : prefix) (x : N) : bool :=
  let n := if px_v4 p then px_bits p + 96 else px_bits p in
  N.shiftr x (128 - n) =? N.shiftr (px_addr p) (128 - n).

(* ---------- rules ---------- *)
Inductive cbody :=
| BQName (ps : list (dkind * string))
| BQType (ts : list N)
| BIp (ps : list prefix)            (* response rules only *)
| BUpstream (ns : list string).     (* response rules only *)
Record cond := { c_neg : bool; c_body : cbody }.
Record rule := { r_conds : list cond; r_target : string }.
Record routing := { rt_rules : list rule; rt_fallback : string }.
Record config := { cf_upstreams : list string; cf_request : routing; cf_response : routing }.

Record ctx := { x_q : question; x_ips : list N; x_from : src }.

Fixpoint index_of (l : list string) (s : string) (i : N) : option N :=
  match l with
  | [] => None
  | t :: r => if String.eqb t s then Some i else index_of r s (i + 1)
  end.

Definition src_is (ups : list string) (name : string) (from : src) : bool :=
  match index_of ups name 0, from with
  | Some i, SUp j => i =? j
  | _, _ => false
  end.

Definition body_holds (ups : list string) (b : cbody) (x : ctx) : bool :=
  match b with
  | BQName ps => existsb (fun p => domain_holds (fst p) (snd p) (norm_name (q_name (x_q x))) (q_regex_hits (x_q x))) ps
  | BQType ts => existsb (fun t => q_type (x_q x) =? t) ts
  | BIp ps => existsb (fun ip => existsb (fun p => px_covers p ip) ps) (x_ips x)
  | BUpstream ns => existsb (fun n => src_is ups n (x_from x)) ns
  end.
Definition cond_holds (ups : list string) (c : cond) (x : ctx) : bool := xorb (c_neg c) (body_holds ups (c_body c) x).
Definition rule_holds (ups : list string) (r : rule) (x : ctx) : bool := forallb (fun c => cond_holds ups c x) (r_conds r).

(* first matching rule, top to bottom; the fallback otherwise *)
Fixpoint first_target (ups : list string) (rs : list rule) (fb : string) (x : ctx) : string :=
  match rs with
  | [] => fb
  | r :: rest => if rule_holds ups r x then r_target r else first_target ups rest fb x
  end.

Inductive req_verdict := QReject | QAsIs | QUp (i : N).
Inductive resp_verdict := PAccept | PReject | PUp (i : N).

Definition req_verdict_of (ups : list string) (name : string) : option req_verdict :=
  if String.eqb name "reject" then Some QReject
  else if String.eqb name "asis" then Some QAsIs
  else option_map QUp (index_of ups name 0).
Definition resp_verdict_of (ups : list string) (name : string) : option resp_verdict :=
  if String.eqb name "accept" then Some PAccept
  else if String.eqb name "reject" then Some PReject
  else option_map PUp (index_of ups name 0).

(* where a question goes *)
Definition request_route (cfg : config) (q : question) : option req_verdict :=
  req_verdict_of (cf_upstreams cfg)
    (first_target (cf_upstreams cfg) (rt_rules (cf_request cfg)) (rt_fallback (cf_request cfg))
                  {| x_q := q; x_ips := []; x_from := SAsIs |}).
(* what happens to an answer *)
Definition response_route (cfg : config) (q : question) (ans : list rr) (from : src) : option resp_verdict :=
  resp_verdict_of (cf_upstreams cfg)
    (first_target (cf_upstreams cfg) (rt_rules (cf_response cfg)) (rt_fallback (cf_response cfg))
                  {| x_q := q; x_ips := answer_ips ans; x_from := from |}).

(* ---------- answering a question ---------- *)
(* what the upstreams say: the reply of upstream `s` to the k-th query of this resolution (k = 0, 1, ...) *)
Inductive up_reply := UAnswer (ans : list rr) | UFail.
Definition answers := src -> nat -> up_reply.

Inductive outcome :=
| Replied (ans : list rr)     (* the client receives this answer section *)
| TooDeep                     (* refused: the response rules kept sending the question elsewhere *)
| UpstreamFailed
| RouteError.

(* follow the response rules from upstream to upstream, asking at most n times.
   Result: outcome and the upstreams asked, in order. *)
Fixpoint chase (cfg : config) (q : question) (a : answers) (n : nat) (k : nat) (s : src) : outcome * list src :=
  match n with
  | O => (TooDeep, [])
  | S n' =>
    match a s k with
    | UFail => (UpstreamFailed, [s])
    | UAnswer ans =>
      match response_route cfg q ans s with
      | None => (RouteError, [s])
      | Some PAccept => (Replied ans, [s])
      | Some PReject => (Replied [], [s])
      | Some (PUp j) => let '(o, l) := chase cfg q a n' (S k) (SUp j) in (o, s :: l)
      end
    end
  end.

(* the cache: entries keyed by (normalised name, qtype) — the family — and the request verdict (the scope) *)
Definition src_code (s : src) : N := match s with SAsIs => 0xFD | SUp i => i end.
Record centry := { ce_name : string; ce_type : N; ce_scope : N; ce_answer : list rr }.
Definition cache := list centry.
Definition same_family (q : question) (e : centry) : bool :=
  String.eqb (ce_name e) (norm_name (q_name q)) && (ce_type e =? q_type q).
Definition cache_lookup (c : cache) (q : question) (scope : N) : option (list rr) :=
  option_map ce_answer (find (fun e => same_family q e && (ce_scope e =? scope)) c).
Definition cache_remove_family (c : cache) (q : question) : cache := filter (fun e => negb (same_family q e)) c.
Definition cache_insert (c : cache) (q : question) (scope : N) (ans : list rr) : cache :=
  {| ce_name := norm_name (q_name q); ce_type := q_type q; ce_scope := scope; ce_answer := ans |}
  :: filter (fun e => negb (same_family q e && (ce_scope e =? scope))) c.

(* answer one client question: outcome, upstreams asked, cache afterwards.
   max_asks: the bound on the number of upstream queries for one question. *)
Definition answer_question (max_asks : nat) (cfg : config) (c : cache) (q : question) (a : answers)
  : outcome * list src * cache :=
  match request_route cfg q with
  | None => (RouteError, [], c)
  | Some QReject => (Replied [], [], cache_remove_family c q)       (* whatever the cache holds *)
  | Some v =>
    let s := match v with QUp i => SUp i | _ => SAsIs end in
    match cache_lookup c q (src_code s) with
    | Some ans => (Replied ans, [], c)
    | None =>
      let '(o, l) := chase cfg q a max_asks 0 s in
      (o, l, match o with Replied ans => cache_insert c q (src_code s) ans | _ => c end)
    end
  end.

(* ---------- well-formed dns sections (the property's quantifier) ---------- *)
Definition reserved (s : string) : bool :=
  String.eqb s "reject" || String.eqb s "asis" || String.eqb s "accept" || String.eqb s "<OR>" || String.eqb s "<AND>".

Fixpoint nodup_str (l : list string) : bool :=
  match l with [] => true | s :: r => negb (existsb (String.eqb s) r) && nodup_str r end.

Definition wf_upstreams (ups : list string) : bool :=
  nodup_str ups && forallb (fun s => negb (reserved s)) ups && (N.of_nat (List.length ups) <=? 251).

Definition prefix_ok (p : prefix) : bool :=
  (px_addr p <? 2 ^ 128) &&
  (if px_v4 p then (px_bits p <=? 32) && (N.shiftr (px_addr p) 32 =? 0xffff) else px_bits p <=? 128).

Definition defined (ups : list string) (n : string) : bool :=
  match index_of ups n 0 with Some _ => true | None => false end.

(* is_resp: the rule list the condition stands in *)
Definition cond_ok (is_resp : bool) (ups : list string) (c : cond) : bool :=
  match c_body c with
  | BQName ps => negb (Nat.eqb (List.length ps) 0)
  | BQType ts => negb (Nat.eqb (List.length ts) 0) && forallb (fun t => t <? 65536) ts
  | BIp ps => is_resp && negb (Nat.eqb (List.length ps) 0) && forallb prefix_ok ps
  | BUpstream ns => is_resp && negb (Nat.eqb (List.length ns) 0) && forallb (fun n => negb (reserved n) && defined ups n) ns
  end.
Definition target_ok (is_resp : bool) (ups : list string) (t : string) : bool :=
  (if is_resp then String.eqb t "accept" || String.eqb t "reject" else String.eqb t "reject" || String.eqb t "asis")
  || (negb (reserved t) && defined ups t).
Definition rule_ok (is_resp : bool) (ups : list string) (r : rule) : bool :=
  negb (Nat.eqb (List.length (r_conds r)) 0) && forallb (cond_ok is_resp ups) (r_conds r) && target_ok is_resp ups (r_target r).
(* every non-empty ip() condition of the response list gets its own address set, numbered by a 16-bit counter: the
   property is claimed for at most 65536 of them (beyond, set numbers wrap and rules would test the wrong set) *)
Definition ip_count_cond (c : cond) : nat := match c_body c with BIp (_ :: _) => 1 | _ => 0 end.
Definition ip_count_conds (cs : list cond) : nat := fold_right (fun c n => (ip_count_cond c + n)%nat) 0%nat cs.
Definition ip_count_rules (rs : list rule) : nat := fold_right (fun r n => (ip_count_conds (r_conds r) + n)%nat) 0%nat rs.
Definition routing_ok (is_resp : bool) (ups : list string) (rt : routing) : bool :=
  forallb (rule_ok is_resp ups) (rt_rules rt) && target_ok is_resp ups (rt_fallback rt)
  && (negb is_resp || (N.of_nat (ip_count_rules (rt_rules rt)) <=? 65536)).
Definition wf_config (cfg : config) : bool :=
  wf_upstreams (cf_upstreams cfg) && routing_ok false (cf_upstreams cfg) (cf_request cfg)
  && routing_ok true (cf_upstreams cfg) (cf_response cfg).

(* ================================================================================================ *)
(* Internal selectors in the request list (sub / node / subnode) and the resolver dae itself uses     *)
(* ================================================================================================ *)
(* The request list as written may also hold rules that select the upstream for dae's own lookups of subscription
   and node hosts.  Such a rule consists of internal selectors of ONE kind only; it never applies to an ordinary
   question.  A rule mixing kinds, or mixing an internal selector with any other function, is a configuration error. *)
Inductive ikind := ISub | INode | ISubNode.
Inductive skey := KDefault | KTag | KTagRegex | KRegex | KLinkKeyword | KLinkRegex | KName | KNameKeyword | KNameRegex
                | KSubtag | KSubtagRegex | KOther.
Record selector := { s_neg : bool; s_params : list (skey * string) }.
Inductive rcond := RDns (c : cond) | RInt (k : ikind) (s : selector).
Record rrule := { rr_conds : list rcond; rr_target : string }.

Definition ikind_eqb (a b : ikind) : bool :=
  match a, b with ISub, ISub | INode, INode | ISubNode, ISubNode => true | _, _ => false end.

(* shape of a written rule *)
Inductive shape := ShDns | ShInt (k : ikind) | ShMixed.
Definition is_dns_cond (c : rcond) : bool := match c with RDns _ => true | RInt _ _ => false end.
Definition is_int_cond (k : ikind) (c : rcond) : bool := match c with RInt k' _ => ikind_eqb k k' | RDns _ => false end.
Definition shape_of (r : rrule) : shape :=
  if forallb is_dns_cond (rr_conds r) then ShDns
  else if forallb (is_int_cond ISub) (rr_conds r) then ShInt ISub
  else if forallb (is_int_cond INode) (rr_conds r) then ShInt INode
  else if forallb (is_int_cond ISubNode) (rr_conds r) then ShInt ISubNode
  else ShMixed.
Definition shape_eqb (a b : shape) : bool :=
  match a, b with ShDns, ShDns | ShMixed, ShMixed => true | ShInt k, ShInt k' => ikind_eqb k k' | _, _ => false end.

Definition dns_conds (r : rrule) : list cond := flat_map (fun c => match c with RDns c' => [c'] | RInt _ _ => [] end) (rr_conds r).
Definition to_rule (r : rrule) : rule := {| r_conds := dns_conds r; r_target := rr_target r |}.

(* an ordinary question: internal selectors never hold for it *)
Definition rcond_holds (ups : list string) (c : rcond) (x : ctx) : bool :=
  match c with RDns c' => cond_holds ups c' x | RInt _ _ => false end.
Definition rrule_holds (ups : list string) (r : rrule) (x : ctx) : bool := forallb (fun c => rcond_holds ups c x) (rr_conds r).
Fixpoint first_target_raw (ups : list string) (rs : list rrule) (fb : string) (x : ctx) : string :=
  match rs with
  | [] => fb
  | r :: rest => if rrule_holds ups r x then rr_target r else first_target_raw ups rest fb x
  end.

Record rconfig := { rc_upstreams : list string; rc_request : list rrule; rc_fallback : string; rc_response : routing }.
Definition request_route_raw (rc : rconfig) (q : question) : option req_verdict :=
  req_verdict_of (rc_upstreams rc)
    (first_target_raw (rc_upstreams rc) (rc_request rc) (rc_fallback rc) {| x_q := q; x_ips := []; x_from := SAsIs |}).

(* ---------- what an internal selector means ---------- *)
(* the subject of a lookup dae makes for itself: a subscription (tag, link) or a node (subscription tag or "", name,
   link, address host).  m_hits: oracle, the (field, regex pattern) pairs that match (field 1 tag, 2 name, 3 link). *)
Record meta := { m_subtag : string; m_name : string; m_link : string; m_host : string; m_hits : list (N * string) }.
Definition hit (m : meta) (field : N) (pat : string) : bool :=
  existsb (fun h => (fst h =? field) && String.eqb (snd h) pat) (m_hits m).

(* None: the key is not accepted for this kind of selector *)
Definition param_holds (k : ikind) (key : skey) (v : string) (m : meta) : option bool :=
  match k, key with
  | ISub, KDefault | ISub, KTag => Some (String.eqb v (m_subtag m))
  | ISub, KTagRegex | ISub, KRegex => Some (hit m 1 v)
  | ISub, KLinkKeyword => Some (contains (m_link m) v)
  | ISub, KLinkRegex => Some (hit m 3 v)
  | INode, KDefault | INode, KName | ISubNode, KName => Some (String.eqb v (m_name m))
  | INode, KNameKeyword | ISubNode, KNameKeyword => Some (contains (m_name m) v)
  | INode, KNameRegex | ISubNode, KNameRegex => Some (hit m 2 v)
  | INode, KLinkKeyword | ISubNode, KLinkKeyword => Some (contains (m_link m) v)
  | INode, KLinkRegex | ISubNode, KLinkRegex => Some (hit m 3 v)
  | ISubNode, KDefault | ISubNode, KSubtag => Some (String.eqb v (m_subtag m))
  | ISubNode, KSubtagRegex | ISubNode, KRegex => Some (hit m 1 v)
  | _, _ => None
  end.
Definition param_true (k : ikind) (m : meta) (p : skey * string) : bool :=
  match param_holds k (fst p) (snd p) m with Some b => b | None => false end.

(* alternatives; no alternative at all = "any" (for subnode: any node that came from a subscription);
   a subnode selector never holds for a node without subscription, negated or not *)
Definition selector_holds (k : ikind) (s : selector) (m : meta) : bool :=
  let base := match s_params s with
              | [] => match k with ISubNode => negb (String.eqb (m_subtag m) "") | _ => true end
              | ps => existsb (param_true k m) ps
              end in
  xorb (s_neg s) base && match k with ISubNode => negb (String.eqb (m_subtag m) "") | _ => true end.

Definition int_rule_holds (k : ikind) (r : rrule) (m : meta) : bool :=
  negb (Nat.eqb (List.length (rr_conds r)) 0) &&
  forallb (fun c => match c with RInt k' s => ikind_eqb k k' && selector_holds k s m | RDns _ => false end) (rr_conds r).

(* first rule of kind k, in the order written, that holds *)
Fixpoint first_internal (k : ikind) (rs : list rrule) (m : meta) : option string :=
  match rs with
  | [] => None
  | r :: rest => if int_rule_holds k r m then Some (rr_target r) else first_internal k rest m
  end.

(* the upstream named for a node: a subnode rule (only for nodes of a subscription) before a node rule *)
Definition node_upstream (rs : list rrule) (m : meta) : option string :=
  match (if String.eqb (m_subtag m) "" then None else first_internal ISubNode rs m) with
  | Some u => Some u
  | None => first_internal INode rs m
  end.
Definition subscription_upstream (rs : list rrule) (m : meta) : option string := first_internal ISub rs m.

(* who resolves a host name for dae itself *)
Inductive plan := PlanUp (i : N) | PlanBootstrap | PlanBase | PlanErr.

Definition same_host (a b : string) : bool :=
  let a' := strip_dot a in let b' := strip_dot b in
  negb (String.eqb a' "") && negb (String.eqb b' "") && String.eqb (lower_str a') (lower_str b').

(* named: the upstream an internal rule named for the subject (None: no rule applied).
   The subject's own host (control host) is never resolved through the general rules: named upstream, else bootstrap.
   Any other host: named upstream, else the general request rules, where asis/reject mean "the base resolver". *)
Definition lookup_plan (rc : rconfig) (named : option string) (control_host host : string) (q : question) : plan :=
  match named with
  | Some n => match index_of (rc_upstreams rc) n 0 with Some i => PlanUp i | None => PlanErr end
  | None =>
    if same_host host control_host then PlanBootstrap
    else match request_route_raw rc q with
         | Some (QUp i) => PlanUp i
         | Some _ => PlanBase
         | None => PlanErr
         end
  end.

(* well-formedness of the written request list *)
(* every key is one the kind accepts.  (The configuration grammar refuses an empty parameter list, so a written selector
   has at least one alternative: required by rrule_ok below.) *)
Definition selector_ok (k : ikind) (s : selector) : bool :=
  forallb (fun p => match param_holds k (fst p) (snd p) {| m_subtag := ""; m_name := ""; m_link := ""; m_host := ""; m_hits := [] |} with
                    | Some _ => true | None => false end) (s_params s).
Definition rrule_ok (ups : list string) (r : rrule) : bool :=
  match shape_of r with
  | ShDns => rule_ok false ups (to_rule r)
  | ShInt k => negb (reserved (rr_target r)) && defined ups (rr_target r)
               && forallb (fun c => match c with RInt _ s => selector_ok k s | RDns _ => false end) (rr_conds r)
               && forallb (fun c => match c with RInt _ s => negb (Nat.eqb (List.length (s_params s)) 0) | RDns _ => true end) (rr_conds r)
  | ShMixed => false
  end.
Definition wf_rconfig (rc : rconfig) : bool :=
  wf_upstreams (rc_upstreams rc) && forallb (rrule_ok (rc_upstreams rc)) (rc_request rc)
  && target_ok false (rc_upstreams rc) (rc_fallback rc) && routing_ok true (rc_upstreams rc) (rc_response rc)
  && forallb (fun t => negb (String.eqb t "")) (rc_upstreams rc).      (* an upstream without tag is refused *)

(* ================================================================================================ *)
(* From the chosen upstream to the transport that carries the question                                *)
(* ================================================================================================ *)
(* what makes an upstream the upstream it is: two configured upstreams may resolve to the same address and port and
   still be different resolvers (other host name = other certificate / SNI, other path = other profile, other scheme) *)
Record uid := { u_scheme : string; u_host : string; u_port : N; u_path : string }.
Definition uid_same (a b : uid) : bool :=
  String.eqb (u_scheme a) (u_scheme b) && String.eqb (u_host a) (u_host b) && (u_port a =? u_port b)
  && String.eqb (u_path a) (u_path b).

(* "sent to the upstream named by the rule": the transport (forwarder) that carries the k-th upstream query of a
   history was set up for exactly the upstream chosen for that query *)
Fixpoint carried_ok (chosen built : list uid) : bool :=
  match chosen, built with
  | [], [] => true
  | c :: cs, b :: bs => uid_same c b && carried_ok cs bs
  | _, _ => false
  end.

(* ---------- one host lookup = one question per address family, each routed on its own ---------- *)
Definition with_type (q : question) (t : N) : question :=
  {| q_name := q_name q; q_type := t; q_regex_hits := q_regex_hits q |}.
(* ver: 4 / 6 = the caller restricts the family (tcp4, udp6, ...); anything else = both, A first *)
Definition families (ver : N) : list N := if ver =? 4 then [1] else if ver =? 6 then [28] else [1; 28].

(* where ONE question (host, qtype) of dae's own goes: the named upstream, else the first matching general request rule
   for exactly this name and THIS query type (PlanBase: asis/reject — the question is not sent to any upstream) *)
Definition question_plan (rc : rconfig) (named : option string) (host : string) (q : question) : plan :=
  lookup_plan rc named "" host q.

(* the whole lookup: the questions sent (qtype, upstream) in order, and who produced the result
   (0 the upstreams asked, 300 bootstrap resolver, 301 base resolver); upstreams answer with at least one address *)
Definition lookup_spec (rc : rconfig) (named : option string) (control_host host : string) (ver : N) (q : question)
  : list (N * N) * N :=
  if same_host host control_host && match named with None => true | Some _ => false end then ([], 300)
  else
    let sent := flat_map (fun t => match question_plan rc named host (with_type q t) with PlanUp i => [(t, i)] | _ => [] end)
                         (families ver) in
    (sent, match sent with _ :: _ => 0 | [] => if same_host host control_host then 300 else 301 end).
