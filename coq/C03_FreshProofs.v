(* C03 — verdicts of freshly routed packets (first packet of a TCP connection), from the refinement. *)
From Coq Require Import List NArith ZArith Bool Lia.
From Dae Require Import C03_Spec C03_Model C03_Proofs C03_ParseProofs C03_BytesProofs C03_SeqProofs C03_HookProofs.
From Dae.gen Require Import C03_Consts.
Import ListNotations.
Open Scope N_scope.

Lemma spec_lan_fresh_tcp : forall P e t p d,
  p_class p = PTcp -> p_new p = true -> decide (e_route e (query e p false)) = Some d ->
  fst (spec_lan_ingress P e t p) = lan_verdict P e p d (mk_frec d (p_dscp p) (p_mac p) 0 0).
Proof.
  intros P e t p d Hc Hn Hd. unfold spec_lan_ingress. rewrite Hc. unfold tcp_track. rewrite Hn, Hd. reflexivity.
Qed.

Lemma wan_verdict_rec_irrelevant : forall e p d r1 r2,
  needs_record d = false -> wan_verdict e p d r1 = wan_verdict e p d r2.
Proof.
  intros e p d r1 r2 H. unfold needs_record in H. apply negb_false_iff in H.
  apply andb_true_iff in H. destruct H as [H _]. unfold wan_verdict. rewrite H. reflexivity.
Qed.

Lemma spec_wan_fresh_tcp : forall strict P e t p d,
  e_ingress_if e = 0 -> p_class p = PTcp -> p_new p = true -> from_dae P e = false ->
  decide (e_route e (query e p true)) = Some d ->
  fst (spec_wan_egress strict P e t p) =
  wan_verdict e p d (mk_frec d (p_dscp p) (p_mac p)
                             (match e_proc e with Some (_, nm) => nm | None => 0 end)
                             (match e_proc e with Some (pid, _) => pid | None => 0 end)).
Proof.
  intros strict P e t p d Hif Hc Hn Hf Hd. unfold spec_wan_egress. rewrite Hif. cbn [N.eqb negb].
  rewrite Hc, Hn, Hf, Hd. cbn [fst].
  destruct (needs_record d) eqn:Hr.
  - reflexivity.
  - apply wan_verdict_rec_irrelevant. exact Hr.
Qed.

(* through the refinement, for frames: the first packet of a TCP connection *)
Lemma lan_fresh_tcp_proof : forall P e st eth proto pf lin f d,
  inv st -> 0 < e_now e ->
  let p := classify (parse_slow eth proto f) in
  p_class p = PTcp -> p_new p = true -> decide (e_route e (query e p false)) = Some d ->
  observe (lan_ingress P e st (parse_packet (parse_transport eth proto pf lin f))) (p_key p) (e_now e)
  = lan_verdict P e p d (mk_frec d (p_dscp p) (p_mac p) 0 0).
Proof.
  intros P e st eth proto pf lin f d Hi Hnow p Hc Hn Hd. subst p. rewrite parse_transport_eq_proof.
  destruct (lan_ingress_refines_proof P e st (parse_slow eth proto f) (parse_slow_wf_proof eth proto f) Hi Hnow) as [H _].
  cbv zeta in H. rewrite H. apply spec_lan_fresh_tcp; assumption.
Qed.

Lemma wan_fresh_tcp_proof : forall P e st eth proto pf lin f d,
  inv st -> 0 < e_now e -> e_ingress_if e = 0 -> from_dae P e = false ->
  let p := classify (parse_slow eth proto f) in
  p_class p = PTcp -> p_new p = true -> decide (e_route e (query e p true)) = Some d ->
  observe (wan_egress P e st (parse_packet (parse_transport eth proto pf lin f))) (p_key p) (e_now e)
  = wan_verdict e p d (mk_frec d (p_dscp p) (p_mac p)
                               (match e_proc e with Some (_, nm) => nm | None => 0 end)
                               (match e_proc e with Some (pid, _) => pid | None => 0 end)).
Proof.
  intros P e st eth proto pf lin f d Hi Hnow Hif Hf p Hc Hn Hd. subst p. rewrite parse_transport_eq_proof.
  destruct (wan_egress_refines_proof P e st (parse_slow eth proto f) (parse_slow_wf_proof eth proto f) Hi Hnow) as [H _].
  cbv zeta in H. rewrite H. apply spec_wan_fresh_tcp; assumption.
Qed.

Lemma lan_verdict_cases : forall P e p d r,
  (d_out d = OUT_DIRECT -> lan_verdict P e p d r = Pass (Some (d_mark d))) /\
  (d_out d = OUT_BLOCK -> lan_verdict P e p d r = Drop) /\
  (d_out d <> OUT_DIRECT -> d_out d <> OUT_BLOCK ->
   group_alive e (d_out d) (k_proto (p_key p) =? IPPROTO_UDP) (k_dport (p_key p)) = false -> lan_verdict P e p d r = Drop) /\
  (d_out d <> OUT_DIRECT -> d_out d <> OUT_BLOCK ->
   group_alive e (d_out d) (k_proto (p_key p) =? IPPROTO_UDP) (k_dport (p_key p)) = true ->
   lan_verdict P e p d r = ToDae (P_peer P) (p_listener p) r).
Proof.
  intros P e p d r. unfold lan_verdict. repeat split.
  - intros ->. reflexivity.
  - intros ->. reflexivity.
  - intros H0 H1 Ha. apply N.eqb_neq in H0, H1. rewrite H0, H1, Ha. reflexivity.
  - intros H0 H1 Ha. apply N.eqb_neq in H0, H1. rewrite H0, H1, Ha. reflexivity.
Qed.

Lemma wan_verdict_cases : forall e p d r,
  k_proto (p_key p) = IPPROTO_TCP ->
  (d_out d = OUT_DIRECT -> d_mark d = 0 -> wan_verdict e p d r = Pass (Some 0)) /\
  (d_out d = OUT_BLOCK -> wan_verdict e p d r = Drop) /\
  ((d_out d =? OUT_DIRECT) && (d_mark d =? 0) = false -> d_out d <> OUT_BLOCK ->
   group_alive e (d_out d) (k_proto (p_key p) =? IPPROTO_UDP) (k_dport (p_key p)) = false -> wan_verdict e p d r = Drop) /\
  ((d_out d =? OUT_DIRECT) && (d_mark d =? 0) = false -> d_out d <> OUT_BLOCK ->
   group_alive e (d_out d) (k_proto (p_key p) =? IPPROTO_UDP) (k_dport (p_key p)) = true ->
   wan_verdict e p d r = ToDae false (p_listener p) r).
Proof.
  intros e p d r Hk. unfold wan_verdict. rewrite Hk. repeat split.
  - intros -> ->. reflexivity.
  - intros ->. reflexivity.
  - intros H0 H1 Ha. apply N.eqb_neq in H1. rewrite H0, H1, Ha. reflexivity.
  - intros H0 H1 Ha. apply N.eqb_neq in H1. rewrite H0, H1, Ha. reflexivity.
Qed.

(* the key of a packet classified as TCP has protocol 6 *)
Lemma classify_tcp_proto : forall r, p_class (classify r) = PTcp -> k_proto (p_key (classify r)) = IPPROTO_TCP.
Proof.
  intros [ret c]. unfold classify. destruct (ret <? 0)%Z; [discriminate|].
  destruct ((0 <? ret)%Z || (c_l4proto c =? IPPROTO_ICMPV6)); [discriminate|].
  pose proof (eq_refl (k_proto (fst (get_tuples c)))) as Hp. change (k_proto (fst (get_tuples c))) with (c_l4proto c) in Hp at 2.
  destruct (get_tuples c) as [k d]. cbn [fst] in Hp.
  destruct (c_l4proto c =? IPPROTO_TCP) eqn:E; [| discriminate]. intros _. cbn [p_key]. rewrite Hp. apply N.eqb_eq. exact E.
Qed.

(* ---------- vocabulary of the fresh-packet theorems ---------- *)
Definition fresh_lan P e st eth proto pf lin f :=
  observe (lan_ingress P e st (parse_packet (parse_transport eth proto pf lin f)))
          (p_key (classify (parse_slow eth proto f))) (e_now e).
Definition fresh_wan P e st eth proto pf lin f :=
  observe (wan_egress P e st (parse_packet (parse_transport eth proto pf lin f)))
          (p_key (classify (parse_slow eth proto f))) (e_now e).
Definition fresh_syn (eth : bool) (proto : N) (f : frame) : Prop :=
  p_class (classify (parse_slow eth proto f)) = PTcp /\ p_new (classify (parse_slow eth proto f)) = true.
Definition wan_local (P : param) (e : env) : Prop := e_ingress_if e = 0 /\ from_dae P e = false.
Definition the_record (e : env) (p : packet) (d : decision) (wan : bool) : frec :=
  mk_frec d (p_dscp p) (p_mac p)
          (if wan then match e_proc e with Some (_, nm) => nm | None => 0 end else 0)
          (if wan then match e_proc e with Some (pid, _) => pid | None => 0 end else 0).


Lemma C03_sticky_decision_tcp_glue :
  forall P e f st pk,
    pp_l4 pk = IPPROTO_TCP -> tcp_flags_new (pp_tcp pk) = false ->
    lan_ingress P (with_route e f) st (0%Z, Some pk) = lan_ingress P e st (0%Z, Some pk) /\
    wan_egress P (with_route e f) st (0%Z, Some pk) = wan_egress P e st (0%Z, Some pk).
Proof. intros; split; [apply lan_tcp_sticky_proof | apply wan_tcp_sticky_proof]; assumption. Qed.

Lemma C03_sticky_decision_udp_partial_glue :
  forall P e f st pk,
    pp_l4 pk = IPPROTO_UDP -> is_short_lived_udp_traffic (pp_key pk) = false ->
    (cs_has (fst (mark_udp_seen (ks_conn st) (pp_key pk) false (mk_args None None None (pp_dscp pk) 0) (e_now e))) =? 0 = false ->
     lan_ingress P (with_route e f) st (0%Z, Some pk) = lan_ingress P e st (0%Z, Some pk)) /\
    (cs_has (fst (mark_udp_seen (ks_conn st) (pp_key pk) false no_args (e_now e))) =? 0 = false ->
     wan_egress P (with_route e f) st (0%Z, Some pk) = wan_egress P e st (0%Z, Some pk)).
Proof. intros; split; intro; [apply lan_udp_sticky_proof | apply wan_udp_sticky_proof]; assumption. Qed.

Lemma C03_sticky_decision_verdict_glue :
  forall P e st pk d,
    pp_l4 pk = IPPROTO_TCP -> tcp_flags_new (pp_tcp pk) = false ->
    dec_of (ks_conn st) (pp_key pk) = Some d -> unexpired st (pp_key pk) (e_now e) ->
    lan_follows P e pk d (lan_ingress P e st (0%Z, Some pk)) /\
    (e_ingress_if e = 0 -> wan_follows e pk d (wan_egress P e st (0%Z, Some pk))).
Proof. intros; split; [apply lan_follows_proof | intro; apply wan_follows_proof]; assumption. Qed.

Lemma C03_handoff_roundtrip_glue :
  (forall s, wf_cstate s -> go_conn_decode (c_conn_bytes s) = s) /\
  (forall h, wf_hentry h -> go_hand_decode (c_hand_bytes h) = h) /\
  (forall k, go_key_bytes (k_sip k) (k_dip k) (k_sport k) (k_dport k) (k_proto k) = c_key_bytes k) /\
  (forall a b, wf_key a -> wf_key b -> c_key_bytes a = c_key_bytes b -> a = b) /\
  (forall st k now,
      (forall s, tab_get (ks_conn st) k = Some s -> wf_cstate s) ->
      (forall h, tab_get (ks_hand st) k = Some h -> wf_hentry h) ->
      go_retrieve_bytes st k now = go_retrieve st k now).
Proof.
  exact (conj conn_roundtrip_proof (conj hand_roundtrip_proof (conj key_bytes_proof
           (conj key_bytes_injective_proof retrieve_bytes_proof)))).
Qed.

Lemma C03_hooks_refine_spec_glue :
  forall P e st eth proto pf lin f,
    inv st -> 0 < e_now e ->
    let r := parse_transport eth proto pf lin f in
    let p := classify (parse_slow eth proto f) in
    let t := abs_conn (ks_conn st) in
    (let h := lan_ingress P e st (parse_packet r) in
     observe h (p_key p) (e_now e) = fst (spec_lan_ingress P e t p) /\
     abs_conn (ks_conn (h_st h)) = snd (spec_lan_ingress P e t p) /\ inv (h_st h)) /\
    (let h := wan_egress P e st (parse_packet r) in
     observe h (p_key p) (e_now e) = fst (spec_wan_egress false P e t p) /\
     abs_conn (ks_conn (h_st h)) = snd (spec_wan_egress false P e t p) /\ inv (h_st h)) /\
    (forall le, let h := reverse_hook le e st r in
     abs_conn (ks_conn (h_st h)) = spec_reverse_hook e t p /\ inv (h_st h) /\ ks_hand (h_st h) = ks_hand st).
Proof.
  intros P e st eth proto pf lin f Hi Hnow. cbv zeta. rewrite parse_transport_eq_proof.
  pose proof (parse_slow_wf_proof eth proto f) as Hwf.
  split; [exact (lan_ingress_refines_proof P e st _ Hwf Hi Hnow)|].
  split; [exact (wan_egress_refines_proof P e st _ Hwf Hi Hnow)|].
  intro le. exact (reverse_refines_proof le e st _ Hwf Hi).
Qed.

Lemma C03_direct_passes_glue :
  forall P e st eth proto pf lin f d,
    inv st -> 0 < e_now e -> fresh_syn eth proto f ->
    let p := classify (parse_slow eth proto f) in
    d_out d = OUT_DIRECT ->
    (decide (e_route e (query e p false)) = Some d -> fresh_lan P e st eth proto pf lin f = Pass (Some (d_mark d))) /\
    (wan_local P e -> decide (e_route e (query e p true)) = Some d -> d_mark d = 0 ->
     fresh_wan P e st eth proto pf lin f = Pass (Some 0)).
Proof.
  intros P e st eth proto pf lin f d Hi Hnow [Hc Hn] p Ho. split.
  - intro Hd. unfold fresh_lan. rewrite (lan_fresh_tcp_proof P e st eth proto pf lin f d Hi Hnow Hc Hn Hd).
    apply (proj1 (lan_verdict_cases P e p d _)). exact Ho.
  - intros [Hif Hf] Hd Hm. unfold fresh_wan. rewrite (wan_fresh_tcp_proof P e st eth proto pf lin f d Hi Hnow Hif Hf Hc Hn Hd).
    apply (proj1 (wan_verdict_cases e p d _ (classify_tcp_proto _ Hc))); assumption.
Qed.

Lemma C03_block_drops_glue :
  forall P e st eth proto pf lin f d,
    inv st -> 0 < e_now e -> fresh_syn eth proto f ->
    let p := classify (parse_slow eth proto f) in
    d_out d = OUT_BLOCK ->
    (decide (e_route e (query e p false)) = Some d -> fresh_lan P e st eth proto pf lin f = Drop) /\
    (wan_local P e -> decide (e_route e (query e p true)) = Some d -> fresh_wan P e st eth proto pf lin f = Drop).
Proof.
  intros P e st eth proto pf lin f d Hi Hnow [Hc Hn] p Ho. split.
  - intro Hd. unfold fresh_lan. rewrite (lan_fresh_tcp_proof P e st eth proto pf lin f d Hi Hnow Hc Hn Hd).
    apply (proj1 (proj2 (lan_verdict_cases P e p d _))). exact Ho.
  - intros [Hif Hf] Hd. unfold fresh_wan. rewrite (wan_fresh_tcp_proof P e st eth proto pf lin f d Hi Hnow Hif Hf Hc Hn Hd).
    apply (proj1 (proj2 (wan_verdict_cases e p d _ (classify_tcp_proto _ Hc)))). exact Ho.
Qed.

Lemma C03_dead_group_drops_glue :
  forall P e st eth proto pf lin f d,
    inv st -> 0 < e_now e -> fresh_syn eth proto f ->
    let p := classify (parse_slow eth proto f) in
    d_out d <> OUT_BLOCK ->
    group_alive e (d_out d) (k_proto (p_key p) =? IPPROTO_UDP) (k_dport (p_key p)) = false ->
    (d_out d <> OUT_DIRECT -> decide (e_route e (query e p false)) = Some d -> fresh_lan P e st eth proto pf lin f = Drop) /\
    (wan_local P e -> (d_out d =? OUT_DIRECT) && (d_mark d =? 0) = false ->
     decide (e_route e (query e p true)) = Some d -> fresh_wan P e st eth proto pf lin f = Drop).
Proof.
  intros P e st eth proto pf lin f d Hi Hnow [Hc Hn] p Hb Ha. split.
  - intros Ho Hd. unfold fresh_lan. rewrite (lan_fresh_tcp_proof P e st eth proto pf lin f d Hi Hnow Hc Hn Hd).
    apply (proj1 (proj2 (proj2 (lan_verdict_cases P e p d _)))); assumption.
  - intros [Hif Hf] Ho Hd. unfold fresh_wan. rewrite (wan_fresh_tcp_proof P e st eth proto pf lin f d Hi Hnow Hif Hf Hc Hn Hd).
    apply (proj1 (proj2 (proj2 (wan_verdict_cases e p d _ (classify_tcp_proto _ Hc))))); assumption.
Qed.

Lemma C03_proxy_redirects_with_record_glue :
  forall P e st eth proto pf lin f d,
    inv st -> 0 < e_now e -> fresh_syn eth proto f ->
    let p := classify (parse_slow eth proto f) in
    d_out d <> OUT_BLOCK ->
    group_alive e (d_out d) (k_proto (p_key p) =? IPPROTO_UDP) (k_dport (p_key p)) = true ->
    (d_out d <> OUT_DIRECT -> decide (e_route e (query e p false)) = Some d ->
     fresh_lan P e st eth proto pf lin f = ToDae (P_peer P) IPPROTO_TCP (the_record e p d false)) /\
    (wan_local P e -> (d_out d =? OUT_DIRECT) && (d_mark d =? 0) = false ->
     decide (e_route e (query e p true)) = Some d ->
     fresh_wan P e st eth proto pf lin f = ToDae false IPPROTO_TCP (the_record e p d true)).
Proof.
  intros P e st eth proto pf lin f d Hi Hnow [Hc Hn] p Hb Ha.
  assert (Hl : p_listener p = IPPROTO_TCP) by (unfold p_listener; subst p; rewrite Hc, Hn; reflexivity).
  split.
  - intros Ho Hd. unfold fresh_lan. rewrite (lan_fresh_tcp_proof P e st eth proto pf lin f d Hi Hnow Hc Hn Hd).
    rewrite (proj2 (proj2 (proj2 (lan_verdict_cases P e p d _))) Ho Hb Ha). rewrite Hl. reflexivity.
  - intros [Hif Hf] Ho Hd. unfold fresh_wan. rewrite (wan_fresh_tcp_proof P e st eth proto pf lin f d Hi Hnow Hif Hf Hc Hn Hd).
    rewrite (proj2 (proj2 (proj2 (wan_verdict_cases e p d _ (classify_tcp_proto _ Hc)))) Ho Hb Ha). rewrite Hl. reflexivity.
Qed.

Lemma C03_nonvacuous_glue :
  let k := mk_fkey 0xffff0a000002 0xffff01020304 40000 443 6 in
  let pk := mk_ppkt 0x0800 0x020000000002 k 46 (mk_tcp 40000 443 false true false false) 6 0 in
  let e := mk_env 5000 true 0 0 None None [(42, 1)] (fun _ => (-1)%Z) in
  let st := mk_ks [(k, mk_cs false 0 1000 3 7 1 46 1 0x020000000002 0 0)] [] in
  let st' := mk_ks [(k, mk_cs true 0 1000 0 0 0 0 0 0 0 0)] [] in
  observe (lan_ingress (mk_param 77 0 false) e st (0%Z, Some pk)) k 5000
    = ToDae false 0 (mk_frec (mk_dec 7 3 1) 46 0x020000000002 0 0) /\
  observe (lan_ingress (mk_param 77 0 false) e st' (0%Z, Some pk)) k 5000 = Pass None.
Proof. vm_compute. split; reflexivity. Qed.
