(* C10 — property theorems for the controller glue (control/dns_control.go): the tracker calls the DNS
   controller issues keep the tracker, and with it the kernel table, equal to the LIVE cache. *)
From Coq Require Import List NArith Bool.
From Dae Require Import C10_Spec C10_Model C10_Cache C10_Ctl_Model C10_Ctl_Proofs.
Import ListNotations.
Open Scope N_scope.

(* After EVERY history of controller operations in which the re-sync tasks of reloads were delivered (insert/replace, exact removal, family removal,
   evict-if-same, lookup of an expired entry or with a re-sync, janitor with time-based and LRU eviction
   for any victim order the selection may produce, reload hand-over), under any configuration, clock
   and rule sets: the history of calls issued to the tracker of the current generation has, owner by
   owner, exactly the controller's cache as its live entries (owner = the number of the scoped cache
   key string; no other owner is live), the cache has one entry per key, and tracker and kernel map
   are what those calls produce from a fresh tracker and an empty map. *)
Theorem C10_ctl_calls_track_cache :
  forall (cfg : config) (rules : N -> N) (ops : list ctl_op),
    Forall resync_delivered ops ->
    let st := ctl_run cfg rules ops in
    (forall k, cache_live (c_calls st) (key_id k) = option_map ce_e (c_load (c_cache st) k)) /\
    (forall o, (forall k, key_id k <> o) -> cache_live (c_calls st) o = None) /\
    NoDup (map fst (c_cache st)) /\
    (c_tracker st, c_kmap st) = run (map op_of_cache_op (c_calls st)).
Proof. exact C10_ctl_calls_track_cache_proof. Qed.
Print Assumptions C10_ctl_calls_track_cache.

(* Hence (with C10_cache_mirror): after every such history, across reloads, the kernel table holds at
   every address exactly the OR of the bitmaps of the controller's live cache entries listing it, and
   no entry when none does.  PARTIAL: the hypothesis `Forall resync_delivered ops` says that every
   re-sync task queued by RestoreReloadCache found room in the bounded task queue (bpfUpdateQueueSize =
   1024, non-blocking send); the statement without it is C10_ctl_mirror_full, refuted below. *)
Theorem C10_ctl_mirror :
  forall (cfg : config) (rules : N -> N) (ops : list ctl_op) (ip : N),
    Forall resync_delivered ops ->
    let st := ctl_run cfg rules ops in
    c_kmap st ip = ctl_table_entry (c_cache st) ip.
Proof. exact C10_ctl_mirror_proof. Qed.
Print Assumptions C10_ctl_mirror.

(* Two live cache entries whose keys differ only in the upstream scope are different tracker owners
   (each is owned by the number of its own scoped key string). *)
Theorem C10_ctl_owner_key_scoped :
  forall (cfg : config) (rules : N -> N) (ops : list ctl_op) (k1 k2 : ckey) (e1 e2 : centry),
    let st := ctl_run cfg rules ops in
    c_load (c_cache st) k1 = Some e1 -> c_load (c_cache st) k2 = Some e2 ->
    k_base k1 = k_base k2 -> k_scope k1 <> k_scope k2 ->
    ce_owner e1 <> ce_owner e2 /\ ce_owner e1 = key_id k1 /\ ce_owner e2 = key_id k2.
Proof. exact C10_ctl_owner_key_scoped_proof. Qed.
Print Assumptions C10_ctl_owner_key_scoped.

(* The full statement (no hypothesis on the task queue) and its refutation in the faithful model: one
   cached name, then a reload whose re-sync send found the queue full - the entry is live in the new
   generation's cache and the (cleared) kernel table has nothing for its address. *)
Theorem C10_ctl_mirror_full_refuted : ~ C10_ctl_mirror_full.
Proof. exact C10_ctl_mirror_full_refuted_proof. Qed.
Print Assumptions C10_ctl_mirror_full_refuted.

(* The numbering of key strings is injective, so distinct cache keys never share an owner. *)
Theorem C10_ctl_key_id_injective : forall a b : ckey, key_id a = key_id b -> a = b.
Proof. exact key_id_inj. Qed.
Print Assumptions C10_ctl_key_id_injective.

(* Non-vacuity: one name (base key 1) cached under two scopes with the SAME address 1.2.3.4 and a
   second address each; a third name shares 1.2.3.4; scope 1 is then removed, the family of base 1
   rejected, and a reload re-stamps the survivors with a new rule set. *)
Example C10_ctl_nonvacuous :
  let cfg := {| cf_optimistic := false; cf_opt_ttl := 0; cf_max := 0 |} in
  let rules := fun f => if f =? 7 then 1 else 4 in
  let a := 0xffff01020304 in let b := 0xffff01020305 in let c := 0xffff01020306 in
  let k1 := response_cache_key 1 1 in let k2 := response_cache_key 1 2 in let k3 := response_cache_key 2 0 in
  let ops := [ OInsert k1 7 [(true, a); (true, b)] 100 60;
               OInsert k2 7 [(true, a); (true, c)] 101 60;
               OInsert k3 8 [(true, a)] 102 60 ] in
  let probe ops := map (c_kmap (ctl_run cfg rules ops)) [a; b; c] in
  probe ops = [Some 5; Some 1; Some 1]
  /\ probe (ops ++ [ORemove k1]) = [Some 5; None; Some 1]
  /\ probe (ops ++ [ORemove k1; OFamily 1]) = [Some 4; None; None]
  /\ probe (ops ++ [ORemove k1; OReload (fun f => if f =? 7 then 2 else 8) (fun _ => true)]) = [Some 10; None; Some 2]
  /\ probe (ops ++ [OJanitor (102 + 60 * 1000000000) []]) = [None; None; None]
  /\ map (fun k => option_map ce_owner (c_load (c_cache (ctl_run cfg rules ops)) k)) [k1; k2; k3]
     = [Some 6; Some 10; Some 4].
Proof. vm_compute. repeat split; reflexivity. Qed.
