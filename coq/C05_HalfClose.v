(* C05 - half-close / grace theorem: glue of the relay-level theorem (C05_HCRelay) and the prologue-level
   theorem (C05_HCPrologue). *)
From Coq Require Import List NArith Bool Lia ZifyBool ZifyN.
From Dae Require Import C05_Spec C05_Model C05_Proofs C05_HCDefs C05_HCRelay C05_HCPrologue.
From Dae.gen Require Import C05_Extracted.
Import ListNotations.
Open Scope N_scope.

Lemma norm_sorted : forall l t, sorted_from t l -> sorted_from t (norm_chunks l).
Proof.
  induction l as [|c r IH]; intros t H; [exact I|]. cbn [norm_chunks]. destruct H as [H1 H2].
  assert (Hw : forall t' l', sorted_from t' l' -> forall t'', t'' <= t' -> sorted_from t'' l').
  { intros t' l'. destruct l' as [|c' r']; [intros; exact I|]. intros [Ha Hb] t'' Hle. split; [lia|exact Hb]. }
  destruct (c_data c).
  - apply IH. eapply Hw; [exact H2|exact H1].
  - split; [exact H1|]. apply IH. exact H2.
Qed.

Lemma norm_in : forall l c, In c (norm_chunks l) -> In c l.
Proof.
  induction l as [|a r IH]; intros c H; [exact H|]. cbn [norm_chunks] in H.
  destruct (c_data a); [right; apply IH; exact H|].
  destruct H as [H|H]; [left; exact H|right; apply IH; exact H].
Qed.

Lemma norm_wf : forall l e, wf_chunks l e -> wf_chunks (norm_chunks l) e.
Proof. intros l e [H1 H2]. split; [apply norm_sorted; exact H1|]. intros c Hc. apply H2. apply norm_in. exact Hc. Qed.

Lemma norm_nonempty : forall l, data_nonempty (norm_chunks l).
Proof.
  induction l as [|a r IH]; [constructor|]. cbn [norm_chunks]. destruct (c_data a) eqn:E; [exact IH|].
  constructor; [rewrite E; discriminate|exact IH].
Qed.

Lemma norm_deliverable : forall start cut l,
  deliverable start cut (norm_chunks l) = deliverable start cut l.
Proof.
  intros start cut. induction l as [|a r IH]; [reflexivity|]. cbn [norm_chunks].
  unfold deliverable in *. destruct (c_data a) eqn:E.
  - cbn [filter]. destruct (seen_lt start cut a); [cbn [map concat]; rewrite E; cbn [app]|]; exact IH.
  - cbn [filter]. destruct (seen_lt start cut a); [cbn [map concat]; rewrite IH; reflexivity|exact IH].
Qed.

Lemma cut_of_later : forall grace start own other,
  0 < grace -> olt start (cut_of grace start own other) = true.
Proof.
  intros grace start own other Hg. unfold cut_of, eof_seen.
  destruct (s_eof other) as [e|]; cbn [option_map]; [|reflexivity].
  destruct (olt (seen start e) (option_map (seen start) (s_eof own))); [|reflexivity].
  cbn [olt]. unfold seen. apply N.ltb_lt. lia.
Qed.

Definition half_close_concl (p : pcase) (grace : N) (pend prio : bool) (client server : side) : Prop :=
  let o := connection p grace pend prio client server in
  let x := expect grace (o_start o) client server in
  o_handled_dns o = false ->
  o_up o = x_up x /\ o_down o = x_down x /\
  o_up_shut o = x_up_shut x /\ o_down_shut o = x_down_shut x /\ o_alive o = x_alive x.

Lemma half_close_from :
  relay_matches_spec_stmt -> prologue_ready_stmt ->
  forall p grace pend prio client server,
    wf_side client -> wf_side server -> 0 < grace -> half_close_concl p grace pend prio client server.
Proof.
  intros HR HP p grace pend prio client server Hwc Hws Hg. unfold half_close_concl, connection.
  specialize (HP p client Hwc). cbv zeta in HP.
  set (ps := prologue p (mk_sock client) 0) in *.
  destruct (ps_conn ps) as [st|] eqn:Ec.
  2:{ cbn. discriminate. }
  destruct HP as [Hrs [Hdl [Hcl [Heof [Hwf [Hne Hrel]]]]]].
  assert (HwfL : wf_chunks (k_in (ps_sock ps)) (k_eof (ps_sock ps))) by (rewrite Heof; exact Hwf).
  specialize (HR grace pend prio st (ps_sock ps) (mk_sock server) (ps_now ps) Hrs Hg Hdl Hcl eq_refl eq_refl HwfL
                 (norm_wf _ _ Hws) Hne (norm_nonempty _)).
  cbv zeta in HR.
  destruct (run_relay grace pend prio st (ps_sock ps) (mk_sock server) (ps_now ps)) as [y alive] eqn:Er.
  cbn [fst snd] in HR. cbn [o_handled_dns o_start o_up o_down o_up_shut o_down_shut o_alive].
  intros _.
  destruct HR as [Hup [Hdown [Hsu [Hsd Hal]]]].
  (* the expectation on what the sockets hold is the expectation on the scripts *)
  assert (Hcu : cut_of grace (ps_now ps) (sock_side (ps_sock ps)) (sock_side (mk_sock server))
                = cut_of grace (ps_now ps) client server).
  { unfold cut_of, eof_seen, sock_side, mk_sock. cbn [s_eof k_eof]. rewrite Heof. reflexivity. }
  assert (Hcd : cut_of grace (ps_now ps) (sock_side (mk_sock server)) (sock_side (ps_sock ps))
                = cut_of grace (ps_now ps) server client).
  { unfold cut_of, eof_seen, sock_side, mk_sock. cbn [s_eof k_eof]. rewrite Heof. reflexivity. }
  unfold expect in *. cbn [x_up x_down x_up_shut x_down_shut x_alive] in *.
  rewrite Hcu, Hcd in *.
  assert (Hsu' : shut_of (ps_now ps) (cut_of grace (ps_now ps) client server) (sock_side (ps_sock ps))
                 = shut_of (ps_now ps) (cut_of grace (ps_now ps) client server) client).
  { unfold shut_of, eof_seen, sock_side. cbn [s_eof]. rewrite Heof. reflexivity. }
  assert (Hsd' : shut_of (ps_now ps) (cut_of grace (ps_now ps) server client) (sock_side (mk_sock server))
                 = shut_of (ps_now ps) (cut_of grace (ps_now ps) server client) server).
  { reflexivity. }
  rewrite Hsu', Hsd' in *.
  repeat split; try assumption.
  - rewrite Hup. symmetry. apply Hrel. apply cut_of_later. exact Hg.
  - rewrite Hdown. unfold before_cut, sock_side, mk_sock. cbn [s_chunks k_in].
    apply (norm_deliverable (ps_now ps) (cut_of grace (ps_now ps) server client) (s_chunks server)).
Qed.

Theorem half_close_proof :
  forall p grace pend prio client server,
    wf_side client -> wf_side server -> 0 < grace ->
    let o := connection p grace pend prio client server in
    let x := expect grace (o_start o) client server in
    o_handled_dns o = false ->
    o_up o = x_up x /\ o_down o = x_down x /\
    o_up_shut o = x_up_shut x /\ o_down_shut o = x_down_shut x /\ o_alive o = x_alive x.
Proof. exact (half_close_from relay_matches_spec prologue_ready). Qed.
